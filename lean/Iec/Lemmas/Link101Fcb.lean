/-
The frame count bit of the unbalanced primary (the CS101 master's link layer towards one slave) over every history (C15):
among the frames written for one slave connection, the first frame with FCV = 1 after a RESET REMOTE LINK carries FCB = 1,
every further one either toggles the bit or is octet for octet the frame before it (a retransmission).
Ghost state `last`: the last FCV frame written since the last reset frame.
-/
import Iec.Model.Link101
namespace Iec.Link101

/-- control octet of a written frame -/
def ctrlOf (f : List Nat) : Nat := if f.getD 0 0 = 0x10 then f.getD 1 0 else f.getD 4 0
def fcvOf (f : List Nat) : Bool := ctrlOf f / 16 % 2 = 1
def fcbOf (f : List Nat) : Bool := ctrlOf f / 32 % 2 = 1
def fcOf (f : List Nat) : Nat := ctrlOf f % 16

/-- the discipline, one written frame at a time; `none` = violated -/
def track (last : Option (List Nat)) (f : List Nat) : Option (Option (List Nat)) :=
  if fcOf f = 0 ∧ fcvOf f = false then some none                 -- RESET REMOTE LINK: start over
  else if fcvOf f = false then some last
  else match last with
    | none => if fcbOf f then some (some f) else none              -- first FCV frame after a reset carries 1
    | some g => if fcbOf f = fcbOf g then (if f = g then some (some f) else none) else some (some f)

def trackObs (last : Option (List Nat)) : Obs → Option (Option (List Nat))
  | .tx f => track last f.bytes
  | _ => some last

def trackAll : Option (List Nat) → List Obs → Option (Option (List Nat))
  | last, [] => some last
  | last, o :: os => match trackObs last o with
    | none => none
    | some last' => trackAll last' os

theorem ctrlOf_fixed (aL c a : Nat) : ctrlOf (fixedFrame aL c a) = c := by
  unfold ctrlOf fixedFrame; simp

theorem ctrlOf_var (aL c a : Nat) (d f : List Nat) (h : varFrame aL c a d = some f) : ctrlOf f = c := by
  unfold varFrame at h
  simp only at h
  split at h
  · cases h
  · injection h with h; subst h; unfold ctrlOf; simp

/-- decoding the control octet of a primary's frame -/
theorem ctrl_bits (fc : Nat) (hfc : fc < 16) (fcb fcv : Bool) :
    ctrl fc true false fcb fcv % 16 = fc ∧ (decide (ctrl fc true false fcb fcv / 16 % 2 = 1) = fcv) ∧
    (decide (ctrl fc true false fcb fcv / 32 % 2 = 1) = fcb) := by
  unfold ctrl b2n
  cases fcb <;> cases fcv <;> simp <;> omega

theorem trackAll_single (last : Option (List Nat)) (o : Obs) : trackAll last [o] = trackObs last o := by
  unfold trackAll
  cases trackObs last o <;> rfl

theorem trackAll_append (last : Option (List Nat)) (a b : List Obs) :
    trackAll last (a ++ b) = match trackAll last a with
      | none => none
      | some l' => trackAll l' b := by
  induction a generalizing last with
  | nil => rfl
  | cons o os ih =>
    simp only [List.cons_append, trackAll]
    cases trackObs last o with
    | none => rfl
    | some l' => exact ih l'

theorem trackAll_quiet (last : Option (List Nat)) (os : List Obs) (h : ∀ o ∈ os, ∀ f, o ≠ .tx f) : trackAll last os = some last := by
  induction os with
  | nil => rfl
  | cons o os ih =>
    have ho : trackObs last o = some last := by
      cases o with
      | tx f => exact absurd rfl (h _ (by simp) f)
      | _ => rfl
    simp only [trackAll, ho]
    exact ih (fun x hx => h x (by simp [hx]))

theorem setState_quiet (c : SlaveConn) (n : Nat) : ∀ o ∈ (c.setState n).2, ∀ f, o ≠ .tx f := by
  unfold SlaveConn.setState
  split
  · intro o ho f; simp at ho; rw [ho]; intro h; cases h
  · intro o ho; simp at ho

/-- a frame of the primary without FCV that is not a reset leaves the ghost alone -/
theorem track_plain (last : Option (List Nat)) (aL fc a : Nat) (hfc : fc < 16) (h0 : fc ≠ 0) :
    track last (fixedFrame aL (ctrl fc true false false false) a) = some last := by
  obtain ⟨b1, b2, _⟩ := ctrl_bits fc hfc false false
  unfold track fcOf fcvOf
  rw [ctrlOf_fixed, b1]
  have : decide (ctrl fc true false false false / 16 % 2 = 1) = false := b2
  simp [h0, this]

theorem track_reset (last : Option (List Nat)) (aL a : Nat) :
    track last (fixedFrame aL (ctrl 0 true false false false) a) = some none := by
  obtain ⟨b1, b2, _⟩ := ctrl_bits 0 (by decide) false false
  unfold track fcOf fcvOf
  rw [ctrlOf_fixed, b1]
  have : decide (ctrl 0 true false false false / 16 % 2 = 1) = false := b2
  simp [this]

/-- the bit the ghost expects on the next new FCV frame -/
def Expects (last : Option (List Nat)) (b : Bool) : Prop :=
  match last with
  | none => b = true
  | some g => fcbOf g = !b

/-- a new FCV frame with the expected bit is accepted -/
theorem track_new (last : Option (List Nat)) (f : List Nat) (b : Bool) (hv : fcvOf f = true) (hb : fcbOf f = b)
    (hl : Expects last b) : track last f = some (some f) := by
  unfold track
  rw [hv]
  simp only [Bool.true_eq_false, and_false, if_false]
  cases last with
  | none => simp only [Expects] at hl; rw [hb, hl]; rfl
  | some g =>
    simp only [Expects] at hl ⊢
    rw [hb, hl]
    cases b <;> simp

theorem track_repeat (g : List Nat) (hv : fcvOf g = true) : track (some g) g = some (some g) := by
  unfold track
  rw [hv]
  simp

/-- user data that fits a frame (the domain of the property; the library accepts longer data, writes nothing and still
counts it as sent) -/
def Framable (aL : Nat) (d : List Nat) : Prop := 1 + aL + d.length ≤ 255
instance (aL : Nat) (d : List Nat) : Decidable (Framable aL d) := by unfold Framable; infer_instance

/-- the connection state agrees with the ghost -/
structure J (aL : Nat) (c : SlaveConn) (last : Option (List Nat)) : Prop where
  lastReq : c.lastReq < 16
  msgOk : c.hasMsg = true → Framable aL c.msg
  ps4 : c.pstate = 4 → c.hasMsg = true
  ghost : match last with
    | none => c.pstate ≠ 4 ∧ c.pstate ≠ 5 ∧ ((c.pstate = 2 ∨ c.pstate = 3) → c.nextFcb = true)
    | some g => fcvOf g = true ∧ fcbOf g = !c.nextFcb ∧
        (c.pstate = 4 → varFrame aL (ctrl 3 true false (!c.nextFcb) true) c.address c.msg = some g) ∧
        (c.pstate = 5 → g = fixedFrame aL (ctrl c.lastReq true false (!c.nextFcb) true) c.address)

/-- a step that writes nothing and neither enters a waiting state nor (without a reset) the available states -/
theorem J.move {aL : Nat} {c c' : SlaveConn} {last : Option (List Nat)} (h : J aL c last)
    (hr : c'.lastReq = c.lastReq) (hm : c'.msg = c.msg) (hf : c'.nextFcb = c.nextFcb) (ha : c'.address = c.address)
    (hh : c'.hasMsg = true → c.hasMsg = true)
    (hp : c'.pstate = c.pstate ∨ (c'.pstate ≠ 4 ∧ c'.pstate ≠ 5))
    (h23 : (c'.pstate = 2 ∨ c'.pstate = 3) → (c.pstate = 2 ∨ c.pstate = 3) ∨ last ≠ none)
    (h4 : c'.pstate = 4 → c'.hasMsg = true) : J aL c' last := by
  refine ⟨by rw [hr]; exact h.lastReq, fun x => by rw [hm]; exact h.msgOk (hh x), h4, ?_⟩
  have hg := h.ghost
  cases last with
  | none =>
    simp only at hg ⊢
    obtain ⟨g1, g2, g3⟩ := hg
    refine ⟨?_, ?_, fun h' => ?_⟩
    · rcases hp with hp | hp
      · rw [hp]; exact g1
      · exact hp.1
    · rcases hp with hp | hp
      · rw [hp]; exact g2
      · exact hp.2
    · rw [hf]
      rcases h23 h' with h'' | h''
      · exact g3 h''
      · exact absurd rfl h''
  | some g =>
    simp only at hg ⊢
    obtain ⟨g1, g2, g3, g4⟩ := hg
    refine ⟨g1, by rw [hf]; exact g2, fun h' => ?_, fun h' => ?_⟩
    · rcases hp with hp | hp
      · rw [hf, ha, hm]; exact g3 (by rw [← hp]; exact h')
      · exact absurd h' hp.1
    · rcases hp with hp | hp
      · rw [hf, ha, hr]; exact g4 (by rw [← hp]; exact h')
      · exact absurd h' hp.2

theorem setState_fields (c : SlaveConn) (n : Nat) :
    (c.setState n).1.pstate = c.pstate ∧ (c.setState n).1.lastReq = c.lastReq ∧ (c.setState n).1.msg = c.msg ∧
    (c.setState n).1.nextFcb = c.nextFcb ∧ (c.setState n).1.address = c.address ∧ (c.setState n).1.hasMsg = c.hasMsg := by
  unfold SlaveConn.setState; split <;> exact ⟨rfl, rfl, rfl, rfl, rfl, rfl⟩

theorem sendFixed_obs (l : LL) (fc a : Nat) (prm dir acd dfc : Bool) (last : Option (List Nat)) :
    trackAll last (l.sendFixed fc a prm dir acd dfc).2 = track last (fixedFrame l.p.addrLen (ctrl fc prm dir acd dfc) a) ∧
    (l.sendFixed fc a prm dir acd dfc).1.p = l.p := by
  unfold LL.sendFixed
  exact ⟨trackAll_single _ _, rfl⟩

theorem sendVar_obs (l : LL) (fc a : Nat) (prm dir acd dfc : Bool) (d f : List Nat) (last : Option (List Nat))
    (hv : varFrame l.p.addrLen (ctrl fc prm dir acd dfc) a d = some f) :
    trackAll last (l.sendVar fc a prm dir acd dfc d).2 = track last f ∧ (l.sendVar fc a prm dir acd dfc d).1.p = l.p := by
  unfold LL.sendVar
  simp only
  split
  · rename_i h; rw [hv] at h; cases h
  · rename_i f' h
    rw [hv] at h
    have : f = f' := by simpa using h
    subst this
    exact ⟨trackAll_single _ _, rfl⟩

theorem framable_some (aL c a : Nat) (d : List Nat) (h : Framable aL d) : ∃ f, varFrame aL c a d = some f := by
  unfold varFrame Framable at *
  simp only
  rw [if_neg (by omega)]
  exact ⟨_, rfl⟩

/-- a new FCV frame in the AVAILABLE state: the bit it carries is the one the ghost expects -/
theorem J.expects {aL : Nat} {c : SlaveConn} {last : Option (List Nat)} (h : J aL c last) (h3 : c.pstate = 3) :
    Expects last c.nextFcb := by
  have hg := h.ghost
  cases last with
  | none => exact hg.2.2 (Or.inr h3)
  | some g => exact hg.2.1

/-- the result of one step: the discipline holds on what was written, the invariant holds afterwards -/
def StepOk (aL : Nat) (last : Option (List Nat)) (r : SlaveConn × LL × List Obs) (p : Params) : Prop :=
  ∃ last', trackAll last r.2.2 = some last' ∧ J aL r.1 last' ∧ r.2.1.p = p

theorem stepOk_quiet {aL : Nat} {last : Option (List Nat)} {c' : SlaveConn} {l : LL} {o : List Obs}
    (ho : ∀ x ∈ o, ∀ f, x ≠ .tx f) (hJ : J aL c' last) : StepOk aL last (c', l, o) l.p :=
  ⟨last, trackAll_quiet last o ho, hJ, rfl⟩

theorem fixed_bits (aL fc a : Nat) (hfc : fc < 16) (fcb : Bool) :
    fcvOf (fixedFrame aL (ctrl fc true false fcb true) a) = true ∧ fcbOf (fixedFrame aL (ctrl fc true false fcb true) a) = fcb := by
  obtain ⟨_, b2, b3⟩ := ctrl_bits fc hfc fcb true
  unfold fcvOf fcbOf
  rw [ctrlOf_fixed]
  exact ⟨b2, b3⟩

theorem var_bits (aL fc a : Nat) (hfc : fc < 16) (fcb : Bool) (d f : List Nat)
    (h : varFrame aL (ctrl fc true false fcb true) a d = some f) : fcvOf f = true ∧ fcbOf f = fcb := by
  obtain ⟨_, b2, b3⟩ := ctrl_bits fc hfc fcb true
  unfold fcvOf fcbOf
  rw [ctrlOf_var _ _ _ _ _ h]
  exact ⟨b2, b3⟩

/-- **`LinkLayerSlaveConnection_runStateMachine`** -/
theorem run_fcb (c : SlaveConn) (l : LL) (now : Nat) (last : Option (List Nat)) (hJ : J l.p.addrLen c last) :
    StepOk l.p.addrLen last (c.run l now) l.p := by
  delta SlaveConn.run
  extract_lets ps p cC cR
  have hcC : cC.pstate = c.pstate ∧ cC.lastReq = c.lastReq ∧ cC.msg = c.msg ∧ cC.nextFcb = c.nextFcb ∧ cC.address = c.address ∧ cC.hasMsg = c.hasMsg ∧ cC.testFn = c.testFn ∧ cC.waiting = c.waiting := by
    dsimp only [cC]; split <;> exact ⟨rfl, rfl, rfl, rfl, rfl, rfl, rfl, rfl⟩
  have hps : ps = c.pstate := rfl
  by_cases h7 : ps = 7
  · rw [if_pos h7]
    split
    · exact stepOk_quiet (by simp) (hJ.move hcC.2.1 hcC.2.2.1 hcC.2.2.2.1 hcC.2.2.2.2.1 (fun h => by rw [← hcC.2.2.2.2.2.1]; exact h)
        (Or.inr ⟨by simp, by simp⟩) (fun h => by simp at h) (fun h => by simp at h))
    · exact stepOk_quiet (by simp) (hJ.move hcC.2.1 hcC.2.2.1 hcC.2.2.2.1 hcC.2.2.2.2.1 (fun h => by rw [← hcC.2.2.2.2.2.1]; exact h)
        (Or.inl hcC.1) (fun h => by rw [hcC.1, ← hps, h7] at h; simp at h) (fun h => by rw [hcC.1, ← hps, h7] at h; simp at h))
  · rw [if_neg h7]
    by_cases h0 : ps = 0
    · rw [if_pos h0]
      -- request status of link: FC 9 without FCV
      obtain ⟨t1, t2⟩ := sendFixed_obs l 9 c.address true false false false last
      generalize l.sendFixed 9 c.address true false false false = r at t1 t2
      obtain ⟨l1, o1⟩ := r
      simp only at t1 t2 ⊢
      rw [track_plain last _ 9 _ (by decide) (by decide)] at t1
      refine ⟨last, t1, hJ.move rfl rfl rfl rfl (fun h => h) (Or.inr ⟨by simp, by simp⟩) (fun h => by simp at h) (fun h => by simp at h), t2⟩
    · rw [if_neg h0]
      by_cases h1 : ps = 1
      · rw [if_pos h1]
        split
        · -- waiting for the link status
          split
          · exact stepOk_quiet (by simp) (hJ.move hcC.2.1 hcC.2.2.1 hcC.2.2.2.1 hcC.2.2.2.2.1 (fun h => by rw [← hcC.2.2.2.2.2.1]; exact h)
              (Or.inr ⟨by simp, by simp⟩) (fun h => by simp at h) (fun h => by simp at h))
          · exact stepOk_quiet (by simp) (hJ.move hcC.2.1 hcC.2.2.1 hcC.2.2.2.1 hcC.2.2.2.2.1 (fun h => by rw [← hcC.2.2.2.2.2.1]; exact h)
              (Or.inl hcC.1) (fun h => by rw [hcC.1, ← hps, h1] at h; simp at h) (fun h => by rw [hcC.1, ← hps, h1] at h; simp at h))
        · -- RESET REMOTE LINK: the ghost starts over, the next FCV frame carries 1
          obtain ⟨t1, t2⟩ := sendFixed_obs l 0 c.address true false false false last
          generalize l.sendFixed 0 c.address true false false false = r at t1 t2
          obtain ⟨l1, o1⟩ := r
          simp only at t1 t2 ⊢
          rw [track_reset] at t1
          refine ⟨none, t1, ⟨hJ.lastReq, hJ.msgOk, fun h => by simp at h, ?_⟩, t2⟩
          exact ⟨by simp, by simp, fun _ => rfl⟩
      · rw [if_neg h1]
        by_cases h2 : ps = 2
        · rw [if_pos h2]
          split
          · split
            · -- time-out of the reset: link error
              generalize hst : SlaveConn.setState { cC with waiting := false, lastSend := now } 1 = r
              obtain ⟨c2, o2⟩ := r
              have hq := setState_quiet { cC with waiting := false, lastSend := now } 1
              have hf := setState_fields { cC with waiting := false, lastSend := now } 1
              rw [hst] at hq hf
              simp only at hq hf ⊢
              exact stepOk_quiet hq (hJ.move (hf.2.1.trans hcC.2.1) (hf.2.2.1.trans hcC.2.2.1) (hf.2.2.2.1.trans hcC.2.2.2.1)
                (hf.2.2.2.2.1.trans hcC.2.2.2.2.1) (fun h => by rw [← hcC.2.2.2.2.2.1, ← hf.2.2.2.2.2]; exact h)
                (Or.inr ⟨by simp, by simp⟩) (fun h => by simp at h) (fun h => by simp at h))
            · exact stepOk_quiet (by simp) (hJ.move hcC.2.1 hcC.2.2.1 hcC.2.2.2.1 hcC.2.2.2.2.1 (fun h => by rw [← hcC.2.2.2.2.2.1]; exact h)
                (Or.inl hcC.1) (fun _ => Or.inl (Or.inl (by rw [← hps]; exact h2))) (fun h => by rw [hcC.1, ← hps, h2] at h; simp at h))
          · -- the reset was acknowledged: AVAILABLE
            generalize hst : c.setState 3 = r
            obtain ⟨c2, o2⟩ := r
            have hq := setState_quiet c 3
            have hf := setState_fields c 3
            rw [hst] at hq hf
            simp only at hq hf ⊢
            exact stepOk_quiet hq (hJ.move hf.2.1 hf.2.2.1 hf.2.2.2.1 hf.2.2.2.2.1 (fun h => by rw [← hf.2.2.2.2.2]; exact h)
              (Or.inr ⟨by simp, by simp⟩) (fun _ => Or.inl (Or.inl (by rw [← hps]; exact h2))) (fun h => by simp at h))
        · rw [if_neg h2]
          by_cases h3 : ps = 3
          · rw [if_pos h3]
            have hexp := hJ.expects (by rw [← hps]; exact h3)
            split
            · -- TEST FUNCTION FOR LINK, a new FCV frame
              obtain ⟨t1, t2⟩ := sendFixed_obs l 2 c.address true false c.nextFcb true last
              generalize l.sendFixed 2 c.address true false c.nextFcb true = r at t1 t2
              obtain ⟨l1, o1⟩ := r
              simp only at t1 t2 ⊢
              obtain ⟨fb1, fb2⟩ := fixed_bits l.p.addrLen 2 c.address (by decide) c.nextFcb
              rw [track_new last _ c.nextFcb fb1 fb2 hexp] at t1
              refine ⟨_, t1, ⟨by simp, hJ.msgOk, fun h => by simp at h, ?_⟩, t2⟩
              exact ⟨fb1, by simp [fb2], fun h => by simp at h, fun _ => by simp⟩
            · split
              · -- USER DATA CONFIRMED, a new FCV frame
                rename_i hm
                obtain ⟨f, hf⟩ := framable_some l.p.addrLen (ctrl 3 true false c.nextFcb true) c.address c.msg (hJ.msgOk hm)
                obtain ⟨t1, t2⟩ := sendVar_obs l 3 c.address true false c.nextFcb true c.msg f last hf
                generalize l.sendVar 3 c.address true false c.nextFcb true c.msg = r at t1 t2
                obtain ⟨l1, o1⟩ := r
                simp only at t1 t2 ⊢
                obtain ⟨fb1, fb2⟩ := var_bits l.p.addrLen 3 c.address (by decide) c.nextFcb c.msg f hf
                rw [track_new last _ c.nextFcb fb1 fb2 hexp] at t1
                refine ⟨_, t1, ⟨hJ.lastReq, hJ.msgOk, fun _ => hm, ?_⟩, t2⟩
                exact ⟨fb1, by simp [fb2], fun _ => by simpa using hf, fun h => by simp at h⟩
              · split
                · -- REQUEST USER DATA CLASS 1 / 2, a new FCV frame
                  have hcR : cR.hasMsg = c.hasMsg ∧ cR.msg = c.msg ∧ cR.nextFcb = c.nextFcb ∧ cR.address = c.address ∧
                      ((c.req1 = true → cR.lastReq = 10) ∧ (¬ c.req1 = true → cR.lastReq = 11)) := by
                    dsimp only [cR]; split
                    · rename_i hr; exact ⟨rfl, rfl, rfl, rfl, fun _ => rfl, fun h => absurd hr h⟩
                    · rename_i hr; exact ⟨rfl, rfl, rfl, rfl, fun h => absurd h hr, fun _ => rfl⟩
                  by_cases hr1 : c.req1 = true
                  · rw [if_pos hr1]
                    obtain ⟨t1, t2⟩ := sendFixed_obs l 10 c.address true false c.nextFcb true last
                    generalize l.sendFixed 10 c.address true false c.nextFcb true = r at t1 t2
                    obtain ⟨l1, o1⟩ := r
                    simp only at t1 t2 ⊢
                    obtain ⟨fb1, fb2⟩ := fixed_bits l.p.addrLen 10 c.address (by decide) c.nextFcb
                    rw [track_new last _ c.nextFcb fb1 fb2 hexp] at t1
                    have hlr := hcR.2.2.2.2.1 hr1
                    refine ⟨_, t1, ⟨by show cR.lastReq < 16; rw [hlr]; decide, fun h => by
                      have h' : cR.hasMsg = true := h
                      rw [hcR.1] at h'
                      show Framable _ cR.msg; rw [hcR.2.1]; exact hJ.msgOk h', fun h => by simp at h, ?_⟩, t2⟩
                    refine ⟨fb1, ?_, fun h => by simp at h, fun _ => ?_⟩
                    · show fcbOf _ = !(!cR.nextFcb); rw [hcR.2.2.1]; simp [fb2]
                    · show _ = fixedFrame _ (ctrl cR.lastReq true false (!(!cR.nextFcb)) true) cR.address
                      rw [hlr, hcR.2.2.1, hcR.2.2.2.1]; simp
                  · rw [if_neg hr1]
                    obtain ⟨t1, t2⟩ := sendFixed_obs l 11 c.address true false c.nextFcb true last
                    generalize l.sendFixed 11 c.address true false c.nextFcb true = r at t1 t2
                    obtain ⟨l1, o1⟩ := r
                    simp only at t1 t2 ⊢
                    obtain ⟨fb1, fb2⟩ := fixed_bits l.p.addrLen 11 c.address (by decide) c.nextFcb
                    rw [track_new last _ c.nextFcb fb1 fb2 hexp] at t1
                    have hlr := hcR.2.2.2.2.2 hr1
                    refine ⟨_, t1, ⟨by show cR.lastReq < 16; rw [hlr]; decide, fun h => by
                      have h' : cR.hasMsg = true := h
                      rw [hcR.1] at h'
                      show Framable _ cR.msg; rw [hcR.2.1]; exact hJ.msgOk h', fun h => by simp at h, ?_⟩, t2⟩
                    refine ⟨fb1, ?_, fun h => by simp at h, fun _ => ?_⟩
                    · show fcbOf _ = !(!cR.nextFcb); rw [hcR.2.2.1]; simp [fb2]
                    · show _ = fixedFrame _ (ctrl cR.lastReq true false (!(!cR.nextFcb)) true) cR.address
                      rw [hlr, hcR.2.2.1, hcR.2.2.2.1]; simp
                · exact stepOk_quiet (by simp) hJ
          · rw [if_neg h3]
            by_cases h4 : ps = 4
            · rw [if_pos h4]
              have hp4 : c.pstate = 4 := by rw [← hps]; exact h4
              split
              · split
                · -- repeat time-out: link error
                  generalize hst : SlaveConn.setState { cC with waiting := false, lastSend := now } 1 = r
                  obtain ⟨c2, o2⟩ := r
                  have hq := setState_quiet { cC with waiting := false, lastSend := now } 1
                  have hf := setState_fields { cC with waiting := false, lastSend := now } 1
                  rw [hst] at hq hf
                  simp only at hq hf ⊢
                  exact stepOk_quiet hq (hJ.move (hf.2.1.trans hcC.2.1) (hf.2.2.1.trans hcC.2.2.1) (hf.2.2.2.1.trans hcC.2.2.2.1)
                    (hf.2.2.2.2.1.trans hcC.2.2.2.2.1) (fun h => by rw [← hcC.2.2.2.2.2.1, ← hf.2.2.2.2.2]; exact h)
                    (Or.inr ⟨by simp, by simp⟩) (fun h => by simp at h) (fun h => by simp at h))
                · -- retransmission: the identical frame
                  have hg := hJ.ghost
                  cases hlast : last with
                  | none => rw [hlast] at hg; exact absurd hp4 hg.1
                  | some g =>
                    rw [hlast] at hg
                    simp only at hg
                    obtain ⟨g1, g2, g3, g4⟩ := hg
                    have hvf : varFrame l.p.addrLen (ctrl 3 true false (!cC.nextFcb) true) cC.address cC.msg = some g := by
                      rw [hcC.2.2.2.1, hcC.2.2.2.2.1, hcC.2.2.1]; exact g3 hp4
                    obtain ⟨t1, t2⟩ := sendVar_obs l 3 cC.address true false (!cC.nextFcb) true cC.msg g (some g) hvf
                    generalize l.sendVar 3 cC.address true false (!cC.nextFcb) true cC.msg = r at t1 t2
                    obtain ⟨l1, o1⟩ := r
                    simp only at t1 t2 ⊢
                    rw [track_repeat g g1] at t1
                    refine ⟨some g, t1, ?_, t2⟩
                    have hJ' : J l.p.addrLen c (some g) := hlast ▸ hJ
                    exact hJ'.move hcC.2.1 hcC.2.2.1 hcC.2.2.2.1 hcC.2.2.2.2.1 (fun h => by rw [← hcC.2.2.2.2.2.1]; exact h)
                      (Or.inl hcC.1) (fun _ => Or.inr (by simp)) (fun _ => by rw [hcC.2.2.2.2.2.1]; exact hJ.ps4 hp4)
              · exact stepOk_quiet (by simp) (hJ.move hcC.2.1 hcC.2.2.1 hcC.2.2.2.1 hcC.2.2.2.2.1 (fun h => by rw [← hcC.2.2.2.2.2.1]; exact h)
                  (Or.inl hcC.1) (fun h => by rw [hcC.1, hp4] at h; simp at h) (fun _ => by rw [hcC.2.2.2.2.2.1]; exact hJ.ps4 hp4))
            · rw [if_neg h4]
              by_cases h5 : ps = 5
              · rw [if_pos h5]
                have hp5 : c.pstate = 5 := by rw [← hps]; exact h5
                split
                · split
                  · generalize hst : SlaveConn.setState { cC with req1 := false, req2 := false } 1 = r
                    obtain ⟨c2, o2⟩ := r
                    have hq := setState_quiet { cC with req1 := false, req2 := false } 1
                    have hf := setState_fields { cC with req1 := false, req2 := false } 1
                    rw [hst] at hq hf
                    simp only at hq hf ⊢
                    exact stepOk_quiet hq (hJ.move (hf.2.1.trans hcC.2.1) (hf.2.2.1.trans hcC.2.2.1) (hf.2.2.2.1.trans hcC.2.2.2.1)
                      (hf.2.2.2.2.1.trans hcC.2.2.2.2.1) (fun h => by rw [← hcC.2.2.2.2.2.1, ← hf.2.2.2.2.2]; exact h)
                      (Or.inr ⟨by simp, by simp⟩) (fun h => by simp at h) (fun h => by simp at h))
                  · have hg := hJ.ghost
                    cases hlast : last with
                    | none => rw [hlast] at hg; exact absurd hp5 hg.2.1
                    | some g =>
                      rw [hlast] at hg
                      simp only at hg
                      obtain ⟨g1, g2, g3, g4⟩ := hg
                      have hgf : g = fixedFrame l.p.addrLen (ctrl cC.lastReq true false (!cC.nextFcb) true) cC.address := by
                        rw [hcC.2.1, hcC.2.2.2.1, hcC.2.2.2.2.1]; exact g4 hp5
                      obtain ⟨t1, t2⟩ := sendFixed_obs l cC.lastReq cC.address true false (!cC.nextFcb) true (some g)
                      generalize l.sendFixed cC.lastReq cC.address true false (!cC.nextFcb) true = r at t1 t2
                      obtain ⟨l1, o1⟩ := r
                      simp only at t1 t2 ⊢
                      rw [← hgf, track_repeat g g1] at t1
                      refine ⟨some g, t1, ?_, t2⟩
                      have hJ' : J l.p.addrLen c (some g) := hlast ▸ hJ
                      exact hJ'.move hcC.2.1 hcC.2.2.1 hcC.2.2.2.1 hcC.2.2.2.2.1 (fun h => by rw [← hcC.2.2.2.2.2.1]; exact h)
                        (Or.inl hcC.1) (fun _ => Or.inr (by simp)) (fun h => by rw [hcC.1, hp5] at h; simp at h)
                · exact stepOk_quiet (by simp) (hJ.move hcC.2.1 hcC.2.2.1 hcC.2.2.2.1 hcC.2.2.2.2.1 (fun h => by rw [← hcC.2.2.2.2.2.1]; exact h)
                    (Or.inl hcC.1) (fun h => by rw [hcC.1, hp5] at h; simp at h) (fun h => by rw [hcC.1, hp5] at h; simp at h))
              · rw [if_neg h5]
                exact stepOk_quiet (by simp) hJ

theorem J.some_of_wait {aL : Nat} {c : SlaveConn} {last : Option (List Nat)} (h : J aL c last) (hp : c.pstate = 4 ∨ c.pstate = 5) :
    last ≠ none := by
  intro hn
  subst hn
  have := h.ghost
  rcases hp with hp | hp
  · exact this.1 hp
  · exact this.2.1 hp

/-- `setState` then a new primary state that is neither of the two waiting states: the invariant moves along -/
theorem J.setState_move {aL : Nat} {c : SlaveConn} {last : Option (List Nat)} (h : J aL c last) (c0 : SlaveConn) (n ps' : Nat)
    (hr : c0.lastReq = c.lastReq) (hm : c0.msg = c.msg) (hf : c0.nextFcb = c.nextFcb) (ha : c0.address = c.address)
    (hh : c0.hasMsg = true → c.hasMsg = true) (hps : ps' ≠ 4 ∧ ps' ≠ 5)
    (h23 : (ps' = 2 ∨ ps' = 3) → (c.pstate = 2 ∨ c.pstate = 3) ∨ last ≠ none) :
    J aL { (c0.setState n).1 with pstate := ps' } last := by
  have hf' := setState_fields c0 n
  exact h.move (hf'.2.1.trans hr) (hf'.2.2.1.trans hm) (hf'.2.2.2.1.trans hf) (hf'.2.2.2.2.1.trans ha)
    (fun x => hh (by rw [← hf'.2.2.2.2.2]; exact x)) (Or.inr hps) h23 (fun x => absurd x hps.1)

/-- `c0` is `c` up to fields the discipline does not depend on -/
structure Sim (c c0 : SlaveConn) : Prop where
  lastReq : c0.lastReq = c.lastReq
  msg : c0.msg = c.msg
  nextFcb : c0.nextFcb = c.nextFcb
  address : c0.address = c.address
  hasMsg : c0.hasMsg = true → c.hasMsg = true
  pstate : c0.pstate = c.pstate

theorem Sim.refl (c : SlaveConn) : Sim c c := ⟨rfl, rfl, rfl, rfl, id, rfl⟩

/-- the result of a branch of `HandleMessage` that writes nothing -/
structure HQuiet (c c' : SlaveConn) (o : List Obs) : Prop where
  quiet : ∀ x ∈ o, ∀ f, x ≠ .tx f
  lastReq : c'.lastReq = c.lastReq
  msg : c'.msg = c.msg
  nextFcb : c'.nextFcb = c.nextFcb
  address : c'.address = c.address
  hasMsg : c'.hasMsg = true → c.hasMsg = true
  ps : c'.pstate = c.pstate ∨ (c'.pstate ≠ 4 ∧ c'.pstate ≠ 5)
  ps23 : (c'.pstate = 2 ∨ c'.pstate = 3) → (c.pstate = 2 ∨ c.pstate = 3 ∨ c.pstate = 4 ∨ c.pstate = 5)
  ps4 : c'.pstate = 4 → (c.pstate = 4 ∧ c'.hasMsg = c.hasMsg)

theorem stepOk_of_hquiet {aL : Nat} {c c' : SlaveConn} {l : LL} {o : List Obs} {last : Option (List Nat)}
    (hJ : J aL c last) (hq : HQuiet c c' o) : StepOk aL last (c', l, o) l.p := by
  refine stepOk_quiet hq.quiet (hJ.move hq.lastReq hq.msg hq.nextFcb hq.address hq.hasMsg hq.ps (fun h => ?_) (fun h => ?_))
  · rcases hq.ps23 h with h' | h' | h' | h'
    · exact Or.inl (Or.inl h')
    · exact Or.inl (Or.inr h')
    · exact Or.inr (hJ.some_of_wait (Or.inl h'))
    · exact Or.inr (hJ.some_of_wait (Or.inr h'))
  · obtain ⟨h4, hh⟩ := hq.ps4 h
    rw [hh]; exact hJ.ps4 h4

/-- `setState n`, then primary state `ps'` (not a waiting state), `waiting := false` -/
theorem hq_set (c c0 : SlaveConn) (hs : Sim c c0) (n ps' : Nat) (hps : ps' ≠ 4 ∧ ps' ≠ 5)
    (h23 : (ps' = 2 ∨ ps' = 3) → (c.pstate = 2 ∨ c.pstate = 3 ∨ c.pstate = 4 ∨ c.pstate = 5)) (w : Bool) :
    HQuiet c { (c0.setState n).1 with pstate := ps', waiting := w } (c0.setState n).2 := by
  have hf := setState_fields c0 n
  exact ⟨setState_quiet c0 n, hf.2.1.trans hs.lastReq, hf.2.2.1.trans hs.msg, hf.2.2.2.1.trans hs.nextFcb,
    hf.2.2.2.2.1.trans hs.address, fun x => hs.hasMsg (by rw [← hf.2.2.2.2.2]; exact x), Or.inr hps, h23,
    fun x => absurd x hps.1⟩

/-- nothing but bookkeeping fields change -/
theorem hq_same (c c0 : SlaveConn) (hs : Sim c c0) (hh : c0.hasMsg = c.hasMsg) : HQuiet c c0 [] :=
  ⟨by simp, hs.lastReq, hs.msg, hs.nextFcb, hs.address, hs.hasMsg, Or.inl hs.pstate,
   fun h => by rw [hs.pstate] at h; rcases h with h | h; exact Or.inl h; exact Or.inr (Or.inl h),
   fun h => ⟨by rw [← hs.pstate]; exact h, hh⟩⟩

theorem stepOk_append_quiet {aL : Nat} {last : Option (List Nat)} {c' : SlaveConn} {l' : LL} {o extra : List Obs} {p : Params}
    (h : StepOk aL last (c', l', o) p) (he : ∀ x ∈ extra, ∀ f, x ≠ .tx f) : StepOk aL last (c', l', o ++ extra) p := by
  obtain ⟨last', t, j, hp⟩ := h
  refine ⟨last', ?_, j, hp⟩
  simp only at t ⊢
  rw [trackAll_append, t]
  exact trackAll_quiet last' extra he


theorem stepOk_match {aL : Nat} {last : Option (List Nat)} {p : Params} (r : SlaveConn × LL × List Obs) (extra : List Obs)
    (h : StepOk aL last r p) (he : ∀ x ∈ extra, ∀ f, x ≠ .tx f) :
    StepOk aL last (match r with | (c, l, o) => (c, l, o ++ extra)) p := by
  obtain ⟨c, l, o⟩ := r
  exact stepOk_append_quiet h he

/-! ### `HandleMessage`, branch by branch -/

def hFc0 (cA : SlaveConn) (ps : Nat) : SlaveConn × List Obs :=
  if ps = 2 then let (c, o) := cA.setState 3; ({ c with pstate := 3 }, o)
  else if ps = 4 then
    let c := { cA with hasMsg := false }
    let (c, o) := c.setState 3; ({ c with pstate := 3 }, o)
  else if ps = 5 then
    let c := if cA.lastReq = 2 then { cA with testFn := false } else cA
    let (c, o) := c.setState 3; ({ c with pstate := 3 }, o)
  else (cA, [])

def hFc1 (cA : SlaveConn) (ps : Nat) : SlaveConn × List Obs :=
  if ps = 4 then let (c, o) := cA.setState 2; ({ c with pstate := 6 }, o) else (cA, [])

def hFc8 (cA : SlaveConn) (ps : Nat) (l : LL) (address : Int) (us : Nat) (ul : Int) : SlaveConn × List Obs :=
  if ps = 5 then
    let o := [Obs.ud address (userDataOf l.buf us ul)]
    let c := { cA with req1 := false, req2 := false }
    let (c, o') := c.setState 3
    ({ c with pstate := 3 }, o ++ o')
  else let (c, o) := cA.setState 1; ({ c with pstate := 0 }, o)

def hFc9 (cA : SlaveConn) (ps : Nat) : SlaveConn × List Obs :=
  if ps = 5 then let (c, o) := cA.setState 3; ({ c with pstate := 3 }, o)
  else let (c, o) := cA.setState 1; ({ c with pstate := 0 }, o)

def hFc14 (cA : SlaveConn) (ps : Nat) : SlaveConn × List Obs :=
  if ps = 4 then let (c, o) := cA.setState 3; ({ c with pstate := 3 }, o)
  else if ps = 5 ∧ cA.lastReq = 2 then
    let (c, o) := SlaveConn.setState { cA with testFn := false } 3; ({ c with pstate := 3 }, o)
  else (cA, [])

def hInner (cA : SlaveConn) (ps : Nat) (l : LL) (now fc : Nat) (address : Int) (us : Nat) (ul : Int) : SlaveConn × LL × List Obs :=
  if fc = 0 then let (c, o) := hFc0 cA ps; ({ c with waiting := false }, l, o)
  else if fc = 1 then let (c, o) := hFc1 cA ps; ({ c with waiting := false }, l, o)
  else if fc = 11 then
    if ps = 1 then
      let (l, o) := l.sendFixed 0 cA.address true false false false
      let c := { cA with lastSend := now, waiting := true, nextFcb := true }
      let (c, o') := c.setState 2
      ({ c with pstate := 2 }, l, o ++ o')
    else
      let (c, o) := cA.setState 1; ({ c with pstate := 0 }, l, o)
  else if fc = 8 then let (c, o) := hFc8 cA ps l address us ul; ({ c with waiting := false }, l, o)
  else if fc = 9 then let (c, o) := hFc9 cA ps; ({ c with waiting := false }, l, o)
  else if fc = 14 ∨ fc = 15 then let (c, o) := hFc14 cA ps; ({ c with waiting := false }, l, o)
  else ({ cA with waiting := false }, l, [])

def hAlt (c : SlaveConn) (l : LL) (now fc : Nat) (acd dfc : Bool) (address : Int) (us : Nat) (ul : Int) : SlaveConn × LL × List Obs :=
  let ps := c.pstate
  if dfc then
    let c := { c with dontSend := true }
    let ns := if ps = 1 ∨ ps = 2 then 1 else if ps = 4 ∨ ps = 6 then 6 else ps
    let (c, o) := c.setState 2
    ({ c with pstate := ns }, l, o)
  else
    let c := { c with dontSend := false }
    let cA := if acd then { c with req1 := true } else c
    let (c, l, o) := hInner cA ps l now fc address us ul
    (c, l, o ++ (if acd then [Obs.ad address] else []))

theorem handle_eq (c : SlaveConn) (l : LL) (now fc : Nat) (acd dfc : Bool) (address : Int) (us : Nat) (ul : Int) :
    c.handle l now fc acd dfc address us ul = hAlt c l now fc acd dfc address us ul := rfl

theorem hq_keep (c cA : SlaveConn) (sA : Sim c cA) (hh : cA.hasMsg = c.hasMsg) : HQuiet c { cA with waiting := false } [] :=
  hq_same c { cA with waiting := false } ⟨sA.lastReq, sA.msg, sA.nextFcb, sA.address, sA.hasMsg, sA.pstate⟩ hh

theorem hFc0_q (c cA : SlaveConn) (sA : Sim c cA) (hh : cA.hasMsg = c.hasMsg) :
    HQuiet c { (hFc0 cA c.pstate).1 with waiting := false } (hFc0 cA c.pstate).2 := by
  unfold hFc0
  split
  · rename_i h
    exact hq_set c cA sA 3 3 ⟨by decide, by decide⟩ (fun _ => Or.inl h) false
  · split
    · rename_i h
      exact hq_set c { cA with hasMsg := false } ⟨sA.lastReq, sA.msg, sA.nextFcb, sA.address, fun x => by simp at x, sA.pstate⟩ 3 3
        ⟨by decide, by decide⟩ (fun _ => Or.inr (Or.inr (Or.inl h))) false
    · split
      · rename_i h
        have sT : Sim c (if cA.lastReq = 2 then { cA with testFn := false } else cA) := by
          split
          · exact ⟨sA.lastReq, sA.msg, sA.nextFcb, sA.address, sA.hasMsg, sA.pstate⟩
          · exact sA
        exact hq_set c _ sT 3 3 ⟨by decide, by decide⟩ (fun _ => Or.inr (Or.inr (Or.inr h))) false
      · exact hq_keep c cA sA hh

theorem hFc1_q (c cA : SlaveConn) (sA : Sim c cA) (hh : cA.hasMsg = c.hasMsg) :
    HQuiet c { (hFc1 cA c.pstate).1 with waiting := false } (hFc1 cA c.pstate).2 := by
  unfold hFc1
  split
  · exact hq_set c cA sA 2 6 ⟨by decide, by decide⟩ (fun h => by simp at h) false
  · exact hq_keep c cA sA hh

theorem hFc9_q (c cA : SlaveConn) (sA : Sim c cA) :
    HQuiet c { (hFc9 cA c.pstate).1 with waiting := false } (hFc9 cA c.pstate).2 := by
  unfold hFc9
  split
  · rename_i h
    exact hq_set c cA sA 3 3 ⟨by decide, by decide⟩ (fun _ => Or.inr (Or.inr (Or.inr h))) false
  · exact hq_set c cA sA 1 0 ⟨by decide, by decide⟩ (fun h => by simp at h) false

theorem hFc14_q (c cA : SlaveConn) (sA : Sim c cA) (hh : cA.hasMsg = c.hasMsg) :
    HQuiet c { (hFc14 cA c.pstate).1 with waiting := false } (hFc14 cA c.pstate).2 := by
  unfold hFc14
  split
  · rename_i h
    exact hq_set c cA sA 3 3 ⟨by decide, by decide⟩ (fun _ => Or.inr (Or.inr (Or.inl h))) false
  · split
    · rename_i h
      exact hq_set c { cA with testFn := false } ⟨sA.lastReq, sA.msg, sA.nextFcb, sA.address, sA.hasMsg, sA.pstate⟩ 3 3
        ⟨by decide, by decide⟩ (fun _ => Or.inr (Or.inr (Or.inr h.1))) false
    · exact hq_keep c cA sA hh

theorem hFc8_q (c cA : SlaveConn) (sA : Sim c cA) (l : LL) (address : Int) (us : Nat) (ul : Int) :
    HQuiet c { (hFc8 cA c.pstate l address us ul).1 with waiting := false } (hFc8 cA c.pstate l address us ul).2 := by
  unfold hFc8
  split
  · rename_i h
    have hq := hq_set c { cA with req1 := false, req2 := false } ⟨sA.lastReq, sA.msg, sA.nextFcb, sA.address, sA.hasMsg, sA.pstate⟩ 3 3
      ⟨by decide, by decide⟩ (fun _ => Or.inr (Or.inr (Or.inr h))) false
    refine ⟨?_, hq.lastReq, hq.msg, hq.nextFcb, hq.address, hq.hasMsg, hq.ps, hq.ps23, hq.ps4⟩
    intro x hx f
    simp only [List.mem_append, List.mem_singleton] at hx
    rcases hx with hx | hx
    · rw [hx]; intro h'; cases h'
    · exact hq.quiet x hx f
  · exact hq_set c cA sA 1 0 ⟨by decide, by decide⟩ (fun h => by simp at h) false

theorem hInner_fcb (c cA : SlaveConn) (sA : Sim c cA) (hh : cA.hasMsg = c.hasMsg) (l : LL) (now fc : Nat) (address : Int)
    (us : Nat) (ul : Int) (last : Option (List Nat)) (hJ : J l.p.addrLen c last) :
    StepOk l.p.addrLen last (hInner cA c.pstate l now fc address us ul) l.p := by
  unfold hInner
  split
  · exact stepOk_of_hquiet hJ (hFc0_q c cA sA hh)
  · split
    · exact stepOk_of_hquiet hJ (hFc1_q c cA sA hh)
    · split
      · split
        · -- STATUS OF LINK while it was requested: RESET REMOTE LINK goes out, the ghost starts over
          rename_i h1
          obtain ⟨t1, t2⟩ := sendFixed_obs l 0 cA.address true false false false last
          generalize l.sendFixed 0 cA.address true false false false = r at t1 t2
          obtain ⟨l1, o1⟩ := r
          simp only at t1 t2 ⊢
          rw [track_reset] at t1
          have hf := setState_fields { cA with lastSend := now, waiting := true, nextFcb := true } 2
          have hq := setState_quiet { cA with lastSend := now, waiting := true, nextFcb := true } 2
          generalize SlaveConn.setState { cA with lastSend := now, waiting := true, nextFcb := true } 2 = r2 at hf hq
          obtain ⟨c2, o2⟩ := r2
          simp only at hf hq ⊢
          refine ⟨none, ?_, ⟨?_, ?_, fun h => by simp at h, ?_⟩, t2⟩
          · rw [trackAll_append, t1]; exact trackAll_quiet none o2 hq
          · show c2.lastReq < 16; rw [hf.2.1]; show cA.lastReq < 16; rw [sA.lastReq]; exact hJ.lastReq
          · intro h
            have h' : c2.hasMsg = true := h
            rw [hf.2.2.2.2.2] at h'
            show Framable _ c2.msg
            rw [hf.2.2.1]; show Framable _ cA.msg; rw [sA.msg]; exact hJ.msgOk (sA.hasMsg h')
          · refine ⟨by simp, by simp, fun _ => ?_⟩
            show c2.nextFcb = true
            rw [hf.2.2.2.1]
        · exact stepOk_of_hquiet hJ (hq_set c cA sA 1 0 ⟨by decide, by decide⟩ (fun h => by simp at h) cA.waiting |> fun h => by
            -- `waiting` is left alone in this branch
            have := hq_set c cA sA 1 0 ⟨by decide, by decide⟩ (fun h => by simp at h) (cA.setState 1).1.waiting
            exact this)
      · split
        · exact stepOk_of_hquiet hJ (hFc8_q c cA sA l address us ul)
        · split
          · exact stepOk_of_hquiet hJ (hFc9_q c cA sA)
          · split
            · exact stepOk_of_hquiet hJ (hFc14_q c cA sA hh)
            · exact stepOk_of_hquiet hJ (hq_keep c cA sA hh)

/-- **`LinkLayerSlaveConnection_HandleMessage`** -/
theorem handle_fcb (c : SlaveConn) (l : LL) (now fc : Nat) (acd dfc : Bool) (address : Int) (us : Nat) (ul : Int)
    (last : Option (List Nat)) (hJ : J l.p.addrLen c last) :
    StepOk l.p.addrLen last (c.handle l now fc acd dfc address us ul) l.p := by
  rw [handle_eq]
  unfold hAlt
  extract_lets ps cD ns cN cA
  by_cases hd : dfc = true
  · rw [if_pos hd]
    have sD : Sim c cD := ⟨rfl, rfl, rfl, rfl, id, rfl⟩
    have hns : (ns ≠ 4 ∧ ns ≠ 5) ∨ ns = c.pstate := by
      dsimp only [ns]
      split
      · left; exact ⟨by decide, by decide⟩
      · split
        · left; exact ⟨by decide, by decide⟩
        · right; rfl
    have h23 : (ns = 2 ∨ ns = 3) → (c.pstate = 2 ∨ c.pstate = 3 ∨ c.pstate = 4 ∨ c.pstate = 5) := by
      dsimp only [ns]
      split
      · intro h; simp at h
      · split
        · intro h; simp at h
        · intro h; rcases h with h | h; exact Or.inl h; exact Or.inr (Or.inl h)
    have hf := setState_fields cD 2
    have hq := setState_quiet cD 2
    generalize cD.setState 2 = r at hf hq
    obtain ⟨c2, o2⟩ := r
    simp only at hf hq ⊢
    refine stepOk_of_hquiet hJ ⟨hq, hf.2.1.trans sD.lastReq, hf.2.2.1.trans sD.msg, hf.2.2.2.1.trans sD.nextFcb,
      hf.2.2.2.2.1.trans sD.address, fun x => sD.hasMsg (by rw [← hf.2.2.2.2.2]; exact x), ?_, h23, ?_⟩
    · rcases hns with h | h
      · exact Or.inr h
      · exact Or.inl h
    · intro h4
      have h4' : ns = 4 := h4
      rcases hns with h | h
      · exact absurd h4' h.1
      · exact ⟨by rw [← h]; exact h4', hf.2.2.2.2.2⟩
  · rw [if_neg hd]
    have sA : Sim c cA := by
      dsimp only [cA]; split
      · exact ⟨rfl, rfl, rfl, rfl, id, rfl⟩
      · exact ⟨rfl, rfl, rfl, rfl, id, rfl⟩
    have hAh : cA.hasMsg = c.hasMsg := by dsimp only [cA]; split <;> rfl
    have hin := hInner_fcb c cA sA hAh l now fc address us ul last hJ
    exact stepOk_match _ _ hin (by intro x hx f; split at hx <;> simp at hx; rw [hx]; intro h; cases h)

/-! ### every history of one slave connection of the master -/

/-- what happens to one `LinkLayerSlaveConnection`: its state machine runs, a received frame is handled, the application
hands over user data (that fits a frame) or asks for a poll / a link test -/
inductive FOp where
  | run (now : Nat)
  | handle (now fc : Nat) (acd dfc : Bool) (address : Int) (us : Nat) (ul : Int)
  | send (d : List Nat)
  | req1
  | req2
  | test

def FOp.apply (x : SlaveConn × LL) : FOp → (SlaveConn × LL) × List Obs
  | .run now => let r := x.1.run x.2 now; ((r.1, r.2.1), r.2.2)
  | .handle now fc acd dfc address us ul => let r := x.1.handle x.2 now fc acd dfc address us ul; ((r.1, r.2.1), r.2.2)
  | .send d => if x.1.hasMsg = false ∧ Framable x.2.p.addrLen d then (({ x.1 with msg := d, hasMsg := true }, x.2), []) else (x, [])
  | .req1 => (({ x.1 with req1 := true }, x.2), [])
  | .req2 => (({ x.1 with req2 := true }, x.2), [])
  | .test => (({ x.1 with testFn := true }, x.2), [])

/-- everything written over a history, in order -/
def FOp.runAll : (SlaveConn × LL) → List FOp → List Obs
  | _, [] => []
  | x, op :: ops => (op.apply x).2 ++ FOp.runAll (op.apply x).1 ops

theorem apply_fcb (x : SlaveConn × LL) (op : FOp) (last : Option (List Nat)) (hJ : J x.2.p.addrLen x.1 last) :
    ∃ last', trackAll last (op.apply x).2 = some last' ∧ J (op.apply x).1.2.p.addrLen (op.apply x).1.1 last' ∧
      (op.apply x).1.2.p = x.2.p := by
  obtain ⟨c, l⟩ := x
  cases op with
  | run now =>
    obtain ⟨last', t, j, hp⟩ := run_fcb c l now last hJ
    exact ⟨last', t, by show J (c.run l now).2.1.p.addrLen _ _; rw [hp]; exact j, hp⟩
  | handle now fc acd dfc address us ul =>
    obtain ⟨last', t, j, hp⟩ := handle_fcb c l now fc acd dfc address us ul last hJ
    exact ⟨last', t, by show J (c.handle l now fc acd dfc address us ul).2.1.p.addrLen _ _; rw [hp]; exact j, hp⟩
  | send d =>
    by_cases hc : c.hasMsg = false ∧ Framable l.p.addrLen d
    · have e : FOp.apply (c, l) (.send d) = (({ c with msg := d, hasMsg := true }, l), []) := by
        simp only [FOp.apply]; rw [if_pos hc]
      rw [e]
      refine ⟨last, rfl, ⟨hJ.lastReq, fun _ => hc.2, fun _ => rfl, ?_⟩, rfl⟩
      have hn4 : c.pstate ≠ 4 := fun h4 => by have := hJ.ps4 h4; rw [hc.1] at this; cases this
      have hg := hJ.ghost
      cases last with
      | none => exact hg
      | some g => exact ⟨hg.1, hg.2.1, fun h4 => absurd h4 hn4, hg.2.2.2⟩
    · have e : FOp.apply (c, l) (.send d) = ((c, l), []) := by
        simp only [FOp.apply]; rw [if_neg hc]
      rw [e]
      exact ⟨last, rfl, hJ, rfl⟩
  | req1 => exact ⟨last, rfl, ⟨hJ.lastReq, hJ.msgOk, hJ.ps4, hJ.ghost⟩, rfl⟩
  | req2 => exact ⟨last, rfl, ⟨hJ.lastReq, hJ.msgOk, hJ.ps4, hJ.ghost⟩, rfl⟩
  | test => exact ⟨last, rfl, ⟨hJ.lastReq, hJ.msgOk, hJ.ps4, hJ.ghost⟩, rfl⟩

theorem runAll_fcb : ∀ (ops : List FOp) (x : SlaveConn × LL) (last : Option (List Nat)), J x.2.p.addrLen x.1 last →
    ∃ last', trackAll last (FOp.runAll x ops) = some last' := by
  intro ops
  induction ops with
  | nil => intro x last _; exact ⟨last, rfl⟩
  | cons op ops ih =>
    intro x last hJ
    obtain ⟨l1, t1, j1, _⟩ := apply_fcb x op last hJ
    obtain ⟨l2, t2⟩ := ih (op.apply x).1 l1 j1
    refine ⟨l2, ?_⟩
    show trackAll last ((op.apply x).2 ++ FOp.runAll (op.apply x).1 ops) = some l2
    rw [trackAll_append, t1]; exact t2

/-- a freshly added slave connection satisfies the invariant -/
theorem J_init (aL a : Nat) : J aL ({ address := a } : SlaveConn) none :=
  { lastReq := (by show (11 : Nat) < 16; decide)
    msgOk := (fun h => by cases h)
    ps4 := (fun h => by cases h)
    ghost := ⟨(by show (0 : Nat) ≠ 4; decide), (by show (0 : Nat) ≠ 5; decide), fun _ => rfl⟩ }

end Iec.Link101
