import Iec.Lemmas.Reasm
/-
Lemmas about the server connection model: the observation log only grows, what the
application handler logs, facts preserved by checkSequenceNumber, I-frame delivery.
-/
namespace Iec.Srv104
open Iec.KWindow

def Obs.isAsdu : Obs → Bool
  | .asdu _ _ => true
  | _ => false

/-- `s'` extends the log of `s` by observations none of which is an ASDU delivery -/
def ExtNoAsdu (s s' : Slave) : Prop := ∃ l, s'.log = s.log ++ l ∧ ∀ o ∈ l, o.isAsdu = false

theorem ext_refl (s : Slave) : ExtNoAsdu s s := ⟨[], by simp, by simp⟩
theorem ext_trans {a b c : Slave} (h1 : ExtNoAsdu a b) (h2 : ExtNoAsdu b c) : ExtNoAsdu a c := by
  obtain ⟨l1, e1, n1⟩ := h1; obtain ⟨l2, e2, n2⟩ := h2
  exact ⟨l1 ++ l2, by rw [e2, e1, List.append_assoc], fun o ho => by
    rcases List.mem_append.mp ho with h | h
    · exact n1 o h
    · exact n2 o h⟩
theorem ext_of_log_eq {a b : Slave} (h : b.log = a.log) : ExtNoAsdu a b := ⟨[], by simp [h], by simp⟩
theorem ext_emit (s : Slave) (o : Obs) (h : o.isAsdu = false) : ExtNoAsdu s (emit s o) :=
  ⟨[o], rfl, by simp [h]⟩

theorem ext_write (s : Slave) (i : Nat) (b : List Nat) : ExtNoAsdu s (write s i b).1 := by
  unfold write; simp only
  split
  · exact ext_refl s
  · exact ext_emit s _ rfl

theorem ext_sendI (s : Slave) (i : Nat) (a : List Nat) (q : Option (Nat × Nat)) : ExtNoAsdu s (sendI s i a q) := by
  unfold sendI
  exact ext_trans (ext_write s i _) (ext_of_log_eq rfl)

theorem ext_sendAsduInternal (s : Slave) (i : Nat) (a : List Nat) : ExtNoAsdu s (sendAsduInternal s i a).1 := by
  unfold sendAsduInternal; simp only
  split
  · split
    · exact ext_sendI s i a none
    · exact ext_of_log_eq rfl
  · exact ext_refl s

theorem ext_replies (n : Nat) : ∀ (s : Slave) (i : Nat) (a : List Nat),
    ExtNoAsdu s ((List.range n).foldl (fun s _ => let (s, ok) := sendAsduInternal s i a; emit s (.reply i ok)) s) := by
  induction n with
  | zero => intro s i a; exact ext_refl s
  | succ n ih =>
    intro s i a
    rw [List.range_succ, List.foldl_append]
    refine ext_trans (ih s i a) ?_
    simp only [List.foldl_cons, List.foldl_nil]
    exact ext_trans (ext_sendAsduInternal _ i a) (ext_emit _ _ rfl)

/-- the application handler: exactly one delivery, then only replies -/
theorem appHandler_log (s : Slave) (i : Nat) (a : List Nat) :
    ∃ l, (appHandler s i a).log = s.log ++ (.asdu i a) :: l ∧ ∀ o ∈ l, o.isAsdu = false := by
  unfold appHandler
  obtain ⟨l, e, n⟩ := ext_replies s.p.replies (emit s (.asdu i a)) i a
  refine ⟨l, ?_, n⟩
  simp only at e ⊢
  have hp : (emit s (.asdu i a)).p = s.p := rfl
  rw [hp, e]; simp [emit]

end Iec.Srv104

namespace Iec.Srv104
open Iec.KWindow

theorem conn_setConn (s : Slave) (i : Nat) (c : Conn) (hi : i < s.conns.length) : (s.setConn i c).conn i = c := by
  simp [Slave.conn, Slave.setConn, List.getD_eq_getElem?_getD, hi]

theorem setConn_log (s : Slave) (i : Nat) (c : Conn) : (s.setConn i c).log = s.log := rfl
theorem setConn_p (s : Slave) (i : Nat) (c : Conn) : (s.setConn i c).p = s.p := rfl
theorem setConn_len (s : Slave) (i : Nat) (c : Conn) : (s.setConn i c).conns.length = s.conns.length := by
  simp [Slave.setConn]

theorem confirmReleased_facts (rel : List KEntry) : ∀ (s : Slave) (i : Nat),
    (confirmReleased s i rel).conns = s.conns ∧ (confirmReleased s i rel).log = s.log ∧
    (confirmReleased s i rel).p = s.p ∧ (confirmReleased s i rel).now = s.now := by
  induction rel with
  | nil => intro s i; simp [confirmReleased]
  | cons e rest ih =>
    intro s i
    unfold confirmReleased
    simp only [List.foldl_cons]
    cases hq : e.qref with
    | none => simpa [confirmReleased, hq] using ih s i
    | some q =>
      obtain ⟨o, id⟩ := q
      simp only
      have := ih (s.setGrp (s.gidx i) { s.grp (s.gidx i) with lowQ := (s.grp (s.gidx i)).lowQ.markConfirmed o id }) i
      simpa [confirmReleased, Slave.setGrp] using this

end Iec.Srv104

namespace Iec.Srv104
open Iec.KWindow

def frameNS (buf : List Nat) : Nat := (buf.getD 3 0 * 0x100 + (buf.getD 2 0 &&& 0xfe)) / 2
def frameNR (buf : List Nat) : Nat := (buf.getD 5 0 * 0x100 + (buf.getD 4 0 &&& 0xfe)) / 2

/-- a syntactically valid I-format APDU of at least 7 octets -/
def IsIFrame (buf : List Nat) : Prop :=
  7 ≤ buf.length ∧ buf.getD 0 0 = 0x68 ∧ buf.getD 1 0 = buf.length - 2 ∧ buf.getD 2 0 &&& 1 = 0

/-- the two sequence checks and the minimum ASDU length -/
def IAccept (s : Slave) (i : Nat) (buf : List Nat) : Prop :=
  frameNS buf = (s.conn i).vr ∧ valid (s.conn i).vs (s.conn i).win (frameNR buf) = true ∧
  s.p.asduHdr ≤ buf.length - 6

instance (s : Slave) (i : Nat) (buf : List Nat) : Decidable (IAccept s i buf) := by
  unfold IAccept; infer_instance

theorem checkSeqConn_facts (s : Slave) (i : Nat) (nr : Nat) (hi : i < s.conns.length) :
    let r := checkSeqConn s i nr
    r.2 = valid (s.conn i).vs (s.conn i).win nr ∧ r.1.log = s.log ∧ r.1.p = s.p ∧ r.1.now = s.now ∧
    r.1.conns.length = s.conns.length ∧
    (r.1.conn i).state = (s.conn i).state ∧ (r.1.conn i).vr = (s.conn i).vr ∧ (r.1.conn i).vs = (s.conn i).vs := by
  unfold checkSeqConn
  simp only
  generalize hcs : checkSeq (s.conn i).vs (s.conn i).win nr = cs
  obtain ⟨ok, win', rel⟩ := cs
  have hok : ok = valid (s.conn i).vs (s.conn i).win nr := by
    unfold checkSeq at hcs
    split at hcs
    · rename_i hv; simp only [Prod.mk.injEq] at hcs; rw [hv]; exact hcs.1.symm
    · rename_i hv; simp only [Prod.mk.injEq] at hcs
      have : valid (s.conn i).vs (s.conn i).win nr = false := by simpa using hv
      rw [this]; exact hcs.1.symm
  have hf := confirmReleased_facts rel (s.setConn i { s.conn i with win := win' }) i
  simp only
  refine ⟨hok, ?_, ?_, ?_, ?_, ?_, ?_, ?_⟩
  · rw [hf.2.1]; rfl
  · rw [hf.2.2.1]; rfl
  · rw [hf.2.2.2]; rfl
  · rw [hf.1]; exact setConn_len _ _ _
  all_goals
    have : (confirmReleased (s.setConn i { s.conn i with win := win' }) i rel).conn i
        = (s.setConn i { s.conn i with win := win' }).conn i := by
      exact congrArg (fun cs => List.getD cs i ({} : Conn)) hf.1
    rw [this, conn_setConn _ _ _ hi]

/-- `checkSequenceNumber` touches only the k-buffer of the connection (and the event queue of its group) -/
theorem checkSeqConn_conn (s : Slave) (i : Nat) (nr : Nat) (hi : i < s.conns.length) :
    ∃ w, (checkSeqConn s i nr).1.conn i = { s.conn i with win := w } := by
  unfold checkSeqConn
  simp only
  generalize hcs : checkSeq (s.conn i).vs (s.conn i).win nr = cs
  obtain ⟨ok, win', rel⟩ := cs
  have hf := confirmReleased_facts rel (s.setConn i { s.conn i with win := win' }) i
  have : (confirmReleased (s.setConn i { s.conn i with win := win' }) i rel).conn i
      = (s.setConn i { s.conn i with win := win' }).conn i := by
    exact congrArg (fun cs => List.getD cs i ({} : Conn)) hf.1
  exact ⟨win', by simp only; rw [this, conn_setConn _ _ _ hi]⟩

end Iec.Srv104

namespace Iec.Srv104
open Iec.KWindow

/-- **C05 (ii).** On a started connection an I-format APDU (≥ 7 octets) is handed to the
application exactly once iff N(S) = V(R) (and the N(R) and length checks pass); otherwise
nothing is delivered and the connection is closed. -/
theorem iframe_delivery (s : Slave) (i : Nat) (hi : i < s.conns.length) (buf : List Nat) (h7 : 7 ≤ buf.length)
    (hst : (s.conn i).state = 1) :
    (IAccept s i buf →
      (handleI s i buf).2 = true ∧
      ∃ l, (handleI s i buf).1.log = s.log ++ (.asdu i (buf.drop 6)) :: l ∧ ∀ o ∈ l, o.isAsdu = false) ∧
    (¬ IAccept s i buf → (handleI s i buf).2 = false ∧ (handleI s i buf).1.log = s.log) := by
  have hn7 : ¬ buf.length < 7 := by omega
  have hs1 : ¬ (((s.conn i).state != 1) = true) := by rw [hst]; decide
  obtain ⟨c1, hc1⟩ : ∃ c1, c1 = (if !(s.conn i).t2Triggered then
      { (s.conn i) with t2Triggered := true, lastConf := some s.now } else s.conn i) := ⟨_, rfl⟩
  have hc1vr : c1.vr = (s.conn i).vr := by rw [hc1]; split <;> rfl
  have hc1vs : c1.vs = (s.conn i).vs := by rw [hc1]; split <;> rfl
  have hc1win : c1.win = (s.conn i).win := by rw [hc1]; split <;> rfl
  have hc1st : c1.state = 1 := by rw [hc1]; split <;> exact hst
  have hs1c : (s.setConn i c1).conn i = c1 := conn_setConn s i c1 hi
  have hs1len : i < (s.setConn i c1).conns.length := by rw [setConn_len]; exact hi
  have hcs := checkSeqConn_facts (s.setConn i c1) i (frameNR buf) hs1len
  simp only at hcs
  obtain ⟨hok, hlog, hp, hnow, hlen2, hst2, hvr2, hvs2⟩ := hcs
  rw [hs1c] at hok hst2 hvr2 hvs2
  rw [hc1vs, hc1win] at hok
  unfold handleI
  simp only [hn7, hs1, if_false, ← hc1]
  constructor
  · rintro ⟨hns, hval, hlenA⟩
    have e1 : ¬ (((buf.getD 3 0 * 0x100 + (buf.getD 2 0 &&& 0xfe)) / 2 != c1.vr) = true) := by
      rw [hc1vr, ← hns]; simp [frameNS]
    rw [if_neg e1]
    have hok' : (checkSeqConn (s.setConn i c1) i (frameNR buf)).2 = true := by rw [hok]; exact hval
    generalize hr : checkSeqConn (s.setConn i c1) i (frameNR buf) = r at hok' hlog hp hnow hlen2 hst2 hvr2 hvs2
    obtain ⟨s2, ok⟩ := r
    simp only at hok' hlog hp hnow hlen2 hst2 hvr2 hvs2
    have hr' : checkSeqConn (s.setConn i c1) i ((buf.getD 5 0 * 0x100 + (buf.getD 4 0 &&& 0xfe)) / 2) = (s2, ok) := hr
    rw [hr']
    simp only [hok', Bool.not_true, Bool.false_eq_true, if_false]
    have hi2 : i < s2.conns.length := by rw [hlen2]; exact hs1len
    have hs3 : ((s2.setConn i { s2.conn i with vr := ((s2.conn i).vr + 1) % 32768, unconf := (s2.conn i).unconf + 1 }).conn i).state = 1 := by
      rw [conn_setConn _ _ _ hi2]; show (s2.conn i).state = 1; rw [hst2, hc1st]
    rw [if_pos hs3]
    have hl : ¬ (buf.length - 6 < (s2.setConn i { s2.conn i with vr := ((s2.conn i).vr + 1) % 32768, unconf := (s2.conn i).unconf + 1 }).p.asduHdr) := by
      rw [setConn_p, hp, setConn_p]; omega
    rw [if_neg hl]
    refine ⟨rfl, ?_⟩
    obtain ⟨l, e, n⟩ := appHandler_log (s2.setConn i { s2.conn i with vr := ((s2.conn i).vr + 1) % 32768, unconf := (s2.conn i).unconf + 1 }) i (buf.drop 6)
    refine ⟨l, ?_, n⟩
    rw [setConn_log, e, setConn_log, hlog, setConn_log]
  · intro hna
    by_cases e1 : ((buf.getD 3 0 * 0x100 + (buf.getD 2 0 &&& 0xfe)) / 2 != c1.vr) = true
    · rw [if_pos e1]; exact ⟨rfl, setConn_log _ _ _⟩
    · rw [if_neg e1]
      have hns : frameNS buf = (s.conn i).vr := by rw [← hc1vr]; simpa [frameNS] using e1
      generalize hr : checkSeqConn (s.setConn i c1) i (frameNR buf) = r at hok hlog hp hnow hlen2 hst2 hvr2 hvs2
      obtain ⟨s2, ok⟩ := r
      simp only at hok hlog hp hnow hlen2 hst2 hvr2 hvs2
      have hr' : checkSeqConn (s.setConn i c1) i ((buf.getD 5 0 * 0x100 + (buf.getD 4 0 &&& 0xfe)) / 2) = (s2, ok) := hr
      rw [hr']
      simp only
      by_cases hokb : ok = true
      · simp only [hokb, Bool.not_true, Bool.false_eq_true, if_false]
        have hi2 : i < s2.conns.length := by rw [hlen2]; exact hs1len
        have hs3 : ((s2.setConn i { s2.conn i with vr := ((s2.conn i).vr + 1) % 32768, unconf := (s2.conn i).unconf + 1 }).conn i).state = 1 := by
          rw [conn_setConn _ _ _ hi2]; show (s2.conn i).state = 1; rw [hst2, hc1st]
        rw [if_pos hs3]
        have hl : (buf.length - 6 < (s2.setConn i { s2.conn i with vr := ((s2.conn i).vr + 1) % 32768, unconf := (s2.conn i).unconf + 1 }).p.asduHdr) := by
          rw [setConn_p, hp, setConn_p]
          have : ¬ (s.p.asduHdr ≤ buf.length - 6) := fun h => hna ⟨hns, by rw [← hok]; exact hokb, h⟩
          omega
        rw [if_pos hl]
        exact ⟨rfl, by rw [setConn_log, hlog, setConn_log]⟩
      · have : ok = false := by simpa using hokb
        simp only [this, Bool.not_false, if_true, Bool.false_eq_true, if_false]
        exact ⟨trivial, by rw [hlog, setConn_log]⟩

end Iec.Srv104
