/-
The client's supervision deadlines after one pass of the connection loop (C11, client role): if the thread goes on (the
connection is not being closed), then it is inside t3, no U-format act (STARTDT / STOPDT / TESTFR) has been unconfirmed for
longer than t1, the oldest unacknowledged I-format APDU is not older than t1, and received I-format APDUs have not been
left unacknowledged for t2 or longer.
-/
import Iec.Lemmas.Cli104Unconf
namespace Iec.Cli104
open Iec.KWindow Iec.Srv104

def CDeadlines (c : Cli) : Prop :=
  c.now ≤ c.nextT3 ∧
  (c.uTimeout ≠ 0 → c.now ≤ c.uTimeout) ∧
  (∀ e rest, c.win = e :: rest → ¬ (c.now > e.sentTime ∧ c.now - e.sentTime ≥ c.p.t1 * 1000)) ∧
  (c.unconf > 0 → ∀ l, c.lastConf = some l → ¬ (c.now > l ∧ c.now - l ≥ c.p.t2 * 1000))

theorem write_same (c : Cli) (b : List Nat) :
    (write c b).now = c.now ∧ (write c b).p = c.p ∧ (write c b).nextT3 = c.nextT3 ∧ (write c b).uTimeout = c.uTimeout ∧
    (write c b).win = c.win ∧ (write c b).unconf = c.unconf ∧ (write c b).lastConf = c.lastConf ∧ (write c b).phase = c.phase := by
  unfold write emit
  repeat' split
  all_goals exact ⟨rfl, rfl, rfl, rfl, rfl, rfl, rfl, rfl⟩

theorem phaseT3_postC (c : Cli) :
    (phaseT3 c).1.now = c.now ∧ (phaseT3 c).1.p = c.p ∧ (phaseT3 c).1.win = c.win ∧ (phaseT3 c).1.unconf = c.unconf ∧
    (phaseT3 c).1.lastConf = c.lastConf ∧ (phaseT3 c).1.phase = c.phase ∧
    ((phaseT3 c).2 = true → c.now ≤ (phaseT3 c).1.nextT3) := by
  unfold phaseT3
  split
  · split
    · exact ⟨rfl, rfl, rfl, rfl, rfl, rfl, fun h => Bool.noConfusion h⟩
    · obtain ⟨w1, w2, w3, w4, w5, w6, w7, w8⟩ := write_same c TESTFR_ACT
      refine ⟨w1, w2, w5, w6, w7, w8, fun _ => ?_⟩
      show c.now ≤ (write c TESTFR_ACT).now + (write c TESTFR_ACT).p.t3 * 1000
      rw [w1]; omega
  · rename_i h
    exact ⟨rfl, rfl, rfl, rfl, rfl, rfl, fun _ => by show c.now ≤ c.nextT3; omega⟩

theorem confirm_same (c : Cli) :
    (confirmOutstanding c).now = c.now ∧ (confirmOutstanding c).p = c.p ∧ (confirmOutstanding c).nextT3 = c.nextT3 ∧
    (confirmOutstanding c).uTimeout = c.uTimeout ∧ (confirmOutstanding c).win = c.win ∧ (confirmOutstanding c).unconf = 0 ∧
    (confirmOutstanding c).phase = c.phase := by
  unfold confirmOutstanding
  obtain ⟨w1, w2, w3, w4, w5, w6, w7, w8⟩ := write_same { c with lastConf := some c.now, unconf := 0, t2Trigger := false } [0x68, 4, 1, 0, seqLo c.vr, seqHi c.vr]
  exact ⟨w1, w2, w3, w4, w5, w6, w8⟩

theorem phaseT2_postC (c : Cli) :
    (phaseT2 c).now = c.now ∧ (phaseT2 c).p = c.p ∧ (phaseT2 c).nextT3 = c.nextT3 ∧ (phaseT2 c).uTimeout = c.uTimeout ∧
    (phaseT2 c).win = c.win ∧ (phaseT2 c).phase = c.phase ∧
    ((phaseT2 c).unconf > 0 → ∀ l, (phaseT2 c).lastConf = some l → ¬ (c.now > l ∧ c.now - l ≥ c.p.t2 * 1000)) := by
  unfold phaseT2
  split
  · split
    · rename_i l hl
      split
      · obtain ⟨a1, a2, a3, a4, a5, a6, a7⟩ := confirm_same c
        exact ⟨a1, a2, a3, a4, a5, a7, fun h => by rw [a6] at h; exact absurd h (Nat.lt_irrefl 0)⟩
      · rename_i hexp
        refine ⟨rfl, rfl, rfl, rfl, rfl, rfl, fun _ l' hl' => ?_⟩
        rw [hl] at hl'
        have : l = l' := by simpa using hl'
        subst this
        simpa using hexp
    · rename_i hn
      exact ⟨rfl, rfl, rfl, rfl, rfl, rfl, fun _ l' hl' => by rw [hn] at hl'; cases hl'⟩
  · rename_i hu
    exact ⟨rfl, rfl, rfl, rfl, rfl, rfl, fun h => absurd h hu⟩

theorem phaseT1_postC (c : Cli) :
    (phaseT1 c).1 = c ∧ ((phaseT1 c).2 = true →
      (c.uTimeout ≠ 0 → c.now ≤ c.uTimeout) ∧
      (∀ e rest, c.win = e :: rest → ¬ (c.now > e.sentTime ∧ c.now - e.sentTime ≥ c.p.t1 * 1000))) := by
  unfold phaseT1
  split
  · exact ⟨rfl, fun h => Bool.noConfusion h⟩
  · rename_i hu
    split
    · rename_i hw
      refine ⟨rfl, fun _ => ⟨fun hne => ?_, fun e rest he => by rw [hw] at he; cases he⟩⟩
      simp only [Bool.and_eq_true, bne_iff_ne, ne_eq, decide_eq_true_eq, not_and, Nat.not_lt] at hu
      exact hu hne
    · rename_i e rest hw
      split
      · exact ⟨rfl, fun h => Bool.noConfusion h⟩
      · rename_i hexp
        refine ⟨rfl, fun _ => ⟨fun hne => ?_, fun e' rest' he' => ?_⟩⟩
        · simp only [Bool.and_eq_true, bne_iff_ne, ne_eq, decide_eq_true_eq, not_and, Nat.not_lt] at hu
          exact hu hne
        · rw [hw] at he'
          simp only [List.cons.injEq] at he'
          rw [← he'.1]
          simpa using hexp

/-- **`handleTimeouts`**: a verdict "in time" means all deadlines are met afterwards -/
theorem handleTimeouts_postC (c : Cli) : (handleTimeouts c).2 = true → CDeadlines (handleTimeouts c).1 := by
  unfold handleTimeouts
  simp only
  obtain ⟨a1, a2, a3, a4, a5, a6, a7⟩ := phaseT3_postC c
  generalize phaseT3 c = r1 at a1 a2 a3 a4 a5 a6 a7
  obtain ⟨c1, ok1⟩ := r1
  simp only at a1 a2 a3 a4 a5 a6 a7 ⊢
  cases ok1
  · intro h; simp at h
  · simp only [Bool.not_true, Bool.false_eq_true, if_false]
    obtain ⟨b1, b2, b3, b4, b5, b6, b7⟩ := phaseT2_postC c1
    obtain ⟨d1, d2⟩ := phaseT1_postC (phaseT2 c1)
    intro hok
    obtain ⟨e1, e2⟩ := d2 hok
    rw [d1]
    refine ⟨?_, e1, e2, ?_⟩
    · rw [b1, b3, a1]; exact a7 rfl
    · intro hu l hl
      have := b7 hu l hl
      rw [b1, b2]; exact this

/-- **one pass of the connection loop**: if the thread stays in the loop, all deadlines are met -/
theorem loopIter_deadlines (c : Cli) (h3 : (loopIter c).phase = 3) : CDeadlines (loopIter c) := by
  unfold loopIter loopBody at *
  generalize loopRecv c = r at *
  obtain ⟨c1, lr⟩ := r
  simp only at *
  have hp := handleTimeouts_postC c1
  generalize handleTimeouts c1 = r2 at *
  obtain ⟨c2, ok⟩ := r2
  simp only at *
  split at h3
  · rename_i hrun
    rw [if_pos hrun]
    apply hp
    simp only [Bool.and_eq_true] at hrun
    exact hrun.1.2
  · exfalso
    have : (finish c2 "CLOSED").phase = 4 := by unfold finish; rfl
    rw [this] at h3; cases h3

end Iec.Cli104
