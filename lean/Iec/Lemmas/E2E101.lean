/-
Master → slave over a lossy line (unbalanced mode): the frame the master's state machine writes, fed to the
slave's `run` any number of times, reaches the slave application exactly once; afterwards both ends agree on
the next frame count bit.  Composes the primary step theorems, the encoder/parser agreement
(`secHeader_varFrame`, `readNext_varFrame`) and the secondary's request specification (`request_spec`).
-/
import Iec.Lemmas.Link101Parse
import Iec.Lemmas.Link101Hist
namespace Iec.Link101

theorem ack_lastReceived (s : SecU) (a b : Bool) : (s.ack a b).1.lastReceived = s.lastReceived ∧ (s.ack a b).1.idleTimeout = s.idleTimeout := by
  unfold SecU.ack; split <;> exact ⟨rfl, rfl⟩

theorem setState_lastReceived (s : SecU) (n : Nat) :
    (s.setState n).1.lastReceived = s.lastReceived ∧ (s.setState n).1.idleTimeout = s.idleTimeout := by
  unfold SecU.setState; split <;> exact ⟨rfl, rfl⟩

theorem userData_lastReceived (s : SecU) (bc fcb fcv : Bool) (us : Nat) (ul : Int) :
    (s.userData bc fcb fcv us ul).1.lastReceived = s.lastReceived ∧ (s.userData bc fcb fcv us ul).1.idleTimeout = s.idleTimeout := by
  unfold SecU.userData
  simp only
  exact ⟨(ack_lastReceived _ _ _).1, (ack_lastReceived _ _ _).2⟩

theorem request_data_lastReceived (s : SecU) (b : List Nat) (us : Nat) (ul : Int) (fcb : Bool) :
    (s.request (.data b us ul) fcb).1.lastReceived = s.lastReceived ∧
    (s.request (.data b us ul) fcb).1.idleTimeout = s.idleTimeout := by
  unfold SecU.request SecU.handleMessage
  simp only [show (3 : Nat) ≠ 9 by decide, show ¬ ((3 : Nat) = 0 ∨ (3 : Nat) = 7) by decide, show (3 : Nat) ≠ 11 by decide,
    show (3 : Nat) ≠ 10 by decide, if_false, if_true]
  obtain ⟨a1, a2⟩ := userData_lastReceived (({ s with ll := { s.ll with buf := (Req.data b us ul).buf } } : SecU).setState 3).1 false fcb true us ul
  obtain ⟨b1, b2⟩ := setState_lastReceived ({ s with ll := { s.ll with buf := (Req.data b us ul).buf } } : SecU) 3
  exact ⟨by rw [a1, b1], by rw [a2, b2]⟩

/-- **the slave's `run` on the octets of a confirmed user-data frame from the master's encoder is the request
`Req.data`** on the receive buffer the transceiver leaves behind -/
theorem secU_run_frame (s : SecU) (fcb : Bool) (d f : List Nat) (now : Nat)
    (ha : AddrOk s.ll.p.addrLen s.ll.address)
    (hv : varFrame s.ll.p.addrLen (ctrl 3 true false fcb true) s.ll.address d = some f) :
    s.run f now =
      ((({ s with lastReceived := now } : SecU).request (.data (f ++ s.ll.buf.drop f.length) (5 + s.ll.p.addrLen) d.length) fcb).1, [],
       (({ s with lastReceived := now } : SecU).request (.data (f ++ s.ll.buf.drop f.length) (5 + s.ll.p.addrLen) d.length) fcb).2) := by
  obtain ⟨r1, _⟩ := readNext_varFrame s.ll.p.addrLen _ s.ll.address d f s.ll.buf s.ll.p.hA hv
  have hh := secHeader_varFrame { s.ll with buf := f ++ s.ll.buf.drop f.length } 3 fcb true d f (s.ll.buf.drop f.length)
    (by decide) ha hv rfl
  obtain ⟨q1, q2⟩ := request_data_lastReceived ({ s with lastReceived := now } : SecU) (f ++ s.ll.buf.drop f.length) (5 + s.ll.p.addrLen) d.length fcb
  unfold SecU.run
  rw [r1]
  simp only
  unfold SecU.parse
  simp only [hh]
  have e : (({ s with ll := { s.ll with buf := f ++ s.ll.buf.drop f.length }, lastReceived := now } : SecU).handleMessage 3 false fcb true (5 + s.ll.p.addrLen) d.length)
      = ({ s with lastReceived := now } : SecU).request (.data (f ++ s.ll.buf.drop f.length) (5 + s.ll.p.addrLen) d.length) fcb := rfl
  rw [e]
  have hidle : ¬ ((({ s with lastReceived := now } : SecU).request (.data (f ++ s.ll.buf.drop f.length) (5 + s.ll.p.addrLen) d.length) fcb).1.state ≠ 0 ∧
      now - (({ s with lastReceived := now } : SecU).request (.data (f ++ s.ll.buf.drop f.length) (5 + s.ll.p.addrLen) d.length) fcb).1.lastReceived >
        (({ s with lastReceived := now } : SecU).request (.data (f ++ s.ll.buf.drop f.length) (5 + s.ll.p.addrLen) d.length) fcb).1.idleTimeout) := by
    rw [q1]; simp
  rw [if_neg hidle]
  simp

/-- the slave finds the same octets in its port at each of the times `ts` (copies of one frame: the original
and its retransmissions that were not lost) -/
def SecU.runMany (s : SecU) (f : List Nat) : List Nat → SecU × List Obs
  | [] => (s, [])
  | t :: ts =>
    let r := s.run f t
    let r2 := SecU.runMany r.1 f ts
    (r2.1, r.2.2 ++ r2.2)

theorem view_lastReceived (s : SecU) (now : Nat) : ({ s with lastReceived := now } : SecU).view = s.view := rfl

/-- copies of a frame whose bit is not the expected one: nothing reaches the application, nothing changes -/
theorem runMany_rejected (v : View) (fcb : Bool) (d f : List Nat) (ha : AddrOk v.p.addrLen v.address)
    (hv : varFrame v.p.addrLen (ctrl 3 true false fcb true) v.address d = some f) (hq : v.QueuesOk)
    (hne : fcb ≠ v.expectedFcb) : ∀ (ts : List Nat) (s : SecU), s.view = v →
    (s.runMany f ts).1.view = v ∧ rxOf (s.runMany f ts).2 = [] ∧
    txB (s.runMany f ts).2 = (List.replicate ts.length (v.resp (.data [] 0 0))).flatten := by
  intro ts
  induction ts with
  | nil => intro s hs; exact ⟨hs, rfl, rfl⟩
  | cons t ts ih =>
    intro s hs
    have hp : s.ll.p = v.p := by rw [← hs]; rfl
    have had : s.ll.address = v.address := by rw [← hs]; rfl
    have hrun := secU_run_frame s fcb d f t (by rw [hp, had]; exact ha) (by rw [hp, had]; exact hv)
    obtain ⟨s', hs'⟩ : ∃ s', s' = ({ s with lastReceived := t } : SecU) := ⟨_, rfl⟩
    rw [← hs'] at hrun
    have hsv : s'.view = v := by rw [hs']; exact hs
    have he : s'.expectedFcb = v.expectedFcb := by rw [← hsv]; rfl
    obtain ⟨a, b, c⟩ := request_spec s'
      (.data (f ++ s.ll.buf.drop f.length) (5 + s.ll.p.addrLen) d.length) fcb (by rw [hsv]; exact hq)
    rw [he, if_neg hne, hsv] at a
    rw [he, if_neg hne] at c
    rw [a] at b
    obtain ⟨a2, b2, c2⟩ := ih _ a
    unfold SecU.runMany
    simp only [hrun, txB_append, rxOf_append]
    rw [a2, b2, c2, b, c]
    exact ⟨rfl, rfl, by simp [List.replicate_succ, View.resp]⟩

/-- **copies of the frame carrying the expected bit: the first one is delivered, the others are not; every copy is
acknowledged; the expectation has toggled once** -/
theorem runMany_once (v : View) (d f : List Nat) (ha : AddrOk v.p.addrLen v.address)
    (hv : varFrame v.p.addrLen (ctrl 3 true false v.expectedFcb true) v.address d = some f) (hq : v.QueuesOk)
    (hd : d ≠ []) (t : Nat) (ts : List Nat) (s : SecU) (hs : s.view = v) :
    (s.runMany f (t :: ts)).1.view = { v with expectedFcb := !v.expectedFcb } ∧ rxOf (s.runMany f (t :: ts)).2 = [d] ∧
    txB (s.runMany f (t :: ts)).2 = (List.replicate (ts.length + 1) (v.resp (.data [] 0 0))).flatten := by
  have hp : s.ll.p = v.p := by rw [← hs]; rfl
  have had : s.ll.address = v.address := by rw [← hs]; rfl
  have hrun := secU_run_frame s v.expectedFcb d f t (by rw [hp, had]; exact ha) (by rw [hp, had]; exact hv)
  obtain ⟨s', hs'⟩ : ∃ s', s' = ({ s with lastReceived := t } : SecU) := ⟨_, rfl⟩
  rw [← hs'] at hrun
  have hsv : s'.view = v := by rw [hs']; exact hs
  have he : s'.expectedFcb = v.expectedFcb := by rw [← hsv]; rfl
  obtain ⟨a, b, c⟩ := request_spec s'
    (.data (f ++ s.ll.buf.drop f.length) (5 + s.ll.p.addrLen) d.length) v.expectedFcb (by rw [hsv]; exact hq)
  rw [he, hsv] at a
  simp only [if_true] at a
  rw [he] at c
  simp only [if_true] at c
  rw [a] at b
  obtain ⟨_, hud⟩ := readNext_varFrame s.ll.p.addrLen _ s.ll.address d f s.ll.buf s.ll.p.hA (by rw [hp, had]; exact hv)
  have hpay : (Req.data (f ++ s.ll.buf.drop f.length) (5 + s.ll.p.addrLen) d.length).payload = [d] := by
    have hl : (d.length : Int) > 0 := by
      cases d with
      | nil => exact absurd rfl hd
      | cons x xs => simp
    simp only [Req.payload, hl, if_true]
    exact congrArg (fun x => [x]) hud
  have hne : v.expectedFcb ≠ (v.accept (.data (f ++ s.ll.buf.drop f.length) (5 + s.ll.p.addrLen) d.length)).expectedFcb := by
    show v.expectedFcb ≠ !v.expectedFcb
    cases v.expectedFcb <;> decide
  obtain ⟨a2, b2, c2⟩ := runMany_rejected (v.accept (.data (f ++ s.ll.buf.drop f.length) (5 + s.ll.p.addrLen) d.length))
    v.expectedFcb d f ha hv hq hne ts _ a
  unfold SecU.runMany
  simp only [hrun, txB_append, rxOf_append]
  rw [a2, b2, c2, b, c, hpay]
  exact ⟨rfl, rfl, by simp [List.replicate_succ, View.resp, View.accept, ackBytes]⟩

/-! ### the master's side of one transfer -/

/-- the fields of the master's connection object that a wait in state 4 must not touch -/
def SlaveConn.core (c : SlaveConn) : Nat × Nat × Bool × List Nat × Nat × Bool × Bool :=
  (c.address, c.pstate, c.hasMsg, c.msg, c.origSend, c.testFn, c.nextFcb)

/-- idle master with a message: the frame is written with the current bit, which toggles -/
theorem pri_send (c : SlaveConn) (l : LL) (now : Nat) (h3 : c.pstate = 3) (ht : c.testFn = false) (hm : c.hasMsg = true) :
    txB (c.run l now).2.2 = (varFrame l.p.addrLen (ctrl 3 true false c.nextFcb true) c.address c.msg).toList ∧
    (c.run l now).1.core = (c.address, 4, true, c.msg, now, false, !c.nextFcb) ∧ (c.run l now).2.1.p = l.p := by
  unfold SlaveConn.run
  simp only [h3, ht, hm, show (3 : Nat) ≠ 7 by decide, show (3 : Nat) ≠ 0 by decide, show (3 : Nat) ≠ 1 by decide,
    show (3 : Nat) ≠ 2 by decide, if_false, if_true, Bool.false_eq_true]
  obtain ⟨f1, _, _, f4, _⟩ := sendVar_facts l 3 c.address true false c.nextFcb true c.msg
  exact ⟨f4, by simp [SlaveConn.core, hm, ht], f1⟩

/-- waiting for the acknowledgement, before the repeat timeout: nothing but the identical frame is written, and
nothing of the transfer changes -/
theorem pri_wait (c : SlaveConn) (l : LL) (now : Nat) (h4 : c.pstate = 4) (hr : ¬ now > c.origSend + l.p.tRepeat) :
    (c.run l now).1.core = c.core ∧ (c.run l now).2.1.p = l.p ∧
    (txB (c.run l now).2.2 = [] ∨
     txB (c.run l now).2.2 = (varFrame l.p.addrLen (ctrl 3 true false (!c.nextFcb) true) c.address c.msg).toList) := by
  unfold SlaveConn.run
  simp only [h4, show (4 : Nat) ≠ 7 by decide, show (4 : Nat) ≠ 0 by decide, show (4 : Nat) ≠ 1 by decide,
    show (4 : Nat) ≠ 2 by decide, show (4 : Nat) ≠ 3 by decide, if_false, if_true]
  obtain ⟨f1, _, _, f4, _⟩ := sendVar_facts l 3 c.address true false (!c.nextFcb) true c.msg
  by_cases hg : c.lastSend > now
  · have ha : ¬ now > now + l.p.tAck := by omega
    simp [hg, ha, SlaveConn.core, h4]
  · by_cases ha : now > c.lastSend + l.p.tAck
    · simp [hg, ha, hr, SlaveConn.core, h4, f1, f4]
    · simp [hg, ha, SlaveConn.core, h4]

/-- the acknowledgement (FC 0, no DFC) ends the transfer: idle again, message gone, bit kept -/
theorem pri_ack (c : SlaveConn) (l : LL) (now : Nat) (acd : Bool) (a : Int) (us : Nat) (ul : Int) (h4 : c.pstate = 4) :
    (c.handle l now 0 acd false a us ul).1.core = (c.address, 3, false, c.msg, c.origSend, c.testFn, c.nextFcb) ∧
    (c.handle l now 0 acd false a us ul).2.1 = l := by
  unfold SlaveConn.handle
  simp only [h4, Bool.false_eq_true, if_false, if_true, show (4 : Nat) ≠ 2 by decide]
  unfold SlaveConn.setState
  cases acd <;> simp [SlaveConn.core] <;> split <;> simp

/-! ### the unbalanced primary with a single slave -/

/-- `PriU.onMessage` seen from the one connection object -/
def recvMsg (c : SlaveConn) (l : LL) (now n : Nat) : SlaveConn × LL × List Obs :=
  match parseBP l n with
  | none => (c, l, [])
  | some h =>
    if h.single then c.handle l now 0 false false (-1) 0 0
    else if h.c / 64 % 2 = 1 then (c, l, [])
    else if (c.address : Int) = (h.address : Int) then
      c.handle l now (h.c % 16) (h.c / 32 % 2 = 1) (h.c / 16 % 2 = 1) h.address h.udStart h.udLen
    else (c, l, [])

/-- the reception part of `PriU.run` seen from the one connection object -/
def connRecv (c : SlaveConn) (l : LL) (q : List Nat) (now : Nat) : SlaveConn × LL × List Obs :=
  let r := readNext l.p.addrLen q l.buf
  let l := { l with buf := r.2.1 }
  match r.2.2 with
  | none => (c, l, [])
  | some n => recvMsg c l now n

/-- a primary serving exactly the slave `c` -/
def single (c : SlaveConn) (l : LL) : PriU := { ll := l, slaves := [c], cur := some 0, curIdx := 0, bcast := none }

theorem runSM_single (c : SlaveConn) (l : LL) (now : Nat) :
    (single c l).runSM now = (single (c.run l now).1 (c.run l now).2.1, (c.run l now).2.2) := by
  unfold PriU.runSM single
  simp only [List.isEmpty_cons, Bool.false_eq_true, if_false]
  cases hw : c.waiting <;> simp [hw]

theorem handle_single_hit (c : SlaveConn) (l : LL) (now fc : Nat) (acd dfc : Bool) (address : Int) (us : Nat) (ul : Int)
    (h : address = -1 ∨ (c.address : Int) = address) :
    (single c l).handle now fc acd dfc address us ul =
      (single (c.handle l now fc acd dfc address us ul).1 (c.handle l now fc acd dfc address us ul).2.1,
       (c.handle l now fc acd dfc address us ul).2.2) := by
  unfold PriU.handle PriU.findIdx single
  rcases h with h | h
  · subst h
    simp
  · by_cases hm : address = -1
    · subst hm; simp
    · simp [hm, h, List.findIdx?_cons]

theorem handle_single_miss (c : SlaveConn) (l : LL) (now fc : Nat) (acd dfc : Bool) (address : Int) (us : Nat) (ul : Int)
    (h1 : address ≠ -1) (h2 : (c.address : Int) ≠ address) :
    (single c l).handle now fc acd dfc address us ul = (single c l, []) := by
  unfold PriU.handle PriU.findIdx single
  simp [h1, h2, List.findIdx?_cons]

/-- **`LinkLayerPrimaryUnbalanced_run` with one slave is: receive for that connection, then run its state machine** -/
theorem priU_run_single (c : SlaveConn) (l : LL) (q : List Nat) (now : Nat) :
    (single c l).run q now =
      (single ((connRecv c l q now).1.run (connRecv c l q now).2.1 now).1 ((connRecv c l q now).1.run (connRecv c l q now).2.1 now).2.1,
       (readNext l.p.addrLen q l.buf).1,
       (connRecv c l q now).2.2 ++ ((connRecv c l q now).1.run (connRecv c l q now).2.1 now).2.2) := by
  have key : ∀ (l' : LL) (n : Nat), (single c l').onMessage now n =
      (single (recvMsg c l' now n).1 (recvMsg c l' now n).2.1, (recvMsg c l' now n).2.2) := by
    intro l' n
    unfold PriU.onMessage recvMsg
    have hll : (single c l').ll = l' := rfl
    rw [hll]
    cases hp : parseBP l' n with
    | none => rfl
    | some h =>
      simp only
      by_cases hs : h.single = true
      · simp only [hs, if_true]
        exact handle_single_hit c l' now 0 false false (-1) 0 0 (Or.inl rfl)
      · simp only [hs, if_false, Bool.false_eq_true]
        by_cases hprm : h.c / 64 % 2 = 1
        · simp only [hprm, if_true]
        · simp only [hprm, if_false]
          by_cases had : (c.address : Int) = (h.address : Int)
          · simp only [had, if_true]
            exact handle_single_hit c l' now _ _ _ _ _ _ (Or.inr had)
          · simp only [had, if_false]
            exact handle_single_miss c l' now _ _ _ _ _ _ (by omega) had
  unfold PriU.run connRecv
  have hl : (single c l).ll = l := rfl
  rw [hl]
  generalize readNext l.p.addrLen q l.buf = r
  obtain ⟨q', buf, m⟩ := r
  simp only
  have hs : ({ (single c l) with ll := { l with buf := buf } } : PriU) = single c { l with buf := buf } := rfl
  rw [hs]
  cases m with
  | none => simp only [runSM_single]
  | some n => simp only [key, runSM_single]

/-- **the master receives the slave's acknowledgement of its outstanding data frame** (fixed frame FC 0 or the
single character): idle again, message gone, bit kept -/
theorem ack_response (c : SlaveConn) (l : LL) (v : View) (acd singleOk : Bool) (A : List Nat) (now : Nat) (h4 : c.pstate = 4)
    (hadr : c.address = v.address) (hw : l.p.addrLen = v.p.addrLen) (ha : AddrOk v.p.addrLen v.address)
    (hA : A ∈ ackBytes v acd singleOk) :
    (connRecv c l A now).1.core = (c.address, 3, false, c.msg, c.origSend, c.testFn, c.nextFcb) ∧
    (connRecv c l A now).2.1.p = l.p := by
  unfold ackBytes at hA
  by_cases hs : (v.p.singleAck && singleOk) = true
  · rw [if_pos hs] at hA
    have hRf : A = singleChar := by simpa using hA
    subst hRf
    have hrecv : connRecv c l singleChar now = c.handle { l with buf := writeAt l.buf 0 [0xe5] } now 0 false false (-1) 0 0 := by
      unfold connRecv singleChar
      simp only [readNext]
      unfold recvMsg parseBP
      have : g (writeAt l.buf 0 [0xe5]) 0 = 0xe5 := by unfold writeAt g; simp
      simp [this]
    rw [hrecv]
    obtain ⟨p1, p2⟩ := pri_ack c { l with buf := writeAt l.buf 0 [0xe5] } now false (-1) 0 0 h4
    rw [p1, p2]
    exact ⟨rfl, rfl⟩
  · rw [if_neg hs] at hA
    have hRf : A = fixedFrame v.p.addrLen (ctrl 0 false false acd false) v.address := by simpa using hA
    subst hRf
    have r1 := readNext_fixedFrame l.p.addrLen (ctrl 0 false false acd false) v.address l.buf l.p.hA
    rw [hw] at r1
    have hp := parseBP_fixedFrame { l with buf := fixedFrame v.p.addrLen (ctrl 0 false false acd false) v.address ++ l.buf.drop (4 + v.p.addrLen) }
      (ctrl 0 false false acd false) v.address (l.buf.drop (4 + v.p.addrLen))
      (by show AddrOk l.p.addrLen v.address; rw [hw]; exact ha) (by show _ = fixedFrame l.p.addrLen _ _ ++ _; rw [hw]) (4 + v.p.addrLen)
    obtain ⟨cd1, cd2, cd3, cd4⟩ := ctrl_decode_sec 0 acd false (by decide)
    have hrecv : connRecv c l (fixedFrame v.p.addrLen (ctrl 0 false false acd false) v.address) now =
        c.handle { l with buf := fixedFrame v.p.addrLen (ctrl 0 false false acd false) v.address ++ l.buf.drop (4 + v.p.addrLen) }
          now 0 acd false (v.address : Int) 0 0 := by
      unfold connRecv
      rw [hw, r1]
      simp only
      unfold recvMsg
      rw [hp]
      simp only [Bool.false_eq_true, if_false, cd2, show (0 : Nat) ≠ 1 by decide, hadr, if_true, cd1,
        decide_bit _ 32 _ cd3, decide_bit _ 16 _ cd4]
    rw [hrecv]
    obtain ⟨p1, p2⟩ := pri_ack c _ now acd (v.address : Int) 0 0 h4
    rw [p1, p2]
    exact ⟨rfl, rfl⟩

/-! ### master and slave together -/

/-- the master's connection object for the slave, the master's link layer, the slave -/
structure Sys where
  c : SlaveConn
  lm : LL
  s : SecU

/-- one transfer: the application hands `d` to the idle connection; the master's state machine runs at `t0`
(writes the frame) and then at the times `waits` (each run may retransmit); copies of the frame reach the slave at
the times `t :: ts` (at least one gets through, any number of duplicates); at `tAck` one of the slave's
(identical) acknowledgements reaches the master -/
structure Transfer where
  d : List Nat
  t0 : Nat
  waits : List Nat
  t : Nat
  ts : List Nat
  tAck : Nat

/-- the master's runs while it waits -/
def waitRuns (c : SlaveConn) (l : LL) : List Nat → SlaveConn × LL × List Obs
  | [] => (c, l, [])
  | t :: ts =>
    let r := c.run l t
    let r2 := waitRuns r.1 r.2.1 ts
    (r2.1, r2.2.1, r.2.2 ++ r2.2.2)

/-- returns the new system, what the slave did, and the octet strings the master wrote -/
def Sys.transfer (y : Sys) (k : Transfer) : Sys × List Obs × List (List Nat) :=
  let c1 := { y.c with msg := k.d, hasMsg := true }
  let r := c1.run y.lm k.t0
  let f := (txB r.2.2).headD []
  let w := waitRuns r.1 r.2.1 k.waits
  let rs := y.s.runMany f (k.t :: k.ts)
  let A := (txB rs.2).headD []
  let h := connRecv w.1 w.2.1 A k.tAck
  ({ c := h.1, lm := h.2.1, s := rs.1 }, rs.2, txB r.2.2 ++ txB w.2.2)

def Sys.transfers (y : Sys) : List Transfer → Sys × List Obs × List (List Nat)
  | [] => (y, [], [])
  | k :: ks =>
    let r := y.transfer k
    let r2 := Sys.transfers r.1 ks
    (r2.1, r.2.1 ++ r2.2.1, r.2.2 ++ r2.2.2)

/-- master idle, both ends agree on the next frame count bit, same line parameters -/
structure Sync (y : Sys) : Prop where
  idle : y.c.pstate = 3
  noTest : y.c.testFn = false
  noMsg : y.c.hasMsg = false
  bit : y.s.expectedFcb = y.c.nextFcb
  addr : y.c.address = y.s.ll.address
  width : y.lm.p.addrLen = y.s.ll.p.addrLen
  addrOk : AddrOk y.s.ll.p.addrLen y.s.ll.address
  queues : y.s.view.QueuesOk

/-- the transfer is possible and stays clear of the repeat timeout (the link is not declared failed) -/
def Transfer.Ok (k : Transfer) (y : Sys) : Prop :=
  k.d ≠ [] ∧ 1 + y.lm.p.addrLen + k.d.length ≤ 255 ∧ ∀ t ∈ k.waits, ¬ t > k.t0 + y.lm.p.tRepeat

theorem waitRuns_spec (f : List Nat) : ∀ (ws : List Nat) (c : SlaveConn) (l : LL), c.pstate = 4 →
    (∀ t ∈ ws, ¬ t > c.origSend + l.p.tRepeat) →
    (varFrame l.p.addrLen (ctrl 3 true false (!c.nextFcb) true) c.address c.msg).toList = [f] →
    (waitRuns c l ws).1.core = c.core ∧ (waitRuns c l ws).2.1.p = l.p ∧ ∀ g ∈ txB (waitRuns c l ws).2.2, g = f := by
  intro ws
  induction ws with
  | nil => intro c l _ _ _; exact ⟨rfl, rfl, by simp [waitRuns]⟩
  | cons t ws ih =>
    intro c l h4 hw hf
    obtain ⟨a, b, e⟩ := pri_wait c l t h4 (hw t (by simp))
    have hc : (c.run l t).1.pstate = 4 ∧ (c.run l t).1.origSend = c.origSend ∧ (c.run l t).1.nextFcb = c.nextFcb ∧
        (c.run l t).1.address = c.address ∧ (c.run l t).1.msg = c.msg := by
      simp only [SlaveConn.core, Prod.mk.injEq] at a
      obtain ⟨a1, a2, a3, a4, a5, a6, a7⟩ := a
      exact ⟨by rw [a2, h4], a5, a7, a1, a4⟩
    obtain ⟨c1, c2, c3, c4, c5⟩ := hc
    obtain ⟨a2, b2, e2⟩ := ih (c.run l t).1 (c.run l t).2.1 c1
      (by intro t' ht'; rw [c2, b]; exact hw t' (by simp [ht']))
      (by rw [b, c3, c4, c5]; exact hf)
    unfold waitRuns
    simp only [txB_append]
    refine ⟨by rw [a2, a], by rw [b2, b], ?_⟩
    intro g hg
    rcases List.mem_append.mp hg with hg | hg
    · rcases e with e | e
      · rw [e] at hg; cases hg
      · rw [e, hf] at hg; simpa using hg
    · exact e2 g hg

/-- **one transfer**: from a synchronised state, whatever the retransmissions, losses and duplicates (as long as the
repeat timeout is not reached and one copy and one acknowledgement get through), the slave application receives the
ASDU exactly once, every frame the master wrote is the same frame, and the two ends are synchronised again -/
theorem transfer_spec (y : Sys) (k : Transfer) (hy : Sync y) (hk : k.Ok y) :
    Sync (y.transfer k).1 ∧ rxOf (y.transfer k).2.1 = [k.d] ∧ (y.transfer k).1.lm.p = y.lm.p ∧
    ∃ f, varFrame y.lm.p.addrLen (ctrl 3 true false y.c.nextFcb true) y.c.address k.d = some f ∧
      (∀ g ∈ (y.transfer k).2.2, g = f) ∧ f ∈ (y.transfer k).2.2 := by
  obtain ⟨hd, hlen, hw⟩ := hk
  -- the frame
  obtain ⟨f, hf⟩ : ∃ f, varFrame y.lm.p.addrLen (ctrl 3 true false y.c.nextFcb true) y.c.address k.d = some f := by
    unfold varFrame
    have : ¬ (1 + y.lm.p.addrLen + k.d.length > 255) := by omega
    simp [this]
  obtain ⟨c1, hc1⟩ : ∃ c1, c1 = ({ y.c with msg := k.d, hasMsg := true } : SlaveConn) := ⟨_, rfl⟩
  have h31 : c1.pstate = 3 := by rw [hc1]; exact hy.idle
  obtain ⟨p1, p2, p3⟩ := pri_send c1 y.lm k.t0 h31 (by rw [hc1]; exact hy.noTest) (by rw [hc1])
  have e1 : c1.nextFcb = y.c.nextFcb := by rw [hc1]
  have e2 : c1.address = y.c.address := by rw [hc1]
  have e3 : c1.msg = k.d := by rw [hc1]
  rw [e1, e2, e3, hf] at p1
  rw [e1, e2, e3] at p2
  simp only [SlaveConn.core, Prod.mk.injEq] at p2
  obtain ⟨q1, q2, q3, q4, q5, q6, q7⟩ := p2
  -- the waiting runs
  obtain ⟨w1, w2, w3⟩ := waitRuns_spec f k.waits (c1.run y.lm k.t0).1 (c1.run y.lm k.t0).2.1 q2
    (by intro t ht; rw [q5, p3]; exact hw t ht)
    (by rw [p3, q7, q1, q4, Bool.not_not, hf]; rfl)
  simp only [SlaveConn.core, Prod.mk.injEq] at w1
  obtain ⟨v1, v2, v3, v4, v5, v6, v7⟩ := w1
  -- the slave
  have hvs : varFrame y.s.view.p.addrLen (ctrl 3 true false y.s.view.expectedFcb true) y.s.view.address k.d = some f := by
    show varFrame y.s.ll.p.addrLen (ctrl 3 true false y.s.expectedFcb true) y.s.ll.address k.d = some f
    rw [← hy.width, hy.bit, ← hy.addr]; exact hf
  obtain ⟨s1, s2, s3⟩ := runMany_once y.s.view k.d f hy.addrOk hvs hy.queues hd k.t k.ts y.s rfl
  -- the acknowledgement
  obtain ⟨A, hA⟩ : ∃ A, ackBytes y.s.view (!y.s.view.c1.isEmpty) (!(!y.s.view.c1.isEmpty)) = [A] := by
    unfold ackBytes; split <;> exact ⟨_, rfl⟩
  have hAhead : (txB (y.s.runMany f (k.t :: k.ts)).2).headD [] = A := by
    rw [s3]
    show (List.replicate (k.ts.length + 1) (ackBytes y.s.view (!y.s.view.c1.isEmpty) (!(!y.s.view.c1.isEmpty)))).flatten.headD [] = A
    rw [hA]; simp [List.replicate_succ]
  obtain ⟨a1, a2⟩ := ack_response (waitRuns (c1.run y.lm k.t0).1 (c1.run y.lm k.t0).2.1 k.waits).1
    (waitRuns (c1.run y.lm k.t0).1 (c1.run y.lm k.t0).2.1 k.waits).2.1 y.s.view (!y.s.view.c1.isEmpty) (!(!y.s.view.c1.isEmpty)) A k.tAck
    (by rw [v2, q2]) (by rw [v1, q1]; exact hy.addr) (by rw [w2, p3]; exact hy.width) hy.addrOk (by rw [hA]; simp)
  simp only [SlaveConn.core, Prod.mk.injEq] at a1
  obtain ⟨b1, b2, b3, b4, b5, b6, b7⟩ := a1
  have hhead : (txB (c1.run y.lm k.t0).2.2).headD [] = f := by rw [p1]; rfl
  have ht : y.transfer k = (⟨(connRecv (waitRuns (c1.run y.lm k.t0).1 (c1.run y.lm k.t0).2.1 k.waits).1
        (waitRuns (c1.run y.lm k.t0).1 (c1.run y.lm k.t0).2.1 k.waits).2.1 A k.tAck).1,
      (connRecv (waitRuns (c1.run y.lm k.t0).1 (c1.run y.lm k.t0).2.1 k.waits).1
        (waitRuns (c1.run y.lm k.t0).1 (c1.run y.lm k.t0).2.1 k.waits).2.1 A k.tAck).2.1,
      (y.s.runMany f (k.t :: k.ts)).1⟩,
      (y.s.runMany f (k.t :: k.ts)).2,
      txB (c1.run y.lm k.t0).2.2 ++ txB (waitRuns (c1.run y.lm k.t0).1 (c1.run y.lm k.t0).2.1 k.waits).2.2) := by
    unfold Sys.transfer
    simp only [← hc1, hhead, hAhead]
  rw [ht]
  refine ⟨?_, s2, (by show _ = y.lm.p; rw [a2, w2, p3]), f, hf, ?_, ?_⟩
  · constructor
    · exact b2
    · show _ = false
      rw [b6, v6, q6]
    · exact b3
    · show (y.s.runMany f (k.t :: k.ts)).1.view.expectedFcb = _
      rw [s1, b7, v7, q7]
      show (!y.s.expectedFcb) = !y.c.nextFcb
      rw [hy.bit]
    · show _ = (y.s.runMany f (k.t :: k.ts)).1.view.address
      rw [s1, b1, v1, q1]; exact hy.addr
    · show _ = (y.s.runMany f (k.t :: k.ts)).1.view.p.addrLen
      rw [s1, a2, w2, p3]; exact hy.width
    · show AddrOk (y.s.runMany f (k.t :: k.ts)).1.view.p.addrLen (y.s.runMany f (k.t :: k.ts)).1.view.address
      rw [s1]; exact hy.addrOk
    · rw [s1]; exact hy.queues
  · intro g hg
    rcases List.mem_append.mp hg with hg | hg
    · rw [p1] at hg; simpa using hg
    · exact w3 g hg
  · rw [p1]; simp

/-- **every ASDU the master application sends reaches the slave application exactly once and in order**: any
number of transfers, each with its own pattern of retransmissions, losses and duplicates -/
theorem transfers_spec : ∀ (ks : List Transfer) (y : Sys), Sync y →
    (∀ k ∈ ks, k.d ≠ [] ∧ 1 + y.lm.p.addrLen + k.d.length ≤ 255 ∧ ∀ t ∈ k.waits, ¬ t > k.t0 + y.lm.p.tRepeat) →
    Sync (y.transfers ks).1 ∧ rxOf (y.transfers ks).2.1 = ks.map (·.d) := by
  intro ks
  induction ks with
  | nil => intro y hy _; exact ⟨hy, rfl⟩
  | cons k ks ih =>
    intro y hy hks
    obtain ⟨a, b, hp, _⟩ := transfer_spec y k hy (hks k (by simp))
    obtain ⟨a2, b2⟩ := ih (y.transfer k).1 a (by intro k' hk'; rw [hp]; exact hks k' (by simp [hk']))
    unfold Sys.transfers
    simp only [rxOf_append]
    exact ⟨a2, by rw [b, b2]; rfl⟩

/-! ## slave → master: polls -/

theorem answer_lastReceived (s : SecU) (a : Option (List Nat)) :
    (s.answer a).1.lastReceived = s.lastReceived ∧ (s.answer a).1.idleTimeout = s.idleTimeout := by
  unfold SecU.answer
  simp only
  split
  · exact ⟨rfl, rfl⟩
  · split <;> exact ⟨rfl, rfl⟩

theorem poll_lastReceived (s : SecU) (cls1 fcb fcv : Bool) :
    (s.poll cls1 fcb fcv).1.lastReceived = s.lastReceived ∧ (s.poll cls1 fcb fcv).1.idleTimeout = s.idleTimeout := by
  unfold SecU.poll
  simp only
  refine ⟨(answer_lastReceived _ _).1.trans ?_, (answer_lastReceived _ _).2.trans ?_⟩
  · repeat' split
    all_goals rfl
  · repeat' split
    all_goals rfl

theorem request_poll_lastReceived (s : SecU) (b : List Nat) (cls1 fcb : Bool) :
    (s.request (.poll b cls1) fcb).1.lastReceived = s.lastReceived ∧
    (s.request (.poll b cls1) fcb).1.idleTimeout = s.idleTimeout := by
  obtain ⟨b1, b2⟩ := setState_lastReceived ({ s with ll := { s.ll with buf := (Req.poll b cls1).buf } } : SecU) 3
  obtain ⟨a1, a2⟩ := poll_lastReceived (({ s with ll := { s.ll with buf := (Req.poll b cls1).buf } } : SecU).setState 3).1 cls1 fcb true
  unfold SecU.request SecU.handleMessage
  cases cls1
  · simp only [Bool.false_eq_true, if_false, show (11 : Nat) ≠ 9 by decide, show ¬ ((11 : Nat) = 0 ∨ (11 : Nat) = 7) by decide, if_true]
    exact ⟨by rw [a1, b1], by rw [a2, b2]⟩
  · simp only [if_true, show (10 : Nat) ≠ 9 by decide, show ¬ ((10 : Nat) = 0 ∨ (10 : Nat) = 7) by decide, if_false,
      show (10 : Nat) ≠ 11 by decide]
    exact ⟨by rw [a1, b1], by rw [a2, b2]⟩

/-- the function code of a class-1 / class-2 request -/
def pollFc (cls1 : Bool) : Nat := if cls1 then 10 else 11

/-- **the slave's `run` on the octets of a class-1/2 request from the master's encoder is the request `Req.poll`** -/
theorem secU_run_poll (s : SecU) (cls1 fcb : Bool) (now : Nat) (ha : AddrOk s.ll.p.addrLen s.ll.address) :
    s.run (fixedFrame s.ll.p.addrLen (ctrl (pollFc cls1) true false fcb true) s.ll.address) now =
      ((({ s with lastReceived := now } : SecU).request
          (.poll (fixedFrame s.ll.p.addrLen (ctrl (pollFc cls1) true false fcb true) s.ll.address ++ s.ll.buf.drop (4 + s.ll.p.addrLen)) cls1) fcb).1, [],
       (({ s with lastReceived := now } : SecU).request
          (.poll (fixedFrame s.ll.p.addrLen (ctrl (pollFc cls1) true false fcb true) s.ll.address ++ s.ll.buf.drop (4 + s.ll.p.addrLen)) cls1) fcb).2) := by
  have r1 := readNext_fixedFrame s.ll.p.addrLen (ctrl (pollFc cls1) true false fcb true) s.ll.address s.ll.buf s.ll.p.hA
  have hh := secHeader_fixedFrame
    { s.ll with buf := fixedFrame s.ll.p.addrLen (ctrl (pollFc cls1) true false fcb true) s.ll.address ++ s.ll.buf.drop (4 + s.ll.p.addrLen) }
    (pollFc cls1) fcb true (s.ll.buf.drop (4 + s.ll.p.addrLen)) (by unfold pollFc; split <;> decide) ha rfl (4 + s.ll.p.addrLen)
  obtain ⟨q1, q2⟩ := request_poll_lastReceived ({ s with lastReceived := now } : SecU)
    (fixedFrame s.ll.p.addrLen (ctrl (pollFc cls1) true false fcb true) s.ll.address ++ s.ll.buf.drop (4 + s.ll.p.addrLen)) cls1 fcb
  unfold SecU.run
  rw [r1]
  simp only
  unfold SecU.parse
  simp only [hh]
  have e : (({ s with ll := { s.ll with buf := fixedFrame s.ll.p.addrLen (ctrl (pollFc cls1) true false fcb true) s.ll.address ++ s.ll.buf.drop (4 + s.ll.p.addrLen) }, lastReceived := now } : SecU).handleMessage (pollFc cls1) false fcb true 0 0)
      = ({ s with lastReceived := now } : SecU).request
          (.poll (fixedFrame s.ll.p.addrLen (ctrl (pollFc cls1) true false fcb true) s.ll.address ++ s.ll.buf.drop (4 + s.ll.p.addrLen)) cls1) fcb := by
    unfold SecU.request pollFc
    cases cls1 <;> rfl
  rw [e]
  generalize hR : ({ s with lastReceived := now } : SecU).request
          (.poll (fixedFrame s.ll.p.addrLen (ctrl (pollFc cls1) true false fcb true) s.ll.address ++ s.ll.buf.drop (4 + s.ll.p.addrLen)) cls1) fcb = R at q1 q2
  have hidle : ¬ (R.1.state ≠ 0 ∧ now - R.1.lastReceived > R.1.idleTimeout) := by
    rw [q1]; simp
  rw [if_neg hidle]
  simp

/-- the poll frame the master writes for a station with view `v` -/
def pollFrame (v : View) (cls1 fcb : Bool) : List Nat :=
  fixedFrame v.p.addrLen (ctrl (pollFc cls1) true false fcb true) v.address

theorem runMany_poll_rejected (v : View) (cls1 fcb : Bool) (ha : AddrOk v.p.addrLen v.address) (hq : v.QueuesOk)
    (hne : fcb ≠ v.expectedFcb) : ∀ (ts : List Nat) (s : SecU), s.view = v →
    (s.runMany (pollFrame v cls1 fcb) ts).1.view = v ∧ rxOf (s.runMany (pollFrame v cls1 fcb) ts).2 = [] ∧
    txB (s.runMany (pollFrame v cls1 fcb) ts).2 = (List.replicate ts.length (pollBytes v)).flatten := by
  intro ts
  induction ts with
  | nil => intro s hs; exact ⟨hs, rfl, rfl⟩
  | cons t ts ih =>
    intro s hs
    have hp : s.ll.p = v.p := by rw [← hs]; rfl
    have had : s.ll.address = v.address := by rw [← hs]; rfl
    have hrun := secU_run_poll s cls1 fcb t (by rw [hp, had]; exact ha)
    rw [hp, had] at hrun
    obtain ⟨s', hs'⟩ : ∃ s', s' = ({ s with lastReceived := t } : SecU) := ⟨_, rfl⟩
    rw [← hs'] at hrun
    have hsv : s'.view = v := by rw [hs']; exact hs
    have he : s'.expectedFcb = v.expectedFcb := by rw [← hsv]; rfl
    obtain ⟨a, b, c⟩ := request_spec s'
      (.poll (fixedFrame v.p.addrLen (ctrl (pollFc cls1) true false fcb true) v.address ++ s.ll.buf.drop (4 + v.p.addrLen)) cls1) fcb (by rw [hsv]; exact hq)
    rw [he, if_neg hne, hsv] at a
    rw [he, if_neg hne] at c
    rw [a] at b
    obtain ⟨a2, b2, c2⟩ := ih _ a
    unfold SecU.runMany pollFrame
    simp only [hrun, txB_append, rxOf_append]
    unfold pollFrame at a2 b2 c2
    rw [a2, b2, c2, b, c]
    exact ⟨rfl, rfl, by simp [List.replicate_succ, View.resp]⟩

/-- **copies of a poll carrying the expected bit: the queue of the polled class is served once, every copy gets
the same response** -/
theorem runMany_poll_once (v : View) (cls1 : Bool) (ha : AddrOk v.p.addrLen v.address) (hq : v.QueuesOk)
    (t : Nat) (ts : List Nat) (s : SecU) (hs : s.view = v) :
    (s.runMany (pollFrame v cls1 v.expectedFcb) (t :: ts)).1.view = v.accept (.poll [] cls1) ∧
    rxOf (s.runMany (pollFrame v cls1 v.expectedFcb) (t :: ts)).2 = [] ∧
    txB (s.runMany (pollFrame v cls1 v.expectedFcb) (t :: ts)).2 =
      (List.replicate (ts.length + 1) (pollBytes (v.accept (.poll [] cls1)))).flatten := by
  have hp : s.ll.p = v.p := by rw [← hs]; rfl
  have had : s.ll.address = v.address := by rw [← hs]; rfl
  have hrun := secU_run_poll s cls1 v.expectedFcb t (by rw [hp, had]; exact ha)
  rw [hp, had] at hrun
  obtain ⟨s', hs'⟩ : ∃ s', s' = ({ s with lastReceived := t } : SecU) := ⟨_, rfl⟩
  rw [← hs'] at hrun
  have hsv : s'.view = v := by rw [hs']; exact hs
  have he : s'.expectedFcb = v.expectedFcb := by rw [← hsv]; rfl
  obtain ⟨a, b, c⟩ := request_spec s'
    (.poll (fixedFrame v.p.addrLen (ctrl (pollFc cls1) true false v.expectedFcb true) v.address ++ s.ll.buf.drop (4 + v.p.addrLen)) cls1) v.expectedFcb (by rw [hsv]; exact hq)
  rw [he, hsv] at a
  simp only [if_true] at a
  rw [he] at c
  simp only [if_true] at c
  rw [a] at b
  have hacc : v.accept (.poll (fixedFrame v.p.addrLen (ctrl (pollFc cls1) true false v.expectedFcb true) v.address ++ s.ll.buf.drop (4 + v.p.addrLen)) cls1)
      = v.accept (.poll [] cls1) := by cases cls1 <;> rfl
  rw [hacc] at a b
  have hne : v.expectedFcb ≠ (v.accept (.poll [] cls1)).expectedFcb := by
    rw [accept_toggles]; cases v.expectedFcb <;> decide
  have hpa : (v.accept (.poll [] cls1)).p = v.p ∧ (v.accept (.poll [] cls1)).address = v.address := by cases cls1 <;> exact ⟨rfl, rfl⟩
  have hfr : pollFrame (v.accept (.poll [] cls1)) cls1 v.expectedFcb = pollFrame v cls1 v.expectedFcb := by
    unfold pollFrame; rw [hpa.1, hpa.2]
  obtain ⟨a2, b2, c2⟩ := runMany_poll_rejected (v.accept (.poll [] cls1)) cls1 v.expectedFcb
    (by rw [hpa.1, hpa.2]; exact ha) (accept_queuesOk _ _ hq) hne ts _ a
  rw [hfr] at a2 b2 c2
  have hrun' : s.run (pollFrame v cls1 v.expectedFcb) t = _ := hrun
  unfold SecU.runMany
  simp only [hrun', txB_append, rxOf_append]
  rw [a2, b2, c2, b, c]
  exact ⟨rfl, rfl, by simp [List.replicate_succ, View.resp, Req.payload]⟩

/-! ### the master's side of a poll -/

/-- what the master hands to its application (`UserData` callback), in order -/
def udOf (o : List Obs) : List (List Nat) :=
  o.filterMap (fun x => match x with | .ud _ d => some d | _ => none)

@[simp] theorem udOf_append (a b : List Obs) : udOf (a ++ b) = udOf a ++ udOf b := by simp [udOf]
@[simp] theorem udOf_nil : udOf [] = [] := rfl

/-- fields of the connection object relevant to a poll in progress -/
def SlaveConn.pcore (c : SlaveConn) : Nat × Nat × Bool × Nat × Bool × Bool × Nat :=
  (c.address, c.pstate, c.hasMsg, c.origSend, c.testFn, c.nextFcb, c.lastReq)

/-- idle master with a pending class-1/2 request: the request frame is written with the current bit -/
theorem pri_poll_send (c : SlaveConn) (l : LL) (now : Nat) (h3 : c.pstate = 3) (ht : c.testFn = false) (hm : c.hasMsg = false)
    (hr : c.req1 = true ∨ c.req2 = true) :
    txB (c.run l now).2.2 = [fixedFrame l.p.addrLen (ctrl (pollFc c.req1) true false c.nextFcb true) c.address] ∧
    (c.run l now).1.pcore = (c.address, 5, false, now, false, !c.nextFcb, pollFc c.req1) ∧ (c.run l now).2.1.p = l.p := by
  unfold SlaveConn.run
  have hr' : (c.req1 = true ∨ c.req2 = true) := hr
  simp only [h3, ht, hm, show (3 : Nat) ≠ 7 by decide, show (3 : Nat) ≠ 0 by decide, show (3 : Nat) ≠ 1 by decide,
    show (3 : Nat) ≠ 2 by decide, if_false, if_true, Bool.false_eq_true, hr']
  cases h1 : c.req1
  · simp [SlaveConn.pcore, pollFc, hm, ht, LL.sendFixed, txB]
  · simp [SlaveConn.pcore, pollFc, hm, ht, LL.sendFixed, txB]

/-- waiting for the response, before the repeat timeout: nothing but the identical request is written -/
theorem pri_poll_wait (c : SlaveConn) (l : LL) (now : Nat) (h5 : c.pstate = 5) (hr : ¬ now > c.origSend + l.p.tRepeat) :
    (c.run l now).1.pcore = c.pcore ∧ (c.run l now).2.1.p = l.p ∧
    (txB (c.run l now).2.2 = [] ∨
     txB (c.run l now).2.2 = [fixedFrame l.p.addrLen (ctrl c.lastReq true false (!c.nextFcb) true) c.address]) := by
  unfold SlaveConn.run
  simp only [h5, show (5 : Nat) ≠ 7 by decide, show (5 : Nat) ≠ 0 by decide, show (5 : Nat) ≠ 1 by decide,
    show (5 : Nat) ≠ 2 by decide, show (5 : Nat) ≠ 3 by decide, show (5 : Nat) ≠ 4 by decide, if_false, if_true]
  by_cases hg : c.lastSend > now
  · have ha : ¬ now > now + l.p.tAck := by omega
    simp [hg, ha, SlaveConn.pcore, h5]
  · by_cases ha : now > c.lastSend + l.p.tAck
    · simp [hg, ha, hr, SlaveConn.pcore, h5, LL.sendFixed, txB]
    · simp [hg, ha, SlaveConn.pcore, h5]

/-- what is left of a poll once its response arrived: idle, nothing else touched -/
def SlaveConn.idleCore (c : SlaveConn) : Nat × Nat × Bool × Bool × Bool :=
  (c.address, c.pstate, c.hasMsg, c.testFn, c.nextFcb)

theorem setState_obs (c : SlaveConn) (n : Nat) : udOf (c.setState n).2 = [] ∧ (c.setState n).1.idleCore = c.idleCore ∧
    (c.setState n).1.lastReq = c.lastReq := by
  unfold SlaveConn.setState; split <;> exact ⟨rfl, rfl, rfl⟩

/-- the data response (FC 8) to an outstanding request: the user data goes to the application, once; idle again -/
theorem pri_poll_data (c : SlaveConn) (l : LL) (now : Nat) (acd : Bool) (a : Int) (us : Nat) (ul : Int) (h5 : c.pstate = 5) :
    udOf (c.handle l now 8 acd false a us ul).2.2 = [userDataOf l.buf us ul] ∧
    (c.handle l now 8 acd false a us ul).1.idleCore = (c.address, 3, c.hasMsg, c.testFn, c.nextFcb) ∧
    (c.handle l now 8 acd false a us ul).2.1 = l := by
  unfold SlaveConn.handle
  simp only [h5, Bool.false_eq_true, if_false, if_true, show (8 : Nat) ≠ 0 by decide, show (8 : Nat) ≠ 1 by decide,
    show (8 : Nat) ≠ 11 by decide]
  unfold SlaveConn.setState
  cases acd <;> simp [SlaveConn.idleCore, udOf] <;> split <;> simp

/-- "no data" (FC 9, or the single character = FC 0): nothing for the application; idle again -/
theorem pri_poll_nodata (c : SlaveConn) (l : LL) (now : Nat) (fc : Nat) (acd : Bool) (a : Int) (us : Nat) (ul : Int)
    (h5 : c.pstate = 5) (hfc : fc = 9 ∨ fc = 0) (ht : c.testFn = false) :
    udOf (c.handle l now fc acd false a us ul).2.2 = [] ∧
    (c.handle l now fc acd false a us ul).1.idleCore = (c.address, 3, c.hasMsg, false, c.nextFcb) ∧
    (c.handle l now fc acd false a us ul).2.1 = l := by
  unfold SlaveConn.handle
  rcases hfc with rfl | rfl
  · simp only [h5, Bool.false_eq_true, if_false, if_true, show (9 : Nat) ≠ 0 by decide, show (9 : Nat) ≠ 1 by decide,
      show (9 : Nat) ≠ 11 by decide, show (9 : Nat) ≠ 8 by decide]
    unfold SlaveConn.setState
    cases acd <;> simp [SlaveConn.idleCore, udOf, ht] <;> split <;> simp [ht]
  · simp only [h5, Bool.false_eq_true, if_false, if_true, show (5 : Nat) ≠ 2 by decide, show (5 : Nat) ≠ 4 by decide]
    unfold SlaveConn.setState
    cases acd <;> simp [SlaveConn.idleCore, udOf, ht] <;> (repeat' split) <;> simp_all

/-- **the master receives the slave's response to its outstanding request**: whatever the response the slave's
`pollBytes` produced (data, "no data" as fixed frame or as single character), the application gets the data exactly
when there is some, and the connection is idle again -/
theorem poll_response (c : SlaveConn) (l : LL) (v : View) (R : List Nat) (now : Nat) (h5 : c.pstate = 5) (ht : c.testFn = false)
    (hadr : c.address = v.address) (hw : l.p.addrLen = v.p.addrLen) (ha : AddrOk v.p.addrLen v.address)
    (hR : R ∈ pollBytes v) :
    udOf (connRecv c l R now).2.2 = (if v.userData.length > 0 then [v.userData] else []) ∧
    (connRecv c l R now).1.idleCore = (c.address, 3, c.hasMsg, false, c.nextFcb) ∧ (connRecv c l R now).2.1.p = l.p := by
  unfold pollBytes at hR
  simp only at hR
  by_cases hu : v.userData.length > 0
  · rw [if_pos hu] at hR
    rw [if_pos hu]
    cases hvf : varFrame v.p.addrLen (ctrl 8 false false (!v.c1.isEmpty) false) v.address v.userData with
    | none => rw [hvf] at hR; cases hR
    | some f =>
      rw [hvf] at hR
      have hRf : R = f := by simpa using hR
      subst hRf
      obtain ⟨r1, r2⟩ := readNext_varFrame l.p.addrLen _ v.address v.userData R l.buf l.p.hA (by rw [hw]; exact hvf)
      have hp := parseBP_varFrame { l with buf := R ++ l.buf.drop R.length } _ v.address v.userData R (l.buf.drop R.length)
        (by show AddrOk l.p.addrLen v.address; rw [hw]; exact ha) (by show varFrame l.p.addrLen _ _ _ = _; rw [hw]; exact hvf) rfl
      obtain ⟨cd1, cd2, cd3, cd4⟩ := ctrl_decode_sec 8 (!v.c1.isEmpty) false (by decide)
      have hrecv : connRecv c l R now = c.handle { l with buf := R ++ l.buf.drop R.length } now 8 (!v.c1.isEmpty) false
          (v.address : Int) (5 + l.p.addrLen) v.userData.length := by
        unfold connRecv
        rw [r1]
        simp only
        unfold recvMsg
        rw [hp]
        simp only [Bool.false_eq_true, if_false, cd2, show (0 : Nat) ≠ 1 by decide, hadr, if_true, cd1,
          decide_bit _ 32 _ cd3, decide_bit _ 16 _ cd4]
      rw [hrecv]
      obtain ⟨p1, p2, p3⟩ := pri_poll_data c { l with buf := R ++ l.buf.drop R.length } now (!v.c1.isEmpty) (v.address : Int)
        (5 + l.p.addrLen) v.userData.length h5
      rw [p1, p3]
      refine ⟨?_, ?_, rfl⟩
      · show [userDataOf (R ++ l.buf.drop R.length) (5 + l.p.addrLen) v.userData.length] = _
        rw [r2]
      · rw [p2, ht]
  · rw [if_neg hu] at hR
    rw [if_neg hu]
    by_cases hs : (v.p.singleAck && !(!v.c1.isEmpty)) = true
    · rw [if_pos hs] at hR
      have hRf : R = singleChar := by simpa using hR
      subst hRf
      have hrecv : connRecv c l singleChar now = c.handle { l with buf := writeAt l.buf 0 [0xe5] } now 0 false false (-1) 0 0 := by
        unfold connRecv singleChar
        simp only [readNext]
        unfold recvMsg parseBP
        have : g (writeAt l.buf 0 [0xe5]) 0 = 0xe5 := by unfold writeAt g; simp
        simp [this]
      rw [hrecv]
      obtain ⟨p1, p2, p3⟩ := pri_poll_nodata c { l with buf := writeAt l.buf 0 [0xe5] } now 0 false (-1) 0 0 h5 (Or.inr rfl) ht
      rw [p1, p2, p3]
      exact ⟨rfl, rfl, rfl⟩
    · rw [if_neg hs] at hR
      have hRf : R = fixedFrame v.p.addrLen (ctrl 9 false false (!v.c1.isEmpty) false) v.address := by simpa using hR
      subst hRf
      have r1 := readNext_fixedFrame l.p.addrLen (ctrl 9 false false (!v.c1.isEmpty) false) v.address l.buf l.p.hA
      rw [hw] at r1
      have hp := parseBP_fixedFrame { l with buf := fixedFrame v.p.addrLen (ctrl 9 false false (!v.c1.isEmpty) false) v.address ++ l.buf.drop (4 + v.p.addrLen) }
        (ctrl 9 false false (!v.c1.isEmpty) false) v.address (l.buf.drop (4 + v.p.addrLen))
        (by show AddrOk l.p.addrLen v.address; rw [hw]; exact ha) (by show _ = fixedFrame l.p.addrLen _ _ ++ _; rw [hw]) (4 + v.p.addrLen)
      obtain ⟨cd1, cd2, cd3, cd4⟩ := ctrl_decode_sec 9 (!v.c1.isEmpty) false (by decide)
      have hrecv : connRecv c l (fixedFrame v.p.addrLen (ctrl 9 false false (!v.c1.isEmpty) false) v.address) now =
          c.handle { l with buf := fixedFrame v.p.addrLen (ctrl 9 false false (!v.c1.isEmpty) false) v.address ++ l.buf.drop (4 + v.p.addrLen) }
            now 9 (!v.c1.isEmpty) false (v.address : Int) 0 0 := by
        unfold connRecv
        rw [hw, r1]
        simp only
        unfold recvMsg
        rw [hp]
        simp only [Bool.false_eq_true, if_false, cd2, show (0 : Nat) ≠ 1 by decide, hadr, if_true, cd1,
          decide_bit _ 32 _ cd3, decide_bit _ 16 _ cd4]
      rw [hrecv]
      obtain ⟨p1, p2, p3⟩ := pri_poll_nodata c _ now 9 (!v.c1.isEmpty) (v.address : Int) 0 0 h5 (Or.inl rfl) ht
      rw [p1, p2, p3]
      exact ⟨rfl, rfl, rfl⟩

theorem pollWaits_spec : ∀ (ws : List Nat) (c : SlaveConn) (l : LL), c.pstate = 5 →
    (∀ t ∈ ws, ¬ t > c.origSend + l.p.tRepeat) →
    (waitRuns c l ws).1.pcore = c.pcore ∧ (waitRuns c l ws).2.1.p = l.p ∧
    ∀ g ∈ txB (waitRuns c l ws).2.2, g = fixedFrame l.p.addrLen (ctrl c.lastReq true false (!c.nextFcb) true) c.address := by
  intro ws
  induction ws with
  | nil => intro c l _ _; exact ⟨rfl, rfl, by simp [waitRuns]⟩
  | cons t ws ih =>
    intro c l h5 hw
    obtain ⟨a, b, e⟩ := pri_poll_wait c l t h5 (hw t (by simp))
    have ha := a
    simp only [SlaveConn.pcore, Prod.mk.injEq] at ha
    obtain ⟨a1, a2, a3, a4, a5, a6, a7⟩ := ha
    obtain ⟨a', b', e'⟩ := ih (c.run l t).1 (c.run l t).2.1 (by rw [a2, h5])
      (by intro t' ht'; rw [a4, b]; exact hw t' (by simp [ht']))
    unfold waitRuns
    simp only [txB_append]
    refine ⟨by rw [a', a], by rw [b', b], ?_⟩
    intro g hg
    rcases List.mem_append.mp hg with hg | hg
    · rcases e with e | e
      · rw [e] at hg; cases hg
      · rw [e] at hg; simpa using hg
    · have := e' g hg
      rw [this, b, a7, a6, a1]

/-- one poll: the application asks for class `cls1` data; the master's state machine runs at `t0` (writes the request)
and at the times `waits` (may retransmit it); copies of the request reach the slave at `t :: ts`; at `tR` one of the
slave's responses reaches the master -/
structure Poll where
  cls1 : Bool
  t0 : Nat
  waits : List Nat
  t : Nat
  ts : List Nat
  tR : Nat

/-- returns the new system, what the master's link layer reported to its application, the octet strings the master
wrote, and the class that was actually requested (class 1 takes precedence when an access demand is pending) -/
def Sys.poll (y : Sys) (k : Poll) : Sys × List Obs × List (List Nat) × Bool :=
  let c1 := if k.cls1 then { y.c with req1 := true } else { y.c with req2 := true }
  let r := c1.run y.lm k.t0
  let f := (txB r.2.2).headD []
  let w := waitRuns r.1 r.2.1 k.waits
  let rs := y.s.runMany f (k.t :: k.ts)
  let R := (txB rs.2).headD []
  let h := connRecv w.1 w.2.1 R k.tR
  ({ c := h.1, lm := h.2.1, s := rs.1 }, h.2.2, txB r.2.2 ++ txB w.2.2, c1.req1)

/-- every queued ASDU fits a frame -/
def View.QueuesFit (v : View) : Prop :=
  (∀ d ∈ v.c1, 1 + v.p.addrLen + d.length ≤ 255) ∧ (∀ d ∈ v.c2, 1 + v.p.addrLen + d.length ≤ 255)

theorem accept_queuesFit (v : View) (r : Req) (h : v.QueuesFit) : (v.accept r).QueuesFit := by
  obtain ⟨h1, h2⟩ := h
  cases r with
  | data => exact ⟨h1, h2⟩
  | poll b c =>
    cases c
    · exact ⟨h1, fun d hd => h2 d (List.mem_of_mem_tail hd)⟩
    · exact ⟨fun d hd => h1 d (List.mem_of_mem_tail hd), h2⟩

/-- the response the slave gives to a poll it accepted is one frame -/
theorem pollBytes_one (v : View) (cls1 : Bool) (hq : v.QueuesOk) (hf : v.QueuesFit) :
    ∃ R, pollBytes (v.accept (.poll [] cls1)) = [R] := by
  unfold pollBytes
  simp only
  by_cases hu : (v.accept (.poll [] cls1)).userData.length > 0
  · rw [if_pos hu]
    have hfit : 1 + (v.accept (.poll [] cls1)).p.addrLen + (v.accept (.poll [] cls1)).userData.length ≤ 255 := by
      cases cls1
      · show 1 + v.p.addrLen + (v.c2.head?.getD []).length ≤ 255
        cases hc : v.c2 with
        | nil => simp; have := v.p.hA; omega
        | cons d r => exact hf.2 d (by simp [hc])
      · show 1 + v.p.addrLen + (v.c1.head?.getD []).length ≤ 255
        cases hc : v.c1 with
        | nil => simp; have := v.p.hA; omega
        | cons d r => exact hf.1 d (by simp [hc])
    unfold varFrame
    have : ¬ (1 + (v.accept (.poll [] cls1)).p.addrLen + (v.accept (.poll [] cls1)).userData.length > 255) := by omega
    simp [this]
  · rw [if_neg hu]
    split <;> exact ⟨_, rfl⟩

/-- **one poll**: from a synchronised state, whatever the retransmissions, losses and duplicates (short of the repeat
timeout, one request and one response getting through), the slave serves the polled queue exactly once, the master
application receives that ASDU exactly once (or nothing when the queue was empty), every request frame the master
wrote is the same frame, and the two ends are synchronised again -/
theorem poll_spec (y : Sys) (k : Poll) (hy : Sync y) (hf : y.s.view.QueuesFit)
    (hk : ∀ t ∈ k.waits, ¬ t > k.t0 + y.lm.p.tRepeat) :
    Sync (y.poll k).1 ∧ (y.poll k).1.s.view = y.s.view.accept (.poll [] (k.cls1 || y.c.req1)) ∧
    (y.poll k).1.lm.p = y.lm.p ∧ (y.poll k).2.2.2 = (k.cls1 || y.c.req1) ∧
    udOf (y.poll k).2.1 =
      (if (y.s.view.accept (.poll [] (k.cls1 || y.c.req1))).userData.length > 0
        then [(y.s.view.accept (.poll [] (k.cls1 || y.c.req1))).userData] else []) ∧
    (∀ g ∈ (y.poll k).2.2.1, g = pollFrame y.s.view (k.cls1 || y.c.req1) y.s.expectedFcb) := by
  obtain ⟨c1, hc1⟩ : ∃ c1, c1 = (if k.cls1 then { y.c with req1 := true } else { y.c with req2 := true } : SlaveConn) := ⟨_, rfl⟩
  have hreq : c1.req1 = (k.cls1 || y.c.req1) := by rw [hc1]; cases k.cls1 <;> simp
  have hany : c1.req1 = true ∨ c1.req2 = true := by rw [hc1]; cases k.cls1 <;> simp
  have f1 : c1.pstate = 3 ∧ c1.testFn = false ∧ c1.hasMsg = false ∧ c1.nextFcb = y.c.nextFcb ∧ c1.address = y.c.address := by
    rw [hc1]; cases k.cls1 <;> exact ⟨hy.idle, hy.noTest, hy.noMsg, rfl, rfl⟩
  obtain ⟨g1, g2, g3, g4, g5⟩ := f1
  obtain ⟨cls, hcls⟩ : ∃ cls, cls = (k.cls1 || y.c.req1) := ⟨_, rfl⟩
  rw [← hcls]
  rw [← hcls] at hreq
  obtain ⟨p1, p2, p3⟩ := pri_poll_send c1 y.lm k.t0 g1 g2 g3 hany
  rw [hreq, g4, g5] at p1 p2
  simp only [SlaveConn.pcore, Prod.mk.injEq] at p2
  obtain ⟨q1, q2, q3, q4, q5, q6, q7⟩ := p2
  -- the frame is the poll frame for the slave's view
  have hframe : fixedFrame y.lm.p.addrLen (ctrl (pollFc cls) true false y.c.nextFcb true) y.c.address
      = pollFrame y.s.view cls y.s.view.expectedFcb := by
    unfold pollFrame
    show _ = fixedFrame y.s.ll.p.addrLen (ctrl (pollFc cls) true false y.s.expectedFcb true) y.s.ll.address
    rw [hy.width, hy.addr, hy.bit]
  rw [hframe] at p1
  -- waiting
  obtain ⟨w1, w2, w3⟩ := pollWaits_spec k.waits (c1.run y.lm k.t0).1 (c1.run y.lm k.t0).2.1 q2
    (by intro t ht; rw [q4, p3]; exact hk t ht)
  rw [p3, q7, q6, q1, Bool.not_not, hframe] at w3
  simp only [SlaveConn.pcore, Prod.mk.injEq] at w1
  obtain ⟨v1, v2, v3, v4, v5, v6, v7⟩ := w1
  -- the slave
  obtain ⟨s1, s2, s3⟩ := runMany_poll_once y.s.view cls hy.addrOk hy.queues k.t k.ts y.s rfl
  obtain ⟨R, hR⟩ := pollBytes_one y.s.view cls hy.queues hf
  have hhead : (txB (y.s.runMany (pollFrame y.s.view cls y.s.view.expectedFcb) (k.t :: k.ts)).2).headD [] = R := by
    rw [s3, hR]; simp [List.replicate_succ]
  -- the response at the master
  have hpa : (y.s.view.accept (.poll [] cls)).p = y.s.view.p ∧ (y.s.view.accept (.poll [] cls)).address = y.s.view.address := by
    cases cls <;> exact ⟨rfl, rfl⟩
  obtain ⟨r1, r2, r3⟩ := poll_response (waitRuns (c1.run y.lm k.t0).1 (c1.run y.lm k.t0).2.1 k.waits).1
    (waitRuns (c1.run y.lm k.t0).1 (c1.run y.lm k.t0).2.1 k.waits).2.1 (y.s.view.accept (.poll [] cls)) R k.tR
    (by rw [v2, q2]) (by rw [v5, q5])
    (by rw [v1, q1, hpa.2]; exact hy.addr) (by rw [w2, p3, hpa.1]; exact hy.width)
    (by rw [hpa.1, hpa.2]; exact hy.addrOk) (by rw [hR]; simp)
  have hfh : (txB (c1.run y.lm k.t0).2.2).headD [] = pollFrame y.s.view cls y.s.view.expectedFcb := by rw [p1]; rfl
  have ht : y.poll k =
      (⟨(connRecv (waitRuns (c1.run y.lm k.t0).1 (c1.run y.lm k.t0).2.1 k.waits).1
            (waitRuns (c1.run y.lm k.t0).1 (c1.run y.lm k.t0).2.1 k.waits).2.1 R k.tR).1,
        (connRecv (waitRuns (c1.run y.lm k.t0).1 (c1.run y.lm k.t0).2.1 k.waits).1
            (waitRuns (c1.run y.lm k.t0).1 (c1.run y.lm k.t0).2.1 k.waits).2.1 R k.tR).2.1,
        (y.s.runMany (pollFrame y.s.view cls y.s.view.expectedFcb) (k.t :: k.ts)).1⟩,
       (connRecv (waitRuns (c1.run y.lm k.t0).1 (c1.run y.lm k.t0).2.1 k.waits).1
            (waitRuns (c1.run y.lm k.t0).1 (c1.run y.lm k.t0).2.1 k.waits).2.1 R k.tR).2.2,
       txB (c1.run y.lm k.t0).2.2 ++ txB (waitRuns (c1.run y.lm k.t0).1 (c1.run y.lm k.t0).2.1 k.waits).2.2,
       cls) := by
    unfold Sys.poll
    simp only [← hc1, hfh, hhead, hreq]
  rw [ht]
  simp only [SlaveConn.idleCore, Prod.mk.injEq] at r2
  obtain ⟨b1, b2, b3, b4, b5⟩ := r2
  refine ⟨?_, s1, (by show _ = y.lm.p; rw [r3, w2, p3]), rfl, r1, ?_⟩
  · constructor
    · exact b2
    · exact b4
    · show _ = false
      rw [b3, v3, q3]
    · show (y.s.runMany _ (k.t :: k.ts)).1.view.expectedFcb = _
      rw [s1, accept_toggles, b5, v6, q6]
      show (!y.s.expectedFcb) = !y.c.nextFcb
      rw [hy.bit]
    · show _ = (y.s.runMany _ (k.t :: k.ts)).1.view.address
      rw [s1, hpa.2, b1, v1, q1]; exact hy.addr
    · show _ = (y.s.runMany _ (k.t :: k.ts)).1.view.p.addrLen
      rw [s1, hpa.1, r3, w2, p3]; exact hy.width
    · show AddrOk (y.s.runMany _ (k.t :: k.ts)).1.view.p.addrLen (y.s.runMany _ (k.t :: k.ts)).1.view.address
      rw [s1, hpa.1, hpa.2]; exact hy.addrOk
    · rw [s1]; exact accept_queuesOk _ _ hy.queues
  · intro g hg
    show g = pollFrame y.s.view cls y.s.view.expectedFcb
    rcases List.mem_append.mp hg with hg | hg
    · rw [p1] at hg; simpa using hg
    · exact w3 g hg

def Sys.polls (y : Sys) : List Poll → Sys × List Obs × List Bool
  | [] => (y, [], [])
  | k :: ks =>
    let r := y.poll k
    let r2 := Sys.polls r.1 ks
    (r2.1, r.2.1 ++ r2.2.1, r.2.2.2 :: r2.2.2)

/-- the specification of the slave's queues under a sequence of polls (classes as actually requested): each poll
takes the oldest entry of its class, if there is one -/
def View.serve (v : View) : List Bool → View × List (Bool × List Nat)
  | [] => (v, [])
  | c :: cs =>
    let v1 := v.accept (.poll [] c)
    let r := View.serve v1 cs
    (r.1, (if v1.userData.length > 0 then [(c, v1.userData)] else []) ++ r.2)

/-- **every poll sequence**: the master application receives exactly what the specification takes from the
slave's queues, in that order; the stations end synchronised -/
theorem polls_spec : ∀ (ks : List Poll) (y : Sys), Sync y → y.s.view.QueuesFit →
    (∀ k ∈ ks, ∀ t ∈ k.waits, ¬ t > k.t0 + y.lm.p.tRepeat) →
    Sync (y.polls ks).1 ∧ (y.polls ks).1.s.view = (y.s.view.serve (y.polls ks).2.2).1 ∧
    udOf (y.polls ks).2.1 = ((y.s.view.serve (y.polls ks).2.2).2.map (·.2)) := by
  intro ks
  induction ks with
  | nil => intro y hy _ _; exact ⟨hy, rfl, rfl⟩
  | cons k ks ih =>
    intro y hy hf hks
    obtain ⟨a1, a2, a3, a4, a5, _⟩ := poll_spec y k hy hf (hks k (by simp))
    obtain ⟨b1, b2, b3⟩ := ih (y.poll k).1 a1 (by rw [a2]; exact accept_queuesFit _ _ hf)
      (by intro k' hk' t ht; rw [a3]; exact hks k' (by simp [hk']) t ht)
    unfold Sys.polls
    simp only [udOf_append]
    rw [a4]
    unfold View.serve
    simp only
    rw [← a2, ← a4]
    refine ⟨b1, b2, ?_⟩
    rw [b3, a5, a4, a2]
    split <;> simp

/-- **first-in first-out, exactly once, per class**: what the specification hands out for one class is the
beginning of that class's queue, as long as the number of polls of the class -/
theorem serve_fifo (cls : Bool) : ∀ (cs : List Bool) (v : View), v.QueuesOk →
    ((v.serve cs).2.filter (fun x => x.1 == cls)).map (·.2) = (if cls then v.c1 else v.c2).take (cs.count cls) := by
  intro cs
  induction cs with
  | nil => intro v _; simp [View.serve]
  | cons c cs ih =>
    intro v hq
    have ih' := ih (v.accept (.poll [] c)) (accept_queuesOk _ _ hq)
    unfold View.serve
    simp only [List.filter_append, List.map_append]
    rw [ih']
    cases c <;> cases cls
    · -- class 2 polled, class 2 asked
      show _ = List.take (List.count false (false :: cs)) v.c2
      cases hc : v.c2 with
      | nil => simp [View.accept, hc]
      | cons d r =>
        have hd : d ≠ [] := hq.2 d (by simp [hc])
        have hl : d.length > 0 := by cases d with | nil => exact absurd rfl hd | cons => simp
        simp [View.accept, hc, hl]
    · show _ = List.take (List.count true (false :: cs)) v.c1
      have : (v.accept (.poll [] false)).c1 = v.c1 := rfl
      simp only [this, if_true]
      have hcnt : List.count true (false :: cs) = List.count true cs := by simp
      rw [hcnt]
      split <;> simp
    · show _ = List.take (List.count false (true :: cs)) v.c2
      have : (v.accept (.poll [] true)).c2 = v.c2 := rfl
      simp only [this, Bool.false_eq_true, if_false]
      have hcnt : List.count false (true :: cs) = List.count false cs := by simp
      rw [hcnt]
      split <;> simp
    · show _ = List.take (List.count true (true :: cs)) v.c1
      cases hc : v.c1 with
      | nil => simp [View.accept, hc]
      | cons d r =>
        have hd : d ≠ [] := hq.1 d (by simp [hc])
        have hl : d.length > 0 := by cases d with | nil => exact absurd rfl hd | cons => simp
        simp [View.accept, hc, hl]

/-! ## establishing the link: RESET REMOTE LINK and its acknowledgement -/

theorem reset_lastReceived (s : SecU) (fc : Nat) : (s.reset fc false false).1.lastReceived = s.lastReceived ∧
    (s.reset fc false false).1.idleTimeout = s.idleTimeout := by
  unfold SecU.reset
  simp only [Bool.or_self, Bool.false_eq_true, if_false]
  exact ⟨(ack_lastReceived _ _ _).1, (ack_lastReceived _ _ _).2⟩

/-- the reset frame the master writes for a station with view `v` -/
def resetFrame (v : View) : List Nat := fixedFrame v.p.addrLen (ctrl 0 true false false false) v.address

/-- **the slave's `run` on RESET REMOTE LINK**: the expectation restarts at 1, the reset is acknowledged, nothing else
the application or the peer can see changes -/
theorem secU_run_reset (s : SecU) (now : Nat) (ha : AddrOk s.ll.p.addrLen s.ll.address) :
    (s.run (resetFrame s.view) now).1.view = { s.view with expectedFcb := true } ∧
    txB (s.run (resetFrame s.view) now).2.2 = ackBytes s.view false true ∧ rxOf (s.run (resetFrame s.view) now).2.2 = [] := by
  have r1 := readNext_fixedFrame s.ll.p.addrLen (ctrl 0 true false false false) s.ll.address s.ll.buf s.ll.p.hA
  have hh := secHeader_fixedFrame
    { s.ll with buf := fixedFrame s.ll.p.addrLen (ctrl 0 true false false false) s.ll.address ++ s.ll.buf.drop (4 + s.ll.p.addrLen) }
    0 false false (s.ll.buf.drop (4 + s.ll.p.addrLen)) (by decide) ha rfl (4 + s.ll.p.addrLen)
  obtain ⟨t, ht⟩ : ∃ t, t = ({ s with ll := { s.ll with buf := fixedFrame s.ll.p.addrLen (ctrl 0 true false false false) s.ll.address ++ s.ll.buf.drop (4 + s.ll.p.addrLen) }, lastReceived := now } : SecU) := ⟨_, rfl⟩
  have hv : t.view = s.view := by rw [ht]; rfl
  -- what handleMessage does with FC 0
  obtain ⟨u, hu⟩ : ∃ u, u = t.setState 3 := ⟨_, rfl⟩
  obtain ⟨g1, g2, g3, g4⟩ := setState_facts t 3
  obtain ⟨_, h2, h3, _⟩ := setState_view t 3
  rw [← hu] at g1 g2 g3 g4 h2 h3
  have hvu : u.1.view = s.view := by rw [← hv]; simp [SecU.view, g1, g2, g3, g4]
  have hm : t.handleMessage 0 false false false 0 0 = ((u.1.reset 0 false false).1, u.2 ++ (u.1.reset 0 false false).2) := by
    unfold SecU.handleMessage
    subst hu
    simp
  have hreset : (u.1.reset 0 false false).1.view = { s.view with expectedFcb := true } ∧
      txB (u.1.reset 0 false false).2 = ackBytes s.view false true ∧ rxOf (u.1.reset 0 false false).2 = [] := by
    unfold SecU.reset
    simp only [Bool.or_self, Bool.false_eq_true, if_false]
    obtain ⟨a, b, c⟩ := ack_facts ({ u.1 with expectedFcb := true } : SecU) false true
    refine ⟨?_, ?_, ?_⟩
    · rw [a]; show ({ u.1 with expectedFcb := true } : SecU).view = _
      have : ({ u.1 with expectedFcb := true } : SecU).view = { u.1.view with expectedFcb := true } := rfl
      rw [this, hvu]
    · rw [txB_append, b]
      have : ({ u.1 with expectedFcb := true } : SecU).view = { u.1.view with expectedFcb := true } := rfl
      rw [this, hvu]
      simp [txB, ackBytes]
    · rw [rxOf_append, c]; simp [rxOf]
  obtain ⟨q1, q2⟩ := reset_lastReceived u.1 0
  obtain ⟨sl1, sl2⟩ := setState_lastReceived t 3
  rw [← hu] at sl1 sl2
  have hrun : s.run (resetFrame s.view) now = ((u.1.reset 0 false false).1, [], u.2 ++ (u.1.reset 0 false false).2) := by
    have hrf : resetFrame s.view = fixedFrame s.ll.p.addrLen (ctrl 0 true false false false) s.ll.address := rfl
    rw [hrf]
    unfold SecU.run
    rw [r1]
    simp only
    unfold SecU.parse
    simp only [hh]
    have e : (({ s with ll := { s.ll with buf := fixedFrame s.ll.p.addrLen (ctrl 0 true false false false) s.ll.address ++ s.ll.buf.drop (4 + s.ll.p.addrLen) }, lastReceived := now } : SecU).handleMessage 0 false false false 0 0)
        = t.handleMessage 0 false false false 0 0 := by rw [ht]
    rw [e, hm]
    have hidle : ¬ ((u.1.reset 0 false false).1.state ≠ 0 ∧ now - (u.1.reset 0 false false).1.lastReceived > (u.1.reset 0 false false).1.idleTimeout) := by
      rw [q1, sl1, ht]; simp
    rw [if_neg hidle]
    simp
  rw [hrun]
  simp only [txB_append, rxOf_append, h2, h3, List.nil_append]
  exact hreset

/-- the master sends RESET REMOTE LINK (state 1, the status of link was answered): its frame count bit restarts at 1 -/
theorem pri_reset_send (c : SlaveConn) (l : LL) (now : Nat) (h1 : c.pstate = 1) (hw : c.waiting = false) :
    txB (c.run l now).2.2 = [fixedFrame l.p.addrLen (ctrl 0 true false false false) c.address] ∧
    (c.run l now).1.idleCore = (c.address, 2, c.hasMsg, c.testFn, true) ∧ (c.run l now).2.1.p = l.p := by
  unfold SlaveConn.run
  simp only [h1, hw, show (1 : Nat) ≠ 7 by decide, show (1 : Nat) ≠ 0 by decide, if_false, if_true, Bool.false_eq_true]
  exact ⟨rfl, rfl, rfl⟩

/-- the acknowledgement of the reset: the link is available, the bit is kept -/
theorem pri_reset_ack (c : SlaveConn) (l : LL) (now : Nat) (acd : Bool) (a : Int) (us : Nat) (ul : Int) (h2 : c.pstate = 2) :
    (c.handle l now 0 acd false a us ul).1.idleCore = (c.address, 3, c.hasMsg, c.testFn, c.nextFcb) ∧
    (c.handle l now 0 acd false a us ul).2.1 = l := by
  unfold SlaveConn.handle
  simp only [h2, Bool.false_eq_true, if_false, if_true]
  unfold SlaveConn.setState
  cases acd <;> simp [SlaveConn.idleCore] <;> split <;> simp

theorem reset_ack_response (c : SlaveConn) (l : LL) (v : View) (acd singleOk : Bool) (A : List Nat) (now : Nat) (h2 : c.pstate = 2)
    (hadr : c.address = v.address) (hw : l.p.addrLen = v.p.addrLen) (ha : AddrOk v.p.addrLen v.address)
    (hA : A ∈ ackBytes v acd singleOk) :
    (connRecv c l A now).1.idleCore = (c.address, 3, c.hasMsg, c.testFn, c.nextFcb) ∧ (connRecv c l A now).2.1.p = l.p := by
  unfold ackBytes at hA
  by_cases hs : (v.p.singleAck && singleOk) = true
  · rw [if_pos hs] at hA
    have hRf : A = singleChar := by simpa using hA
    subst hRf
    have hrecv : connRecv c l singleChar now = c.handle { l with buf := writeAt l.buf 0 [0xe5] } now 0 false false (-1) 0 0 := by
      unfold connRecv singleChar
      simp only [readNext]
      unfold recvMsg parseBP
      have : g (writeAt l.buf 0 [0xe5]) 0 = 0xe5 := by unfold writeAt g; simp
      simp [this]
    rw [hrecv]
    obtain ⟨p1, p2⟩ := pri_reset_ack c { l with buf := writeAt l.buf 0 [0xe5] } now false (-1) 0 0 h2
    rw [p1, p2]
    exact ⟨rfl, rfl⟩
  · rw [if_neg hs] at hA
    have hRf : A = fixedFrame v.p.addrLen (ctrl 0 false false acd false) v.address := by simpa using hA
    subst hRf
    have r1 := readNext_fixedFrame l.p.addrLen (ctrl 0 false false acd false) v.address l.buf l.p.hA
    rw [hw] at r1
    have hp := parseBP_fixedFrame { l with buf := fixedFrame v.p.addrLen (ctrl 0 false false acd false) v.address ++ l.buf.drop (4 + v.p.addrLen) }
      (ctrl 0 false false acd false) v.address (l.buf.drop (4 + v.p.addrLen))
      (by show AddrOk l.p.addrLen v.address; rw [hw]; exact ha) (by show _ = fixedFrame l.p.addrLen _ _ ++ _; rw [hw]) (4 + v.p.addrLen)
    obtain ⟨cd1, cd2, cd3, cd4⟩ := ctrl_decode_sec 0 acd false (by decide)
    have hrecv : connRecv c l (fixedFrame v.p.addrLen (ctrl 0 false false acd false) v.address) now =
        c.handle { l with buf := fixedFrame v.p.addrLen (ctrl 0 false false acd false) v.address ++ l.buf.drop (4 + v.p.addrLen) }
          now 0 acd false (v.address : Int) 0 0 := by
      unfold connRecv
      rw [hw, r1]
      simp only
      unfold recvMsg
      rw [hp]
      simp only [Bool.false_eq_true, if_false, cd2, show (0 : Nat) ≠ 1 by decide, hadr, if_true, cd1,
        decide_bit _ 32 _ cd3, decide_bit _ 16 _ cd4]
    rw [hrecv]
    obtain ⟨p1, p2⟩ := pri_reset_ack c _ now acd (v.address : Int) 0 0 h2
    rw [p1, p2]
    exact ⟨rfl, rfl⟩

/-- the master is about to reset the link of this slave; nothing is assumed about the two frame count bits -/
structure PreSync (y : Sys) : Prop where
  st : y.c.pstate = 1
  notWaiting : y.c.waiting = false
  noTest : y.c.testFn = false
  noMsg : y.c.hasMsg = false
  addr : y.c.address = y.s.ll.address
  width : y.lm.p.addrLen = y.s.ll.p.addrLen
  addrOk : AddrOk y.s.ll.p.addrLen y.s.ll.address
  queues : y.s.view.QueuesOk

/-- link establishment: the master's state machine runs (writes RESET REMOTE LINK), the frame reaches the slave, the
slave's acknowledgement reaches the master -/
def Sys.establish (y : Sys) (t0 tS tA : Nat) : Sys × List (List Nat) :=
  let r := y.c.run y.lm t0
  let f := (txB r.2.2).headD []
  let rs := y.s.run f tS
  let A := (txB rs.2.2).headD []
  let h := connRecv r.1 r.2.1 A tA
  ({ c := h.1, lm := h.2.1, s := rs.1 }, txB r.2.2)

/-- **after an acknowledged link reset both ends agree on frame count bit 1**, whatever they held before: the state
`Sync` from which `transfers_spec` and `polls_spec` start is what the reset procedure establishes -/
theorem establish_spec (y : Sys) (t0 tS tA : Nat) (hy : PreSync y) :
    Sync (y.establish t0 tS tA).1 ∧ (y.establish t0 tS tA).1.c.nextFcb = true ∧ (y.establish t0 tS tA).1.s.expectedFcb = true ∧
    (y.establish t0 tS tA).1.s.c1 = y.s.c1 ∧ (y.establish t0 tS tA).1.s.c2 = y.s.c2 := by
  obtain ⟨p1, p2, p3⟩ := pri_reset_send y.c y.lm t0 hy.st hy.notWaiting
  have hframe : fixedFrame y.lm.p.addrLen (ctrl 0 true false false false) y.c.address = resetFrame y.s.view := by
    unfold resetFrame
    show _ = fixedFrame y.s.ll.p.addrLen _ y.s.ll.address
    rw [hy.width, hy.addr]
  rw [hframe] at p1
  simp only [SlaveConn.idleCore, Prod.mk.injEq] at p2
  obtain ⟨q1, q2, q3, q4, q5⟩ := p2
  obtain ⟨s1, s2, s3⟩ := secU_run_reset y.s tS hy.addrOk
  obtain ⟨A, hA⟩ : ∃ A, ackBytes y.s.view false true = [A] := by unfold ackBytes; split <;> exact ⟨_, rfl⟩
  obtain ⟨a1, a2⟩ := reset_ack_response (y.c.run y.lm t0).1 (y.c.run y.lm t0).2.1 y.s.view false true A tA q2
    (by rw [q1]; exact hy.addr) (by rw [p3]; exact hy.width) hy.addrOk (by rw [hA]; simp)
  simp only [SlaveConn.idleCore, Prod.mk.injEq] at a1
  obtain ⟨b1, b2, b3, b4, b5⟩ := a1
  have hfh : (txB (y.c.run y.lm t0).2.2).headD [] = resetFrame y.s.view := by rw [p1]; rfl
  have hAh : (txB (y.s.run (resetFrame y.s.view) tS).2.2).headD [] = A := by rw [s2, hA]; rfl
  have ht : y.establish t0 tS tA =
      (⟨(connRecv (y.c.run y.lm t0).1 (y.c.run y.lm t0).2.1 A tA).1, (connRecv (y.c.run y.lm t0).1 (y.c.run y.lm t0).2.1 A tA).2.1,
        (y.s.run (resetFrame y.s.view) tS).1⟩, txB (y.c.run y.lm t0).2.2) := by
    unfold Sys.establish
    simp only [hfh, hAh]
  rw [ht]
  have hview : (y.s.run (resetFrame y.s.view) tS).1.view = { y.s.view with expectedFcb := true } := s1
  have he : (y.s.run (resetFrame y.s.view) tS).1.expectedFcb = true := by
    have : (y.s.run (resetFrame y.s.view) tS).1.expectedFcb = (y.s.run (resetFrame y.s.view) tS).1.view.expectedFcb := rfl
    rw [this, hview]
  refine ⟨?_, by show _ = true; rw [b5, q5], he, ?_, ?_⟩
  · constructor
    · exact b2
    · show _ = false; rw [b4, q4]; exact hy.noTest
    · show _ = false; rw [b3, q3]; exact hy.noMsg
    · show _ = _; rw [he, b5, q5]
    · show _ = (y.s.run (resetFrame y.s.view) tS).1.view.address
      rw [hview, b1, q1]; exact hy.addr
    · show _ = (y.s.run (resetFrame y.s.view) tS).1.view.p.addrLen
      rw [hview, a2, p3]; exact hy.width
    · show AddrOk (y.s.run (resetFrame y.s.view) tS).1.view.p.addrLen (y.s.run (resetFrame y.s.view) tS).1.view.address
      rw [hview]; exact hy.addrOk
    · rw [hview]; exact hy.queues
  · show (y.s.run (resetFrame y.s.view) tS).1.view.c1 = _; rw [hview]; rfl
  · show (y.s.run (resetFrame y.s.view) tS).1.view.c2 = _; rw [hview]; rfl

end Iec.Link101
