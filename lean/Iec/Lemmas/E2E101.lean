/-
Master → slave over a lossy line (unbalanced mode): the frame the master's state machine writes, fed to the
slave's `run` any number of times, reaches the slave application exactly once; afterwards both ends agree on
the next frame count bit.  Composes the primary step theorems, the encoder/parser agreement
(`secHeader_varFrame`, `readNext_varFrame`) and the secondary's request specification (`request_spec`).
-/
import Iec.Lemmas.Link101Parse
import Iec.Lemmas.Link101Hist
namespace Iec.Link101

theorem ack_lastReceived (s : SecU) (a b : Bool) : (s.ack a b).1.lastReceived = s.lastReceived ∧ (s.ack a b).1.idleTimeout = s.idleTimeout := by
  unfold SecU.ack; split <;> exact ⟨rfl, rfl⟩

theorem setState_lastReceived (s : SecU) (n : Nat) :
    (s.setState n).1.lastReceived = s.lastReceived ∧ (s.setState n).1.idleTimeout = s.idleTimeout := by
  unfold SecU.setState; split <;> exact ⟨rfl, rfl⟩

theorem userData_lastReceived (s : SecU) (bc fcb fcv : Bool) (us : Nat) (ul : Int) :
    (s.userData bc fcb fcv us ul).1.lastReceived = s.lastReceived ∧ (s.userData bc fcb fcv us ul).1.idleTimeout = s.idleTimeout := by
  unfold SecU.userData
  simp only
  exact ⟨(ack_lastReceived _ _ _).1, (ack_lastReceived _ _ _).2⟩

theorem request_data_lastReceived (s : SecU) (b : List Nat) (us : Nat) (ul : Int) (fcb : Bool) :
    (s.request (.data b us ul) fcb).1.lastReceived = s.lastReceived ∧
    (s.request (.data b us ul) fcb).1.idleTimeout = s.idleTimeout := by
  unfold SecU.request SecU.handleMessage
  simp only [show (3 : Nat) ≠ 9 by decide, show ¬ ((3 : Nat) = 0 ∨ (3 : Nat) = 7) by decide, show (3 : Nat) ≠ 11 by decide,
    show (3 : Nat) ≠ 10 by decide, if_false, if_true]
  obtain ⟨a1, a2⟩ := userData_lastReceived (({ s with ll := { s.ll with buf := (Req.data b us ul).buf } } : SecU).setState 3).1 false fcb true us ul
  obtain ⟨b1, b2⟩ := setState_lastReceived ({ s with ll := { s.ll with buf := (Req.data b us ul).buf } } : SecU) 3
  exact ⟨by rw [a1, b1], by rw [a2, b2]⟩

/-- **the slave's `run` on the octets of a confirmed user-data frame from the master's encoder is the request
`Req.data`** on the receive buffer the transceiver leaves behind -/
theorem secU_run_frame (s : SecU) (fcb : Bool) (d f : List Nat) (now : Nat)
    (ha : AddrOk s.ll.p.addrLen s.ll.address)
    (hv : varFrame s.ll.p.addrLen (ctrl 3 true false fcb true) s.ll.address d = some f) :
    s.run f now =
      ((({ s with lastReceived := now } : SecU).request (.data (f ++ s.ll.buf.drop f.length) (5 + s.ll.p.addrLen) d.length) fcb).1, [],
       (({ s with lastReceived := now } : SecU).request (.data (f ++ s.ll.buf.drop f.length) (5 + s.ll.p.addrLen) d.length) fcb).2) := by
  obtain ⟨r1, _⟩ := readNext_varFrame s.ll.p.addrLen _ s.ll.address d f s.ll.buf s.ll.p.hA hv
  have hh := secHeader_varFrame { s.ll with buf := f ++ s.ll.buf.drop f.length } 3 fcb true d f (s.ll.buf.drop f.length)
    (by decide) ha hv rfl
  obtain ⟨q1, q2⟩ := request_data_lastReceived ({ s with lastReceived := now } : SecU) (f ++ s.ll.buf.drop f.length) (5 + s.ll.p.addrLen) d.length fcb
  unfold SecU.run
  rw [r1]
  simp only
  unfold SecU.parse
  simp only [hh]
  have e : (({ s with ll := { s.ll with buf := f ++ s.ll.buf.drop f.length }, lastReceived := now } : SecU).handleMessage 3 false fcb true (5 + s.ll.p.addrLen) d.length)
      = ({ s with lastReceived := now } : SecU).request (.data (f ++ s.ll.buf.drop f.length) (5 + s.ll.p.addrLen) d.length) fcb := rfl
  rw [e]
  have hidle : ¬ ((({ s with lastReceived := now } : SecU).request (.data (f ++ s.ll.buf.drop f.length) (5 + s.ll.p.addrLen) d.length) fcb).1.state ≠ 0 ∧
      now - (({ s with lastReceived := now } : SecU).request (.data (f ++ s.ll.buf.drop f.length) (5 + s.ll.p.addrLen) d.length) fcb).1.lastReceived >
        (({ s with lastReceived := now } : SecU).request (.data (f ++ s.ll.buf.drop f.length) (5 + s.ll.p.addrLen) d.length) fcb).1.idleTimeout) := by
    rw [q1]; simp
  rw [if_neg hidle]
  simp

/-- the slave finds the same octets in its port at each of the times `ts` (copies of one frame: the original
and its retransmissions that were not lost) -/
def SecU.runMany (s : SecU) (f : List Nat) : List Nat → SecU × List Obs
  | [] => (s, [])
  | t :: ts =>
    let r := s.run f t
    let r2 := SecU.runMany r.1 f ts
    (r2.1, r.2.2 ++ r2.2)

theorem view_lastReceived (s : SecU) (now : Nat) : ({ s with lastReceived := now } : SecU).view = s.view := rfl

/-- copies of a frame whose bit is not the expected one: nothing reaches the application, nothing changes -/
theorem runMany_rejected (v : View) (fcb : Bool) (d f : List Nat) (ha : AddrOk v.p.addrLen v.address)
    (hv : varFrame v.p.addrLen (ctrl 3 true false fcb true) v.address d = some f) (hq : v.QueuesOk)
    (hne : fcb ≠ v.expectedFcb) : ∀ (ts : List Nat) (s : SecU), s.view = v →
    (s.runMany f ts).1.view = v ∧ rxOf (s.runMany f ts).2 = [] ∧
    txB (s.runMany f ts).2 = (List.replicate ts.length (v.resp (.data [] 0 0))).flatten := by
  intro ts
  induction ts with
  | nil => intro s hs; exact ⟨hs, rfl, rfl⟩
  | cons t ts ih =>
    intro s hs
    have hp : s.ll.p = v.p := by rw [← hs]; rfl
    have had : s.ll.address = v.address := by rw [← hs]; rfl
    have hrun := secU_run_frame s fcb d f t (by rw [hp, had]; exact ha) (by rw [hp, had]; exact hv)
    obtain ⟨s', hs'⟩ : ∃ s', s' = ({ s with lastReceived := t } : SecU) := ⟨_, rfl⟩
    rw [← hs'] at hrun
    have hsv : s'.view = v := by rw [hs']; exact hs
    have he : s'.expectedFcb = v.expectedFcb := by rw [← hsv]; rfl
    obtain ⟨a, b, c⟩ := request_spec s'
      (.data (f ++ s.ll.buf.drop f.length) (5 + s.ll.p.addrLen) d.length) fcb (by rw [hsv]; exact hq)
    rw [he, if_neg hne, hsv] at a
    rw [he, if_neg hne] at c
    rw [a] at b
    obtain ⟨a2, b2, c2⟩ := ih _ a
    unfold SecU.runMany
    simp only [hrun, txB_append, rxOf_append]
    rw [a2, b2, c2, b, c]
    exact ⟨rfl, rfl, by simp [List.replicate_succ, View.resp]⟩

/-- **copies of the frame carrying the expected bit: the first one is delivered, the others are not; every copy is
acknowledged; the expectation has toggled once** -/
theorem runMany_once (v : View) (d f : List Nat) (ha : AddrOk v.p.addrLen v.address)
    (hv : varFrame v.p.addrLen (ctrl 3 true false v.expectedFcb true) v.address d = some f) (hq : v.QueuesOk)
    (hd : d ≠ []) (t : Nat) (ts : List Nat) (s : SecU) (hs : s.view = v) :
    (s.runMany f (t :: ts)).1.view = { v with expectedFcb := !v.expectedFcb } ∧ rxOf (s.runMany f (t :: ts)).2 = [d] ∧
    txB (s.runMany f (t :: ts)).2 = (List.replicate (ts.length + 1) (v.resp (.data [] 0 0))).flatten := by
  have hp : s.ll.p = v.p := by rw [← hs]; rfl
  have had : s.ll.address = v.address := by rw [← hs]; rfl
  have hrun := secU_run_frame s v.expectedFcb d f t (by rw [hp, had]; exact ha) (by rw [hp, had]; exact hv)
  obtain ⟨s', hs'⟩ : ∃ s', s' = ({ s with lastReceived := t } : SecU) := ⟨_, rfl⟩
  rw [← hs'] at hrun
  have hsv : s'.view = v := by rw [hs']; exact hs
  have he : s'.expectedFcb = v.expectedFcb := by rw [← hsv]; rfl
  obtain ⟨a, b, c⟩ := request_spec s'
    (.data (f ++ s.ll.buf.drop f.length) (5 + s.ll.p.addrLen) d.length) v.expectedFcb (by rw [hsv]; exact hq)
  rw [he, hsv] at a
  simp only [if_true] at a
  rw [he] at c
  simp only [if_true] at c
  rw [a] at b
  obtain ⟨_, hud⟩ := readNext_varFrame s.ll.p.addrLen _ s.ll.address d f s.ll.buf s.ll.p.hA (by rw [hp, had]; exact hv)
  have hpay : (Req.data (f ++ s.ll.buf.drop f.length) (5 + s.ll.p.addrLen) d.length).payload = [d] := by
    have hl : (d.length : Int) > 0 := by
      cases d with
      | nil => exact absurd rfl hd
      | cons x xs => simp
    simp only [Req.payload, hl, if_true]
    exact congrArg (fun x => [x]) hud
  have hne : v.expectedFcb ≠ (v.accept (.data (f ++ s.ll.buf.drop f.length) (5 + s.ll.p.addrLen) d.length)).expectedFcb := by
    show v.expectedFcb ≠ !v.expectedFcb
    cases v.expectedFcb <;> decide
  obtain ⟨a2, b2, c2⟩ := runMany_rejected (v.accept (.data (f ++ s.ll.buf.drop f.length) (5 + s.ll.p.addrLen) d.length))
    v.expectedFcb d f ha hv hq hne ts _ a
  unfold SecU.runMany
  simp only [hrun, txB_append, rxOf_append]
  rw [a2, b2, c2, b, c, hpay]
  exact ⟨rfl, rfl, by simp [List.replicate_succ, View.resp, View.accept, ackBytes]⟩

/-! ### the master's side of one transfer -/

/-- the fields of the master's connection object that a wait in state 4 must not touch -/
def SlaveConn.core (c : SlaveConn) : Nat × Nat × Bool × List Nat × Nat × Bool × Bool :=
  (c.address, c.pstate, c.hasMsg, c.msg, c.origSend, c.testFn, c.nextFcb)

/-- idle master with a message: the frame is written with the current bit, which toggles -/
theorem pri_send (c : SlaveConn) (l : LL) (now : Nat) (h3 : c.pstate = 3) (ht : c.testFn = false) (hm : c.hasMsg = true) :
    txB (c.run l now).2.2 = (varFrame l.p.addrLen (ctrl 3 true false c.nextFcb true) c.address c.msg).toList ∧
    (c.run l now).1.core = (c.address, 4, true, c.msg, now, false, !c.nextFcb) ∧ (c.run l now).2.1.p = l.p := by
  unfold SlaveConn.run
  simp only [h3, ht, hm, show (3 : Nat) ≠ 7 by decide, show (3 : Nat) ≠ 0 by decide, show (3 : Nat) ≠ 1 by decide,
    show (3 : Nat) ≠ 2 by decide, if_false, if_true, Bool.false_eq_true]
  obtain ⟨f1, _, _, f4, _⟩ := sendVar_facts l 3 c.address true false c.nextFcb true c.msg
  exact ⟨f4, by simp [SlaveConn.core, hm, ht], f1⟩

/-- waiting for the acknowledgement, before the repeat timeout: nothing but the identical frame is written, and
nothing of the transfer changes -/
theorem pri_wait (c : SlaveConn) (l : LL) (now : Nat) (h4 : c.pstate = 4) (hr : ¬ now > c.origSend + l.p.tRepeat) :
    (c.run l now).1.core = c.core ∧ (c.run l now).2.1.p = l.p ∧
    (txB (c.run l now).2.2 = [] ∨
     txB (c.run l now).2.2 = (varFrame l.p.addrLen (ctrl 3 true false (!c.nextFcb) true) c.address c.msg).toList) := by
  unfold SlaveConn.run
  simp only [h4, show (4 : Nat) ≠ 7 by decide, show (4 : Nat) ≠ 0 by decide, show (4 : Nat) ≠ 1 by decide,
    show (4 : Nat) ≠ 2 by decide, show (4 : Nat) ≠ 3 by decide, if_false, if_true]
  obtain ⟨f1, _, _, f4, _⟩ := sendVar_facts l 3 c.address true false (!c.nextFcb) true c.msg
  by_cases hg : c.lastSend > now
  · have ha : ¬ now > now + l.p.tAck := by omega
    simp [hg, ha, SlaveConn.core, h4]
  · by_cases ha : now > c.lastSend + l.p.tAck
    · simp [hg, ha, hr, SlaveConn.core, h4, f1, f4]
    · simp [hg, ha, SlaveConn.core, h4]

/-- the acknowledgement (FC 0, no DFC) ends the transfer: idle again, message gone, bit kept -/
theorem pri_ack (c : SlaveConn) (l : LL) (now : Nat) (acd : Bool) (a : Int) (us : Nat) (ul : Int) (h4 : c.pstate = 4) :
    (c.handle l now 0 acd false a us ul).1.core = (c.address, 3, false, c.msg, c.origSend, c.testFn, c.nextFcb) ∧
    (c.handle l now 0 acd false a us ul).2.1 = l := by
  unfold SlaveConn.handle
  simp only [h4, Bool.false_eq_true, if_false, if_true, show (4 : Nat) ≠ 2 by decide]
  unfold SlaveConn.setState
  cases acd <;> simp [SlaveConn.core] <;> split <;> simp

/-! ### master and slave together -/

/-- the master's connection object for the slave, the master's link layer, the slave -/
structure Sys where
  c : SlaveConn
  lm : LL
  s : SecU

/-- one transfer: the application hands `d` to the idle connection; the master's state machine runs at `t0`
(writes the frame) and then at the times `waits` (each run may retransmit); copies of the frame reach the slave at
the times `t :: ts` (at least one gets through, any number of duplicates); at `tAck` one of the slave's
acknowledgements (ACD as it may be) reaches the master -/
structure Transfer where
  d : List Nat
  t0 : Nat
  waits : List Nat
  t : Nat
  ts : List Nat
  tAck : Nat
  acd : Bool

/-- the master's runs while it waits -/
def waitRuns (c : SlaveConn) (l : LL) : List Nat → SlaveConn × LL × List Obs
  | [] => (c, l, [])
  | t :: ts =>
    let r := c.run l t
    let r2 := waitRuns r.1 r.2.1 ts
    (r2.1, r2.2.1, r.2.2 ++ r2.2.2)

/-- returns the new system, what the slave did, and the octet strings the master wrote -/
def Sys.transfer (y : Sys) (k : Transfer) : Sys × List Obs × List (List Nat) :=
  let c1 := { y.c with msg := k.d, hasMsg := true }
  let r := c1.run y.lm k.t0
  let f := (txB r.2.2).headD []
  let w := waitRuns r.1 r.2.1 k.waits
  let rs := y.s.runMany f (k.t :: k.ts)
  let h := w.1.handle w.2.1 k.tAck 0 k.acd false y.c.address 0 0
  ({ c := h.1, lm := h.2.1, s := rs.1 }, rs.2, txB r.2.2 ++ txB w.2.2)

def Sys.transfers (y : Sys) : List Transfer → Sys × List Obs × List (List Nat)
  | [] => (y, [], [])
  | k :: ks =>
    let r := y.transfer k
    let r2 := Sys.transfers r.1 ks
    (r2.1, r.2.1 ++ r2.2.1, r.2.2 ++ r2.2.2)

/-- master idle, both ends agree on the next frame count bit, same line parameters -/
structure Sync (y : Sys) : Prop where
  idle : y.c.pstate = 3
  noTest : y.c.testFn = false
  noMsg : y.c.hasMsg = false
  bit : y.s.expectedFcb = y.c.nextFcb
  addr : y.c.address = y.s.ll.address
  width : y.lm.p.addrLen = y.s.ll.p.addrLen
  addrOk : AddrOk y.s.ll.p.addrLen y.s.ll.address
  queues : y.s.view.QueuesOk

/-- the transfer is possible and stays clear of the repeat timeout (the link is not declared failed) -/
def Transfer.Ok (k : Transfer) (y : Sys) : Prop :=
  k.d ≠ [] ∧ 1 + y.lm.p.addrLen + k.d.length ≤ 255 ∧ ∀ t ∈ k.waits, ¬ t > k.t0 + y.lm.p.tRepeat

theorem waitRuns_spec (f : List Nat) : ∀ (ws : List Nat) (c : SlaveConn) (l : LL), c.pstate = 4 →
    (∀ t ∈ ws, ¬ t > c.origSend + l.p.tRepeat) →
    (varFrame l.p.addrLen (ctrl 3 true false (!c.nextFcb) true) c.address c.msg).toList = [f] →
    (waitRuns c l ws).1.core = c.core ∧ (waitRuns c l ws).2.1.p = l.p ∧ ∀ g ∈ txB (waitRuns c l ws).2.2, g = f := by
  intro ws
  induction ws with
  | nil => intro c l _ _ _; exact ⟨rfl, rfl, by simp [waitRuns]⟩
  | cons t ws ih =>
    intro c l h4 hw hf
    obtain ⟨a, b, e⟩ := pri_wait c l t h4 (hw t (by simp))
    have hc : (c.run l t).1.pstate = 4 ∧ (c.run l t).1.origSend = c.origSend ∧ (c.run l t).1.nextFcb = c.nextFcb ∧
        (c.run l t).1.address = c.address ∧ (c.run l t).1.msg = c.msg := by
      simp only [SlaveConn.core, Prod.mk.injEq] at a
      obtain ⟨a1, a2, a3, a4, a5, a6, a7⟩ := a
      exact ⟨by rw [a2, h4], a5, a7, a1, a4⟩
    obtain ⟨c1, c2, c3, c4, c5⟩ := hc
    obtain ⟨a2, b2, e2⟩ := ih (c.run l t).1 (c.run l t).2.1 c1
      (by intro t' ht'; rw [c2, b]; exact hw t' (by simp [ht']))
      (by rw [b, c3, c4, c5]; exact hf)
    unfold waitRuns
    simp only [txB_append]
    refine ⟨by rw [a2, a], by rw [b2, b], ?_⟩
    intro g hg
    rcases List.mem_append.mp hg with hg | hg
    · rcases e with e | e
      · rw [e] at hg; cases hg
      · rw [e, hf] at hg; simpa using hg
    · exact e2 g hg

/-- **one transfer**: from a synchronised state, whatever the retransmissions, losses and duplicates (as long as the
repeat timeout is not reached and one copy and one acknowledgement get through), the slave application receives the
ASDU exactly once, every frame the master wrote is the same frame, and the two ends are synchronised again -/
theorem transfer_spec (y : Sys) (k : Transfer) (hy : Sync y) (hk : k.Ok y) :
    Sync (y.transfer k).1 ∧ rxOf (y.transfer k).2.1 = [k.d] ∧ (y.transfer k).1.lm.p = y.lm.p ∧
    ∃ f, varFrame y.lm.p.addrLen (ctrl 3 true false y.c.nextFcb true) y.c.address k.d = some f ∧
      (∀ g ∈ (y.transfer k).2.2, g = f) ∧ f ∈ (y.transfer k).2.2 := by
  obtain ⟨hd, hlen, hw⟩ := hk
  -- the frame
  obtain ⟨f, hf⟩ : ∃ f, varFrame y.lm.p.addrLen (ctrl 3 true false y.c.nextFcb true) y.c.address k.d = some f := by
    unfold varFrame
    have : ¬ (1 + y.lm.p.addrLen + k.d.length > 255) := by omega
    simp [this]
  obtain ⟨c1, hc1⟩ : ∃ c1, c1 = ({ y.c with msg := k.d, hasMsg := true } : SlaveConn) := ⟨_, rfl⟩
  have h31 : c1.pstate = 3 := by rw [hc1]; exact hy.idle
  obtain ⟨p1, p2, p3⟩ := pri_send c1 y.lm k.t0 h31 (by rw [hc1]; exact hy.noTest) (by rw [hc1])
  have e1 : c1.nextFcb = y.c.nextFcb := by rw [hc1]
  have e2 : c1.address = y.c.address := by rw [hc1]
  have e3 : c1.msg = k.d := by rw [hc1]
  rw [e1, e2, e3, hf] at p1
  rw [e1, e2, e3] at p2
  simp only [SlaveConn.core, Prod.mk.injEq] at p2
  obtain ⟨q1, q2, q3, q4, q5, q6, q7⟩ := p2
  -- the waiting runs
  obtain ⟨w1, w2, w3⟩ := waitRuns_spec f k.waits (c1.run y.lm k.t0).1 (c1.run y.lm k.t0).2.1 q2
    (by intro t ht; rw [q5, p3]; exact hw t ht)
    (by rw [p3, q7, q1, q4, Bool.not_not, hf]; rfl)
  simp only [SlaveConn.core, Prod.mk.injEq] at w1
  obtain ⟨v1, v2, v3, v4, v5, v6, v7⟩ := w1
  -- the slave
  have hvs : varFrame y.s.view.p.addrLen (ctrl 3 true false y.s.view.expectedFcb true) y.s.view.address k.d = some f := by
    show varFrame y.s.ll.p.addrLen (ctrl 3 true false y.s.expectedFcb true) y.s.ll.address k.d = some f
    rw [← hy.width, hy.bit, ← hy.addr]; exact hf
  obtain ⟨s1, s2, s3⟩ := runMany_once y.s.view k.d f hy.addrOk hvs hy.queues hd k.t k.ts y.s rfl
  -- the acknowledgement
  obtain ⟨a1, a2⟩ := pri_ack (waitRuns (c1.run y.lm k.t0).1 (c1.run y.lm k.t0).2.1 k.waits).1
    (waitRuns (c1.run y.lm k.t0).1 (c1.run y.lm k.t0).2.1 k.waits).2.1 k.tAck k.acd y.c.address 0 0 (by rw [v2, q2])
  simp only [SlaveConn.core, Prod.mk.injEq] at a1
  obtain ⟨b1, b2, b3, b4, b5, b6, b7⟩ := a1
  have hhead : (txB (c1.run y.lm k.t0).2.2).headD [] = f := by rw [p1]; rfl
  have ht : y.transfer k = (⟨((waitRuns (c1.run y.lm k.t0).1 (c1.run y.lm k.t0).2.1 k.waits).1.handle
        (waitRuns (c1.run y.lm k.t0).1 (c1.run y.lm k.t0).2.1 k.waits).2.1 k.tAck 0 k.acd false y.c.address 0 0).1,
      ((waitRuns (c1.run y.lm k.t0).1 (c1.run y.lm k.t0).2.1 k.waits).1.handle
        (waitRuns (c1.run y.lm k.t0).1 (c1.run y.lm k.t0).2.1 k.waits).2.1 k.tAck 0 k.acd false y.c.address 0 0).2.1,
      (y.s.runMany f (k.t :: k.ts)).1⟩,
      (y.s.runMany f (k.t :: k.ts)).2,
      txB (c1.run y.lm k.t0).2.2 ++ txB (waitRuns (c1.run y.lm k.t0).1 (c1.run y.lm k.t0).2.1 k.waits).2.2) := by
    unfold Sys.transfer
    simp only [← hc1, hhead]
  rw [ht]
  refine ⟨?_, s2, (by show _ = y.lm.p; rw [a2, w2, p3]), f, hf, ?_, ?_⟩
  · constructor
    · exact b2
    · show _ = false
      rw [b6, v6, q6]
    · exact b3
    · show (y.s.runMany f (k.t :: k.ts)).1.view.expectedFcb = _
      rw [s1, b7, v7, q7]
      show (!y.s.expectedFcb) = !y.c.nextFcb
      rw [hy.bit]
    · show _ = (y.s.runMany f (k.t :: k.ts)).1.view.address
      rw [s1, b1, v1, q1]; exact hy.addr
    · show _ = (y.s.runMany f (k.t :: k.ts)).1.view.p.addrLen
      rw [s1, a2, w2, p3]; exact hy.width
    · show AddrOk (y.s.runMany f (k.t :: k.ts)).1.view.p.addrLen (y.s.runMany f (k.t :: k.ts)).1.view.address
      rw [s1]; exact hy.addrOk
    · rw [s1]; exact hy.queues
  · intro g hg
    rcases List.mem_append.mp hg with hg | hg
    · rw [p1] at hg; simpa using hg
    · exact w3 g hg
  · rw [p1]; simp

/-- **every ASDU the master application sends reaches the slave application exactly once and in order**: any
number of transfers, each with its own pattern of retransmissions, losses and duplicates -/
theorem transfers_spec : ∀ (ks : List Transfer) (y : Sys), Sync y →
    (∀ k ∈ ks, k.d ≠ [] ∧ 1 + y.lm.p.addrLen + k.d.length ≤ 255 ∧ ∀ t ∈ k.waits, ¬ t > k.t0 + y.lm.p.tRepeat) →
    Sync (y.transfers ks).1 ∧ rxOf (y.transfers ks).2.1 = ks.map (·.d) := by
  intro ks
  induction ks with
  | nil => intro y hy _; exact ⟨hy, rfl⟩
  | cons k ks ih =>
    intro y hy hks
    obtain ⟨a, b, hp, _⟩ := transfer_spec y k hy (hks k (by simp))
    obtain ⟨a2, b2⟩ := ih (y.transfer k).1 a (by intro k' hk'; rw [hp]; exact hks k' (by simp [hk']))
    unfold Sys.transfers
    simp only [rxOf_append]
    exact ⟨a2, by rw [b, b2]; rfl⟩

end Iec.Link101
