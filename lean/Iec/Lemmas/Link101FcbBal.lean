/-
The frame count bit of the balanced station's primary part over every history (C15): among the frames it writes as a
primary (PRM = 1; the acknowledgements it writes as a secondary are not concerned), the first FCV frame after a RESET REMOTE
LINK carries FCB = 1, every further one toggles the bit or is octet for octet the FCV frame before it.
-/
import Iec.Lemmas.Link101Fcb
namespace Iec.Link101

def prmOf (f : List Nat) : Bool := ctrlOf f / 64 % 2 = 1

/-- the discipline for a station that also writes frames as a secondary: those are skipped -/
def trackB (last : Option (List Nat)) (f : List Nat) : Option (Option (List Nat)) :=
  if prmOf f then track last f else some last

def trackObsB (last : Option (List Nat)) : Obs → Option (Option (List Nat))
  | .tx f => trackB last f.bytes
  | _ => some last

def trackAllB : Option (List Nat) → List Obs → Option (Option (List Nat))
  | last, [] => some last
  | last, o :: os => match trackObsB last o with
    | none => none
    | some last' => trackAllB last' os

theorem trackAllB_single (last : Option (List Nat)) (o : Obs) : trackAllB last [o] = trackObsB last o := by
  unfold trackAllB
  cases trackObsB last o <;> rfl

theorem trackAllB_append (last : Option (List Nat)) (a b : List Obs) :
    trackAllB last (a ++ b) = match trackAllB last a with
      | none => none
      | some l' => trackAllB l' b := by
  induction a generalizing last with
  | nil => rfl
  | cons o os ih =>
    simp only [List.cons_append, trackAllB]
    cases trackObsB last o with
    | none => rfl
    | some l' => exact ih l'

theorem trackAllB_quiet (last : Option (List Nat)) (os : List Obs) (h : ∀ o ∈ os, ∀ f, o ≠ .tx f) : trackAllB last os = some last := by
  induction os with
  | nil => rfl
  | cons o os ih =>
    have ho : trackObsB last o = some last := by
      cases o with
      | tx f => exact absurd rfl (h _ (by simp) f)
      | _ => rfl
    simp only [trackAllB, ho]
    exact ih (fun x hx => h x (by simp [hx]))

/-- decoding the control octet, any DIR -/
theorem ctrl_bitsB (fc : Nat) (hfc : fc < 16) (prm dir fcb fcv : Bool) :
    ctrl fc prm dir fcb fcv % 16 = fc ∧ (decide (ctrl fc prm dir fcb fcv / 16 % 2 = 1) = fcv) ∧
    (decide (ctrl fc prm dir fcb fcv / 32 % 2 = 1) = fcb) ∧ (decide (ctrl fc prm dir fcb fcv / 64 % 2 = 1) = prm) := by
  unfold ctrl b2n
  cases prm <;> cases dir <;> cases fcb <;> cases fcv <;> simp <;> omega

/-- a frame written as a secondary is skipped -/
theorem trackB_sec (last : Option (List Nat)) (aL fc a : Nat) (hfc : fc < 16) (dir acd dfc : Bool) :
    trackB last (fixedFrame aL (ctrl fc false dir acd dfc) a) = some last := by
  obtain ⟨_, _, _, b4⟩ := ctrl_bitsB fc hfc false dir acd dfc
  unfold trackB prmOf
  rw [ctrlOf_fixed, b4]; rfl

theorem trackB_single (last : Option (List Nat)) : trackB last singleChar = some last := by
  unfold trackB prmOf ctrlOf singleChar; simp

theorem fixed_bitsB (aL fc a : Nat) (hfc : fc < 16) (dir fcb fcv : Bool) :
    prmOf (fixedFrame aL (ctrl fc true dir fcb fcv) a) = true ∧ fcvOf (fixedFrame aL (ctrl fc true dir fcb fcv) a) = fcv ∧
    fcbOf (fixedFrame aL (ctrl fc true dir fcb fcv) a) = fcb ∧ fcOf (fixedFrame aL (ctrl fc true dir fcb fcv) a) = fc := by
  obtain ⟨b1, b2, b3, b4⟩ := ctrl_bitsB fc hfc true dir fcb fcv
  unfold prmOf fcvOf fcbOf fcOf
  rw [ctrlOf_fixed]
  exact ⟨b4, b2, b3, b1⟩

theorem var_bitsB (aL fc a : Nat) (hfc : fc < 16) (dir fcb fcv : Bool) (d f : List Nat)
    (h : varFrame aL (ctrl fc true dir fcb fcv) a d = some f) :
    prmOf f = true ∧ fcvOf f = fcv ∧ fcbOf f = fcb ∧ fcOf f = fc := by
  obtain ⟨b1, b2, b3, b4⟩ := ctrl_bitsB fc hfc true dir fcb fcv
  unfold prmOf fcvOf fcbOf fcOf
  rw [ctrlOf_var _ _ _ _ _ h]
  exact ⟨b4, b2, b3, b1⟩

/-- a primary frame without FCV that is not a reset leaves the ghost alone; a reset starts over -/
theorem trackB_plain (last : Option (List Nat)) (aL fc a : Nat) (hfc : fc < 16) (h0 : fc ≠ 0) (dir : Bool) :
    trackB last (fixedFrame aL (ctrl fc true dir false false) a) = some last := by
  obtain ⟨p1, p2, _, p4⟩ := fixed_bitsB aL fc a hfc dir false false
  unfold trackB track
  rw [p1, p4, p2]; simp [h0]

theorem trackB_reset (last : Option (List Nat)) (aL a : Nat) (dir : Bool) :
    trackB last (fixedFrame aL (ctrl 0 true dir false false) a) = some none := by
  obtain ⟨p1, p2, _, p4⟩ := fixed_bitsB aL 0 a (by decide) dir false false
  unfold trackB track
  rw [p1, p4, p2]; simp

theorem trackB_new (last : Option (List Nat)) (f : List Nat) (b : Bool) (hp : prmOf f = true) (hv : fcvOf f = true) (hb : fcbOf f = b)
    (hl : Expects last b) : trackB last f = some (some f) := by
  unfold trackB; rw [hp]; exact track_new last f b hv hb hl

theorem trackB_repeat (g : List Nat) (hp : prmOf g = true) (hv : fcvOf g = true) : trackB (some g) g = some (some g) := by
  unfold trackB; rw [hp]; exact track_repeat g hv

/-- the primary part of the station agrees with the ghost -/
structure JB (s : Bal) (last : Option (List Nat)) : Prop where
  outOk : ∀ d ∈ s.out, Framable s.ll.p.addrLen d
  ghost : match last with
    | none => s.pstate ≠ 4 ∧ ((s.pstate = 2 ∨ s.pstate = 3) → s.nextFcb = true)
    | some g => prmOf g = true ∧ fcvOf g = true ∧ fcbOf g = !s.nextFcb ∧
        (s.pstate = 4 →
          (s.testSent = true → g = fixedFrame s.ll.p.addrLen (ctrl 2 true s.ll.dir (!s.nextFcb) true) s.other) ∧
          (s.testSent = false → varFrame s.ll.p.addrLen (ctrl 3 true s.ll.dir (!s.nextFcb) true) s.other s.lastAsdu = some g))

/-- the fields the invariant reads are unchanged (the queue may only have lost its head) -/
structure SimB (s s' : Bal) : Prop where
  p : s'.ll.p = s.ll.p
  dir : s'.ll.dir = s.ll.dir
  other : s'.other = s.other
  nextFcb : s'.nextFcb = s.nextFcb
  lastAsdu : s'.lastAsdu = s.lastAsdu
  testSent : s'.testSent = s.testSent
  out : ∀ d ∈ s'.out, d ∈ s.out

theorem SimB.refl (s : Bal) : SimB s s := ⟨rfl, rfl, rfl, rfl, rfl, rfl, fun _ h => h⟩
theorem SimB.trans {a b c : Bal} (h1 : SimB a b) (h2 : SimB b c) : SimB a c :=
  ⟨h2.p.trans h1.p, h2.dir.trans h1.dir, h2.other.trans h1.other, h2.nextFcb.trans h1.nextFcb, h2.lastAsdu.trans h1.lastAsdu,
   h2.testSent.trans h1.testSent, fun d h => h1.out d (h2.out d h)⟩

theorem JB.move {s s' : Bal} {last : Option (List Nat)} (h : JB s last) (hs : SimB s s')
    (hp : s'.pstate = s.pstate ∨ s'.pstate ≠ 4)
    (h23 : (s'.pstate = 2 ∨ s'.pstate = 3) → (s.pstate = 2 ∨ s.pstate = 3) ∨ last ≠ none) : JB s' last := by
  refine ⟨fun d hd => by rw [hs.p]; exact h.outOk d (hs.out d hd), ?_⟩
  have hg := h.ghost
  cases last with
  | none =>
    simp only at hg ⊢
    refine ⟨?_, fun h' => ?_⟩
    · rcases hp with hp | hp
      · rw [hp]; exact hg.1
      · exact hp
    · rw [hs.nextFcb]
      rcases h23 h' with h'' | h''
      · exact hg.2 h''
      · exact absurd rfl h''
  | some g =>
    simp only at hg ⊢
    obtain ⟨g1, g2, g3, g4⟩ := hg
    refine ⟨g1, g2, by rw [hs.nextFcb]; exact g3, fun h' => ?_⟩
    rcases hp with hp | hp
    · rw [hs.p, hs.dir, hs.nextFcb, hs.other, hs.lastAsdu, hs.testSent]; exact g4 (by rw [← hp]; exact h')
    · exact absurd h' hp

theorem JB.some_of_wait {s : Bal} {last : Option (List Nat)} (h : JB s last) (hp : s.pstate = 4) : last ≠ none := by
  intro hn; subst hn; exact h.ghost.1 hp

theorem JB.expects {s : Bal} {last : Option (List Nat)} (h : JB s last) (h3 : s.pstate = 3) : Expects last s.nextFcb := by
  have hg := h.ghost
  cases last with
  | none => exact hg.2 (Or.inr h3)
  | some g => exact hg.2.2.1

theorem balSetState_fields (s : Bal) (n : Nat) : SimB s (s.setState n).1 ∧ (s.setState n).1.pstate = s.pstate ∧
    (∀ o ∈ (s.setState n).2, ∀ f, o ≠ .tx f) := by
  unfold Bal.setState
  split
  · exact ⟨⟨rfl, rfl, rfl, rfl, rfl, rfl, fun _ h => h⟩, rfl, by intro o ho f; simp at ho; rw [ho]; intro h; cases h⟩
  · exact ⟨SimB.refl s, rfl, by intro o ho; simp at ho⟩

def StepOkB (last : Option (List Nat)) (r : Bal × List Obs) : Prop :=
  ∃ last', trackAllB last r.2 = some last' ∧ JB r.1 last'

theorem stepOkB_quiet {last : Option (List Nat)} {s' : Bal} {o : List Obs}
    (ho : ∀ x ∈ o, ∀ f, x ≠ .tx f) (hJ : JB s' last) : StepOkB last (s', o) :=
  ⟨last, trackAllB_quiet last o ho, hJ⟩

theorem sendFixed_obsB (l : LL) (fc a : Nat) (prm dir acd dfc : Bool) (last : Option (List Nat)) :
    trackAllB last (l.sendFixed fc a prm dir acd dfc).2 = trackB last (fixedFrame l.p.addrLen (ctrl fc prm dir acd dfc) a) ∧
    (l.sendFixed fc a prm dir acd dfc).1.p = l.p ∧ (l.sendFixed fc a prm dir acd dfc).1.dir = l.dir := by
  unfold LL.sendFixed
  exact ⟨trackAllB_single _ _, rfl, rfl⟩

theorem sendVar_obsB (l : LL) (fc a : Nat) (prm dir acd dfc : Bool) (d f : List Nat) (last : Option (List Nat))
    (hv : varFrame l.p.addrLen (ctrl fc prm dir acd dfc) a d = some f) :
    trackAllB last (l.sendVar fc a prm dir acd dfc d).2 = trackB last f ∧ (l.sendVar fc a prm dir acd dfc d).1.p = l.p ∧
    (l.sendVar fc a prm dir acd dfc d).1.dir = l.dir := by
  unfold LL.sendVar
  simp only
  split
  · rename_i h; rw [hv] at h; cases h
  · rename_i f' h
    rw [hv] at h
    have : f = f' := by simpa using h
    subst this
    exact ⟨trackAllB_single _ _, rfl, rfl⟩

/-- `setState n`, then a primary state that is not the waiting state -/
theorem JB.set_move {s : Bal} {last : Option (List Nat)} (h : JB s last) (s0 : Bal) (hs : SimB s s0) (n ps' : Nat) (hps : ps' ≠ 4)
    (h23 : (ps' = 2 ∨ ps' = 3) → (s.pstate = 2 ∨ s.pstate = 3) ∨ last ≠ none) (w : Bool) :
    JB { (s0.setState n).1 with pstate := ps', waiting := w } last := by
  obtain ⟨f1, _, _⟩ := balSetState_fields s0 n
  have hs' : SimB s { (s0.setState n).1 with pstate := ps', waiting := w } :=
    ⟨f1.p.trans hs.p, f1.dir.trans hs.dir, f1.other.trans hs.other, f1.nextFcb.trans hs.nextFcb, f1.lastAsdu.trans hs.lastAsdu,
     f1.testSent.trans hs.testSent, fun d hd => hs.out d (f1.out d hd)⟩
  exact h.move hs' (Or.inr hps) h23

/-- **`LinkLayerPrimaryBalanced_runStateMachine`** -/
theorem priRun_fcb (s : Bal) (now : Nat) (last : Option (List Nat)) (hJ : JB s last) : StepOkB last (s.priRun now) := by
  delta Bal.priRun
  extract_lets ps sC sR sI
  have hps : ps = s.pstate := rfl
  have hC : SimB s sC ∧ sC.pstate = s.pstate ∧ sC.waiting = s.waiting := by
    dsimp only [sC]; split <;> exact ⟨⟨rfl, rfl, rfl, rfl, rfl, rfl, fun _ h => h⟩, rfl, rfl⟩
  by_cases h0 : ps = 0
  · rw [if_pos h0]
    obtain ⟨t1, t2, t3⟩ := sendFixed_obsB s.ll 9 s.other true s.ll.dir false false last
    generalize s.ll.sendFixed 9 s.other true s.ll.dir false false = r at t1 t2 t3
    obtain ⟨l1, o1⟩ := r
    simp only at t1 t2 t3 ⊢
    rw [trackB_plain last _ 9 _ (by decide) (by decide)] at t1
    exact ⟨last, t1, hJ.move ⟨t2, t3, rfl, rfl, rfl, rfl, fun _ h => h⟩ (Or.inr (by simp)) (fun h => by simp at h)⟩
  · rw [if_neg h0]
    by_cases h1 : ps = 1
    · rw [if_pos h1]
      split
      · split
        · exact stepOkB_quiet (by simp) (hJ.move ⟨hC.1.p, hC.1.dir, hC.1.other, hC.1.nextFcb, hC.1.lastAsdu, hC.1.testSent, hC.1.out⟩
            (Or.inr (by simp)) (fun h => by simp at h))
        · exact stepOkB_quiet (by simp) (hJ.move hC.1 (Or.inl hC.2.1) (fun h => by rw [hC.2.1, ← hps, h1] at h; simp at h))
      · obtain ⟨t1, t2, t3⟩ := sendFixed_obsB s.ll 0 s.other true s.ll.dir false false last
        generalize s.ll.sendFixed 0 s.other true s.ll.dir false false = r at t1 t2 t3
        obtain ⟨l1, o1⟩ := r
        simp only at t1 t2 t3 ⊢
        rw [trackB_reset] at t1
        refine ⟨none, t1, ⟨fun d hd => by show Framable l1.p.addrLen d; rw [t2]; exact hJ.outOk d hd, ?_⟩⟩
        exact ⟨by simp, fun _ => rfl⟩
    · rw [if_neg h1]
      by_cases h2 : ps = 2
      · rw [if_pos h2]
        have hp2 : s.pstate = 2 := by rw [← hps]; exact h2
        split
        · split
          · have hf := balSetState_fields { sC with waiting := false } 1
            generalize Bal.setState { sC with waiting := false } 1 = r at hf
            obtain ⟨s2, o2⟩ := r
            simp only at hf ⊢
            refine stepOkB_quiet hf.2.2 (hJ.move (SimB.trans (SimB.trans hC.1 ⟨rfl, rfl, rfl, rfl, rfl, rfl, fun _ h => h⟩) ?_) (Or.inr (by simp)) (fun h => by simp at h))
            exact ⟨hf.1.p, hf.1.dir, hf.1.other, hf.1.nextFcb, hf.1.lastAsdu, hf.1.testSent, hf.1.out⟩
          · exact stepOkB_quiet (by simp) (hJ.move hC.1 (Or.inl hC.2.1) (fun _ => Or.inl (Or.inl hp2)))
        · have hf := balSetState_fields s 3
          generalize s.setState 3 = r at hf
          obtain ⟨s2, o2⟩ := r
          simp only at hf ⊢
          exact stepOkB_quiet hf.2.2 (hJ.move ⟨hf.1.p, hf.1.dir, hf.1.other, hf.1.nextFcb, hf.1.lastAsdu, hf.1.testSent, hf.1.out⟩
            (Or.inr (by simp)) (fun _ => Or.inl (Or.inl hp2)))
      · rw [if_neg h2]
        by_cases h3 : ps = 3
        · rw [if_pos h3]
          have hp3 : s.pstate = 3 := by rw [← hps]; exact h3
          have hexp := hJ.expects hp3
          have hI : SimB s sI ∧ sI.pstate = s.pstate := by
            have hR : SimB s sR ∧ sR.pstate = s.pstate := by
              dsimp only [sR]; split <;> exact ⟨⟨rfl, rfl, rfl, rfl, rfl, rfl, fun _ h => h⟩, rfl⟩
            dsimp only [sI]; split
            · exact ⟨⟨hR.1.p, hR.1.dir, hR.1.other, hR.1.nextFcb, hR.1.lastAsdu, hR.1.testSent, hR.1.out⟩, hR.2⟩
            · exact hR
          split
          · -- TEST FUNCTION FOR LINK
            obtain ⟨t1, t2, t3⟩ := sendFixed_obsB sI.ll 2 sI.other true sI.ll.dir sI.nextFcb true last
            generalize sI.ll.sendFixed 2 sI.other true sI.ll.dir sI.nextFcb true = r at t1 t2 t3
            obtain ⟨l1, o1⟩ := r
            simp only at t1 t2 t3 ⊢
            obtain ⟨fb0, fb1, fb2, _⟩ := fixed_bitsB sI.ll.p.addrLen 2 sI.other (by decide) sI.ll.dir sI.nextFcb true
            rw [trackB_new last _ sI.nextFcb fb0 fb1 fb2 (by rw [hI.1.nextFcb]; exact hexp)] at t1
            refine ⟨_, t1, ⟨fun d hd => by show Framable l1.p.addrLen d; rw [t2, hI.1.p]; exact hJ.outOk d (hI.1.out d hd), ?_⟩⟩
            refine ⟨fb0, fb1, by simp [fb2], fun _ => ⟨fun _ => ?_, fun h => by simp at h⟩⟩
            show _ = fixedFrame l1.p.addrLen (ctrl 2 true l1.dir (!(!sI.nextFcb)) true) sI.other
            rw [t2, t3]; simp
          · split
            · exact stepOkB_quiet (by simp) (hJ.move hI.1 (Or.inl hI.2) (fun _ => Or.inl (Or.inr hp3)))
            · -- USER DATA CONFIRMED from the application queue
              rename_i d rest hout
              have hfr : Framable sI.ll.p.addrLen d := by
                rw [hI.1.p]; exact hJ.outOk d (hI.1.out d (by rw [hout]; simp))
              obtain ⟨f, hf⟩ := framable_some sI.ll.p.addrLen (ctrl 3 true sI.ll.dir sI.nextFcb true) sI.other d hfr
              extract_lets sU
              have hUl : sU.ll.p = sI.ll.p ∧ sU.ll.dir = sI.ll.dir ∧ sU.other = sI.other ∧ sU.nextFcb = sI.nextFcb := ⟨rfl, rfl, rfl, rfl⟩
              obtain ⟨t1, t2, t3⟩ := sendVar_obsB sU.ll 3 sU.other true sU.ll.dir sU.nextFcb true d f last hf
              generalize sU.ll.sendVar 3 sU.other true sU.ll.dir sU.nextFcb true d = r at t1 t2 t3
              obtain ⟨l1, o1⟩ := r
              simp only at t1 t2 t3 ⊢
              obtain ⟨fb0, fb1, fb2, _⟩ := var_bitsB sI.ll.p.addrLen 3 sI.other (by decide) sI.ll.dir sI.nextFcb true d f hf
              rw [trackB_new last _ sI.nextFcb fb0 fb1 fb2 (by rw [hI.1.nextFcb]; exact hexp)] at t1
              refine ⟨_, t1, ⟨fun x hx => ?_, ?_⟩⟩
              · show Framable l1.p.addrLen x
                rw [t2]
                show Framable sI.ll.p.addrLen x
                rw [hI.1.p]; exact hJ.outOk x (hI.1.out x (by rw [hout]; simp [show x ∈ rest from hx]))
              · refine ⟨fb0, fb1, by simp [fb2]; rfl, fun _ => ⟨fun h => by simp at h, fun _ => ?_⟩⟩
                show varFrame l1.p.addrLen (ctrl 3 true l1.dir (!(!sU.nextFcb)) true) sU.other d = some f
                rw [t2, t3]; simpa using hf
        · rw [if_neg h3]
          by_cases h4 : ps = 4
          · rw [if_pos h4]
            have hp4 : s.pstate = 4 := by rw [← hps]; exact h4
            split
            · split
              · have hf := balSetState_fields sC 1
                generalize sC.setState 1 = r at hf
                obtain ⟨s2, o2⟩ := r
                simp only at hf ⊢
                exact stepOkB_quiet hf.2.2 (hJ.move (SimB.trans hC.1 ⟨hf.1.p, hf.1.dir, hf.1.other, hf.1.nextFcb, hf.1.lastAsdu, hf.1.testSent, hf.1.out⟩)
                  (Or.inr (by simp)) (fun h => by simp at h))
              · -- retransmission
                have hg := hJ.ghost
                cases hlast : last with
                | none => rw [hlast] at hg; exact absurd hp4 hg.1
                | some g =>
                  rw [hlast] at hg
                  simp only at hg
                  obtain ⟨g0, g1, g2, g3⟩ := hg
                  obtain ⟨gT, gU⟩ := g3 hp4
                  have hJ' : JB s (some g) := hlast ▸ hJ
                  by_cases hts : sC.testSent = true
                  · rw [if_pos hts]
                    have hgf : g = fixedFrame sC.ll.p.addrLen (ctrl 2 true sC.ll.dir (!sC.nextFcb) true) sC.other := by
                      rw [hC.1.p, hC.1.dir, hC.1.nextFcb, hC.1.other]; exact gT (by rw [← hC.1.testSent]; exact hts)
                    obtain ⟨t1, t2, t3⟩ := sendFixed_obsB sC.ll 2 sC.other true sC.ll.dir (!sC.nextFcb) true (some g)
                    generalize sC.ll.sendFixed 2 sC.other true sC.ll.dir (!sC.nextFcb) true = r at t1 t2 t3
                    obtain ⟨l1, o1⟩ := r
                    simp only at t1 t2 t3 ⊢
                    rw [← hgf, trackB_repeat g g0 g1] at t1
                    exact ⟨some g, t1, hJ'.move ⟨t2.trans hC.1.p, t3.trans hC.1.dir, hC.1.other, hC.1.nextFcb, hC.1.lastAsdu, hC.1.testSent, hC.1.out⟩
                      (Or.inl hC.2.1) (fun _ => Or.inr (by simp))⟩
                  · rw [if_neg hts]
                    have hts' : s.testSent = false := by rw [← hC.1.testSent]; simpa using hts
                    have hvf : varFrame sC.ll.p.addrLen (ctrl 3 true sC.ll.dir (!sC.nextFcb) true) sC.other sC.lastAsdu = some g := by
                      rw [hC.1.p, hC.1.dir, hC.1.nextFcb, hC.1.other, hC.1.lastAsdu]; exact gU hts'
                    obtain ⟨t1, t2, t3⟩ := sendVar_obsB sC.ll 3 sC.other true sC.ll.dir (!sC.nextFcb) true sC.lastAsdu g (some g) hvf
                    generalize sC.ll.sendVar 3 sC.other true sC.ll.dir (!sC.nextFcb) true sC.lastAsdu = r at t1 t2 t3
                    obtain ⟨l1, o1⟩ := r
                    simp only at t1 t2 t3 ⊢
                    rw [trackB_repeat g g0 g1] at t1
                    exact ⟨some g, t1, hJ'.move ⟨t2.trans hC.1.p, t3.trans hC.1.dir, hC.1.other, hC.1.nextFcb, hC.1.lastAsdu, hC.1.testSent, hC.1.out⟩
                      (Or.inl hC.2.1) (fun _ => Or.inr (by simp))⟩
            · exact stepOkB_quiet (by simp) (hJ.move hC.1 (Or.inl hC.2.1) (fun h => by rw [hC.2.1, hp4] at h; simp at h))
          · rw [if_neg h4]
            exact stepOkB_quiet (by simp) hJ

/-- `let (s, o) := s0.setState n; ({ s with pstate := ps', waiting := w }, o)` -/
theorem stepOkB_set {s : Bal} {last : Option (List Nat)} (hJ : JB s last) (s0 : Bal) (hs : SimB s s0) (n ps' : Nat) (hps : ps' ≠ 4)
    (h23 : (ps' = 2 ∨ ps' = 3) → (s.pstate = 2 ∨ s.pstate = 3) ∨ last ≠ none) :
    StepOkB last ({ (s0.setState n).1 with pstate := ps' }, (s0.setState n).2) ∧
    StepOkB last ({ (s0.setState n).1 with pstate := ps', waiting := false }, (s0.setState n).2) := by
  obtain ⟨f1, _, f3⟩ := balSetState_fields s0 n
  have hs1 : SimB s { (s0.setState n).1 with pstate := ps' } :=
    ⟨f1.p.trans hs.p, f1.dir.trans hs.dir, f1.other.trans hs.other, f1.nextFcb.trans hs.nextFcb, f1.lastAsdu.trans hs.lastAsdu,
     f1.testSent.trans hs.testSent, fun d hd => hs.out d (f1.out d hd)⟩
  have hs2 : SimB s { (s0.setState n).1 with pstate := ps', waiting := false } :=
    ⟨hs1.p, hs1.dir, hs1.other, hs1.nextFcb, hs1.lastAsdu, hs1.testSent, hs1.out⟩
  exact ⟨stepOkB_quiet f3 (hJ.move hs1 (Or.inr hps) h23), stepOkB_quiet f3 (hJ.move hs2 (Or.inr hps) h23)⟩

/-- **`LinkLayerPrimaryBalanced_handleMessage`** -/
theorem priHandle_fcb (s : Bal) (now fc : Nat) (dfc : Bool) (last : Option (List Nat)) (hJ : JB s last) :
    StepOkB last (s.priHandle now fc dfc) := by
  delta Bal.priHandle
  extract_lets ps sL ns sT
  have hps : ps = s.pstate := rfl
  have hL : SimB s sL := ⟨rfl, rfl, rfl, rfl, rfl, rfl, fun _ h => h⟩
  have hLp : sL.pstate = s.pstate := rfl
  by_cases hd : dfc = true
  · rw [if_pos hd]
    have hns : ns ≠ 4 ∨ ns = s.pstate := by
      dsimp only [ns]
      split
      · left; decide
      · split
        · left; decide
        · right; rfl
    have h23 : (ns = 2 ∨ ns = 3) → (s.pstate = 2 ∨ s.pstate = 3) ∨ last ≠ none := by
      dsimp only [ns]
      split
      · intro h; simp at h
      · split
        · intro h; simp at h
        · intro h; exact Or.inl h
    obtain ⟨f1, f2, f3⟩ := balSetState_fields sL 2
    generalize sL.setState 2 = r at f1 f2 f3
    obtain ⟨s2, o2⟩ := r
    simp only at f1 f2 f3 ⊢
    refine stepOkB_quiet f3 (hJ.move ⟨f1.p, f1.dir, f1.other, f1.nextFcb, f1.lastAsdu, f1.testSent, f1.out⟩ ?_ h23)
    rcases hns with h | h
    · exact Or.inr h
    · exact Or.inl h
  · rw [if_neg hd]
    by_cases hf0 : fc = 0
    · rw [if_pos hf0]
      by_cases h2 : ps = 2
      · rw [if_pos h2]
        exact (stepOkB_set hJ sL hL 3 3 (by decide) (fun _ => Or.inl (Or.inl (by rw [← hps]; exact h2)))).2
      · rw [if_neg h2]
        by_cases h4 : ps = 4
        · rw [if_pos h4]
          have hT : SimB s (if sL.testSent = true then sT else sL) := by
            split
            · exact ⟨rfl, rfl, rfl, rfl, rfl, rfl, fun _ h => h⟩
            · exact hL
          exact (stepOkB_set hJ _ hT 3 3 (by decide) (fun _ => Or.inr (hJ.some_of_wait (by rw [← hps]; exact h4)))).2
        · rw [if_neg h4]
          split
          · exact stepOkB_quiet (by simp) (hJ.move hL (Or.inl hLp) (fun h => Or.inl (by rw [← hLp]; exact h)))
          · exact stepOkB_quiet (by simp) (hJ.move ⟨rfl, rfl, rfl, rfl, rfl, rfl, fun _ h => h⟩ (Or.inl rfl) (fun h => Or.inl h))
    · rw [if_neg hf0]
      by_cases hf1 : fc = 1
      · rw [if_pos hf1]
        split
        · exact (stepOkB_set hJ sL hL 2 6 (by decide) (fun h => by simp at h)).1
        · exact stepOkB_quiet (by simp) (hJ.move hL (Or.inl hLp) (fun h => Or.inl (by rw [← hLp]; exact h)))
      · rw [if_neg hf1]
        split
        · exact (stepOkB_set hJ sL hL 1 0 (by decide) (fun h => by simp at h)).1
        · split
          · split
            · -- STATUS OF LINK while requested: RESET REMOTE LINK
              obtain ⟨t1, t2, t3⟩ := sendFixed_obsB sL.ll 0 sL.other true sL.ll.dir false false last
              generalize sL.ll.sendFixed 0 sL.other true sL.ll.dir false false = r at t1 t2 t3
              obtain ⟨l1, o1⟩ := r
              simp only at t1 t2 t3 ⊢
              rw [trackB_reset] at t1
              obtain ⟨f1, f2, f3⟩ := balSetState_fields { sL with ll := l1, lastSend := now, waiting := true, nextFcb := true } 2
              generalize Bal.setState { sL with ll := l1, lastSend := now, waiting := true, nextFcb := true } 2 = r2 at f1 f2 f3
              obtain ⟨s2, o2⟩ := r2
              simp only at f1 f2 f3 ⊢
              refine ⟨none, ?_, ⟨fun d hd => ?_, ?_⟩⟩
              · rw [trackAllB_append, t1]; exact trackAllB_quiet none o2 f3
              · show Framable s2.ll.p.addrLen d
                rw [f1.p]; show Framable l1.p.addrLen d; rw [t2]; exact hJ.outOk d (f1.out d hd)
              · refine ⟨by simp, fun _ => ?_⟩
                show s2.nextFcb = true
                rw [f1.nextFcb]
            · exact (stepOkB_set hJ sL hL 1 0 (by decide) (fun h => by simp at h)).1
          · split
            · have hF : SimB s sT := ⟨rfl, rfl, rfl, rfl, rfl, rfl, fun _ h => h⟩
              split
              · rename_i h4
                exact (stepOkB_set hJ sT hF 3 3 (by decide) (fun _ => Or.inr (hJ.some_of_wait (by rw [← hps]; exact h4)))).1
              · exact stepOkB_quiet (by simp) (hJ.move hF (Or.inl rfl) (fun h => Or.inl h))
            · exact stepOkB_quiet (by simp) (hJ.move hL (Or.inl hLp) (fun h => Or.inl (by rw [← hLp]; exact h)))

/-- a step of the secondary part: only frames with PRM = 0, the primary part is not touched -/
structure SecStep (s : Bal) (r : Bal × List Obs) : Prop where
  sim : SimB s r.1
  ps : r.1.pstate = s.pstate
  tr : ∀ last, trackAllB last r.2 = some last

theorem secStep_ok {s : Bal} {r : Bal × List Obs} {last : Option (List Nat)} (hJ : JB s last) (h : SecStep s r) : StepOkB last r :=
  ⟨last, h.tr last, hJ.move h.sim (Or.inl h.ps) (fun x => Or.inl (by rw [← h.ps]; exact x))⟩

theorem secStep_of_sim (s s0 : Bal) (hs : SimB s s0) (hp : s0.pstate = s.pstate) : SecStep s (s0, []) := ⟨hs, hp, fun _ => rfl⟩

theorem ack_sec (s s0 : Bal) (hs : SimB s s0) (hp : s0.pstate = s.pstate) : SecStep s s0.ack := by
  unfold Bal.ack
  split
  · refine ⟨⟨hs.p, hs.dir, hs.other, hs.nextFcb, hs.lastAsdu, hs.testSent, hs.out⟩, hp, fun last => ?_⟩
    show trackAllB last [Obs.tx _] = some last
    rw [trackAllB_single]; exact trackB_single last
  · obtain ⟨t1, t2, t3⟩ := sendFixed_obsB s0.ll 0 s0.ll.address false s0.ll.dir false false none
    refine ⟨⟨?_, ?_, hs.other, hs.nextFcb, hs.lastAsdu, hs.testSent, hs.out⟩, hp, fun last => ?_⟩
    · exact (sendFixed_obsB s0.ll 0 s0.ll.address false s0.ll.dir false false none).2.1.trans hs.p
    · exact (sendFixed_obsB s0.ll 0 s0.ll.address false s0.ll.dir false false none).2.2.trans hs.dir
    · rw [(sendFixed_obsB s0.ll 0 s0.ll.address false s0.ll.dir false false last).1]
      exact trackB_sec last _ 0 _ (by decide) _ _ _

theorem sendFixed_sec (s s0 : Bal) (hs : SimB s s0) (hp : s0.pstate = s.pstate) (fc : Nat) (hfc : fc < 16) :
    SecStep s ({ s0 with ll := (s0.ll.sendFixed fc s0.ll.address false s0.ll.dir false false).1 },
      (s0.ll.sendFixed fc s0.ll.address false s0.ll.dir false false).2) := by
  refine ⟨⟨?_, ?_, hs.other, hs.nextFcb, hs.lastAsdu, hs.testSent, hs.out⟩, hp, fun last => ?_⟩
  · exact (sendFixed_obsB s0.ll fc s0.ll.address false s0.ll.dir false false none).2.1.trans hs.p
  · exact (sendFixed_obsB s0.ll fc s0.ll.address false s0.ll.dir false false none).2.2.trans hs.dir
  · rw [(sendFixed_obsB s0.ll fc s0.ll.address false s0.ll.dir false false last).1]
    exact trackB_sec last _ fc _ hfc _ _ _

theorem secStep_prepend (s : Bal) (r : Bal × List Obs) (o : List Obs) (ho : ∀ x ∈ o, ∀ f, x ≠ .tx f) (h : SecStep s r) :
    SecStep s (r.1, o ++ r.2) :=
  ⟨h.sim, h.ps, fun last => by rw [trackAllB_append, trackAllB_quiet last o ho]; exact h.tr last⟩

/-- **`LinkLayerSecondaryBalanced_handleMessage`** -/
theorem secHandle_fcb (s : Bal) (fc : Nat) (fcb fcv : Bool) (us : Nat) (ul : Int) (last : Option (List Nat)) (hJ : JB s last) :
    StepOkB last (s.secHandle fc fcb fcv us ul) := by
  apply secStep_ok hJ
  delta Bal.secHandle
  generalize (if fcv = true then checkFCB s.expectedFcb fcb else (true, s.expectedFcb)) = vx
  obtain ⟨valid, exp'⟩ := vx
  simp (config := { zeta := false }) only []
  extract_lets s1 s2 oR
  have h1 : SimB s s1 ∧ s1.pstate = s.pstate := ⟨⟨rfl, rfl, rfl, rfl, rfl, rfl, fun _ h => h⟩, rfl⟩
  split
  · split
    · exact ack_sec s s1 h1.1 h1.2
    · exact secStep_of_sim s s1 h1.1 h1.2
  · have h2 : SimB s s2 ∧ s2.pstate = s.pstate := by
      dsimp only [s2]; split
      · exact ⟨⟨rfl, rfl, rfl, rfl, rfl, rfl, fun _ h => h⟩, rfl⟩
      · exact h1
    split
    · exact ack_sec s _ ⟨h2.1.p, h2.1.dir, h2.1.other, h2.1.nextFcb, h2.1.lastAsdu, h2.1.testSent, h2.1.out⟩ h2.2
    · split
      · refine ack_sec s _ ?_ ?_
        · split
          · exact ⟨h2.1.p, h2.1.dir, h2.1.other, h2.1.nextFcb, h2.1.lastAsdu, h2.1.testSent, h2.1.out⟩
          · exact h2.1
        · split
          · exact h2.2
          · exact h2.2
      · split
        · split
          · split
            · have hs3 : SimB s (if fcv = true then { s2 with lastAck := true } else s2) ∧ (if fcv = true then { s2 with lastAck := true } else s2).pstate = s.pstate := by
                split
                · exact ⟨⟨h2.1.p, h2.1.dir, h2.1.other, h2.1.nextFcb, h2.1.lastAsdu, h2.1.testSent, h2.1.out⟩, h2.2⟩
                · exact h2
              have ha := ack_sec s _ hs3.1 hs3.2
              exact secStep_prepend s _ _ (by intro x hx f; simp [oR] at hx; rw [hx]; intro h; cases h) ha
            · exact ⟨h2.1, h2.2, fun last => trackAllB_quiet last _ (by intro x hx f; simp [oR] at hx; rw [hx]; intro h; cases h)⟩
          · exact secStep_of_sim s s2 h2.1 h2.2
        · split
          · refine ⟨h2.1, h2.2, fun last => trackAllB_quiet last _ ?_⟩
            intro x hx f
            split at hx
            · simp at hx; rw [hx]; intro h; cases h
            · simp at hx
          · split
            · exact sendFixed_sec s s2 h2.1 h2.2 11 (by decide)
            · exact sendFixed_sec s s2 h2.1 h2.2 15 (by decide)

/-! ### every history of a balanced station -/

inductive BOp where
  | priRun (now : Nat)
  | priHandle (now fc : Nat) (dfc : Bool)
  | secHandle (fc : Nat) (fcb fcv : Bool) (us : Nat) (ul : Int)
  /-- the application queues user data (that fits a frame) -/
  | out (d : List Nat)
  | test

def BOp.apply (s : Bal) : BOp → Bal × List Obs
  | .priRun now => s.priRun now
  | .priHandle now fc dfc => s.priHandle now fc dfc
  | .secHandle fc fcb fcv us ul => s.secHandle fc fcb fcv us ul
  | .out d => if Framable s.ll.p.addrLen d then ({ s with out := s.out ++ [d] }, []) else (s, [])
  | .test => ({ s with testFn := true }, [])

def BOp.runAll : Bal → List BOp → List Obs
  | _, [] => []
  | s, op :: ops => (op.apply s).2 ++ BOp.runAll (op.apply s).1 ops

theorem applyB_fcb (s : Bal) (op : BOp) (last : Option (List Nat)) (hJ : JB s last) : StepOkB last (op.apply s) := by
  cases op with
  | priRun now => exact priRun_fcb s now last hJ
  | priHandle now fc dfc => exact priHandle_fcb s now fc dfc last hJ
  | secHandle fc fcb fcv us ul => exact secHandle_fcb s fc fcb fcv us ul last hJ
  | out d =>
    show StepOkB last (if Framable s.ll.p.addrLen d then ({ s with out := s.out ++ [d] }, []) else (s, []))
    split
    · rename_i hf
      refine ⟨last, rfl, ⟨fun x hx => ?_, hJ.ghost⟩⟩
      simp only [List.mem_append, List.mem_singleton] at hx
      rcases hx with hx | hx
      · exact hJ.outOk x hx
      · rw [hx]; exact hf
    · exact ⟨last, rfl, hJ⟩
  | test => exact ⟨last, rfl, ⟨hJ.outOk, hJ.ghost⟩⟩

theorem runAllB_fcb : ∀ (ops : List BOp) (s : Bal) (last : Option (List Nat)), JB s last →
    ∃ last', trackAllB last (BOp.runAll s ops) = some last' := by
  intro ops
  induction ops with
  | nil => intro s last _; exact ⟨last, rfl⟩
  | cons op ops ih =>
    intro s last hJ
    obtain ⟨l1, t1, j1⟩ := applyB_fcb s op last hJ
    obtain ⟨l2, t2⟩ := ih (op.apply s).1 l1 j1
    refine ⟨l2, ?_⟩
    show trackAllB last ((op.apply s).2 ++ BOp.runAll (op.apply s).1 ops) = some l2
    rw [trackAllB_append, t1]; exact t2

theorem JB_init (l : LL) (other : Nat) : JB ({ ll := l, other := other } : Bal) none :=
  { outOk := (fun d h => by cases h)
    ghost := ⟨(by show (0 : Nat) ≠ 4; decide), fun _ => rfl⟩ }

end Iec.Link101
