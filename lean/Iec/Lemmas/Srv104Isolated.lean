/-
Isolation between connections: everything the server does for connection `i` (reception of whatever its peer sends,
periodic tasks) leaves the record of every OTHER connection untouched - sequence numbers, k-buffer, receive buffer, timers,
socket - except that a STARTDT act on `i` deactivates the other connections of the group (their state becomes
"not started", nothing else).  Relation `OK1 i`.
-/
import Iec.Lemmas.Srv104Started
import Iec.Lemmas.Srv104Activate
namespace Iec.Srv104
open Iec.KWindow Iec.Queues

/-- the record is unchanged, or only deactivated -/
def SameOrDeact (c c' : Conn) : Prop := c' = c ∨ c' = { c with state := 2 }

theorem SameOrDeact.refl (c : Conn) : SameOrDeact c c := Or.inl rfl
theorem SameOrDeact.trans {a b c : Conn} (h1 : SameOrDeact a b) (h2 : SameOrDeact b c) : SameOrDeact a c := by
  rcases h1 with rfl | rfl
  · exact h2
  · rcases h2 with rfl | rfl
    · exact Or.inr rfl
    · exact Or.inr rfl

structure OK1 (i : Nat) (s s' : Slave) : Prop where
  len : s'.conns.length = s.conns.length
  other : ∀ j, j ≠ i → SameOrDeact (s.conn j) (s'.conn j)

variable {i : Nat}

theorem OK1.refl (s : Slave) : OK1 i s s := ⟨rfl, fun _ _ => SameOrDeact.refl _⟩
theorem OK1.trans {a b c : Slave} (h1 : OK1 i a b) (h2 : OK1 i b c) : OK1 i a c :=
  ⟨h2.len.trans h1.len, fun j hj => SameOrDeact.trans (h1.other j hj) (h2.other j hj)⟩

theorem ok1_of_conns {s s' : Slave} (_ : s'.p = s.p) (hc : s'.conns = s.conns) : OK1 i s s' :=
  ⟨by rw [hc], fun j _ => by unfold Slave.conn; rw [hc]; exact SameOrDeact.refl _⟩

theorem ok1_emit (s : Slave) (o : Obs) : OK1 i s (emit s o) := ok1_of_conns rfl rfl
theorem ok1_setGrp (s : Slave) (g : Nat) (x : Group) : OK1 i s (s.setGrp g x) := ok1_of_conns rfl rfl
def DummyO (_ _ : Conn) : Prop := True
/-- writing the record of connection `i` itself -/
theorem ok1_setConn (s : Slave) (i : Nat) (c : Conn) (_ : DummyO (s.conn i) c) : OK1 i s (s.setConn i c) :=
  ⟨setConn_len _ _ _, fun j hj => by rw [conn_setConn_ne _ _ _ _ hj]; exact SameOrDeact.refl _⟩
macro "okc" : tactic => `(tactic| exact trivial)

theorem ok1_write (s : Slave) (i : Nat) (b : List Nat) : OK1 i s (write s i b).1 := by
  unfold write; simp only; split
  · exact OK1.refl s
  · exact ok1_emit s _

theorem ok1_sendS (s : Slave) (i : Nat) : OK1 i s (sendS s i) := by
  unfold sendS
  simp only
  have hw := ok1_write s i [0x68, 0x04, 0x01, 0, seqLo (s.conn i).vr, seqHi (s.conn i).vr]
  generalize write s i [0x68, 0x04, 0x01, 0, seqLo (s.conn i).vr, seqHi (s.conn i).vr] = r at hw
  obtain ⟨s1, ok⟩ := r
  simp only at hw ⊢
  split
  · exact hw
  · exact OK1.trans hw (ok1_setConn _ _ _ (by okc))

theorem ok1_sendI (s : Slave) (i : Nat) (a : List Nat) (q : Option (Nat × Nat)) : OK1 i s (sendI s i a q) := by
  unfold sendI
  simp only
  have hw := ok1_write s i ([0x68, (a.length + 4) % 256, seqLo (s.conn i).vs, seqHi (s.conn i).vs, seqLo (s.conn i).vr, seqHi (s.conn i).vr] ++ a)
  generalize write s i ([0x68, (a.length + 4) % 256, seqLo (s.conn i).vs, seqHi (s.conn i).vs, seqLo (s.conn i).vr, seqHi (s.conn i).vr] ++ a) = r at hw
  obtain ⟨s1, ok⟩ := r
  simp only at hw ⊢
  refine OK1.trans hw (ok1_setConn _ _ _ ?_)
  cases ok <;> (simp only [Bool.false_eq_true, if_false, if_true]; okc)

theorem ok1_sendAsduInternal (s : Slave) (i : Nat) (a : List Nat) : OK1 i s (sendAsduInternal s i a).1 := by
  unfold sendAsduInternal
  simp only
  repeat' split
  all_goals first
    | exact ok1_sendI _ _ _ _
    | exact ok1_setGrp _ _ _
    | exact OK1.refl _

theorem ok1_deactivate (s : Slave) (i : Nat) : OK1 i s (deactivate s i) := by
  unfold deactivate
  simp only
  split
  · exact OK1.trans (ok1_emit s _) (ok1_setConn _ _ _ (by okc))
  · exact ok1_setConn _ _ _ (by okc)

theorem ok1_confirmReleased (rel : List KEntry) : ∀ (s : Slave) (i : Nat), OK1 i s (confirmReleased s i rel) := by
  intro s i
  have hf := confirmReleased_facts rel s i
  exact ok1_of_conns hf.2.2.1 hf.1

theorem ok1_checkSeqConn (s : Slave) (i : Nat) (nr : Nat) : OK1 i s (checkSeqConn s i nr).1 := by
  unfold checkSeqConn
  simp only
  generalize checkSeq (s.conn i).vs (s.conn i).win nr = r
  obtain ⟨ok, w, rel⟩ := r
  simp only
  exact OK1.trans (ok1_setConn _ _ _ (by okc)) (ok1_confirmReleased _ _ _)

theorem ok1_foldl {α} (f : Slave → α → Slave) (hf : ∀ s a, OK1 i s (f s a)) : ∀ (l : List α) (s : Slave), OK1 i s (l.foldl f s) := by
  intro l
  induction l with
  | nil => intro s; exact OK1.refl s
  | cons a l ih => intro s; exact OK1.trans (hf s a) (ih _)

theorem ok1_appHandler (s : Slave) (i : Nat) (a : List Nat) : OK1 i s (appHandler s i a) := by
  unfold appHandler
  simp only
  refine OK1.trans (ok1_emit s _) (ok1_foldl _ ?_ _ _)
  intro t _
  exact OK1.trans (ok1_sendAsduInternal t i a) (ok1_emit _ _)

/-- peel the outermost state transformer off a `OK1 i s (F …)` goal (syntactic match only) -/
macro "ok1_step" : tactic => `(tactic| first
  | with_reducible exact OK1.refl _
  | ((with_reducible refine OK1.trans ?_ (ok1_setConn _ _ _ ?_)) <;> (try okc))
  | with_reducible refine OK1.trans ?_ (ok1_emit _ _)
  | with_reducible refine OK1.trans ?_ (ok1_setGrp _ _ _)
  | with_reducible refine OK1.trans ?_ (ok1_write _ _ _)
  | with_reducible refine OK1.trans ?_ (ok1_sendS _ _)
  | with_reducible refine OK1.trans ?_ (ok1_sendI _ _ _ _)
  | with_reducible refine OK1.trans ?_ (ok1_sendAsduInternal _ _ _)
  | with_reducible refine OK1.trans ?_ (ok1_deactivate _ _)
  | with_reducible refine OK1.trans ?_ (ok1_checkSeqConn _ _ _)
  | with_reducible refine OK1.trans ?_ (ok1_appHandler _ _ _))

theorem ok1_handleI (s : Slave) (i : Nat) (buf : List Nat) : OK1 i s (handleI s i buf).1 := by
  unfold handleI
  extract_lets n c c1 s1 ns nr
  have h1 : OK1 i s s1 := ok1_setConn _ _ _ (by dsimp only [c1, c]; split <;> okc)
  split
  · exact OK1.refl s
  · split
    · exact OK1.refl s
    · split
      · exact h1
      · have h2 := ok1_checkSeqConn s1 i nr
        generalize checkSeqConn s1 i nr = r at h2
        obtain ⟨s2, ok⟩ := r
        dsimp only at h2
        show OK1 i s (if (!ok) = true then (s2, false) else _).fst
        have h12 := OK1.trans h1 h2
        split
        · exact h12
        · extract_lets c2 s3
          have h3 : OK1 i s2 s3 := ok1_setConn _ _ _ (by dsimp only [c2]; okc)
          split
          · split
            · exact OK1.trans h12 h3
            · exact OK1.trans h12 (OK1.trans h3 (OK1.trans (ok1_appHandler _ _ _) (ok1_setConn _ _ _ (by okc))))
          · exact OK1.trans h12 h3

theorem ok1_receiveMessage (s : Slave) (i : Nat) : OK1 i s (receiveMessage s i).1 := by
  unfold receiveMessage
  simp only
  exact ok1_setConn _ _ _ (by okc)

theorem ok1_ackIfW (s : Slave) (i : Nat) : OK1 i s (ackIfW s i) := by
  unfold ackIfW
  simp only
  split
  · exact OK1.trans (ok1_setConn _ _ _ (by okc)) (ok1_sendS _ _)
  · exact OK1.refl s

theorem ok1_sendWaitingHigh (i : Nat) : ∀ (fuel : Nat) (s : Slave), OK1 i s (sendWaitingHigh s i fuel).1 := by
  intro fuel
  induction fuel with
  | zero => intro s; exact OK1.refl s
  | succ n ih =>
    intro s
    unfold sendWaitingHigh
    simp only
    repeat' split
    all_goals first
      | exact OK1.refl _
      | exact ok1_setGrp _ _ _
      | exact OK1.trans (ok1_setGrp _ _ _) (ok1_sendI _ _ _ _)
      | exact OK1.trans (OK1.trans (ok1_setGrp _ _ _) (ok1_sendI _ _ _ _)) (ih _)

theorem ok1_sendWaitingASDUs (s : Slave) (i : Nat) : OK1 i s (sendWaitingASDUs s i) := by
  unfold sendWaitingASDUs
  have h1 := ok1_sendWaitingHigh i ((s.grp (s.gidx i)).highQ.count + 1) s
  simp only
  repeat' split
  all_goals first
    | exact h1
    | exact OK1.trans h1 (ok1_setGrp _ _ _)
    | exact OK1.trans h1 (OK1.trans (ok1_setGrp _ _ _) (ok1_sendI _ _ _ _))

/-- unfold nothing, split every `if` / `match`, name every `let`, peel the state transformers from the outside -/
macro "ok1_auto" : tactic => `(tactic| repeat' (first
  | (with_reducible exact OK1.refl _)
  | okc
  | split
  | extract_lets
  | ok1_step
  | (dsimp (config := { zetaDelta := true, zeta := false }) only)))

theorem ok1_phaseT3 (s : Slave) (i : Nat) : OK1 i s (phaseT3 s i) := by
  unfold phaseT3
  try simp (config := { zeta := false }) only []
  ok1_auto

theorem ok1_phaseTestFR (s : Slave) (i : Nat) : OK1 i s (phaseTestFR s i).1 := by
  unfold phaseTestFR
  try simp (config := { zeta := false }) only []
  ok1_auto

theorem ok1_phaseT2 (s : Slave) (i : Nat) : OK1 i s (phaseT2 s i) := by
  unfold phaseT2
  try simp (config := { zeta := false }) only []
  ok1_auto

theorem ok1_phaseT1 (s : Slave) (i : Nat) (ok : Bool) : OK1 i s (phaseT1 s i ok).1 := by
  unfold phaseT1
  try simp (config := { zeta := false }) only []
  ok1_auto

theorem ok1_handleTimeouts (s : Slave) (i : Nat) : OK1 i s (handleTimeouts s i).1 := by
  unfold handleTimeouts
  try simp (config := { zeta := false }) only []
  exact OK1.trans (ok1_phaseT3 s i) (OK1.trans (ok1_phaseTestFR _ i) (OK1.trans (ok1_phaseT2 _ i) (ok1_phaseT1 _ i _)))

theorem ok1_periodic (s : Slave) (i : Nat) : OK1 i s (periodic s i) := by
  unfold periodic
  have h1 : OK1 i s (if (s.conn i).state = 1 then sendWaitingASDUs s i else s) := by
    split
    · exact ok1_sendWaitingASDUs s i
    · exact OK1.refl s
  extract_lets s1
  have h2 := ok1_handleTimeouts s1 i
  generalize handleTimeouts s1 i = r at h2
  obtain ⟨s2, ok⟩ := r
  show OK1 i s (if (!ok) = true then s2.setConn i { s2.conn i with isRunning := false } else s2)
  split
  · exact OK1.trans h1 (OK1.trans h2 (ok1_setConn _ _ _ (by okc)))
  · exact OK1.trans h1 h2

theorem ok1_t3upd (s : Slave) (i : Nat) : OK1 i s (t3upd s i) := by
  unfold t3upd; exact ok1_setConn _ _ _ (by okc)

theorem ok1_hmTestFR (s : Slave) (i : Nat) : OK1 i s (hmTestFR s i).1 := by
  unfold hmTestFR
  have h := ok1_write s i TESTFR_CON
  generalize write s i TESTFR_CON = r at h
  obtain ⟨s1, ok⟩ := r
  show OK1 i s (if ok = true then (t3upd s1 i, true) else (s1, false)).1
  split
  · exact OK1.trans h (ok1_t3upd _ _)
  · exact h

theorem ok1_stopTail (s : Slave) (i : Nat) (c : Conn) (hc : DummyO (s.conn i) c) :
    OK1 i s (let s := s.setConn i c
              let (s, ok) := write s i STOPDT_CON
              if ok then (t3upd s i, true) else (s, false)).1 := by
  extract_lets s1
  have h1 : OK1 i s s1 := ok1_setConn _ _ _ hc
  have h := ok1_write s1 i STOPDT_CON
  generalize write s1 i STOPDT_CON = r at h
  obtain ⟨s2, ok⟩ := r
  show OK1 i s (if ok = true then (t3upd s2 i, true) else (s2, false)).1
  split
  · exact OK1.trans h1 (OK1.trans h (ok1_t3upd _ _))
  · exact OK1.trans h1 h

theorem ok1_hmStopDT (s : Slave) (i : Nat) : OK1 i s (hmStopDT s i).1 := by
  unfold hmStopDT
  extract_lets s0 c s1
  have h0 : OK1 i s s0 := ok1_deactivate s i
  have h1 : OK1 i s0 s1 := by
    dsimp only [s1]
    split
    · exact OK1.trans (ok1_setConn _ _ _ (by dsimp only [c]; okc)) (ok1_sendS _ _)
    · exact OK1.refl _
  split
  · exact OK1.trans h0 (OK1.trans h1 (ok1_t3upd _ _))
  · exact OK1.trans h0 (OK1.trans h1 (ok1_stopTail s1 i _ (by okc)))

theorem ok1_hmS (s : Slave) (i : Nat) (buf : List Nat) : OK1 i s (hmS s i buf).1 := by
  unfold hmS
  extract_lets nr
  have h := ok1_checkSeqConn s i nr
  generalize checkSeqConn s i nr = r at h
  obtain ⟨s1, ok⟩ := r
  dsimp only at h
  show OK1 i s (if (!ok) = true then (s1, false) else _).1
  split
  · exact h
  · extract_lets c
    split
    · split
      · exact OK1.trans h (ok1_stopTail s1 i _ (by dsimp only [c]; okc))
      · exact OK1.trans h (ok1_t3upd _ _)
    · split
      · exact h
      · exact OK1.trans h (ok1_t3upd _ _)


/-- deactivating another connection `x` -/
theorem ok1_deactivate_other (s : Slave) (x : Nat) : OK1 i s (deactivate s x) := by
  refine ⟨(deactivate_facts s x).1, fun j _ => ?_⟩
  by_cases hjx : j = x
  · subst hjx
    by_cases hl : j < s.conns.length
    · right
      unfold deactivate
      simp only
      split
      · rw [conn_setConn _ _ _ (by simpa [emit] using hl)]; rfl
      · rw [conn_setConn _ _ _ hl]
    · left
      have hs : ∀ c, s.conns.set j c = s.conns := fun c => List.set_eq_of_length_le (Nat.le_of_not_lt hl)
      unfold deactivate
      simp only
      split <;> (simp only [Slave.conn, Slave.setConn, emit, hs])
  · left; exact (deactivate_facts s x).2.2.2.2 j hjx

theorem ok1_activate (s : Slave) (i : Nat) : OK1 i s (activate s i) := by
  unfold activate
  simp only
  generalize (List.filter _ (List.range s.conns.length)) = js
  have h0 : OK1 i s (js.foldl deactivate s) := ok1_foldl _ (fun t j => ok1_deactivate_other t j) _ _
  generalize js.foldl deactivate s = t at h0
  refine OK1.trans h0 ?_
  unfold activateConn
  simp only
  split
  · exact OK1.trans (ok1_emit _ _) (ok1_setConn _ _ _ (by okc))
  · exact ok1_setConn _ _ _ (by okc)

theorem ok1_hmStartDT (s : Slave) (i : Nat) : OK1 i s (hmStartDT s i).1 := by
  unfold hmStartDT
  extract_lets s0 g s1
  have h0 : OK1 i s s0 := ok1_activate s i
  have h1 : OK1 i s0 s1 := ok1_setGrp _ _ _
  have h := ok1_write s1 i STARTDT_CON
  generalize write s1 i STARTDT_CON = r at h
  obtain ⟨s2, ok⟩ := r
  show OK1 i s (if ok = true then (t3upd s2 i, true) else (s2, false)).1
  split
  · exact OK1.trans h0 (OK1.trans h1 (OK1.trans h (ok1_t3upd _ _)))
  · exact OK1.trans h0 (OK1.trans h1 h)

theorem ok1_handleMessage (s : Slave) (i : Nat) (buf : List Nat) : OK1 i s (handleMessage s i buf).1 := by
  unfold handleMessage
  extract_lets n b2
  split
  · exact OK1.refl s
  split
  · exact OK1.refl s
  split
  · exact OK1.refl s
  split
  · exact ok1_handleI s i buf
  split
  · exact ok1_hmTestFR s i
  split
  · exact ok1_hmStartDT s i
  split
  · exact ok1_hmStopDT s i
  split
  · exact OK1.trans (ok1_setConn _ _ _ (by okc)) (ok1_t3upd _ _)
  split
  · exact ok1_hmS s i buf
  · exact OK1.refl s

/-- **reception on connection `i` touches no other connection** (apart from deactivating it on STARTDT act) -/
theorem ok1_handleTcpConnection (s : Slave) (i : Nat) : OK1 i s (handleTcpConnection s i) := by
  unfold handleTcpConnection
  have h1 := ok1_receiveMessage s i
  generalize receiveMessage s i = r at h1
  obtain ⟨s1, rr, msg⟩ := r
  dsimp only at h1
  simp (config := { zeta := false }) only []
  extract_lets c0 s2 c3 s4
  have h2 : OK1 i s1 s2 := by
    dsimp only [s2]; split
    · exact ok1_setConn _ _ _ (by okc)
    · exact OK1.refl _
  have h12 := OK1.trans h1 h2
  split
  · have h3 := ok1_handleMessage s2 i msg
    have h4 : OK1 i (handleMessage s2 i msg).1 s4 := by
      dsimp only [s4]; split
      · exact ok1_setConn _ _ _ (by okc)
      · exact OK1.refl _
    exact OK1.trans h12 (OK1.trans h3 (OK1.trans h4 (ok1_ackIfW _ _)))
  · exact h12

end Iec.Srv104
