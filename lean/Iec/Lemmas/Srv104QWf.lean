/-
Every event ring of the server is well-formed in every reachable state: the layout invariant `MqInv` of the ring
refinement (Lemmas/MsgQueue.lean) holds for the queue of every redundancy group / connection after every operation of the
server model, so the ring theorems of C06 and C13 apply to reachable states without a hypothesis.
-/
import Iec.Lemmas.Srv104Win
import Iec.Lemmas.MsgQueueWf
import Iec.Lemmas.Srv104EvFree
namespace Iec.Srv104
open Iec.KWindow Iec.Queues

/-- well-formed and large enough for one entry of maximal size -/
def QOk (q : MsgQueue) : Prop := QWf q ∧ 266 ≤ q.size

/-- **the event ring of every group is well-formed** -/
def GInv (s : Slave) : Prop := ∀ g, QOk (s.grp g).lowQ

structure GR (s s' : Slave) : Prop where
  imp : GInv s → GInv s'
theorem GR.refl (s : Slave) : GR s s := ⟨id⟩
theorem GR.trans {a b c : Slave} (h1 : GR a b) (h2 : GR b c) : GR a c := ⟨fun h => h2.imp (h1.imp h)⟩

theorem gr_of_groups {s s' : Slave} (hg : s'.groups = s.groups) : GR s s' := by
  refine ⟨fun h g => ?_⟩; unfold Slave.grp; rw [hg]; exact h g

theorem gr_emit (s : Slave) (o : Obs) : GR s (emit s o) := gr_of_groups rfl
def DummyG (_ _ : Conn) : Prop := True
theorem gr_setConn (s : Slave) (i : Nat) (c : Conn) (_ : DummyG (s.conn i) c) : GR s (s.setConn i c) := gr_of_groups rfl
macro "grc" : tactic => `(tactic| exact trivial)
theorem gr_of_conns {s s' : Slave} (_ : s'.p = s.p) (_ : s'.conns = s.conns) (hg : s'.groups = s.groups) : GR s s' := gr_of_groups hg

theorem grp_setGrp (s : Slave) (g : Nat) (x : Group) (hg : g < s.groups.length) : (s.setGrp g x).grp g = x := by
  simp [Slave.grp, Slave.setGrp, List.getD_eq_getElem?_getD, hg]
theorem grp_setGrp_ne (s : Slave) (g g' : Nat) (x : Group) (h : g' ≠ g) : (s.setGrp g x).grp g' = s.grp g' := by
  simp [Slave.grp, Slave.setGrp, List.getD_eq_getElem?_getD, List.getElem?_set_ne (Ne.symm h)]

/-- replacing a group by one whose event ring is as good -/
theorem gr_setGrp (s : Slave) (g : Nat) (x : Group) (h : QOk (s.grp g).lowQ → QOk x.lowQ) : GR s (s.setGrp g x) := by
  refine ⟨fun hi g' => ?_⟩
  by_cases hg : g' = g
  · subst hg
    by_cases hl : g' < s.groups.length
    · rw [grp_setGrp _ _ _ hl]; exact h (hi g')
    · have hs : s.groups.set g' x = s.groups := List.set_eq_of_length_le (Nat.le_of_not_lt hl)
      have : (s.setGrp g' x).grp g' = s.grp g' := by unfold Slave.grp Slave.setGrp; simp only [hs]
      rw [this]; exact hi g'
  · rw [grp_setGrp_ne _ _ _ _ hg]; exact hi g'

/-- closes the side condition of `gr_setGrp` for the queue operations the server applies -/
macro "gwc" : tactic => `(tactic| first
  | exact fun h => h
  | exact fun h => ⟨qwf_markConfirmed _ _ _ h.1, by rw [markConfirmed_size]; exact h.2⟩
  | exact fun h => ⟨qwf_setEntryWaiting _ _ _ h.1, by rw [setEntryWaiting_size]; exact h.2⟩
  | exact fun h => ⟨qwf_getNextWaiting _ h.1, by rw [getNextWaiting_size]; exact h.2⟩)

theorem gr_write (s : Slave) (i : Nat) (b : List Nat) : GR s (write s i b).1 := by
  unfold write; simp only; split
  · exact GR.refl s
  · exact gr_emit s _

theorem gr_sendS (s : Slave) (i : Nat) : GR s (sendS s i) := by
  unfold sendS
  simp only
  have hw := gr_write s i [0x68, 0x04, 0x01, 0, seqLo (s.conn i).vr, seqHi (s.conn i).vr]
  generalize write s i [0x68, 0x04, 0x01, 0, seqLo (s.conn i).vr, seqHi (s.conn i).vr] = r at hw
  obtain ⟨s1, ok⟩ := r
  simp only at hw ⊢
  split
  · exact hw
  · exact GR.trans hw (gr_setConn _ _ _ (by grc))

theorem gr_sendI (s : Slave) (i : Nat) (a : List Nat) (q : Option (Nat × Nat)) : GR s (sendI s i a q) := by
  unfold sendI
  simp only
  have hw := gr_write s i ([0x68, (a.length + 4) % 256, seqLo (s.conn i).vs, seqHi (s.conn i).vs, seqLo (s.conn i).vr, seqHi (s.conn i).vr] ++ a)
  generalize write s i ([0x68, (a.length + 4) % 256, seqLo (s.conn i).vs, seqHi (s.conn i).vs, seqLo (s.conn i).vr, seqHi (s.conn i).vr] ++ a) = r at hw
  obtain ⟨s1, ok⟩ := r
  simp only at hw ⊢
  refine GR.trans hw (gr_setConn _ _ _ ?_)
  cases ok <;> (simp only [Bool.false_eq_true, if_false, if_true]; grc)

theorem gr_sendAsduInternal (s : Slave) (i : Nat) (a : List Nat) : GR s (sendAsduInternal s i a).1 := by
  unfold sendAsduInternal
  simp only
  repeat' split
  all_goals first
    | exact gr_sendI _ _ _ _
    | exact gr_setGrp _ _ _ (by gwc)
    | exact GR.refl _

theorem gr_deactivate (s : Slave) (i : Nat) : GR s (deactivate s i) := by
  unfold deactivate
  simp only
  split
  · exact GR.trans (gr_emit s _) (gr_setConn _ _ _ (by grc))
  · exact gr_setConn _ _ _ (by grc)

theorem gr_foldl0 {α} (f : Slave → α → Slave) (hf : ∀ s a, GR s (f s a)) : ∀ (l : List α) (s : Slave), GR s (l.foldl f s) := by
  intro l
  induction l with
  | nil => intro s; exact GR.refl s
  | cons a l ih => intro s; exact GR.trans (hf s a) (ih _)

theorem gr_confirmReleased (rel : List KEntry) (s : Slave) (i : Nat) : GR s (confirmReleased s i rel) := by
  unfold confirmReleased
  apply gr_foldl0
  intro t e
  split
  · exact gr_setGrp _ _ _ (by gwc)
  · exact GR.refl t

theorem gr_checkSeqConn (s : Slave) (i : Nat) (nr : Nat) : GR s (checkSeqConn s i nr).1 := by
  unfold checkSeqConn
  simp only
  generalize checkSeq (s.conn i).vs (s.conn i).win nr = r
  obtain ⟨ok, w, rel⟩ := r
  simp only
  exact GR.trans (gr_setConn _ _ _ (by grc)) (gr_confirmReleased _ _ _)

theorem gr_foldl {α} (f : Slave → α → Slave) (hf : ∀ s a, GR s (f s a)) : ∀ (l : List α) (s : Slave), GR s (l.foldl f s) := by
  intro l
  induction l with
  | nil => intro s; exact GR.refl s
  | cons a l ih => intro s; exact GR.trans (hf s a) (ih _)

theorem gr_appHandler (s : Slave) (i : Nat) (a : List Nat) : GR s (appHandler s i a) := by
  unfold appHandler
  simp only
  refine GR.trans (gr_emit s _) (gr_foldl _ ?_ _ _)
  intro t _
  exact GR.trans (gr_sendAsduInternal t i a) (gr_emit _ _)

/-- peel the outermost state transformer off a `GR s (F …)` goal (syntactic match only) -/
macro "gr_step" : tactic => `(tactic| first
  | with_reducible exact GR.refl _
  | ((with_reducible refine GR.trans ?_ (gr_setConn _ _ _ ?_)) <;> (try grc))
  | with_reducible refine GR.trans ?_ (gr_emit _ _)
  | with_reducible refine GR.trans ?_ (gr_setGrp _ _ _ (by gwc))
  | with_reducible refine GR.trans ?_ (gr_write _ _ _)
  | with_reducible refine GR.trans ?_ (gr_sendS _ _)
  | with_reducible refine GR.trans ?_ (gr_sendI _ _ _ _)
  | with_reducible refine GR.trans ?_ (gr_sendAsduInternal _ _ _)
  | with_reducible refine GR.trans ?_ (gr_deactivate _ _)
  | with_reducible refine GR.trans ?_ (gr_checkSeqConn _ _ _)
  | with_reducible refine GR.trans ?_ (gr_appHandler _ _ _))

theorem gr_handleI (s : Slave) (i : Nat) (buf : List Nat) : GR s (handleI s i buf).1 := by
  unfold handleI
  extract_lets n c c1 s1 ns nr
  have h1 : GR s s1 := gr_setConn _ _ _ (by dsimp only [c1, c]; split <;> grc)
  split
  · exact GR.refl s
  · split
    · exact GR.refl s
    · split
      · exact h1
      · have h2 := gr_checkSeqConn s1 i nr
        generalize checkSeqConn s1 i nr = r at h2
        obtain ⟨s2, ok⟩ := r
        dsimp only at h2
        show GR s (if (!ok) = true then (s2, false) else _).fst
        have h12 := GR.trans h1 h2
        split
        · exact h12
        · extract_lets c2 s3
          have h3 : GR s2 s3 := gr_setConn _ _ _ (by dsimp only [c2]; grc)
          split
          · split
            · exact GR.trans h12 h3
            · exact GR.trans h12 (GR.trans h3 (GR.trans (gr_appHandler _ _ _) (gr_setConn _ _ _ (by grc))))
          · exact GR.trans h12 h3

theorem gr_receiveMessage (s : Slave) (i : Nat) : GR s (receiveMessage s i).1 := by
  unfold receiveMessage
  simp only
  exact gr_setConn _ _ _ (by grc)

theorem gr_ackIfW (s : Slave) (i : Nat) : GR s (ackIfW s i) := by
  unfold ackIfW
  simp only
  split
  · exact GR.trans (gr_setConn _ _ _ (by grc)) (gr_sendS _ _)
  · exact GR.refl s

theorem gr_sendWaitingHigh (i : Nat) : ∀ (fuel : Nat) (s : Slave), GR s (sendWaitingHigh s i fuel).1 := by
  intro fuel
  induction fuel with
  | zero => intro s; exact GR.refl s
  | succ n ih =>
    intro s
    unfold sendWaitingHigh
    simp only
    repeat' split
    all_goals first
      | exact GR.refl _
      | exact gr_setGrp _ _ _ (by gwc)
      | exact GR.trans (gr_setGrp _ _ _ (by gwc)) (gr_sendI _ _ _ _)
      | exact GR.trans (GR.trans (gr_setGrp _ _ _ (by gwc)) (gr_sendI _ _ _ _)) (ih _)

theorem gr_sendWaitingASDUs (s : Slave) (i : Nat) : GR s (sendWaitingASDUs s i) := by
  unfold sendWaitingASDUs
  have h1 := gr_sendWaitingHigh i ((s.grp (s.gidx i)).highQ.count + 1) s
  generalize sendWaitingHigh s i ((s.grp (s.gidx i)).highQ.count + 1) = r at h1
  obtain ⟨s1, cont⟩ := r
  simp only at h1 ⊢
  split
  · exact h1
  · split
    · exact h1
    · have hq : QOk (s1.grp (s1.gidx i)).lowQ → QOk (s1.grp (s1.gidx i)).lowQ.getNextWaiting.1 :=
        fun h => ⟨qwf_getNextWaiting _ h.1, by rw [getNextWaiting_size]; exact h.2⟩
      generalize (s1.grp (s1.gidx i)).lowQ.getNextWaiting = gn at hq
      obtain ⟨lq, r⟩ := gn
      simp only at hq ⊢
      split
      · exact GR.trans h1 (GR.trans (gr_setGrp _ _ _ hq) (gr_sendI _ _ _ _))
      · exact GR.trans h1 (gr_setGrp _ _ _ hq)

/-- unfold nothing, split every `if` / `match`, name every `let`, peel the state transformers from the outside -/
macro "gr_auto" : tactic => `(tactic| repeat' (first
  | (with_reducible exact GR.refl _)
  | grc
  | split
  | extract_lets
  | gr_step
  | (dsimp (config := { zetaDelta := true, zeta := false }) only)))

theorem gr_phaseT3 (s : Slave) (i : Nat) : GR s (phaseT3 s i) := by
  unfold phaseT3
  try simp (config := { zeta := false }) only []
  gr_auto

theorem gr_phaseTestFR (s : Slave) (i : Nat) : GR s (phaseTestFR s i).1 := by
  unfold phaseTestFR
  try simp (config := { zeta := false }) only []
  gr_auto

theorem gr_phaseT2 (s : Slave) (i : Nat) : GR s (phaseT2 s i) := by
  unfold phaseT2
  try simp (config := { zeta := false }) only []
  gr_auto

theorem gr_phaseT1 (s : Slave) (i : Nat) (ok : Bool) : GR s (phaseT1 s i ok).1 := by
  unfold phaseT1
  try simp (config := { zeta := false }) only []
  gr_auto

theorem gr_handleTimeouts (s : Slave) (i : Nat) : GR s (handleTimeouts s i).1 := by
  unfold handleTimeouts
  try simp (config := { zeta := false }) only []
  exact GR.trans (gr_phaseT3 s i) (GR.trans (gr_phaseTestFR _ i) (GR.trans (gr_phaseT2 _ i) (gr_phaseT1 _ i _)))

theorem gr_periodic (s : Slave) (i : Nat) : GR s (periodic s i) := by
  unfold periodic
  have h1 : GR s (if (s.conn i).state = 1 then sendWaitingASDUs s i else s) := by
    split
    · exact gr_sendWaitingASDUs s i
    · exact GR.refl s
  extract_lets s1
  have h2 := gr_handleTimeouts s1 i
  generalize handleTimeouts s1 i = r at h2
  obtain ⟨s2, ok⟩ := r
  show GR s (if (!ok) = true then s2.setConn i { s2.conn i with isRunning := false } else s2)
  split
  · exact GR.trans h1 (GR.trans h2 (gr_setConn _ _ _ (by grc)))
  · exact GR.trans h1 h2

theorem gr_resetUnconfirmed (s : Slave) (j : Nat) : GR s (resetUnconfirmed s j) := by
  unfold resetUnconfirmed
  apply gr_foldl
  intro t e
  split
  · exact gr_setGrp _ _ _ (by gwc)
  · exact GR.refl t

theorem gr_t3upd (s : Slave) (i : Nat) : GR s (t3upd s i) := by
  unfold t3upd; exact gr_setConn _ _ _ (by grc)

theorem gr_hmTestFR (s : Slave) (i : Nat) : GR s (hmTestFR s i).1 := by
  unfold hmTestFR
  have h := gr_write s i TESTFR_CON
  generalize write s i TESTFR_CON = r at h
  obtain ⟨s1, ok⟩ := r
  show GR s (if ok = true then (t3upd s1 i, true) else (s1, false)).1
  split
  · exact GR.trans h (gr_t3upd _ _)
  · exact h

theorem gr_stopTail (s : Slave) (i : Nat) (c : Conn) (hc : DummyG (s.conn i) c) :
    GR s (let s := s.setConn i c
              let (s, ok) := write s i STOPDT_CON
              if ok then (t3upd s i, true) else (s, false)).1 := by
  extract_lets s1
  have h1 : GR s s1 := gr_setConn _ _ _ hc
  have h := gr_write s1 i STOPDT_CON
  generalize write s1 i STOPDT_CON = r at h
  obtain ⟨s2, ok⟩ := r
  show GR s (if ok = true then (t3upd s2 i, true) else (s2, false)).1
  split
  · exact GR.trans h1 (GR.trans h (gr_t3upd _ _))
  · exact GR.trans h1 h

theorem gr_hmStopDT (s : Slave) (i : Nat) : GR s (hmStopDT s i).1 := by
  unfold hmStopDT
  extract_lets s0 c s1
  have h0 : GR s s0 := gr_deactivate s i
  have h1 : GR s0 s1 := by
    dsimp only [s1]
    split
    · exact GR.trans (gr_setConn _ _ _ (by dsimp only [c]; grc)) (gr_sendS _ _)
    · exact GR.refl _
  split
  · exact GR.trans h0 (GR.trans h1 (gr_t3upd _ _))
  · exact GR.trans h0 (GR.trans h1 (gr_stopTail s1 i _ (by grc)))

theorem gr_hmS (s : Slave) (i : Nat) (buf : List Nat) : GR s (hmS s i buf).1 := by
  unfold hmS
  extract_lets nr
  have h := gr_checkSeqConn s i nr
  generalize checkSeqConn s i nr = r at h
  obtain ⟨s1, ok⟩ := r
  dsimp only at h
  show GR s (if (!ok) = true then (s1, false) else _).1
  split
  · exact h
  · extract_lets c
    split
    · split
      · exact GR.trans h (gr_stopTail s1 i _ (by dsimp only [c]; grc))
      · exact GR.trans h (gr_t3upd _ _)
    · split
      · exact h
      · exact GR.trans h (gr_t3upd _ _)


theorem gr_activate (s : Slave) (i : Nat) : GR s (activate s i) := by
  unfold activate
  simp only
  generalize (List.filter _ (List.range s.conns.length)) = js
  have h0 : GR s (js.foldl deactivate s) := gr_foldl _ (fun t j => gr_deactivate t j) _ _
  generalize js.foldl deactivate s = t at h0
  refine GR.trans h0 ?_
  unfold activateConn
  simp only
  split
  · exact GR.trans (gr_emit _ _) (gr_setConn _ _ _ (by grc))
  · exact gr_setConn _ _ _ (by grc)

theorem gr_hmStartDT (s : Slave) (i : Nat) : GR s (hmStartDT s i).1 := by
  unfold hmStartDT
  extract_lets s0 g s1
  have h0 : GR s s0 := gr_activate s i
  have h1 : GR s0 s1 := gr_setGrp _ _ _ (by gwc)
  have h := gr_write s1 i STARTDT_CON
  generalize write s1 i STARTDT_CON = r at h
  obtain ⟨s2, ok⟩ := r
  show GR s (if ok = true then (t3upd s2 i, true) else (s2, false)).1
  split
  · exact GR.trans h0 (GR.trans h1 (GR.trans h (gr_t3upd _ _)))
  · exact GR.trans h0 (GR.trans h1 h)

theorem gr_handleMessage (s : Slave) (i : Nat) (buf : List Nat) : GR s (handleMessage s i buf).1 := by
  unfold handleMessage
  extract_lets n b2
  split
  · exact GR.refl s
  split
  · exact GR.refl s
  split
  · exact GR.refl s
  split
  · exact gr_handleI s i buf
  split
  · exact gr_hmTestFR s i
  split
  · exact gr_hmStartDT s i
  split
  · exact gr_hmStopDT s i
  split
  · exact GR.trans (gr_setConn _ _ _ (by grc)) (gr_t3upd _ _)
  split
  · exact gr_hmS s i buf
  · exact GR.refl s

theorem gr_handleTcpConnection (s : Slave) (i : Nat) : GR s (handleTcpConnection s i) := by
  unfold handleTcpConnection
  have h1 := gr_receiveMessage s i
  generalize receiveMessage s i = r at h1
  obtain ⟨s1, rr, msg⟩ := r
  dsimp only at h1
  simp (config := { zeta := false }) only []
  extract_lets c0 s2 c3 s4
  have h2 : GR s1 s2 := by
    dsimp only [s2]; split
    · exact gr_setConn _ _ _ (by grc)
    · exact GR.refl _
  have h12 := GR.trans h1 h2
  split
  · have h3 := gr_handleMessage s2 i msg
    have h4 : GR (handleMessage s2 i msg).1 s4 := by
      dsimp only [s4]; split
      · exact gr_setConn _ _ _ (by grc)
      · exact GR.refl _
    exact GR.trans h12 (GR.trans h3 (GR.trans h4 (gr_ackIfW _ _)))
  · exact h12

theorem gr_reap (t : Slave) (j : Nat) : GR t (reap t j) := by
  unfold reap
  extract_lets s1 s2 c3 s3
  have h1 : GR t s1 := gr_emit _ _
  have h2 : GR s1 s2 := gr_resetUnconfirmed _ _
  have h3 : GR s2 s3 := gr_setConn _ _ _ (by grc)
  exact GR.trans h1 (GR.trans h2 (GR.trans h3 (gr_of_groups rfl)))

theorem ginv_handleClientConnections (s : Slave) (h : GInv s) : GInv (handleClientConnections s) :=
  p2_handleClientConnections GInv (fun t j _ ht => (gr_handleTcpConnection t j).imp ht)
    (fun t j _ ht => (gr_periodic t j).imp ht) (fun t j _ ht => (gr_reap t j).imp ht) s h

theorem qok_initialize (q : MsgQueue) (h : QOk q) : QOk q.initialize := ⟨qwf_initialize q, h.2⟩
theorem qok_releaseAll (q : MsgQueue) (h : QOk q) : QOk q.releaseAll := ⟨qwf_releaseAll q, h.2⟩

theorem gr_initConn (s : Slave) (i : Nat) (sk : Sock) (g : Nat) : GR s (initConn s i sk g) := by
  unfold initConn
  extract_lets c c1 s1 gi gr gr2
  refine GR.trans (gr_setConn _ _ _ (by grc)) (gr_setGrp _ _ _ ?_)
  intro h
  show QOk gr2.lowQ
  dsimp only [gr2]
  split
  · exact qok_releaseAll _ h
  · exact h

theorem gr_accept (s : Slave) : GR s (accept s) := by
  unfold accept
  split
  · split
    · exact GR.refl s
    · rename_i sk rest _
      extract_lets s0
      have h0 : GR s s0 := gr_of_groups rfl
      split
      rename_i answer s1 heq
      have h1 : GR s0 s1 := by
        have e := (congrArg Prod.snd heq).symm
        dsimp only at e
        rw [e]
        split
        · exact GR.refl _
        · exact gr_of_groups rfl
      split
      · exact GR.trans h0 h1
      · extract_lets free grp
        clear_value free grp
        split
        · rename_i g i
          extract_lets gr0 s2 s3 s4 c5 s5
          have h2 : GR s1 s2 := by
            dsimp only [s2]; split
            · exact gr_setGrp _ _ _ (fun h => qok_initialize _ h)
            · exact GR.refl _
          have h3 : GR s2 s3 := gr_initConn _ _ _ _
          have h4 : GR s3 s4 := gr_of_groups rfl
          have h5 : GR s4 s5 := gr_setConn _ _ _ (by grc)
          exact GR.trans h0 (GR.trans h1 (GR.trans h2 (GR.trans h3 (GR.trans h4 (GR.trans h5 (gr_emit _ _))))))
        · exact GR.trans h0 h1
  · exact GR.refl s

theorem ginv_tick (s : Slave) (h : GInv s) : GInv (tick s) := by
  unfold tick
  exact ginv_handleClientConnections _ ((gr_accept s).imp h)

theorem grp_of_map (s' : Slave) (gs : List Group) (f : Group → Group) (h : s'.groups = gs.map f) (g : Nat) :
    s'.grp g = if g < gs.length then f (gs.getD g {}) else {} := by
  unfold Slave.grp
  rw [h]
  simp only [List.getD_eq_getElem?_getD, List.getElem?_map]
  by_cases hg : g < gs.length
  · simp [hg]
  · simp [hg, List.getElem?_eq_none (Nat.le_of_not_lt hg)]

theorem qok_default : QOk ({} : Group).lowQ := ⟨qwf_create 1, by decide⟩

theorem ginv_enqueue (s : Slave) (a : List Nat) (h : GInv s) : GInv (enqueue s a) := by
  intro g
  rw [grp_of_map (enqueue s a) s.groups (fun g => { g with lowQ := g.lowQ.enqueue a }) rfl g]
  split
  · exact ⟨qwf_enqueue _ a (h g).2 (h g).1, by show ((s.grp g).lowQ.enqueue a).size ≥ 266; rw [enqueue_size]; exact (h g).2⟩
  · exact qok_default

theorem qok_create (n : Nat) (hn : 1 ≤ n) : QOk (MsgQueue.create n) :=
  ⟨qwf_create n, by
    show 266 ≤ n * (HDR + 256)
    simp only [HDR]
    calc 266 ≤ 1 * (16 + 256) := by decide
      _ ≤ n * (16 + 256) := Nat.mul_le_mul_right _ hn⟩

theorem ginv_restart (s : Slave) (hq : 1 ≤ s.p.lowQ) (h : GInv s) : GInv (restart s) := by
  intro g
  by_cases hm : s.p.mode = 2
  · have : (restart s).groups = s.groups := by unfold restart; simp [hm]
    unfold Slave.grp; rw [this]; exact h g
  · have : (restart s).groups = s.groups.map fun g => { g with lowQ := MsgQueue.create s.p.lowQ, highQ := HpQueue.create s.p.highQ } := by
      unfold restart; simp [hm]
    rw [grp_of_map (restart s) s.groups _ this g]
    split
    · exact qok_create _ hq
    · exact qok_default

/-- the invariant with its side condition on the configuration -/
def GOk (s : Slave) : Prop := 1 ≤ s.p.lowQ ∧ GInv s

theorem gok_apply (s : Slave) (op : WOp) (h : GOk s) : GOk (op.apply s) := by
  refine ⟨by rw [apply_p]; exact h.1, ?_⟩
  cases op with
  | tick => exact ginv_tick s h.2
  | enqueue a => exact ginv_enqueue s a h.2
  | restart => exact ginv_restart s h.1 h.2
  | env e => intro g; show QOk ((e.f s).grp g).lowQ; unfold Slave.grp; rw [e.groups]; exact h.2 g

theorem create_gok (p : Params) (gs : List (String × List (Bool × List Nat))) (hq : 1 ≤ p.lowQ) : GOk (create p gs) := by
  refine ⟨by unfold create; exact hq, fun g => ?_⟩
  have key : ∀ (l : List Group), (∀ x ∈ l, QOk x.lowQ) → QOk (l.getD g {}).lowQ := by
    intro l hl
    rw [List.getD_eq_getElem?_getD]
    cases hx : l[g]? with
    | none => exact qok_default
    | some x => exact hl x (List.mem_of_getElem? hx)
  unfold Slave.grp create
  simp only
  apply key
  intro x hx
  repeat' split at hx
  all_goals (simp at hx)
  all_goals first
    | (rw [hx]; exact qok_create _ hq)
    | (obtain ⟨_, _, rfl⟩ := hx; exact qok_create _ hq)
    | (obtain ⟨_, rfl⟩ := hx; exact qok_create _ hq)
    | (obtain ⟨_, _, _, rfl⟩ := hx; exact qok_create _ hq)

/-- **every history**: from a freshly created server with an event queue for at least one entry, after any sequence of
ticks, enqueues, restarts and environment events, the event ring of every redundancy group / connection satisfies the
layout invariant `MqInv` of the ring refinement -/
theorem run_gok (p : Params) (gs : List (String × List (Bool × List Nat))) (hq : 1 ≤ p.lowQ) (ops : List WOp) :
    GOk (ops.foldl WOp.apply (create p gs)) := by
  have h0 := create_gok p gs hq
  generalize create p gs = s at h0
  induction ops generalizing s with
  | nil => exact h0
  | cons op ops ih => exact ih _ (gok_apply s op h0)

end Iec.Srv104
