import Iec.Model.Srv104
/-
Reassembly lemmas: one `receiveMessage` call in terms of the unconsumed octet stream, and
the loop `drain` equals the stream specification `parseS`.
-/
namespace Iec.Srv104

/-- octets still to be read from the socket -/
def Sock.stream (s : Sock) : List Nat := s.chunks.flatten

/-- the harness never feeds an empty chunk -/
def Sock.Ok (s : Sock) : Prop := s.peerClosed = false ∧ ∀ c ∈ s.chunks, c ≠ []

theorem read_spec (s : Sock) (h : s.Ok) (n : Nat) :
    let r := s.read n
    r.1.Ok ∧ r.2.1 = (r.2.2.length : Int) ∧ r.2.2 ++ r.1.stream = s.stream ∧ r.2.2.length ≤ n ∧
    (s.stream ≠ [] → 0 < n → r.2.2 ≠ []) ∧ (s.stream = [] → r.2.2 = []) := by
  obtain ⟨hc, hne⟩ := h
  unfold Sock.read
  cases hch : s.chunks with
  | nil =>
    simp only [hc, Bool.false_eq_true, if_false]
    refine ⟨⟨hc, by simp [hch]⟩, by simp, by simp [Sock.stream, hch], by simp, by simp [Sock.stream, hch], by simp⟩
  | cons c rest =>
    have hcne : c ≠ [] := hne c (by simp [hch])
    have hce : c.isEmpty = false := by cases c <;> simp_all
    simp only [hce, Bool.false_eq_true, if_false]
    refine ⟨⟨hc, ?_⟩, trivial, ?_, by simp; omega, ?_, ?_⟩
    · intro x hx
      by_cases hl : (c.drop n).isEmpty = true
      · simp only [hl, if_true] at hx; exact hne x (by simp [hch, hx])
      · simp only [hl] at hx
        simp only [Bool.false_eq_true, if_false, List.mem_cons] at hx
        rcases hx with rfl | hx
        · intro he; simp [he] at hl
        · exact hne x (by simp [hch, hx])
    · simp only [Sock.stream, hch, List.flatten_cons]
      by_cases hl : (c.drop n).isEmpty = true
      · simp only [hl, if_true]
        have : c.drop n = [] := by simpa using hl
        congr 1
        conv => rhs; rw [← List.take_append_drop n c]
        rw [this]; simp
      · simp only [hl, Bool.false_eq_true, if_false, List.flatten_cons]
        rw [← List.append_assoc, List.take_append_drop]
    · intro _ hn
      intro he
      have : c.take n = [] := he
      cases c with
      | nil => exact hcne rfl
      | cons a as => cases n with
        | zero => omega
        | succ m => simp at this
    · intro hs; simp [Sock.stream, hch] at hs; exact absurd hs.1 hcne

/-- a complete frame: start octet, length octet L, exactly L further octets -/
def Complete (msg : List Nat) : Prop := ∃ len body, msg = 0x68 :: len :: body ∧ body.length = len

/-- what the receive buffer can hold between calls: nothing, the start octet, or start + length
+ fewer than L further octets -/
def PartialOk (buf : List Nat) : Prop :=
  buf = [] ∨ buf = [0x68] ∨ ∃ len xs, buf = 0x68 :: len :: xs ∧ xs.length < len

theorem recvRest_spec (len : Nat) (xs : List Nat) (hx : xs.length ≤ len) (sk : Sock) (h : sk.Ok) :
    let r := recvRest (0x68 :: len :: xs) sk
    r.2.1.Ok ∧ r.2.1.stream.length ≤ sk.stream.length ∧
    ((r.2.2.1 = 0 ∧ PartialOk r.1 ∧ r.1 ++ r.2.1.stream = (0x68 :: len :: xs) ++ sk.stream ∧
        (sk.stream ≠ [] → r.2.1.stream.length < sk.stream.length)) ∨
     (r.2.2.1 > 0 ∧ r.1 = [] ∧ Complete r.2.2.2 ∧ r.2.2.2 ++ r.2.1.stream = (0x68 :: len :: xs) ++ sk.stream ∧
        r.2.2.1 = (r.2.2.2.length : Int))) := by
  have hr := read_spec sk h (len - xs.length)
  simp only at hr
  obtain ⟨hok, hrl, hst, hle, hne, _⟩ := hr
  unfold recvRest
  simp only [List.getD_cons_succ, List.getD_cons_zero, List.length_cons]
  have hrem : ((len : Int) - ((xs.length + 1 + 1 : Nat) : Int) + 2).toNat = len - xs.length := by omega
  rw [hrem]
  generalize hrd : sk.read (len - xs.length) = rd at hok hrl hst hle hne
  obtain ⟨sk', r, got⟩ := rd
  simp only at hok hrl hst hle hne ⊢
  have hlen : sk'.stream.length ≤ sk.stream.length := by rw [← hst]; simp
  by_cases hfull : r = (len : Int) - ((xs.length + 1 + 1 : Nat) : Int) + 2
  · rw [if_pos hfull]
    refine ⟨hok, hlen, Or.inr ⟨by simp only; omega, rfl, ?_, ?_, ?_⟩⟩
    · exact ⟨len, xs ++ got, by simp, by simp; omega⟩
    · simp only [List.cons_append, List.append_assoc, hst]
    · simp only [List.length_append, List.length_cons]; omega
  · rw [if_neg hfull]
    have hr1 : ¬ r = -1 := by omega
    rw [if_neg hr1]
    refine ⟨hok, hlen, Or.inl ⟨rfl, ?_, ?_, ?_⟩⟩
    · exact Or.inr (Or.inr ⟨len, xs ++ got, by simp, by simp; omega⟩)
    · simp only [List.cons_append, List.append_assoc, hst]
    · intro hs
      have hx2 : xs.length < len := by omega
      have := hne hs (by omega)
      show sk'.stream.length < sk.stream.length
      rw [← hst]; simp only [List.length_append]
      cases got with
      | nil => exact absurd rfl this
      | cons a as => simp

/-- outcome of one `receiveMessage` call, in terms of the unconsumed octet stream -/
def StepPost (buf : List Nat) (sk : Sock) (r : List Nat × Sock × Int × List Nat) : Prop :=
  r.2.1.Ok ∧ r.2.1.stream.length ≤ sk.stream.length ∧
  ((r.2.2.1 = 0 ∧ PartialOk r.1 ∧ r.1 ++ r.2.1.stream = buf ++ sk.stream ∧
      (sk.stream ≠ [] → r.2.1.stream.length < sk.stream.length)) ∨
   (r.2.2.1 > 0 ∧ r.1 = [] ∧ Complete r.2.2.2 ∧ r.2.2.2 ++ r.2.1.stream = buf ++ sk.stream) ∨
   (r.2.2.1 < 0 ∧ buf = [] ∧ ∃ b rest, sk.stream = b :: rest ∧ b ≠ 0x68))

theorem recvLen_spec (sk : Sock) (h : sk.Ok) : StepPost [0x68] sk (recvLen [0x68] sk) := by
  have hr := read_spec sk h 1
  simp only at hr
  obtain ⟨hok, hrl, hst, hle, hne, hemp⟩ := hr
  unfold recvLen
  generalize hrd : sk.read 1 = rd at hok hrl hst hle hne hemp
  obtain ⟨sk', r, got⟩ := rd
  simp only at hok hrl hst hle hne hemp ⊢
  have hr0 : ¬ r < 0 := by omega
  rw [if_neg hr0]
  by_cases hz : r = 0
  · rw [if_pos hz]
    have hg : got = [] := by cases got with
      | nil => rfl
      | cons a as => simp at hrl; omega
    subst hg
    refine ⟨hok, by rw [← hst]; simp, Or.inl ⟨rfl, Or.inr (Or.inl rfl), by simpa using hst, ?_⟩⟩
    intro hs; exact absurd rfl (hne hs (by omega))
  · rw [if_neg hz]
    match got, hrl, hle with
    | [l], _, _ =>
      have := recvRest_spec l [] (by simp) sk' hok
      simp only [List.cons_append, List.nil_append] at this ⊢
      obtain ⟨hok2, hl2, hcase⟩ := this
      have hst' : l :: sk'.stream = sk.stream := by simpa using hst
      have hdec : (recvRest [104, l] sk').2.1.stream.length < sk.stream.length := by
        rw [← hst']; simp only [List.length_cons]; omega
      refine ⟨hok2, by omega, ?_⟩
      rcases hcase with ⟨a, b, c, d⟩ | ⟨a, b, c, d, _⟩
      · exact Or.inl ⟨a, b, by rw [c, ← hst']; rfl, fun _ => hdec⟩
      · exact Or.inr (Or.inl ⟨a, b, c, by rw [d, ← hst']; rfl⟩)
    | [], hrl, _ => simp at hrl; omega
    | _ :: _ :: _, _, hle => simp at hle

theorem recvStep_spec (buf : List Nat) (hb : PartialOk buf) (sk : Sock) (h : sk.Ok) :
    StepPost buf sk (recvStep buf sk) := by
  rcases hb with rfl | rfl | ⟨len, xs, rfl, hx⟩
  · -- empty buffer: start octet
    have hr := read_spec sk h 1
    simp only at hr
    obtain ⟨hok, hrl, hst, hle, hne, hemp⟩ := hr
    unfold recvStep
    simp only [List.length_nil, if_true]
    generalize hrd : sk.read 1 = rd at hok hrl hst hle hne hemp
    obtain ⟨sk', r, got⟩ := rd
    simp only at hok hrl hst hle hne hemp ⊢
    by_cases h1 : r < 1
    · rw [if_pos h1]
      have hg : got = [] := by cases got with
        | nil => rfl
        | cons a as => simp at hrl; omega
      subst hg
      have hr0 : r = 0 := by simp at hrl; omega
      refine ⟨hok, by rw [← hst]; simp, Or.inl ⟨hr0, Or.inl rfl, by simpa using hst, ?_⟩⟩
      intro hs; exact absurd rfl (hne hs (by omega))
    · rw [if_neg h1]
      match got, hrl, hle with
      | [b], _, _ =>
        have hst' : b :: sk'.stream = sk.stream := by simpa using hst
        by_cases hb68 : b = 0x68
        · subst hb68
          simp only [List.getD_cons_zero, bne_self_eq_false, Bool.false_eq_true, if_false]
          have := recvLen_spec sk' hok
          obtain ⟨hok2, hl2, hcase⟩ := this
          have hdec : (recvLen [104] sk').2.1.stream.length < sk.stream.length := by
            rw [← hst']; simp only [List.length_cons]; omega
          refine ⟨hok2, by omega, ?_⟩
          rcases hcase with ⟨a, b, c, d⟩ | ⟨a, b, c, d⟩ | ⟨a, b, _⟩
          · exact Or.inl ⟨a, b, by rw [c, ← hst']; rfl, fun _ => hdec⟩
          · exact Or.inr (Or.inl ⟨a, b, c, by rw [d, ← hst']; rfl⟩)
          · simp at b
        · have : (([b] : List Nat).getD 0 0 != 0x68) = true := by simp [hb68]
          rw [if_pos this]
          exact ⟨hok, by rw [← hst']; simp, Or.inr (Or.inr ⟨by simp, rfl, b, sk'.stream, hst'.symm, hb68⟩)⟩
      | [], hrl, _ => simp at hrl; omega
      | _ :: _ :: _, _, hle => simp at hle
  · unfold recvStep
    simp only [List.length_cons, List.length_nil]
    exact recvLen_spec sk h
  · unfold recvStep
    have h2 : ¬ ((0x68 :: len :: xs).length = 0) := by simp
    have h3 : ¬ ((0x68 :: len :: xs).length = 1) := by simp
    rw [if_neg h2, if_neg h3]
    have := recvRest_spec len xs (by omega) sk h
    obtain ⟨hok, hl2, hcase⟩ := this
    refine ⟨hok, hl2, ?_⟩
    rcases hcase with ⟨a, b, c, d⟩ | ⟨a, b, c, d, _⟩
    · exact Or.inl ⟨a, b, c, d⟩
    · exact Or.inr (Or.inl ⟨a, b, c, d⟩)

/-- **specification**: the frames of an octet stream, whether it hits a wrong start octet,
and the incomplete tail - a function of the stream alone -/
def parseS : List Nat → List (List Nat) × Bool × List Nat
  | [] => ([], false, [])
  | [b] => if b = 0x68 then ([], false, [b]) else ([], true, [])
  | b :: len :: rest =>
    if b ≠ 0x68 then ([], true, [])
    else if rest.length < len then ([], false, b :: len :: rest)
    else
      let r := parseS (rest.drop len)
      ((b :: len :: rest.take len) :: r.1, r.2.1, r.2.2)
termination_by S => S.length
decreasing_by simp; omega

/-- what the connection loop does with the socket: call `receiveMessage` until the input is
used up (or an error), collecting the complete frames -/
def drain : Nat → List Nat → Sock → List (List Nat) × Bool × List Nat
  | 0, buf, _ => ([], false, buf)
  | f + 1, buf, sk =>
    let r := recvStep buf sk
    if r.2.2.1 < 0 then ([], true, [])
    else if r.2.2.1 > 0 then
      let d := drain f r.1 r.2.1
      (r.2.2.2 :: d.1, d.2.1, d.2.2)
    else if r.2.1.stream = [] then ([], false, r.1)
    else drain f r.1 r.2.1

theorem parseS_partial (b : List Nat) (h : PartialOk b) : parseS b = ([], false, b) := by
  rcases h with rfl | rfl | ⟨len, xs, rfl, hx⟩
  · rw [parseS]
  · rw [parseS]; simp
  · rw [parseS]; simp [hx]

theorem parseS_complete (msg R : List Nat) (h : Complete msg) :
    parseS (msg ++ R) = (msg :: (parseS R).1, (parseS R).2.1, (parseS R).2.2) := by
  obtain ⟨len, body, rfl, hb⟩ := h
  simp only [List.cons_append]
  rw [parseS]
  have h1 : ¬ ((body ++ R).length < len) := by simp; omega
  simp only [ne_eq, not_true_eq_false, if_false, h1]
  have e1 : (body ++ R).drop len = R := by rw [← hb]; exact List.drop_left
  have e2 : (body ++ R).take len = body := by rw [← hb]; exact List.take_left
  rw [e1, e2]

theorem parseS_badstart (b : Nat) (rest : List Nat) (h : b ≠ 0x68) : parseS (b :: rest) = ([], true, []) := by
  cases rest with
  | nil => rw [parseS]; simp [h]
  | cons l r => rw [parseS]; simp [h]

/-- **the loop delivers exactly the frames of the stream** -/
theorem drain_eq_parse : ∀ (fuel : Nat) (buf : List Nat) (sk : Sock), PartialOk buf → sk.Ok →
    2 * sk.stream.length + buf.length < fuel → drain fuel buf sk = parseS (buf ++ sk.stream) := by
  intro fuel
  induction fuel with
  | zero => intro buf sk _ _ h; omega
  | succ f ih =>
    intro buf sk hb hk hf
    have hs := recvStep_spec buf hb sk hk
    unfold drain
    obtain ⟨hok, hlen, hcase⟩ := hs
    rcases hcase with ⟨a, b, c, d⟩ | ⟨a, b, c, d⟩ | ⟨a, b, x, rest, hx, hne⟩
    · have n1 : ¬ ((recvStep buf sk).2.2.1 < 0) := by omega
      have n2 : ¬ ((recvStep buf sk).2.2.1 > 0) := by omega
      simp only [n1, n2, if_false]
      by_cases he : (recvStep buf sk).2.1.stream = []
      · rw [if_pos he, ← c, he, List.append_nil, parseS_partial _ b]
      · rw [if_neg he, ← c]
        by_cases hse : sk.stream = []
        · rw [hse] at hlen; simp at hlen; exact absurd hlen he
        · have hd := d hse
          have hl := congrArg List.length c
          simp only [List.length_append] at hl
          exact ih _ _ b hok (by omega)
    · have n1 : ¬ ((recvStep buf sk).2.2.1 < 0) := by omega
      simp only [n1, if_false, a, if_true]
      rw [← d, parseS_complete _ _ c]
      have hl := congrArg List.length d
      simp only [List.length_append] at hl
      obtain ⟨len, body, hm, _⟩ := c
      have hm2 : 2 ≤ (recvStep buf sk).2.2.2.length := by rw [hm]; simp
      have := ih (recvStep buf sk).1 (recvStep buf sk).2.1 (by rw [b]; exact Or.inl rfl) hok (by rw [b]; simp; omega)
      rw [this, b]; simp
    · simp only [a, if_true]
      rw [b, hx, List.nil_append, parseS_badstart x rest hne]

/-- **C05 (i), segmentation independence.** However the same octets are split into reads
(any chunk sizes, any number of empty polls in between), the same frames are handed over
in the same order, the same close decision is taken and the same incomplete tail remains. -/
theorem segmentation_independent (buf : List Nat) (hb : PartialOk buf) (sk1 sk2 : Sock) (h1 : sk1.Ok) (h2 : sk2.Ok)
    (hs : sk1.stream = sk2.stream) (f1 f2 : Nat) (hf1 : 2 * sk1.stream.length + buf.length < f1)
    (hf2 : 2 * sk2.stream.length + buf.length < f2) : drain f1 buf sk1 = drain f2 buf sk2 := by
  rw [drain_eq_parse f1 buf sk1 hb h1 hf1, drain_eq_parse f2 buf sk2 hb h2 hf2, hs]

end Iec.Srv104
