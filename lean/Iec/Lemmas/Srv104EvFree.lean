/-
No connection event is reported while I-format APDUs are written: the functions that write I-format APDUs (the I-format
branch of `handleMessage`, the periodic tasks) append no `ev` entry to the log (`EvFree`); the other branches of
`handleMessage` write no I-format APDU (`NoI`, Lemmas/Srv104ITx.lean).  With `LInv` (Lemmas/Srv104LifeLog.lean) this gives,
over every history: an I-format APDU is written on a connection only while the last event of its slot is ACTIVATED.
-/
import Iec.Lemmas.Srv104LifeLog
import Iec.Lemmas.Srv104ITx
namespace Iec.Srv104
open Iec.KWindow Iec.Queues

/-- the log is extended by entries that are not connection events -/
def EvFree (s s' : Slave) : Prop := ∃ l, s'.log = s.log ++ l ∧ ∀ o ∈ l, o.notEv

theorem EvFree.refl (s : Slave) : EvFree s s := ⟨[], by simp, by simp⟩
theorem EvFree.trans {a b c : Slave} (h1 : EvFree a b) (h2 : EvFree b c) : EvFree a c := by
  obtain ⟨l1, e1, p1⟩ := h1
  obtain ⟨l2, e2, p2⟩ := h2
  refine ⟨l1 ++ l2, by rw [e2, e1, List.append_assoc], fun o ho => ?_⟩
  rcases List.mem_append.mp ho with h | h
  · exact p1 o h
  · exact p2 o h

theorem ef_of_log {s s' : Slave} (h : s'.log = s.log) : EvFree s s' := ⟨[], by rw [h]; simp, by simp⟩
theorem ef_setGrp (s : Slave) (g : Nat) (x : Group) : EvFree s (s.setGrp g x) := ef_of_log rfl
theorem ef_emit (s : Slave) (o : Obs) (h : o.notEv) : EvFree s (emit s o) := ⟨[o], rfl, fun x hx => by simp at hx; rw [hx]; exact h⟩

/-- placeholder side condition, so that the proof scripts of the other frame relations can be reused unchanged -/
def DummyT (_ : Conn) : Prop := True
theorem ef_setConn (s : Slave) (i : Nat) (c : Conn) (_ : DummyT c) : EvFree s (s.setConn i c) := ef_of_log rfl
macro "efc" : tactic => `(tactic| exact trivial)

theorem ef_write (s : Slave) (i : Nat) (b : List Nat) : EvFree s (write s i b).1 := by
  unfold write; simp only; split
  · exact EvFree.refl s
  · exact ef_emit s _ trivial

theorem ef_sendS (s : Slave) (i : Nat) : EvFree s (sendS s i) := by
  unfold sendS
  simp only
  have hw := ef_write s i [0x68, 0x04, 0x01, 0, seqLo (s.conn i).vr, seqHi (s.conn i).vr]
  generalize write s i [0x68, 0x04, 0x01, 0, seqLo (s.conn i).vr, seqHi (s.conn i).vr] = r at hw
  obtain ⟨s1, ok⟩ := r
  simp only at hw ⊢
  split
  · exact hw
  · exact EvFree.trans hw (ef_setConn _ _ _ (by efc))

theorem ef_sendI (s : Slave) (i : Nat) (a : List Nat) (q : Option (Nat × Nat)) : EvFree s (sendI s i a q) := by
  unfold sendI
  simp only
  have hw := ef_write s i ([0x68, (a.length + 4) % 256, seqLo (s.conn i).vs, seqHi (s.conn i).vs, seqLo (s.conn i).vr, seqHi (s.conn i).vr] ++ a)
  generalize write s i ([0x68, (a.length + 4) % 256, seqLo (s.conn i).vs, seqHi (s.conn i).vs, seqLo (s.conn i).vr, seqHi (s.conn i).vr] ++ a) = r at hw
  obtain ⟨s1, ok⟩ := r
  simp only at hw ⊢
  refine EvFree.trans hw (ef_setConn _ _ _ ?_)
  cases ok <;> (simp only [Bool.false_eq_true, if_false, if_true]; efc)

theorem ef_sendAsduInternal (s : Slave) (i : Nat) (a : List Nat) : EvFree s (sendAsduInternal s i a).1 := by
  unfold sendAsduInternal
  simp only
  repeat' split
  all_goals first
    | exact ef_sendI _ _ _ _
    | exact ef_setGrp _ _ _
    | exact EvFree.refl _

theorem ef_foldl {α} (f : Slave → α → Slave) (hf : ∀ s a, EvFree s (f s a)) : ∀ (l : List α) (s : Slave), EvFree s (l.foldl f s) := by
  intro l
  induction l with
  | nil => intro s; exact EvFree.refl s
  | cons a l ih => intro s; exact EvFree.trans (hf s a) (ih _)

theorem ef_confirmReleased (rel : List KEntry) (s : Slave) (i : Nat) : EvFree s (confirmReleased s i rel) := by
  unfold confirmReleased
  apply ef_foldl
  intro t e
  split
  · exact ef_setGrp _ _ _
  · exact EvFree.refl t

theorem ef_checkSeqConn (s : Slave) (i : Nat) (nr : Nat) : EvFree s (checkSeqConn s i nr).1 := by
  unfold checkSeqConn
  simp only
  generalize checkSeq (s.conn i).vs (s.conn i).win nr = r
  obtain ⟨ok, w, rel⟩ := r
  simp only
  exact EvFree.trans (ef_setConn _ _ _ (by efc)) (ef_confirmReleased _ _ _)

theorem ef_appHandler (s : Slave) (i : Nat) (a : List Nat) : EvFree s (appHandler s i a) := by
  unfold appHandler
  simp only
  refine EvFree.trans (ef_emit s _ (by exact trivial)) (ef_foldl _ ?_ _ _)
  intro t _
  exact EvFree.trans (ef_sendAsduInternal t i a) (ef_emit _ _ (by exact trivial))

/-- peel the outermost state transformer off a `EvFree s (F …)` goal (syntactic match only) -/
macro "ef_step" : tactic => `(tactic| first
  | with_reducible exact EvFree.refl _
  | ((with_reducible refine EvFree.trans ?_ (ef_setConn _ _ _ ?_)) <;> (try efc))
  | with_reducible refine EvFree.trans ?_ (ef_emit _ _ (by exact trivial))
  | with_reducible refine EvFree.trans ?_ (ef_setGrp _ _ _)
  | with_reducible refine EvFree.trans ?_ (ef_write _ _ _)
  | with_reducible refine EvFree.trans ?_ (ef_sendS _ _)
  | with_reducible refine EvFree.trans ?_ (ef_sendI _ _ _ _)
  | with_reducible refine EvFree.trans ?_ (ef_sendAsduInternal _ _ _)
  | with_reducible refine EvFree.trans ?_ (ef_checkSeqConn _ _ _)
  | with_reducible refine EvFree.trans ?_ (ef_appHandler _ _ _))

theorem ef_handleI (s : Slave) (i : Nat) (buf : List Nat) : EvFree s (handleI s i buf).1 := by
  unfold handleI
  extract_lets n c c1 s1 ns nr
  have h1 : EvFree s s1 := ef_setConn _ _ _ (by dsimp only [c1, c]; split <;> efc)
  split
  · exact EvFree.refl s
  · split
    · exact EvFree.refl s
    · split
      · exact h1
      · have h2 := ef_checkSeqConn s1 i nr
        generalize checkSeqConn s1 i nr = r at h2
        obtain ⟨s2, ok⟩ := r
        dsimp only at h2
        show EvFree s (if (!ok) = true then (s2, false) else _).fst
        have h12 := EvFree.trans h1 h2
        split
        · exact h12
        · extract_lets c2 s3
          have h3 : EvFree s2 s3 := ef_setConn _ _ _ (by dsimp only [c2]; efc)
          split
          · split
            · exact EvFree.trans h12 h3
            · exact EvFree.trans h12 (EvFree.trans h3 (EvFree.trans (ef_appHandler _ _ _) (ef_setConn _ _ _ (by efc))))
          · exact EvFree.trans h12 h3

theorem ef_receiveMessage (s : Slave) (i : Nat) : EvFree s (receiveMessage s i).1 := by
  unfold receiveMessage
  simp only
  exact ef_setConn _ _ _ (by efc)

theorem ef_ackIfW (s : Slave) (i : Nat) : EvFree s (ackIfW s i) := by
  unfold ackIfW
  simp only
  split
  · exact EvFree.trans (ef_setConn _ _ _ (by efc)) (ef_sendS _ _)
  · exact EvFree.refl s

theorem ef_sendWaitingHigh (i : Nat) : ∀ (fuel : Nat) (s : Slave), EvFree s (sendWaitingHigh s i fuel).1 := by
  intro fuel
  induction fuel with
  | zero => intro s; exact EvFree.refl s
  | succ n ih =>
    intro s
    unfold sendWaitingHigh
    simp only
    repeat' split
    all_goals first
      | exact EvFree.refl _
      | exact ef_setGrp _ _ _
      | exact EvFree.trans (ef_setGrp _ _ _) (ef_sendI _ _ _ _)
      | exact EvFree.trans (EvFree.trans (ef_setGrp _ _ _) (ef_sendI _ _ _ _)) (ih _)

theorem ef_sendWaitingASDUs (s : Slave) (i : Nat) : EvFree s (sendWaitingASDUs s i) := by
  unfold sendWaitingASDUs
  have h1 := ef_sendWaitingHigh i ((s.grp (s.gidx i)).highQ.count + 1) s
  simp only
  repeat' split
  all_goals first
    | exact h1
    | exact EvFree.trans h1 (ef_setGrp _ _ _)
    | exact EvFree.trans h1 (EvFree.trans (ef_setGrp _ _ _) (ef_sendI _ _ _ _))

/-- unfold nothing, split every `if` / `match`, name every `let`, peel the state transformers from the outside -/
macro "ef_auto" : tactic => `(tactic| repeat' (first
  | (with_reducible exact EvFree.refl _)
  | efc
  | split
  | extract_lets
  | ef_step
  | (dsimp (config := { zetaDelta := true, zeta := false }) only)))

theorem ef_phaseT3 (s : Slave) (i : Nat) : EvFree s (phaseT3 s i) := by
  unfold phaseT3
  try simp (config := { zeta := false }) only []
  ef_auto

theorem ef_phaseTestFR (s : Slave) (i : Nat) : EvFree s (phaseTestFR s i).1 := by
  unfold phaseTestFR
  try simp (config := { zeta := false }) only []
  ef_auto

theorem ef_phaseT2 (s : Slave) (i : Nat) : EvFree s (phaseT2 s i) := by
  unfold phaseT2
  try simp (config := { zeta := false }) only []
  ef_auto

theorem ef_phaseT1 (s : Slave) (i : Nat) (ok : Bool) : EvFree s (phaseT1 s i ok).1 := by
  unfold phaseT1
  try simp (config := { zeta := false }) only []
  ef_auto

theorem ef_handleTimeouts (s : Slave) (i : Nat) : EvFree s (handleTimeouts s i).1 := by
  unfold handleTimeouts
  try simp (config := { zeta := false }) only []
  exact EvFree.trans (ef_phaseT3 s i) (EvFree.trans (ef_phaseTestFR _ i) (EvFree.trans (ef_phaseT2 _ i) (ef_phaseT1 _ i _)))

theorem ef_periodic (s : Slave) (i : Nat) : EvFree s (periodic s i) := by
  unfold periodic
  have h1 : EvFree s (if (s.conn i).state = 1 then sendWaitingASDUs s i else s) := by
    split
    · exact ef_sendWaitingASDUs s i
    · exact EvFree.refl s
  extract_lets s1
  have h2 := ef_handleTimeouts s1 i
  generalize handleTimeouts s1 i = r at h2
  obtain ⟨s2, ok⟩ := r
  show EvFree s (if (!ok) = true then s2.setConn i { s2.conn i with isRunning := false } else s2)
  split
  · exact EvFree.trans h1 (EvFree.trans h2 (ef_setConn _ _ _ (by efc)))
  · exact EvFree.trans h1 h2


/-! ### a call either writes no I-format APDU or reports no event -/

theorem handleMessage_noI_or_evfree (s : Slave) (i : Nat) (buf : List Nat) :
    NoI i s (handleMessage s i buf).1 ∨ EvFree s (handleMessage s i buf).1 := by
  unfold handleMessage
  extract_lets n b2
  split
  · exact Or.inr (EvFree.refl s)
  split
  · exact Or.inr (EvFree.refl s)
  split
  · exact Or.inr (EvFree.refl s)
  split
  · exact Or.inr (ef_handleI s i buf)
  split
  · exact Or.inl (noI_hmTestFR i s i)
  split
  · exact Or.inl (noI_hmStartDT i s i)
  split
  · exact Or.inl (noI_hmStopDT i s i)
  split
  · exact Or.inl (IExt.trans (noI_setConn _ _ _ _) (noI_t3upd _ _ _))
  split
  · exact Or.inl (noI_hmS i s i buf)
  · exact Or.inr (EvFree.refl s)

theorem handleTcpConnection_noI_or_evfree (s : Slave) (j : Nat) :
    NoI j s (handleTcpConnection s j) ∨ EvFree s (handleTcpConnection s j) := by
  unfold handleTcpConnection
  have n1 := (receiveMessage_facts j s).1
  have e1 := ef_receiveMessage s j
  generalize receiveMessage s j = r at n1 e1
  obtain ⟨s1, rr, msg⟩ := r
  dsimp only at n1 e1
  simp (config := { zeta := false }) only []
  extract_lets c1 s2 c3 s4
  have n2 : NoI j s1 s2 := by dsimp only [s2]; split; exact noI_setConn _ _ _ _; exact IExt.refl _ _ _
  have e2 : EvFree s1 s2 := by dsimp only [s2]; split; exact ef_of_log rfl; exact EvFree.refl _
  split
  · have n4 : NoI j (handleMessage s2 j msg).1 s4 := by
      dsimp only [s4]; split; exact noI_setConn _ _ _ _; exact IExt.refl _ _ _
    have e4 : EvFree (handleMessage s2 j msg).1 s4 := by
      dsimp only [s4]; split; exact ef_of_log rfl; exact EvFree.refl _
    rcases handleMessage_noI_or_evfree s2 j msg with h | h
    · exact Or.inl (IExt.trans (IExt.trans n1 n2) (IExt.trans h (IExt.trans n4 (noI_ackIfW _ _ _))))
    · exact Or.inr (EvFree.trans (EvFree.trans e1 e2) (EvFree.trans h (EvFree.trans e4 (ef_ackIfW _ _))))
  · exact Or.inl (IExt.trans n1 n2)

/-! ### over every history: I-format APDUs only while the last event of the slot is ACTIVATED -/

/-- every I-format APDU in the log was written while the last event of its slot was ACTIVATED -/
def IInv (s : Slave) : Prop :=
  ∀ l1 c b l2, s.log = l1 ++ Obs.tx c b :: l2 → isI b → lifeOf l1 c = 2

theorem lifeOf_evfree (l m : List Obs) (j : Nat) (h : ∀ o ∈ m, o.notEv) : lifeOf (l ++ m) j = lifeOf l j := by
  induction m generalizing l with
  | nil => simp
  | cons o m ih =>
    have : l ++ o :: m = (l ++ [o]) ++ m := by simp
    rw [this, ih (l ++ [o]) (fun x hx => h x (by simp [hx])), lifeOf_snoc, lifeStep_notEv _ _ _ (h o (by simp))]

/-- splitting an appended log at an entry: the entry lies in the old part or in the new part -/
theorem split_append {α} (a l l1 l2 : List α) (x : α) (h : a ++ l = l1 ++ x :: l2) :
    (∃ r, a = l1 ++ x :: r ∧ l2 = r ++ l) ∨ (∃ m1, l1 = a ++ m1 ∧ l = m1 ++ x :: l2) := by
  induction a generalizing l1 with
  | nil => exact Or.inr ⟨l1, by simp, by simpa using h⟩
  | cons y a ih =>
    cases l1 with
    | nil =>
      simp only [List.cons_append, List.nil_append, List.cons.injEq] at h
      exact Or.inl ⟨a, by simp [h.1], by rw [← h.2]⟩
    | cons z l1 =>
      simp only [List.cons_append, List.cons.injEq] at h
      rcases ih l1 h.2 with ⟨r, hr1, hr2⟩ | ⟨m1, hm1, hm2⟩
      · exact Or.inl ⟨r, by rw [h.1, hr1]; rfl, hr2⟩
      · exact Or.inr ⟨m1, by rw [h.1, hm1]; rfl, hm2⟩

/-- one call for slot `j` in use: the invariant is kept -/
theorem iinv_step (s s' : Slave) (j : Nat) (hI : IInv s) (hL : LInv s) (hu : (s.conn j).isUsed = true)
    (hx : IExt j ((s.conn j).state = 1) s s') (hor : NoI j s s' ∨ EvFree s s') : IInv s' := by
  obtain ⟨l, hl, hp⟩ := hx
  intro l1 c b l2 hsplit hi
  rw [hl] at hsplit
  rcases split_append s.log l l1 l2 (Obs.tx c b) hsplit with ⟨r, hr1, _⟩ | ⟨m1, hm1, hm2⟩
  · exact hI l1 c b r hr1 hi
  · have hmem : Obs.tx c b ∈ l := by rw [hm2]; simp
    obtain ⟨hcj, hst⟩ := hp c b hmem hi
    rcases hor with hn | he
    · obtain ⟨l', hl', hp'⟩ := hn
      have : l' = l := List.append_cancel_left (hl'.symm.trans hl)
      rw [this] at hp'
      exact (hp' c b hmem hi).2.elim
    · obtain ⟨l', hl', hp'⟩ := he
      have : l' = l := List.append_cancel_left (hl'.symm.trans hl)
      rw [this] at hp'
      rw [hm1, lifeOf_evfree _ _ _ (fun o ho => hp' o (by rw [hm2]; simp [ho])), hcj, hL j]
      simp [expected, hu, hst]

/-- a step that writes no I-format APDU at all -/
theorem iinv_noI (s s' : Slave) (hI : IInv s) (hx : ∃ l, s'.log = s.log ++ l ∧ ∀ c b, Obs.tx c b ∈ l → ¬ isI b) : IInv s' := by
  obtain ⟨l, hl, hp⟩ := hx
  intro l1 c b l2 hsplit hi
  rw [hl] at hsplit
  rcases split_append s.log l l1 l2 (Obs.tx c b) hsplit with ⟨r, hr1, _⟩ | ⟨m1, _, hm2⟩
  · exact hI l1 c b r hr1 hi
  · exact absurd hi (hp c b (by rw [hm2]; simp))

/-- any property kept by reception and by the periodic tasks on a slot in use, and by the reaping step, is kept by
`handleClientConnections` -/
theorem p2_handleClientConnections (P : Slave → Prop)
    (htcp : ∀ t j, (t.conn j).isUsed = true → P t → P (handleTcpConnection t j))
    (hper : ∀ t j, (t.conn j).isUsed = true → P t → P (periodic t j))
    (hreap : ∀ t j, (t.conn j).isUsed = true → P t → P (reap t j)) (s : Slave) (h : P s) : P (handleClientConnections s) := by
  unfold handleClientConnections
  split
  · extract_lets idx
    split
    rename_i s1 anyRunning ready heq
    have i1 : P s1 := by
      have e := (congrArg Prod.fst heq).symm
      dsimp only at e
      rw [e]
      refine p_foldl3 _ ?_ _ (s, false, false) h
      intro acc j hacc
      obtain ⟨t, anyR, rdy⟩ := acc
      dsimp only at hacc
      dsimp only
      split
      · rename_i hu
        split
        · exact hacc
        · exact hreap t j hu hacc
      · exact hacc
    extract_lets s2
    have i2 : P s2 := by
      dsimp only [s2]
      split
      · refine p_foldl _ ?_ _ _ i1
        intro t j ht
        split
        · rename_i hu
          exact htcp t j hu ht
        · exact ht
      · exact i1
    refine p_foldl _ ?_ _ _ i2
    intro t j ht
    split
    · rename_i hu
      simp only [Bool.and_eq_true] at hu
      exact hper t j hu.1 ht
    · exact ht
  · exact h

/-- the log agrees with the state, and every I-format APDU was written while its slot's last event was ACTIVATED -/
def JInv (s : Slave) : Prop := LInv s ∧ IInv s

theorem reap_log (t : Slave) (j : Nat) : (reap t j).log = t.log ++ [Obs.ev j "CLOSED"] := by
  unfold reap
  extract_lets s1 s2 c3 s3
  exact (resetUnconfirmed_same s1 j).1

theorem jinv_handleClientConnections (s : Slave) (h : JInv s) : JInv (handleClientConnections s) := by
  apply p2_handleClientConnections JInv _ _ _ s h
  · intro t j hu ht
    exact ⟨(lr_handleTcpConnection t j hu).2.2.2 ht.1,
      iinv_step t _ j ht.2 ht.1 hu (iext_handleTcpConnection t j) (handleTcpConnection_noI_or_evfree t j)⟩
  · intro t j hu ht
    exact ⟨(lr_periodic t j).2.2.2 ht.1, iinv_step t _ j ht.2 ht.1 hu (iext_periodic t j) (Or.inr (ef_periodic t j))⟩
  · intro t j hu ht
    refine ⟨linv_reap t j hu ht.1, iinv_noI t _ ht.2 ⟨[Obs.ev j "CLOSED"], reap_log t j, ?_⟩⟩
    intro c b hm; simp at hm

theorem accept_log (s : Slave) : (accept s).log = s.log ∨ ∃ i, (accept s).log = s.log ++ [Obs.ev i "OPENED"] := by
  unfold accept
  split
  · split
    · exact Or.inl rfl
    · extract_lets s0
      split
      rename_i answer s1 heq
      have h1 : s1.log = s.log := by
        have e := (congrArg Prod.snd heq).symm
        dsimp only at e
        rw [e]
        split <;> rfl
      split
      · exact Or.inl h1
      · extract_lets free grp
        clear_value free grp
        split
        · rename_i g i
          extract_lets gr0 s2 s3 s4 c5 s5
          right
          refine ⟨i, ?_⟩
          show s3.log ++ [Obs.ev i "OPENED"] = _
          have : s3.log = s2.log := (initConn_facts s2 i _ g).1
          have h2 : s2.log = s1.log := by dsimp only [s2]; split <;> rfl
          rw [this, h2, h1]
        · exact Or.inl h1
  · exact Or.inl rfl

theorem jinv_tick (s : Slave) (h : JInv s) : JInv (tick s) := by
  unfold tick
  apply jinv_handleClientConnections
  refine ⟨linv_accept s h.1, ?_⟩
  rcases accept_log s with hl | ⟨i, hl⟩
  · exact iinv_noI s _ h.2 ⟨[], by rw [hl]; simp, by simp⟩
  · exact iinv_noI s _ h.2 ⟨[Obs.ev i "OPENED"], hl, by intro c b hm; simp at hm⟩

theorem jinv_apply (s : Slave) (op : LOp) (h : JInv s) : JInv (op.apply s) := by
  refine ⟨linv_apply s op h.1, ?_⟩
  cases op with
  | tick => exact (jinv_tick s h).2
  | enqueue a => exact iinv_noI s _ h.2 ⟨[], by show s.log = s.log ++ []; simp, by simp⟩
  | env e => exact iinv_noI s _ h.2 ⟨[], by show (e.f s).log = s.log ++ []; rw [e.log]; simp, by simp⟩

/-- **every history**: I-format APDUs are written on a connection only while the last event of its slot is ACTIVATED -/
theorem run_jinv (p : Params) (gs : List (String × List (Bool × List Nat))) (ops : List LOp) :
    JInv (ops.foldl LOp.apply (create p gs)) := by
  have h0 : JInv (create p gs) := ⟨create_linv p gs, by
    intro l1 c b l2 hs _
    have : (create p gs).log = [] := by unfold create; rfl
    rw [this] at hs
    cases l1 <;> simp at hs⟩
  generalize create p gs = s at h0
  induction ops generalizing s with
  | nil => exact h0
  | cons op ops ih => exact ih _ (jinv_apply s op h0)

end Iec.Srv104
