import Iec.Lemmas.NormDef
import Iec.Lemmas.Norm0
import Iec.Lemmas.Norm1
import Iec.Lemmas.Norm2
import Iec.Lemmas.Norm3
import Iec.Lemmas.Norm4
import Iec.Lemmas.Norm5
import Iec.Lemmas.Norm6
import Iec.Lemmas.Norm7
namespace Iec.Norm
open Iec.Scaled Iec.Days

theorem normOk_all (i : Nat) (h : i < 65536) : normOk i = true := by
  have key : ∀ c, c < 8 → allTree normOk (c * 8192) 13 = true := by
    intro c hc
    match c, hc with
    | 0, _ => exact chunk0
    | 1, _ => exact chunk1
    | 2, _ => exact chunk2
    | 3, _ => exact chunk3
    | 4, _ => exact chunk4
    | 5, _ => exact chunk5
    | 6, _ => exact chunk6
    | 7, _ => exact chunk7
    | n + 8, h => omega
  exact allTree_spec normOk 13 _ (key (i / 8192) (by omega)) i (by omega) (by omega)

/-- every 16-bit raw value round-trips through the normalised representation -/
theorem norm_roundtrip (x : Int) (h1 : -32768 ≤ x) (h2 : x ≤ 32767) :
    toScaled (fromScaledBits x) = some x := by
  have h := normOk_all (x + 32768).toNat (by omega)
  simp only [normOk] at h
  have e : ((x + 32768).toNat : Int) - 32768 = x := by omega
  rw [e] at h
  exact eq_of_beq h

end Iec.Norm
