import Iec.Lemmas.DaysDef
/- chunk 1 of the calendar table: 16384 consecutive days, every one evaluated by the kernel -/
namespace Iec.Days
set_option maxRecDepth 100000 in
theorem chunk1 : allTree dayOk (10957 + 1 * 16384) 14 = true := by decide +kernel
end Iec.Days
