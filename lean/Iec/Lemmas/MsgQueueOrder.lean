/-
Order of transmission from the event ring: repeated `getNextWaitingASDU` hands out the waiting entries in queue
order (oldest first), each once; with `mq_enqueue_refines` (a new entry goes to the end) this is "events are
transmitted in the order they were enqueued".
-/
import Iec.Lemmas.MsgQueue
namespace Iec.Queues

/-- entries laid out back to back have strictly increasing offsets -/
theorem mChain_lt (o : Nat) (xs : List MEntry) (h : MChain o xs) : xs.Pairwise (fun a b => a.1 < b.1) := by
  induction xs generalizing o with
  | nil => exact List.Pairwise.nil
  | cons x xs ih =>
    obtain ⟨hx, hr⟩ := h
    refine List.Pairwise.cons ?_ (ih _ hr)
    intro y hy
    have := (mChain_bounds _ xs hr).2 y hy
    simp only [esz, HDR] at this
    omega

/-- under the layout invariant no two queued entries share an offset -/
theorem MqInv.distinct {q : MsgQueue} {up low : List MEntry} (h : MqInv q up low) :
    (up ++ low).Pairwise (fun a b => a.1 ≠ b.1) := by
  cases up with
  | nil => have := h.lowup rfl; subst this; exact List.Pairwise.nil
  | cons u0 rest =>
    obtain ⟨_, hchain, _, _⟩ := h.upper u0 rest rfl
    have hu := mChain_lt _ _ hchain
    rw [List.pairwise_append]
    refine ⟨hu.imp (fun h => Nat.ne_of_lt h), ?_, ?_⟩
    · cases low with
      | nil => exact List.Pairwise.nil
      | cons l0 lrest =>
        obtain ⟨hl, _, _⟩ := h.lower l0 lrest rfl
        exact (mChain_lt _ _ hl).imp (fun h => Nat.ne_of_lt h)
    · intro a ha b hb
      cases low with
      | nil => cases hb
      | cons l0 lrest =>
        obtain ⟨hl, _, hle⟩ := h.lower l0 lrest rfl
        have h1 := (mChain_bounds _ _ hl).2 b hb
        have h2 := (mChain_bounds _ _ hchain).2 a ha
        have h3 := hle u0 rest rfl
        simp only [esz, HDR] at h1
        omega

def waiting (x : MEntry) : Bool := x.2.st == 1

/-- marking the first waiting entry as sent removes exactly it from the waiting ones -/
theorem filter_after_mark : ∀ (L : List MEntry), L.Pairwise (fun a b => a.1 ≠ b.1) → ∀ x, L.find? waiting = some x →
    (L.map (updSt x.1 2)).filter waiting = (L.filter waiting).tail ∧ (L.filter waiting).head? = some x := by
  intro L
  induction L with
  | nil => intro _ x h; cases h
  | cons a L ih =>
    intro hp x hf
    obtain ⟨ha, hpL⟩ := List.pairwise_cons.mp hp
    by_cases hw : waiting a = true
    · -- a is the first waiting entry
      have hx : x = a := by simpa [List.find?_cons, hw] using hf.symm
      subst hx
      have hrest : L.map (updSt x.1 2) = L := by
        have : L.map (updSt x.1 2) = L.map id :=
          List.map_congr_left (fun b hb => by unfold updSt; rw [if_neg (fun h => ha b hb h.symm)]; rfl)
        rw [this, List.map_id]
      have hself : waiting (updSt x.1 2 x) = false := by simp [updSt, waiting]
      simp [List.filter, hw, hself, hrest]
    · have hw' : waiting a = false := by simpa using hw
      have hf' : L.find? waiting = some x := by simpa [List.find?_cons, hw'] using hf
      obtain ⟨i1, i2⟩ := ih hpL x hf'
      have hxm : x ∈ L := List.mem_of_find?_eq_some hf'
      have hne : a.1 ≠ x.1 := ha x hxm
      have hsame : updSt x.1 2 a = a := by unfold updSt; rw [if_neg hne]
      simp [List.filter, hw', hsame, i1, i2]

/-- call `getNextWaitingASDU` up to `n` times (stop when nothing is waiting) -/
def drain : Nat → MsgQueue → MsgQueue × List (Nat × Nat × List Nat)
  | 0, q => (q, [])
  | n + 1, q =>
    match q.getNextWaiting with
    | (q', none) => (q', [])
    | (q', some r) => ((drain n q').1, r :: (drain n q').2)

/-- **transmission order = queue order**: `n` calls hand out the first `n` waiting entries of the queue, oldest
first, each once, with their stored ids and octets; the layout invariant holds afterwards -/
theorem drain_spec : ∀ (n : Nat) (q : MsgQueue) (up low : List MEntry), MqInv q up low →
    (drain n q).2.map (fun r => (r.1, r.2.2)) = (((up ++ low).filter waiting).take n).map (fun x => (x.2.id, x.2.data)) ∧
    ∃ up' low', MqInv (drain n q).1 up' low' ∧
      (up' ++ low').map (fun x => (x.2.id, x.2.data)) = (up ++ low).map (fun x => (x.2.id, x.2.data)) := by
  intro n
  induction n with
  | zero => intro q up low h; exact ⟨by simp [drain], up, low, h, rfl⟩
  | succ n ih =>
    intro q up low h
    have hg := getNextWaiting_refines q up low h
    have hfw : (fun x : MEntry => x.2.st == 1) = waiting := rfl
    rw [hfw] at hg
    cases hf : (up ++ low).find? waiting with
    | none =>
      rw [hf] at hg
      simp only at hg
      have hnone : (up ++ low).filter waiting = [] := by
        rw [List.filter_eq_nil_iff]
        intro a ha
        have := List.find?_eq_none.mp hf a ha
        simpa using this
      unfold drain
      rw [hg]
      simp only [hnone]
      exact ⟨by simp, up, low, h, rfl⟩
    | some x =>
      rw [hf] at hg
      simp only at hg
      obtain ⟨hq, hinv⟩ := hg
      obtain ⟨f1, f2⟩ := filter_after_mark (up ++ low) h.distinct x hf
      obtain ⟨i1, up', low', i2, i3⟩ := ih _ _ _ hinv
      unfold drain
      rw [hq]
      simp only [List.map_cons]
      refine ⟨?_, up', low', i2, ?_⟩
      · rw [i1, ← List.map_append, f1]
        cases hfl : (up ++ low).filter waiting with
        | nil => rw [hfl] at f2; cases f2
        | cons y ys =>
          rw [hfl] at f2
          have : y = x := by simpa using f2
          subst this
          simp
      · rw [i3, ← List.map_append, List.map_map]
        apply List.map_congr_left
        intro a _
        simp only [Function.comp, updSt]
        split <;> rfl

/-! ### several enqueues, then transmission -/

theorem evictLoop_size (np es : Nat) : ∀ (fuel : Nat) (q : MsgQueue), (evictLoop q np es fuel).size = q.size := by
  intro fuel
  induction fuel with
  | zero => intro q; rfl
  | succ n ih =>
    intro q
    unfold evictLoop
    simp only
    split
    · split
      · rfl
      · rw [ih]
    · rfl

theorem enqueue_size (q : MsgQueue) (d : List Nat) : (q.enqueue d).size = q.size := by
  unfold MsgQueue.enqueue
  simp only
  split
  · rfl
  · have hw : ∀ (x : MsgQueue) (np : Nat), (writeEntry x np d).size = x.size := by
      intro x np; unfold writeEntry MsgQueue.put; simp only; split <;> rfl
    rw [hw]
    split
    · rfl
    · simp only
      repeat' split
      all_goals (first | rfl | (rw [evictLoop_size]) | skip)
      all_goals (try rfl)

def enqueueAll (q : MsgQueue) (ds : List (List Nat)) : MsgQueue := ds.foldl MsgQueue.enqueue q

/-- state and octets of the queued entries, oldest first -/
def content (up low : List MEntry) : List (Nat × List Nat) := (up ++ low).map (fun x => (x.2.st, x.2.data))

/-- **any number of enqueues**: the queue then holds, in this order, what it held followed by the new ASDUs
(waiting), minus a prefix - the displaced oldest entries -/
theorem enqueueAll_refines : ∀ (ds : List (List Nat)) (q : MsgQueue) (up low : List MEntry), MqInv q up low →
    (∀ d ∈ ds, d.length ≤ 250) → 266 ≤ q.size →
    ∃ up' low' k, MqInv (enqueueAll q ds) up' low' ∧
      content up' low' = (content up low ++ ds.map (fun d => (1, d))).drop k := by
  intro ds
  induction ds with
  | nil => intro q up low h _ _; exact ⟨up, low, 0, h, by simp⟩
  | cons d ds ih =>
    intro q up low h hd hs
    obtain ⟨up1, low1, k1, h1, a1⟩ := mq_enqueue_refines q up low h d (hd d (by simp)) hs
    obtain ⟨up2, low2, k2, h2, a2⟩ := ih (q.enqueue d) up1 low1 h1 (fun x hx => hd x (by simp [hx])) (by rw [enqueue_size]; exact hs)
    have c1 : content up1 low1 = (content up low).drop k1 ++ [(1, d)] := by
      have := congrArg (List.map (fun e : QEntry => (e.st, e.data))) a1
      simp only [MqInv.abs, List.map_map, List.map_append, List.map_drop, List.map_cons, List.map_nil, newEntry] at this
      have hcomp : ((fun e : QEntry => (e.st, e.data)) ∘ Prod.snd) = (fun x : MEntry => (x.2.st, x.2.data)) := rfl
      rw [hcomp] at this
      simpa [content] using this
    refine ⟨up2, low2, (min k1 (content up low).length) + k2, h2, ?_⟩
    show content up2 low2 = _
    rw [a2, c1]
    simp only [List.map_cons]
    rw [← List.drop_drop]
    congr 1
    by_cases hk : k1 ≤ (content up low).length
    · rw [Nat.min_eq_left hk, List.drop_append_of_le_length hk]
      simp
    · have hk' : (content up low).length ≤ k1 := by omega
      rw [Nat.min_eq_right hk', List.drop_of_length_le hk']
      rw [List.drop_append_of_le_length (Nat.le_refl _)]
      simp

end Iec.Queues
