/-
At most one started connection per redundancy group, after every step of every history of the server model.
-/
import Iec.Lemmas.Srv104Started
import Iec.Lemmas.Srv104Activate
namespace Iec.Srv104
open Iec.KWindow Iec.Queues

/-- connections `a` and `b` serve the same redundancy group (never in connection-is-group mode) -/
def sameGroup (s : Slave) (a b : Nat) : Prop :=
  s.p.mode = 0 ∨ (s.p.mode = 2 ∧ (s.conn a).group = (s.conn b).group)

/-- **at most one started connection per redundancy group** -/
def OneStarted (s : Slave) : Prop :=
  ∀ a b, a ≠ b → (s.conn a).isUsed = true → (s.conn a).state = 1 → (s.conn b).isUsed = true → (s.conn b).state = 1 →
    ¬ sameGroup s a b

theorem inv_shrink {s s' : Slave} (h : OneStarted s) (hs : Shrink s s') : OneStarted s' := by
  intro a b hab ua sa ub sb hg
  obtain ⟨hp, _, hc⟩ := hs
  obtain ⟨ua', sa', ga⟩ := hc a ua sa
  obtain ⟨ub', sb', gb⟩ := hc b ub sb
  refine h a b hab ua' sa' ub' sb' ?_
  unfold sameGroup at hg ⊢
  rw [hp, ga, gb] at hg
  exact hg

/-- used / group of every slot kept, nothing becomes started -/
def Keep (s s' : Slave) : Prop :=
  s'.p = s.p ∧ s'.conns.length = s.conns.length ∧
  ∀ j, (s'.conn j).isUsed = (s.conn j).isUsed ∧ (s'.conn j).group = (s.conn j).group ∧ ((s'.conn j).state = 1 → (s.conn j).state = 1)

theorem Keep.refl (s : Slave) : Keep s s := ⟨rfl, rfl, fun _ => ⟨rfl, rfl, id⟩⟩
theorem Keep.trans {a b c : Slave} (h1 : Keep a b) (h2 : Keep b c) : Keep a c :=
  ⟨h2.1.trans h1.1, h2.2.1.trans h1.2.1, fun j =>
    ⟨(h2.2.2 j).1.trans (h1.2.2 j).1, (h2.2.2 j).2.1.trans (h1.2.2 j).2.1, fun h => (h1.2.2 j).2.2 ((h2.2.2 j).2.2 h)⟩⟩

theorem keep_deactivate (s : Slave) (x : Nat) : Keep s (deactivate s x) := by
  obtain ⟨hl, hp, _, _, hne⟩ := deactivate_facts s x
  refine ⟨hp, hl, fun j => ?_⟩
  by_cases hj : j = x
  · subst hj
    by_cases hlen : j < s.conns.length
    · rw [(deactivate_i s j hlen).1]
      exact ⟨rfl, rfl, fun h => by simp at h⟩
    · have : (deactivate s j).conn j = s.conn j := by
        have e1 : (deactivate s j).conn j = default := by
          unfold Slave.conn; rw [List.getD_eq_getElem?_getD, List.getElem?_eq_none (by rw [hl]; omega)]; rfl
        have e2 : s.conn j = default := by
          unfold Slave.conn; rw [List.getD_eq_getElem?_getD, List.getElem?_eq_none (by omega)]; rfl
        rw [e1, e2]
      rw [this]; exact ⟨rfl, rfl, id⟩
  · rw [hne j hj]; exact ⟨rfl, rfl, id⟩

theorem keep_fold (js : List Nat) : ∀ s : Slave, Keep s (js.foldl deactivate s) := by
  induction js with
  | nil => intro s; exact Keep.refl s
  | cons x xs ih => intro s; exact Keep.trans (keep_deactivate s x) (ih _)

theorem keep_shrink {s s' : Slave} (h : Keep s s') : Shrink s s' :=
  ⟨h.1, h.2.1, fun j hu hs => ⟨by rw [← (h.2.2 j).1]; exact hu, (h.2.2 j).2.2 hs, (h.2.2 j).2.1⟩⟩

/-- **activation keeps the invariant**: the other connections of the group were deactivated first -/
theorem inv_activate (s : Slave) (i : Nat) (h : OneStarted s) : OneStarted (activate s i) := by
  by_cases hi : i < s.conns.length
  · -- facts about `activate s i`
    obtain ⟨js, hjs⟩ : ∃ js, js = (List.range s.conns.length).filter (fun j =>
        j != i && (s.conn j).isUsed && (s.p.mode = 0 || (s.p.mode = 2 && (s.conn j).group == (s.conn i).group))) := ⟨_, rfl⟩
    have hk := keep_fold js s
    have hact : activate s i = activateConn (js.foldl deactivate s) i := by unfold activate; rw [hjs]
    have hother : ∀ j, j ≠ i → (activate s i).conn j = (js.foldl deactivate s).conn j := by
      intro j hj
      rw [hact]; unfold activateConn; simp only
      split <;> simp [Slave.conn, Slave.setConn, emit, List.getD_eq_getElem?_getD, List.getElem?_set_ne (Ne.symm hj)]
    have hself := activateConn_facts (js.foldl deactivate s) i (by rw [hk.2.1]; exact hi)
    have hp : (activate s i).p = s.p := by
      rw [hact]; unfold activateConn; simp only; split <;> exact hk.1
    intro a b hab ua sa ub sb hg
    -- translate everything to `s`
    have key : ∀ j, j ≠ i → ((activate s i).conn j).isUsed = true → ((activate s i).conn j).state = 1 →
        (s.conn j).isUsed = true ∧ (s.conn j).state = 1 ∧ ((activate s i).conn j).group = (s.conn j).group ∧
        ¬ (s.p.mode = 0 ∨ (s.p.mode = 2 ∧ (s.conn j).group = (s.conn i).group)) := by
      intro j hj uj sj
      rw [hother j hj] at uj sj ⊢
      obtain ⟨k1, k2, k3⟩ := hk.2.2 j
      refine ⟨by rw [← k1]; exact uj, k3 sj, k2, ?_⟩
      intro hgrp
      have hjl : j < s.conns.length := by
        apply Classical.byContradiction; intro hnl
        have : s.conn j = default := by unfold Slave.conn; rw [List.getD_eq_getElem?_getD, List.getElem?_eq_none (by omega)]; rfl
        rw [k1, this] at uj; cases uj
      have := (activate_exclusive s i hi j hjl hj (by rw [← k1]; exact uj) hgrp).2
      rw [hother j hj] at this
      rw [this] at sj; cases sj
    have gi : ((activate s i).conn i).group = (s.conn i).group := by
      rw [hact, hself.1]
      show ((js.foldl deactivate s).conn i).group = _
      exact (hk.2.2 i).2.1
    by_cases hai : a = i
    · subst hai
      have hbi : b ≠ a := fun h => hab h.symm
      obtain ⟨_, _, gb, hn⟩ := key b hbi ub sb
      apply hn
      unfold sameGroup at hg
      rw [hp, gi, gb] at hg
      rcases hg with h0 | ⟨h2, hgr⟩
      · exact Or.inl h0
      · exact Or.inr ⟨h2, hgr.symm⟩
    · by_cases hbi : b = i
      · subst hbi
        obtain ⟨_, _, ga, hn⟩ := key a hai ua sa
        apply hn
        unfold sameGroup at hg
        rw [hp, gi, ga] at hg
        exact hg
      · obtain ⟨ua', sa', ga, _⟩ := key a hai ua sa
        obtain ⟨ub', sb', gb, _⟩ := key b hbi ub sb
        refine h a b hab ua' sa' ub' sb' ?_
        unfold sameGroup at hg ⊢
        rw [hp, ga, gb] at hg
        exact hg
  · -- out of range: nothing is started by `activateConn`
    have hs : Shrink s (activate s i) := by
      unfold activate
      simp only
      generalize (List.filter _ (List.range s.conns.length)) = js
      have hk := keep_fold js s
      generalize List.foldl deactivate s js = t at hk
      refine Shrink.trans (keep_shrink hk) ?_
      have hn : ¬ i < t.conns.length := by rw [hk.2.1]; exact hi
      have hset : ∀ (u : Slave) (c : Conn), u.conns.length = t.conns.length → (u.setConn i c).conns = u.conns := by
        intro u c hu
        unfold Slave.setConn
        exact List.set_eq_of_length_le (by rw [hu]; exact Nat.le_of_not_lt hn)
      unfold activateConn
      simp only
      split
      · exact shrink_of_conns rfl (hset _ _ rfl)
      · exact shrink_of_conns rfl (hset _ _ rfl)
    exact inv_shrink h hs

theorem inv_handleMessage (s : Slave) (i : Nat) (buf : List Nat) (h : OneStarted s) : OneStarted (handleMessage s i buf).1 := by
  rcases handleMessage_started s i buf with hs | hs
  · exact inv_shrink h hs
  · exact inv_shrink (inv_activate s i h) hs

theorem inv_handleTcpConnection (s : Slave) (i : Nat) (h : OneStarted s) : OneStarted (handleTcpConnection s i) := by
  unfold handleTcpConnection
  have h1 := shrink_receiveMessage s i
  generalize receiveMessage s i = r at h1
  obtain ⟨s1, rr, msg⟩ := r
  dsimp only at h1
  simp (config := { zeta := false }) only []
  extract_lets c0 s2 c3 s4
  have h2 : Shrink s1 s2 := by
    dsimp only [s2]; split
    · exact shrink_setConn _ _ _ (by dsimp only [c0]; cshrink)
    · exact Shrink.refl _
  have i2 : OneStarted s2 := inv_shrink (inv_shrink h h1) h2
  split
  · have i3 := inv_handleMessage s2 i msg i2
    have h4 : Shrink (handleMessage s2 i msg).1 s4 := by
      dsimp only [s4]; split
      · exact shrink_setConn _ _ _ (by dsimp only [c3]; cshrink)
      · exact Shrink.refl _
    exact inv_shrink (inv_shrink i3 h4) (shrink_ackIfW _ _)
  · exact i2

theorem inv_foldl {α} (f : Slave → α → Slave) (hf : ∀ s a, OneStarted s → OneStarted (f s a)) :
    ∀ (l : List α) (s : Slave), OneStarted s → OneStarted (l.foldl f s) := by
  intro l
  induction l with
  | nil => intro s h; exact h
  | cons a l ih => intro s h; exact ih _ (hf s a h)

theorem inv_foldl3 {α β} (f : Slave × β → α → Slave × β) (hf : ∀ acc a, OneStarted acc.1 → OneStarted (f acc a).1) :
    ∀ (l : List α) (acc : Slave × β), OneStarted acc.1 → OneStarted (l.foldl f acc).1 := by
  intro l
  induction l with
  | nil => intro s h; exact h
  | cons a l ih => intro s h; exact ih _ (hf s a h)

theorem inv_handleClientConnections (s : Slave) (h : OneStarted s) : OneStarted (handleClientConnections s) := by
  unfold handleClientConnections
  split
  · extract_lets idx
    split
    rename_i s1 anyRunning ready heq
    have i1 : OneStarted s1 := by
      have e := (congrArg Prod.fst heq).symm
      dsimp only at e
      rw [e]
      apply inv_foldl3
      · intro acc j hacc
        obtain ⟨t, anyR, rdy⟩ := acc
        dsimp only at hacc
        dsimp only
        split
        · split
          · exact hacc
          · apply inv_shrink hacc
            refine Shrink.trans (Shrink.trans (shrink_emit t _) (Shrink.trans (shrink_resetUnconfirmed _ j) (shrink_setConn _ _ _ ?_))) (shrink_of_conns rfl rfl)
            cshrink
        · exact hacc
      · exact h
    extract_lets s2
    have i2 : OneStarted s2 := by
      dsimp only [s2]
      split
      · apply inv_foldl _ _ _ _ i1
        intro t j ht
        split
        · exact inv_handleTcpConnection t j ht
        · exact ht
      · exact i1
    apply inv_foldl _ _ _ _ i2
    intro t j ht
    split
    · exact inv_shrink ht (shrink_periodic t j)
    · exact ht
  · exact h

theorem shrink_initConn (s : Slave) (i : Nat) (sk : Sock) (g : Nat) : Shrink s (initConn s i sk g) := by
  unfold initConn
  extract_lets c c1 s1 gi gr gr2
  exact Shrink.trans (shrink_setConn _ _ _ (by dsimp only [c1, c]; cshrink)) (shrink_setGrp _ _ _)

theorem shrink_accept (s : Slave) : Shrink s (accept s) := by
  unfold accept
  split
  · split
    · exact Shrink.refl s
    · rename_i sk rest _
      extract_lets s0
      have h0 : Shrink s s0 := shrink_of_conns rfl rfl
      split
      rename_i answer s1 heq
      have h1 : Shrink s0 s1 := by
        have e := (congrArg Prod.snd heq).symm
        dsimp only at e
        rw [e]
        split
        · exact Shrink.refl _
        · exact shrink_of_conns rfl rfl
      split
      · exact Shrink.trans h0 h1
      · extract_lets free grp
        clear_value free grp
        split
        · rename_i g i
          extract_lets gr0 s2 s3 s4 c5 s5
          have h2 : Shrink s1 s2 := by
            dsimp only [s2]; split
            · exact shrink_setGrp _ _ _
            · exact Shrink.refl _
          have h3 : Shrink s2 s3 := shrink_initConn _ _ _ _
          have h4 : Shrink s3 s4 := shrink_of_conns rfl rfl
          have h5 : Shrink s4 s5 := shrink_setConn _ _ _ (by dsimp only [c5]; cshrink)
          exact Shrink.trans h0 (Shrink.trans h1 (Shrink.trans h2 (Shrink.trans h3 (Shrink.trans h4 (Shrink.trans h5 (shrink_emit _ _))))))
        · exact Shrink.trans h0 h1
  · exact Shrink.refl s

theorem shrink_enqueue (s : Slave) (a : List Nat) : Shrink s (enqueue s a) := shrink_of_conns rfl rfl

theorem shrink_restart (s : Slave) : Shrink s (restart s) := by
  unfold restart
  refine ⟨rfl, by simp, fun j => ?_⟩
  intro hu hs
  exfalso
  simp only [Slave.conn, List.getD_eq_getElem?_getD, List.getElem?_map] at hu hs
  cases hc : s.conns[j]? with
  | none => rw [hc] at hu; simp at hu
  | some c =>
    rw [hc] at hu hs
    simp only [Option.map_some, Option.getD_some] at hu hs
    split at hu
    · simp at hu
    · rename_i hnu
      split at hs
      · simp at hs
      · exact hnu hu

theorem inv_tick (s : Slave) (h : OneStarted s) : OneStarted (tick s) := by
  unfold tick
  exact inv_handleClientConnections _ (inv_shrink h (shrink_accept s))

/-! ### every history -/

/-- what the environment does between two calls: data arrives on sockets, peers close, connections are pending, the
clock advances - anything that leaves used / state / group of every slot alone -/
structure EnvOp where
  f : Slave → Slave
  keep : ∀ s, Keep s (f s)

inductive SOp where
  | tick
  | enqueue (asdu : List Nat)
  | restart
  | env (e : EnvOp)

def SOp.apply (s : Slave) : SOp → Slave
  | .tick => Iec.Srv104.tick s
  | .enqueue a => Iec.Srv104.enqueue s a
  | .restart => Iec.Srv104.restart s
  | .env e => e.f s

theorem inv_apply (s : Slave) (op : SOp) (h : OneStarted s) : OneStarted (op.apply s) := by
  cases op with
  | tick => exact inv_tick s h
  | enqueue a => exact inv_shrink h (shrink_enqueue s a)
  | restart => exact inv_shrink h (shrink_restart s)
  | env e => exact inv_shrink h (keep_shrink (e.keep s))

theorem create_oneStarted (p : Params) (gs : List (String × List (Bool × List Nat))) : OneStarted (create p gs) := by
  intro a b _ ua _ _ _ _
  exfalso
  unfold create at ua
  simp only [Slave.conn, List.getD_eq_getElem?_getD, List.getElem?_map] at ua
  cases hc : (List.range p.nSlots)[a]? <;> simp [hc] at ua

/-- **every history**: from a freshly created server, after any sequence of ticks (accept, receive, STARTDT / STOPDT,
timeouts, reaping), enqueues, restarts and environment events, at most one connection per redundancy group is started -/
theorem run_oneStarted (p : Params) (gs : List (String × List (Bool × List Nat))) (ops : List SOp) :
    OneStarted (ops.foldl SOp.apply (create p gs)) := by
  have h0 := create_oneStarted p gs
  generalize create p gs = s at h0
  induction ops generalizing s with
  | nil => exact h0
  | cons op ops ih => exact ih _ (inv_apply s op h0)

end Iec.Srv104
