/-
The connection events of the server over every history: per slot the event log follows
  ( OPENED ( ACTIVATED DEACTIVATED )* ACTIVATED? CLOSED )*  (an unfinished last round allowed),
and at every moment the log agrees with the state: the slot is in use iff its last round is open, and the connection is
STARTED iff the last event of the round is ACTIVATED (`LInv`).  Frame lemmas (relation `LR`) for every function of
`Iec.Srv104`; events are emitted only by `deactivate`, `activateConn`, `accept` and the reaping pass.
-/
import Iec.Lemmas.Srv104OneStarted
import Iec.Lemmas.Srv104Activate
import Iec.Lemmas.Srv104Win
namespace Iec.Srv104
open Iec.KWindow Iec.Queues

/-- one step of the per-slot life-cycle automaton: 0 no connection, 1 open and not started, 2 started, 3 grammar violated -/
def lifeStep (j : Nat) (st : Nat) : Obs → Nat
  | .ev c w =>
    if c = j then
      if w = "OPENED" then (if st = 0 then 1 else 3)
      else if w = "CLOSED" then (if st = 1 ∨ st = 2 then 0 else 3)
      else if w = "ACTIVATED" then (if st = 1 then 2 else 3)
      else if w = "DEACTIVATED" then (if st = 2 then 1 else 3)
      else st
    else st
  | _ => st

def lifeOf (log : List Obs) (j : Nat) : Nat := log.foldl (lifeStep j) 0

theorem lifeOf_snoc (log : List Obs) (o : Obs) (j : Nat) : lifeOf (log ++ [o]) j = lifeStep j (lifeOf log j) o := by
  simp [lifeOf, List.foldl_append]

/-- what the log must say about a slot in this state -/
def expected (c : Conn) : Nat := if c.isUsed then (if c.state = 1 then 2 else 1) else 0

/-- **the log agrees with the state of every slot** (in particular no slot's log has violated the grammar) -/
def LInv (s : Slave) : Prop := ∀ j, lifeOf s.log j = expected (s.conn j)

/-- in use or not, and - for a slot in use - started or not, are unchanged -/
def SameLife (c c' : Conn) : Prop := c'.isUsed = c.isUsed ∧ (c.isUsed = true → (c'.state = 1 ↔ c.state = 1))

theorem SameLife.refl (c : Conn) : SameLife c c := ⟨rfl, fun _ => Iff.rfl⟩
theorem SameLife.expected {c c' : Conn} (h : SameLife c c') : expected c' = expected c := by
  unfold Iec.Srv104.expected
  rw [h.1]
  cases hu : c.isUsed
  · rfl
  · have := h.2 hu
    by_cases h1 : c.state = 1
    · simp [h1, this.mpr h1]
    · have h2 : ¬ c'.state = 1 := fun x => h1 (this.mp x)
      simp [h1, h2]

/-- the frame relation: table size, `isUsed` of every slot and the open-connection counter are kept; the invariant is kept -/
def LR (s s' : Slave) : Prop :=
  s'.conns.length = s.conns.length ∧ (∀ j, (s'.conn j).isUsed = (s.conn j).isUsed) ∧
  s'.openConnections = s.openConnections ∧ (LInv s → LInv s')

theorem LR.refl (s : Slave) : LR s s := ⟨rfl, fun _ => rfl, rfl, id⟩
theorem LR.trans {a b c : Slave} (h1 : LR a b) (h2 : LR b c) : LR a c :=
  ⟨h2.1.trans h1.1, fun j => (h2.2.1 j).trans (h1.2.1 j), h2.2.2.1.trans h1.2.2.1, fun h => h2.2.2.2 (h1.2.2.2 h)⟩

theorem lr_of_conns {s s' : Slave} (hc : s'.conns = s.conns) (hl : s'.log = s.log) (ho : s'.openConnections = s.openConnections) : LR s s' := by
  have hcj : ∀ j, s'.conn j = s.conn j := fun j => by unfold Slave.conn; rw [hc]
  refine ⟨by rw [hc], fun j => by rw [hcj], ho, fun h j => ?_⟩
  rw [hl, hcj]; exact h j

theorem lr_setGrp (s : Slave) (g : Nat) (x : Group) : LR s (s.setGrp g x) := lr_of_conns rfl rfl rfl

/-- an observation that is not a connection event -/
def Obs.notEv : Obs → Prop
  | .ev _ _ => False
  | _ => True

theorem lifeStep_notEv (j st : Nat) (o : Obs) (h : o.notEv) : lifeStep j st o = st := by
  cases o <;> first | rfl | exact absurd h id

theorem lr_emit (s : Slave) (o : Obs) (h : o.notEv) : LR s (emit s o) := by
  refine ⟨rfl, fun _ => rfl, rfl, fun hi j => ?_⟩
  show lifeOf (s.log ++ [o]) j = expected (s.conn j)
  rw [lifeOf_snoc, lifeStep_notEv _ _ _ h]; exact hi j

theorem lr_setConn (s : Slave) (i : Nat) (c : Conn) (h : SameLife (s.conn i) c) : LR s (s.setConn i c) := by
  have key : ∀ j, SameLife (s.conn j) ((s.setConn i c).conn j) := by
    intro j
    by_cases hj : j = i
    · subst hj
      by_cases hl : j < s.conns.length
      · rw [conn_setConn _ _ _ hl]; exact h
      · have hs : s.conns.set j c = s.conns := List.set_eq_of_length_le (Nat.le_of_not_lt hl)
        have : (s.setConn j c).conn j = s.conn j := by unfold Slave.conn Slave.setConn; simp only [hs]
        rw [this]; exact SameLife.refl _
    · rw [conn_setConn_ne _ _ _ _ hj]; exact SameLife.refl _
  refine ⟨setConn_len _ _ _, fun j => (key j).1, rfl, fun hi j => ?_⟩
  show lifeOf s.log j = _
  rw [(key j).expected]; exact hi j

theorem samelife_after_set (s : Slave) (i : Nat) (c c' : Conn) (h1 : SameLife c c') (h2 : SameLife (s.conn i) c') :
    SameLife ((s.setConn i c).conn i) c' := by
  by_cases hl : i < s.conns.length
  · rw [conn_setConn _ _ _ hl]; exact h1
  · have hs : s.conns.set i c = s.conns := List.set_eq_of_length_le (Nat.le_of_not_lt hl)
    have : (s.setConn i c).conn i = s.conn i := by unfold Slave.conn Slave.setConn; simp only [hs]
    rw [this]; exact h2

/-- closes `SameLife c { c with … }` for updates that leave `isUsed` and `state` alone -/
macro "sl0" : tactic => `(tactic| first
  | exact SameLife.refl _
  | exact ⟨rfl, fun _ => Iff.rfl⟩)

macro "sl" : tactic => `(tactic| first
  | sl0
  | (apply samelife_after_set <;> sl0))

theorem lr_write (s : Slave) (i : Nat) (b : List Nat) : LR s (write s i b).1 := by
  unfold write; simp only; split
  · exact LR.refl s
  · exact lr_emit s _ trivial

theorem lr_sendS (s : Slave) (i : Nat) : LR s (sendS s i) := by
  unfold sendS
  simp only
  have hw := lr_write s i [0x68, 0x04, 0x01, 0, seqLo (s.conn i).vr, seqHi (s.conn i).vr]
  generalize write s i [0x68, 0x04, 0x01, 0, seqLo (s.conn i).vr, seqHi (s.conn i).vr] = r at hw
  obtain ⟨s1, ok⟩ := r
  simp only at hw ⊢
  split
  · exact hw
  · exact LR.trans hw (lr_setConn _ _ _ (by sl))

theorem lr_sendI (s : Slave) (i : Nat) (a : List Nat) (q : Option (Nat × Nat)) : LR s (sendI s i a q) := by
  unfold sendI
  simp only
  have hw := lr_write s i ([0x68, (a.length + 4) % 256, seqLo (s.conn i).vs, seqHi (s.conn i).vs, seqLo (s.conn i).vr, seqHi (s.conn i).vr] ++ a)
  generalize write s i ([0x68, (a.length + 4) % 256, seqLo (s.conn i).vs, seqHi (s.conn i).vs, seqLo (s.conn i).vr, seqHi (s.conn i).vr] ++ a) = r at hw
  obtain ⟨s1, ok⟩ := r
  simp only at hw ⊢
  refine LR.trans hw (lr_setConn _ _ _ ?_)
  cases ok <;> (simp only [Bool.false_eq_true, if_false, if_true]; sl)

theorem lr_sendAsduInternal (s : Slave) (i : Nat) (a : List Nat) : LR s (sendAsduInternal s i a).1 := by
  unfold sendAsduInternal
  simp only
  repeat' split
  all_goals first
    | exact lr_sendI _ _ _ _
    | exact lr_setGrp _ _ _
    | exact LR.refl _

theorem lifeStep_other (j c st : Nat) (w : String) (h : c ≠ j) : lifeStep j st (.ev c w) = st := by
  simp [lifeStep, h]

/-- `MasterConnection_deactivate`: DEACTIVATED is reported exactly when a started connection in use leaves STARTED -/
theorem lr_deactivate (s : Slave) (i : Nat) : LR s (deactivate s i) := by
  unfold deactivate
  simp only
  split
  · rename_i hc
    simp only [Bool.and_eq_true, decide_eq_true_eq] at hc
    have hi : i < s.conns.length := by
      rcases Nat.lt_or_ge i s.conns.length with h | h
      · exact h
      · exfalso
        have : s.conn i = {} := by unfold Slave.conn; rw [List.getD_eq_getElem?_getD, List.getElem?_eq_none h]; rfl
        rw [this] at hc; exact Bool.noConfusion hc.1
    refine ⟨by rw [setConn_len]; rfl, fun j => ?_, rfl, fun hinv j => ?_⟩
    · by_cases hj : j = i
      · subst hj; rw [conn_setConn _ _ _ (by exact hi)]; rfl
      · rw [conn_setConn_ne _ _ _ _ hj]; rfl
    · show lifeOf (s.log ++ [Obs.ev i "DEACTIVATED"]) j = _
      rw [lifeOf_snoc]
      by_cases hj : j = i
      · subst hj
        rw [conn_setConn _ _ _ (by exact hi), hinv j]
        show lifeStep j (expected (s.conn j)) _ = expected { (s.conn j) with state := 2 }
        simp [expected, lifeStep, hc.1, hc.2]
      · rw [conn_setConn_ne _ _ _ _ hj, lifeStep_other _ _ _ _ (Ne.symm hj)]
        exact hinv j
  · rename_i hc
    simp only [Bool.and_eq_true, decide_eq_true_eq, not_and] at hc
    exact lr_setConn _ _ _ ⟨rfl, fun hu => ⟨fun h => by simp at h, fun h => absurd h (hc hu)⟩⟩

theorem lr_foldl {α} (f : Slave → α → Slave) (hf : ∀ s a, LR s (f s a)) : ∀ (l : List α) (s : Slave), LR s (l.foldl f s) := by
  intro l
  induction l with
  | nil => intro s; exact LR.refl s
  | cons a l ih => intro s; exact LR.trans (hf s a) (ih _)

theorem lr_confirmReleased (rel : List KEntry) (s : Slave) (i : Nat) : LR s (confirmReleased s i rel) := by
  unfold confirmReleased
  apply lr_foldl
  intro t e
  split
  · exact lr_setGrp _ _ _
  · exact LR.refl t

theorem lr_checkSeqConn (s : Slave) (i : Nat) (nr : Nat) : LR s (checkSeqConn s i nr).1 := by
  unfold checkSeqConn
  simp only
  generalize checkSeq (s.conn i).vs (s.conn i).win nr = r
  obtain ⟨ok, w, rel⟩ := r
  simp only
  exact LR.trans (lr_setConn _ _ _ (by sl)) (lr_confirmReleased _ _ _)

theorem lr_appHandler (s : Slave) (i : Nat) (a : List Nat) : LR s (appHandler s i a) := by
  unfold appHandler
  simp only
  refine LR.trans (lr_emit s _ (by exact trivial)) (lr_foldl _ ?_ _ _)
  intro t _
  exact LR.trans (lr_sendAsduInternal t i a) (lr_emit _ _ (by exact trivial))

/-- peel the outermost state transformer off a `LR s (F …)` goal (syntactic match only) -/
macro "lr_step" : tactic => `(tactic| first
  | with_reducible exact LR.refl _
  | ((with_reducible refine LR.trans ?_ (lr_setConn _ _ _ ?_)) <;> (try sl))
  | with_reducible refine LR.trans ?_ (lr_emit _ _ (by exact trivial))
  | with_reducible refine LR.trans ?_ (lr_setGrp _ _ _)
  | with_reducible refine LR.trans ?_ (lr_write _ _ _)
  | with_reducible refine LR.trans ?_ (lr_sendS _ _)
  | with_reducible refine LR.trans ?_ (lr_sendI _ _ _ _)
  | with_reducible refine LR.trans ?_ (lr_sendAsduInternal _ _ _)
  | with_reducible refine LR.trans ?_ (lr_deactivate _ _)
  | with_reducible refine LR.trans ?_ (lr_checkSeqConn _ _ _)
  | with_reducible refine LR.trans ?_ (lr_appHandler _ _ _))

theorem lr_handleI (s : Slave) (i : Nat) (buf : List Nat) : LR s (handleI s i buf).1 := by
  unfold handleI
  extract_lets n c c1 s1 ns nr
  have h1 : LR s s1 := lr_setConn _ _ _ (by dsimp only [c1, c]; split <;> sl)
  split
  · exact LR.refl s
  · split
    · exact LR.refl s
    · split
      · exact h1
      · have h2 := lr_checkSeqConn s1 i nr
        generalize checkSeqConn s1 i nr = r at h2
        obtain ⟨s2, ok⟩ := r
        dsimp only at h2
        show LR s (if (!ok) = true then (s2, false) else _).fst
        have h12 := LR.trans h1 h2
        split
        · exact h12
        · extract_lets c2 s3
          have h3 : LR s2 s3 := lr_setConn _ _ _ (by dsimp only [c2]; sl)
          split
          · split
            · exact LR.trans h12 h3
            · exact LR.trans h12 (LR.trans h3 (LR.trans (lr_appHandler _ _ _) (lr_setConn _ _ _ (by sl))))
          · exact LR.trans h12 h3

theorem lr_receiveMessage (s : Slave) (i : Nat) : LR s (receiveMessage s i).1 := by
  unfold receiveMessage
  simp only
  exact lr_setConn _ _ _ (by sl)

theorem lr_ackIfW (s : Slave) (i : Nat) : LR s (ackIfW s i) := by
  unfold ackIfW
  simp only
  split
  · exact LR.trans (lr_setConn _ _ _ (by sl)) (lr_sendS _ _)
  · exact LR.refl s

theorem lr_sendWaitingHigh (i : Nat) : ∀ (fuel : Nat) (s : Slave), LR s (sendWaitingHigh s i fuel).1 := by
  intro fuel
  induction fuel with
  | zero => intro s; exact LR.refl s
  | succ n ih =>
    intro s
    unfold sendWaitingHigh
    simp only
    repeat' split
    all_goals first
      | exact LR.refl _
      | exact lr_setGrp _ _ _
      | exact LR.trans (lr_setGrp _ _ _) (lr_sendI _ _ _ _)
      | exact LR.trans (LR.trans (lr_setGrp _ _ _) (lr_sendI _ _ _ _)) (ih _)

theorem lr_sendWaitingASDUs (s : Slave) (i : Nat) : LR s (sendWaitingASDUs s i) := by
  unfold sendWaitingASDUs
  have h1 := lr_sendWaitingHigh i ((s.grp (s.gidx i)).highQ.count + 1) s
  simp only
  repeat' split
  all_goals first
    | exact h1
    | exact LR.trans h1 (lr_setGrp _ _ _)
    | exact LR.trans h1 (LR.trans (lr_setGrp _ _ _) (lr_sendI _ _ _ _))

/-- unfold nothing, split every `if` / `match`, name every `let`, peel the state transformers from the outside -/
macro "lr_auto" : tactic => `(tactic| repeat' (first
  | (with_reducible exact LR.refl _)
  | sl
  | split
  | extract_lets
  | lr_step
  | (dsimp (config := { zetaDelta := true, zeta := false }) only)))

theorem lr_phaseT3 (s : Slave) (i : Nat) : LR s (phaseT3 s i) := by
  unfold phaseT3
  try simp (config := { zeta := false }) only []
  lr_auto

theorem lr_phaseTestFR (s : Slave) (i : Nat) : LR s (phaseTestFR s i).1 := by
  unfold phaseTestFR
  try simp (config := { zeta := false }) only []
  lr_auto

theorem lr_phaseT2 (s : Slave) (i : Nat) : LR s (phaseT2 s i) := by
  unfold phaseT2
  try simp (config := { zeta := false }) only []
  lr_auto

theorem lr_phaseT1 (s : Slave) (i : Nat) (ok : Bool) : LR s (phaseT1 s i ok).1 := by
  unfold phaseT1
  try simp (config := { zeta := false }) only []
  lr_auto

theorem lr_handleTimeouts (s : Slave) (i : Nat) : LR s (handleTimeouts s i).1 := by
  unfold handleTimeouts
  try simp (config := { zeta := false }) only []
  exact LR.trans (lr_phaseT3 s i) (LR.trans (lr_phaseTestFR _ i) (LR.trans (lr_phaseT2 _ i) (lr_phaseT1 _ i _)))

theorem lr_periodic (s : Slave) (i : Nat) : LR s (periodic s i) := by
  unfold periodic
  have h1 : LR s (if (s.conn i).state = 1 then sendWaitingASDUs s i else s) := by
    split
    · exact lr_sendWaitingASDUs s i
    · exact LR.refl s
  extract_lets s1
  have h2 := lr_handleTimeouts s1 i
  generalize handleTimeouts s1 i = r at h2
  obtain ⟨s2, ok⟩ := r
  show LR s (if (!ok) = true then s2.setConn i { s2.conn i with isRunning := false } else s2)
  split
  · exact LR.trans h1 (LR.trans h2 (lr_setConn _ _ _ (by sl)))
  · exact LR.trans h1 h2

theorem lr_resetUnconfirmed (s : Slave) (j : Nat) : LR s (resetUnconfirmed s j) := by
  unfold resetUnconfirmed
  apply lr_foldl
  intro t e
  split
  · exact lr_setGrp _ _ _
  · exact LR.refl t

theorem lr_t3upd (s : Slave) (i : Nat) : LR s (t3upd s i) := by
  unfold t3upd; exact lr_setConn _ _ _ (by sl)

theorem lr_hmTestFR (s : Slave) (i : Nat) : LR s (hmTestFR s i).1 := by
  unfold hmTestFR
  have h := lr_write s i TESTFR_CON
  generalize write s i TESTFR_CON = r at h
  obtain ⟨s1, ok⟩ := r
  show LR s (if ok = true then (t3upd s1 i, true) else (s1, false)).1
  split
  · exact LR.trans h (lr_t3upd _ _)
  · exact h

/-- `MasterConnection_activate` on a slot in use: ACTIVATED is reported exactly when the connection becomes STARTED -/
theorem lr_activateConn (s : Slave) (i : Nat) (hu : (s.conn i).isUsed = true) : LR s (activateConn s i) := by
  have hi : i < s.conns.length := by
    rcases Nat.lt_or_ge i s.conns.length with h | h
    · exact h
    · exfalso
      have : s.conn i = {} := by unfold Slave.conn; rw [List.getD_eq_getElem?_getD, List.getElem?_eq_none h]; rfl
      rw [this] at hu; exact Bool.noConfusion hu
  unfold activateConn
  simp only
  split
  · rename_i hc
    have hne : (s.conn i).state ≠ 1 := by simpa using hc
    refine ⟨by rw [setConn_len]; rfl, fun j => ?_, rfl, fun hinv j => ?_⟩
    · by_cases hj : j = i
      · subst hj; rw [conn_setConn _ _ _ (by exact hi)]; rfl
      · rw [conn_setConn_ne _ _ _ _ hj]; rfl
    · show lifeOf (s.log ++ [Obs.ev i "ACTIVATED"]) j = _
      rw [lifeOf_snoc]
      by_cases hj : j = i
      · subst hj
        rw [conn_setConn _ _ _ (by exact hi), hinv j]
        show lifeStep j (expected (s.conn j)) _ = expected { (s.conn j) with state := 1 }
        simp [expected, lifeStep, hu, hne]
      · rw [conn_setConn_ne _ _ _ _ hj, lifeStep_other _ _ _ _ (Ne.symm hj)]
        exact hinv j
  · rename_i hc
    have he : (s.conn i).state = 1 := by simpa using hc
    exact lr_setConn _ _ _ ⟨rfl, fun _ => ⟨fun _ => he, fun _ => rfl⟩⟩

theorem lr_activate (s : Slave) (i : Nat) (hu : (s.conn i).isUsed = true) : LR s (activate s i) := by
  unfold activate
  simp only
  generalize (List.filter _ (List.range s.conns.length)) = js
  have h0 : LR s (js.foldl deactivate s) := lr_foldl _ (fun t j => lr_deactivate t j) _ _
  generalize js.foldl deactivate s = t at h0
  exact LR.trans h0 (lr_activateConn t i (by rw [h0.2.1 i]; exact hu))

theorem lr_hmStartDT (s : Slave) (i : Nat) (hu : (s.conn i).isUsed = true) : LR s (hmStartDT s i).1 := by
  unfold hmStartDT
  extract_lets s0 g s1
  have h0 : LR s s0 := lr_activate s i hu
  have h1 : LR s0 s1 := lr_setGrp _ _ _
  have h := lr_write s1 i STARTDT_CON
  generalize write s1 i STARTDT_CON = r at h
  obtain ⟨s2, ok⟩ := r
  show LR s (if ok = true then (t3upd s2 i, true) else (s2, false)).1
  split
  · exact LR.trans h0 (LR.trans h1 (LR.trans h (lr_t3upd _ _)))
  · exact LR.trans h0 (LR.trans h1 h)

/-- leaving a state other than STARTED for STOPPED changes nothing the log knows about -/
theorem samelife_stop (c : Conn) (h : c.isUsed = true → c.state ≠ 1) : SameLife c { c with state := 0 } :=
  ⟨rfl, fun hu => ⟨fun h0 => by simp at h0, fun h1 => absurd h1 (h hu)⟩⟩

theorem deactivate_not_started (s : Slave) (i : Nat) : ((deactivate s i).conn i).isUsed = true → ((deactivate s i).conn i).state ≠ 1 := by
  intro hu
  rcases Nat.lt_or_ge i s.conns.length with h | h
  · rw [deactivate_state s i h]; decide
  · exfalso
    have hl := (deactivate_facts s i).1
    have : (deactivate s i).conn i = {} := by unfold Slave.conn; rw [List.getD_eq_getElem?_getD, List.getElem?_eq_none (by omega)]; rfl
    rw [this] at hu; exact Bool.noConfusion hu

theorem lr_stopTail (s : Slave) (i : Nat) (c : Conn) (hc : SameLife (s.conn i) c) :
    LR s (let s := s.setConn i c
              let (s, ok) := write s i STOPDT_CON
              if ok then (t3upd s i, true) else (s, false)).1 := by
  extract_lets s1
  have h1 : LR s s1 := lr_setConn _ _ _ hc
  have h := lr_write s1 i STOPDT_CON
  generalize write s1 i STOPDT_CON = r at h
  obtain ⟨s2, ok⟩ := r
  show LR s (if ok = true then (t3upd s2 i, true) else (s2, false)).1
  split
  · exact LR.trans h1 (LR.trans h (lr_t3upd _ _))
  · exact LR.trans h1 h

theorem lr_hmStopDT (s : Slave) (i : Nat) : LR s (hmStopDT s i).1 := by
  unfold hmStopDT
  extract_lets s0 c s1
  have h0 : LR s s0 := lr_deactivate s i
  have h1 : LR s0 s1 := by
    dsimp only [s1]
    split
    · exact LR.trans (lr_setConn _ _ _ (by dsimp only [c]; sl)) (lr_sendS _ _)
    · exact LR.refl _
  have hs1 : Shrink s0 s1 := by
    dsimp only [s1]
    split
    · exact Shrink.trans (shrink_setConn _ _ _ (by dsimp only [c]; cshrink)) (shrink_sendS _ _)
    · exact Shrink.refl _
  have hns : (s1.conn i).isUsed = true → (s1.conn i).state ≠ 1 := fun hu h1' =>
    deactivate_not_started s i (hs1.2.2 i hu h1').1 (hs1.2.2 i hu h1').2.1
  split
  · exact LR.trans h0 (LR.trans h1 (lr_t3upd _ _))
  · exact LR.trans h0 (LR.trans h1 (lr_stopTail s1 i _ (samelife_stop _ hns)))

theorem lr_hmS (s : Slave) (i : Nat) (buf : List Nat) : LR s (hmS s i buf).1 := by
  unfold hmS
  extract_lets nr
  have h := lr_checkSeqConn s i nr
  generalize checkSeqConn s i nr = r at h
  obtain ⟨s1, ok⟩ := r
  dsimp only at h
  show LR s (if (!ok) = true then (s1, false) else _).1
  split
  · exact h
  · extract_lets c
    split
    · rename_i h2
      split
      · exact LR.trans h (lr_stopTail s1 i _ (samelife_stop _ (fun _ => by dsimp only [c] at h2; rw [h2]; decide)))
      · exact LR.trans h (lr_t3upd _ _)
    · split
      · exact h
      · exact LR.trans h (lr_t3upd _ _)


theorem lr_handleMessage (s : Slave) (i : Nat) (buf : List Nat) (hu : (s.conn i).isUsed = true) : LR s (handleMessage s i buf).1 := by
  unfold handleMessage
  extract_lets n b2
  split
  · exact LR.refl s
  split
  · exact LR.refl s
  split
  · exact LR.refl s
  split
  · exact lr_handleI s i buf
  split
  · exact lr_hmTestFR s i
  split
  · exact lr_hmStartDT s i hu
  split
  · exact lr_hmStopDT s i
  split
  · exact LR.trans (lr_setConn _ _ _ (by sl)) (lr_t3upd _ _)
  split
  · exact lr_hmS s i buf
  · exact LR.refl s

theorem lr_handleTcpConnection (s : Slave) (i : Nat) (hu : (s.conn i).isUsed = true) : LR s (handleTcpConnection s i) := by
  unfold handleTcpConnection
  have h1 := lr_receiveMessage s i
  generalize receiveMessage s i = r at h1
  obtain ⟨s1, rr, msg⟩ := r
  dsimp only at h1
  simp (config := { zeta := false }) only []
  extract_lets c0 s2 c3 s4
  have h2 : LR s1 s2 := by
    dsimp only [s2]; split
    · exact lr_setConn _ _ _ (by dsimp only [c0]; sl)
    · exact LR.refl _
  have h12 := LR.trans h1 h2
  split
  · have h3 := lr_handleMessage s2 i msg (by rw [h12.2.1 i]; exact hu)
    have h4 : LR (handleMessage s2 i msg).1 s4 := by
      dsimp only [s4]; split
      · exact lr_setConn _ _ _ (by dsimp only [c3]; sl)
      · exact LR.refl _
    exact LR.trans h12 (LR.trans h3 (LR.trans h4 (lr_ackIfW _ _)))
  · exact h12

/-! ### the steps that open and close connections -/

theorem unused_of_ge (s : Slave) (i : Nat) (h : s.conns.length ≤ i) : (s.conn i).isUsed = false := by
  have : s.conn i = {} := by unfold Slave.conn; rw [List.getD_eq_getElem?_getD, List.getElem?_eq_none h]; rfl
  rw [this]

theorem lt_of_used (s : Slave) (i : Nat) (h : (s.conn i).isUsed = true) : i < s.conns.length := by
  rcases Nat.lt_or_ge i s.conns.length with h' | h'
  · exact h'
  · rw [unused_of_ge s i h'] at h; exact Bool.noConfusion h

theorem resetUnconfirmed_same (s : Slave) (j : Nat) : (resetUnconfirmed s j).log = s.log ∧ (resetUnconfirmed s j).conns = s.conns := by
  unfold resetUnconfirmed
  generalize (s.conn j).win = l
  induction l generalizing s with
  | nil => exact ⟨rfl, rfl⟩
  | cons e l ih =>
    simp only [List.foldl_cons]
    split
    · exact ⟨(ih _).1, (ih _).2⟩
    · exact ih s

/-- the reaping of a stopped connection: CLOSED is reported and the slot is freed -/
theorem linv_reap (s : Slave) (j : Nat) (hu : (s.conn j).isUsed = true) (h : LInv s) :
    LInv (let s := emit s (.ev j "CLOSED")
          let s := resetUnconfirmed s j
          let s := s.setConn j { s.conn j with isUsed := false, state := 0 }
          ({ s with openConnections := s.openConnections - 1 } : Slave)) := by
  have hj := lt_of_used s j hu
  extract_lets s1 s2 c3 s3
  obtain ⟨hl2, hc2⟩ := resetUnconfirmed_same s1 j
  have hc2j : ∀ x, s2.conn x = s.conn x := fun x => by show (resetUnconfirmed s1 j).conn x = _; unfold Slave.conn; rw [hc2]; rfl
  have hlen2 : j < s2.conns.length := by show j < (resetUnconfirmed s1 j).conns.length; rw [hc2]; exact hj
  intro x
  show lifeOf s3.log x = expected (s3.conn x)
  have hlog : s3.log = s.log ++ [Obs.ev j "CLOSED"] := hl2
  rw [hlog, lifeOf_snoc, h x]
  by_cases hx : x = j
  · subst hx
    show _ = expected ((s2.setConn x _).conn x)
    rw [conn_setConn _ _ _ hlen2]
    by_cases h1 : (s.conn x).state = 1 <;> simp [expected, lifeStep, hu, h1]
  · show _ = expected ((s2.setConn j _).conn x)
    rw [conn_setConn_ne _ _ _ _ hx, hc2j, lifeStep_other _ _ _ _ (Ne.symm hx)]

/-- the reaping step of `handleClientConnections` -/
def reap (t : Slave) (j : Nat) : Slave :=
  let s := emit t (.ev j "CLOSED")
  let s := resetUnconfirmed s j
  let s := s.setConn j { s.conn j with isUsed := false, state := 0 }
  { s with openConnections := s.openConnections - 1 }

theorem p_foldl {P : Slave → Prop} {α} (f : Slave → α → Slave) (hf : ∀ s a, P s → P (f s a)) :
    ∀ (l : List α) (s : Slave), P s → P (l.foldl f s) := by
  intro l
  induction l with
  | nil => intro s h; exact h
  | cons a l ih => intro s h; exact ih _ (hf s a h)

theorem p_foldl3 {P : Slave → Prop} {α β} (f : Slave × β → α → Slave × β) (hf : ∀ acc a, P acc.1 → P (f acc a).1) :
    ∀ (l : List α) (acc : Slave × β), P acc.1 → P (l.foldl f acc).1 := by
  intro l
  induction l with
  | nil => intro s h; exact h
  | cons a l ih => intro s h; exact ih _ (hf s a h)

/-- any property kept by the frame relation and by the reaping step is kept by `handleClientConnections` -/
theorem p_handleClientConnections (P : Slave → Prop) (hlr : ∀ s s', LR s s' → P s → P s')
    (hreap : ∀ t j, (t.conn j).isUsed = true → P t → P (reap t j)) (s : Slave) (h : P s) : P (handleClientConnections s) := by
  unfold handleClientConnections
  split
  · extract_lets idx
    split
    rename_i s1 anyRunning ready heq
    have i1 : P s1 := by
      have e := (congrArg Prod.fst heq).symm
      dsimp only at e
      rw [e]
      refine p_foldl3 _ ?_ _ (s, false, false) h
      intro acc j hacc
      obtain ⟨t, anyR, rdy⟩ := acc
      dsimp only at hacc
      dsimp only
      split
      · rename_i hu
        split
        · exact hacc
        · exact hreap t j hu hacc
      · exact hacc
    extract_lets s2
    have i2 : P s2 := by
      dsimp only [s2]
      split
      · refine p_foldl _ ?_ _ _ i1
        intro t j ht
        split
        · rename_i hu
          exact hlr _ _ (lr_handleTcpConnection t j hu) ht
        · exact ht
      · exact i1
    refine p_foldl _ ?_ _ _ i2
    intro t j ht
    split
    · exact hlr _ _ (lr_periodic t j) ht
    · exact ht
  · exact h

theorem linv_handleClientConnections (s : Slave) (h : LInv s) : LInv (handleClientConnections s) :=
  p_handleClientConnections LInv (fun _ _ hr hi => hr.2.2.2 hi) (fun t j hu ht => linv_reap t j hu ht) s h

theorem initConn_facts (s : Slave) (i : Nat) (sk : Sock) (g : Nat) :
    (initConn s i sk g).log = s.log ∧ (initConn s i sk g).conns.length = s.conns.length ∧
    (∀ x, x ≠ i → (initConn s i sk g).conn x = s.conn x) ∧
    (i < s.conns.length → ((initConn s i sk g).conn i).isUsed = true ∧ ((initConn s i sk g).conn i).state = 0) := by
  unfold initConn
  extract_lets c c1 s1 gi gr gr2
  refine ⟨rfl, setConn_len _ _ _, fun x hx => ?_, fun hi => ?_⟩
  · show (s.setConn i c1).conn x = _
    exact conn_setConn_ne _ _ _ _ hx
  · show ((s.setConn i c1).conn i).isUsed = true ∧ ((s.setConn i c1).conn i).state = 0
    rw [conn_setConn _ _ _ hi]; exact ⟨rfl, rfl⟩

/-- `MasterConnection_init` on a free slot, then `isRunning`, then OPENED -/
theorem linv_accept (s : Slave) (h : LInv s) : LInv (accept s) := by
  unfold accept
  split
  · split
    · exact h
    · rename_i sk rest _
      extract_lets s0
      have h0 : LInv s0 := (lr_of_conns (s := s) (s' := s0) rfl rfl rfl).2.2.2 h
      split
      rename_i answer s1 heq
      have h1 : LInv s1 := by
        have e := (congrArg Prod.snd heq).symm
        dsimp only at e
        rw [e]
        split
        · exact h0
        · exact (lr_of_conns (s := s0) rfl rfl rfl).2.2.2 h0
      split
      · exact h1
      · extract_lets free grp
        have hfree : ∀ i, free = some i → i < s1.conns.length ∧ (s1.conn i).isUsed = false := by
          intro i hi
          have hm := List.mem_of_find?_eq_some hi
          have hp := List.find?_some hi
          exact ⟨by simpa using hm, by simpa using hp⟩
        clear_value free grp
        split
        · rename_i g i
          obtain ⟨hi, hunused⟩ := hfree i rfl
          extract_lets gr0 s2 s3 s4 c5 s5
          have hc2 : ∀ x, s2.conn x = s1.conn x := by intro x; dsimp only [s2]; split <;> rfl
          have hl2 : s2.log = s1.log := by dsimp only [s2]; split <;> rfl
          have hlen2 : s2.conns.length = s1.conns.length := by dsimp only [s2]; split <;> rfl
          obtain ⟨f1, f2, f3, f4⟩ := initConn_facts s2 i sk g
          obtain ⟨f4a, f4b⟩ := f4 (by rw [hlen2]; exact hi)
          have hi4 : i < s4.conns.length := by show i < s3.conns.length; rw [f2, hlen2]; exact hi
          intro x
          show lifeOf (s5.log ++ [Obs.ev i "OPENED"]) x = expected (s5.conn x)
          have hl5 : s5.log = s1.log := by show s3.log = _; rw [f1, hl2]
          rw [hl5, lifeOf_snoc, h1 x]
          by_cases hx : x = i
          · subst hx
            show _ = expected ((s4.setConn x _).conn x)
            rw [conn_setConn _ _ _ hi4]
            have hu5 : c5.isUsed = true := f4a
            have hs5 : c5.state = 0 := f4b
            simp [expected, lifeStep, hunused, hu5, hs5]
          · show _ = expected ((s4.setConn i _).conn x)
            rw [conn_setConn_ne _ _ _ _ hx, lifeStep_other _ _ _ _ (Ne.symm hx)]
            show _ = expected (s3.conn x)
            rw [f3 x hx, hc2]
        · exact h1
  · exact h

theorem linv_tick (s : Slave) (h : LInv s) : LInv (tick s) := by
  unfold tick
  exact linv_handleClientConnections _ (linv_accept s h)

/-! ### every history -/

/-- what the environment does between two calls: octets arrive, peers close, writes start or stop failing, connections
become pending, the clock advances, the application answers connection requests - the connection records keep everything
but their socket, nothing is logged -/
abbrev LEnv := WEnv

inductive LOp where
  | tick
  | enqueue (asdu : List Nat)
  | env (e : LEnv)

def LOp.apply (s : Slave) : LOp → Slave
  | .tick => Iec.Srv104.tick s
  | .enqueue a => Iec.Srv104.enqueue s a
  | .env e => e.f s

theorem linv_apply (s : Slave) (op : LOp) (h : LInv s) : LInv (op.apply s) := by
  cases op with
  | tick => exact linv_tick s h
  | enqueue a => exact (lr_of_conns (s := s) (s' := enqueue s a) rfl rfl rfl).2.2.2 h
  | env e =>
    intro j
    show lifeOf (e.f s).log j = expected ((e.f s).conn j)
    rw [e.log, e.conn s j]
    exact h j

theorem create_linv (p : Params) (gs : List (String × List (Bool × List Nat))) : LInv (create p gs) := by
  intro j
  have hc : (create p gs).conn j = {} := by
    unfold create
    simp only [Slave.conn, List.getD_eq_getElem?_getD, List.getElem?_map]
    cases (List.range p.nSlots)[j]? <;> rfl
  rw [hc]; rfl

/-- **every history**: from a freshly created server, after any sequence of ticks, enqueues and environment events, the
event log of every slot agrees with the slot's state - hence it has never left the grammar
( OPENED ( ACTIVATED DEACTIVATED )* ACTIVATED? CLOSED )* -/
theorem run_linv (p : Params) (gs : List (String × List (Bool × List Nat))) (ops : List LOp) :
    LInv (ops.foldl LOp.apply (create p gs)) := by
  have h0 := create_linv p gs
  generalize create p gs = s at h0
  induction ops generalizing s with
  | nil => exact h0
  | cons op ops ih => exact ih _ (linv_apply s op h0)

theorem expected_ne_3 (c : Conn) : expected c ≠ 3 := by
  unfold expected; repeat' split
  all_goals decide

/-! ### the open-connection counter -/

def usedCount (s : Slave) : Nat := s.conns.countP (·.isUsed)

/-- **`CS104_Slave_getOpenConnections` is the number of slots in use** -/
def OcInv (s : Slave) : Prop := s.openConnections = (usedCount s : Int)

theorem conn_eq_getElem (s : Slave) (j : Nat) (h : j < s.conns.length) : s.conn j = s.conns[j] := by
  unfold Slave.conn; simp [List.getD_eq_getElem?_getD, h]

theorem usedCount_congr {s s' : Slave} (hl : s'.conns.length = s.conns.length)
    (hu : ∀ j, (s'.conn j).isUsed = (s.conn j).isUsed) : usedCount s' = usedCount s := by
  have hm : s'.conns.map (·.isUsed) = s.conns.map (·.isUsed) := by
    apply List.ext_getElem (by simp [hl])
    intro i h1 h2
    simp only [List.getElem_map]
    have a := hu i
    rw [conn_eq_getElem s' i (by simpa using h1), conn_eq_getElem s i (by simpa using h2)] at a
    exact a
  have e : ∀ t : Slave, usedCount t = (t.conns.map (·.isUsed)).countP id := by
    intro t; unfold usedCount; rw [List.countP_map]; rfl
  rw [e, e, hm]

theorem oc_lr {s s' : Slave} (h : OcInv s) (hr : LR s s') : OcInv s' := by
  unfold OcInv
  rw [hr.2.2.1, usedCount_congr hr.1 hr.2.1]; exact h

theorem usedCount_set (s : Slave) (i : Nat) (c : Conn) (hi : i < s.conns.length) :
    usedCount (s.setConn i c) = usedCount s - (if (s.conn i).isUsed then 1 else 0) + (if c.isUsed then 1 else 0) := by
  unfold usedCount Slave.setConn
  rw [List.countP_set hi, conn_eq_getElem s i hi]

theorem oc_reap (s : Slave) (j : Nat) (hu : (s.conn j).isUsed = true) (h : OcInv s) : OcInv (reap s j) := by
  have hj := lt_of_used s j hu
  unfold reap
  extract_lets s1 s2 c3 s3
  obtain ⟨_, hc2⟩ := resetUnconfirmed_same s1 j
  have hc2' : s2.conns = s.conns := hc2
  have hoc2 : s2.openConnections = s.openConnections := by
    have := (lr_resetUnconfirmed s1 j).2.2.1; exact this
  have hlen2 : j < s2.conns.length := by rw [hc2']; exact hj
  have hu2 : (s2.conn j).isUsed = true := by unfold Slave.conn; rw [hc2']; exact hu
  have hcnt2 : usedCount s2 = usedCount s := by unfold usedCount; rw [hc2']
  show s3.openConnections - 1 = (usedCount s3 : Int)
  have h3 : usedCount s3 = usedCount s2 - 1 := by
    show usedCount (s2.setConn j _) = _
    rw [usedCount_set _ _ _ hlen2, hu2]; simp
  have hpos : 0 < usedCount s2 := by
    unfold usedCount
    apply List.countP_pos_iff.mpr
    exact ⟨s2.conns[j], List.getElem_mem hlen2, by rw [← conn_eq_getElem s2 j hlen2]; exact hu2⟩
  show s2.openConnections - 1 = _
  rw [h3, hoc2, h, hcnt2]
  rw [hcnt2] at hpos
  omega

theorem oc_handleClientConnections (s : Slave) (h : OcInv s) : OcInv (handleClientConnections s) :=
  p_handleClientConnections OcInv (fun _ _ hr hi => oc_lr hi hr) (fun t j hu ht => oc_reap t j hu ht) s h

theorem oc_accept (s : Slave) (h : OcInv s) : OcInv (accept s) := by
  unfold accept
  split
  · split
    · exact h
    · rename_i sk rest _
      extract_lets s0
      have h0 : OcInv s0 := oc_lr h (lr_of_conns (s := s) (s' := s0) rfl rfl rfl)
      split
      rename_i answer s1 heq
      have h1 : OcInv s1 := by
        have e := (congrArg Prod.snd heq).symm
        dsimp only at e
        rw [e]
        split
        · exact h0
        · exact oc_lr h0 (lr_of_conns (s := s0) rfl rfl rfl)
      split
      · exact h1
      · extract_lets free grp
        have hfree : ∀ i, free = some i → i < s1.conns.length ∧ (s1.conn i).isUsed = false := by
          intro i hi
          have hm := List.mem_of_find?_eq_some hi
          have hp := List.find?_some hi
          exact ⟨by simpa using hm, by simpa using hp⟩
        clear_value free grp
        split
        · rename_i g i
          obtain ⟨hi, hunused⟩ := hfree i rfl
          extract_lets gr0 s2 s3 s4 c5 s5
          have hc2 : s2.conns = s1.conns := by dsimp only [s2]; split <;> rfl
          have ho2 : s2.openConnections = s1.openConnections := by dsimp only [s2]; split <;> rfl
          have hi2 : i < s2.conns.length := by rw [hc2]; exact hi
          have hun2 : (s2.conn i).isUsed = false := by unfold Slave.conn; rw [hc2]; exact hunused
          -- initConn: slot i becomes used
          have h3c : usedCount s3 = usedCount s2 + 1 := by
            show usedCount (initConn s2 i sk g) = _
            unfold initConn
            extract_lets c c1 t1 gi gr gr2
            show usedCount (s2.setConn i c1) = _
            rw [usedCount_set _ _ _ hi2, hun2]; rfl
          have h3o : s3.openConnections = s2.openConnections := by
            show (initConn s2 i sk g).openConnections = _
            unfold initConn; rfl
          obtain ⟨_, f2, _, f4⟩ := initConn_facts s2 i sk g
          have hi4 : i < s4.conns.length := by show i < s3.conns.length; rw [f2]; exact hi2
          have hu4 : (s4.conn i).isUsed = true := (f4 hi2).1
          have h5c : usedCount s5 = usedCount s4 := by
            show usedCount (s4.setConn i _) = _
            rw [usedCount_set _ _ _ hi4, hu4]
            have hpos : 0 < usedCount s4 := by
              unfold usedCount
              apply List.countP_pos_iff.mpr
              exact ⟨s4.conns[i], List.getElem_mem hi4, by rw [← conn_eq_getElem s4 i hi4]; exact hu4⟩
            simp; omega
          show s5.openConnections = (usedCount s5 : Int)
          rw [h5c]
          show s3.openConnections + 1 = ((usedCount s3 : Nat) : Int)
          rw [h3c, h3o, ho2, h1]
          have : usedCount s2 = usedCount s1 := by unfold usedCount; rw [hc2]
          rw [this]; simp
        · exact h1
  · exact h

theorem oc_tick (s : Slave) (h : OcInv s) : OcInv (tick s) := by
  unfold tick
  exact oc_handleClientConnections _ (oc_accept s h)

theorem oc_apply (s : Slave) (op : LOp) (h : OcInv s) : OcInv (op.apply s) := by
  cases op with
  | tick => exact oc_tick s h
  | enqueue a => exact oc_lr h (lr_of_conns (s := s) (s' := enqueue s a) rfl rfl rfl)
  | env e =>
    show (e.f s).openConnections = (usedCount (e.f s) : Int)
    rw [e.oc s, usedCount_congr (e.len s) (fun j => by rw [e.conn s j]), h]

theorem create_oc (p : Params) (gs : List (String × List (Bool × List Nat))) : OcInv (create p gs) := by
  unfold OcInv usedCount create
  have : List.countP (fun c : Conn => c.isUsed) ((List.range p.nSlots).map fun _ => ({} : Conn)) = 0 := by
    apply List.countP_eq_zero.mpr
    intro c hc
    obtain ⟨_, _, rfl⟩ := List.mem_map.mp hc
    simp
  show ((0 : Int)) = ((List.countP (fun c : Conn => c.isUsed) ((List.range p.nSlots).map fun _ => ({} : Conn)) : Nat) : Int)
  rw [this]; rfl

/-- **every history**: the open-connection counter equals the number of slots in use -/
theorem run_oc (p : Params) (gs : List (String × List (Bool × List Nat))) (ops : List LOp) :
    OcInv (ops.foldl LOp.apply (create p gs)) := by
  have h0 := create_oc p gs
  generalize create p gs = s at h0
  induction ops generalizing s with
  | nil => exact h0
  | cons op ops ih => exact ih _ (oc_apply s op h0)

theorem lifeStep_3 (j : Nat) (o : Obs) : lifeStep j 3 o = 3 := by
  cases o with
  | ev c w => simp only [lifeStep]; repeat' split
              all_goals first | rfl | (exfalso; omega)
  | _ => rfl

theorem lifeOf_3_absorbing (j : Nat) : ∀ (l : List Obs) (st : Nat), st = 3 → l.foldl (lifeStep j) st = 3 := by
  intro l
  induction l with
  | nil => intro st h; exact h
  | cons o l ih => intro st h; subst h; exact ih _ (lifeStep_3 j o)

/-- a log that has not violated the grammar never did: no prefix violates it -/
theorem lifeOf_prefix (l1 l2 : List Obs) (j : Nat) (h : lifeOf (l1 ++ l2) j ≠ 3) : lifeOf l1 j ≠ 3 := by
  intro h3
  apply h
  unfold lifeOf at h3 ⊢
  rw [List.foldl_append]
  exact lifeOf_3_absorbing j l2 _ h3

end Iec.Srv104
