/-
N(S) on the wire of the client when sending and receiving interleave: whatever messages arrive between the send calls
(acknowledgements releasing the window, I-format APDUs, U-format requests answered on the same socket), the I-format
APDUs the client has written carry N(S) = 0, 1, 2, ... modulo 32768 in the order they were written.
-/
import Iec.Lemmas.Cli104Vs
namespace Iec.Cli104
open Iec.KWindow Iec.Srv104

/-- I-format by the control field -/
def isIFrame (b : List Nat) : Bool := b.getD 2 0 % 2 == 0

/-- N(S) of the I-format APDUs written so far, in order -/
def nsLog (l : List Obs) : List Nat :=
  l.filterMap (fun o => match o with | .tx b => if isIFrame b then some (frameNS b) else none | _ => none)

@[simp] theorem nsLog_append (a b : List Obs) : nsLog (a ++ b) = nsLog a ++ nsLog b := by simp [nsLog]

theorem write_sock (c : Cli) (b : List Nat) : (write c b).sock = c.sock := by
  unfold write emit
  repeat' split
  all_goals rfl

theorem write_keeps_writable (c : Cli) (b : List Nat) (h : Writable c) : Writable (write c b) := by
  unfold Writable at *
  rw [write_sock, write_phase]; exact h

theorem write_nsLog (c : Cli) (b : List Nat) (h : isIFrame b = false) : nsLog (write c b).log = nsLog c.log := by
  unfold write emit
  repeat' split
  all_goals simp [nsLog, h]

/-- what matters to the wire numbering: V(S), the writable socket, the I-format APDUs written so far -/
def NsKeep (c c' : Cli) : Prop :=
  c'.vs = c.vs ∧ (Writable c → Writable c') ∧ nsLog c'.log = nsLog c.log

theorem NsKeep.refl (c : Cli) : NsKeep c c := ⟨rfl, id, rfl⟩
theorem NsKeep.trans {a b c : Cli} (h1 : NsKeep a b) (h2 : NsKeep b c) : NsKeep a c :=
  ⟨h2.1.trans h1.1, fun h => h2.2.1 (h1.2.1 h), h2.2.2.trans h1.2.2⟩
theorem nsKeep_of_eq {c c' : Cli} (hv : c'.vs = c.vs) (hp : c'.phase = c.phase) (hs : c'.sock = c.sock)
    (hl : c'.log = c.log) : NsKeep c c' :=
  ⟨hv, by unfold Writable; rw [hp, hs]; exact id, by rw [hl]⟩
theorem nsKeep_write (c : Cli) (b : List Nat) (h : isIFrame b = false) : NsKeep c (write c b) :=
  ⟨write_vs c b, write_keeps_writable c b, write_nsLog c b h⟩
theorem nsKeep_emit_asdu (c : Cli) (b : List Nat) : NsKeep c (emit c (.asdu b)) :=
  ⟨rfl, id, by simp [emit, nsLog]⟩

/-- **`checkMessage` keeps V(S), the socket and the I-format APDUs written so far** (it writes only U-format
confirmations) -/
theorem nsKeep_checkMessage (c : Cli) (buf : List Nat) : NsKeep c (checkMessage c buf).1 := by
  have hT : isIFrame TESTFR_CON = false := by decide
  have hS : isIFrame STARTDT_CON = false := by decide
  unfold checkMessage NsKeep Writable
  simp only
  repeat' split
  all_goals (try simp [write_vs, write_sock, write_nsLog, hT, hS])
  all_goals (try simp [emit, nsLog])
  all_goals (intro h1 h2 h3; exact ⟨h1, h2, h3⟩)

theorem isIFrame_sframe (lo hi : Nat) : isIFrame [0x68, 4, 1, 0, lo, hi] = false := by simp [isIFrame]

theorem nsKeep_confirm (c : Cli) : NsKeep c (confirmOutstanding c) := by
  unfold confirmOutstanding
  exact (nsKeep_of_eq rfl rfl rfl rfl).trans (nsKeep_write _ _ (isIFrame_sframe _ _))

theorem nsKeep_phaseT3 (c : Cli) : NsKeep c (phaseT3 c).1 := by
  unfold phaseT3
  repeat' split
  all_goals first
    | exact NsKeep.refl _
    | exact (nsKeep_write _ _ (by decide)).trans (nsKeep_of_eq rfl rfl rfl rfl)

theorem nsKeep_phaseT2 (c : Cli) : NsKeep c (phaseT2 c) := by
  unfold phaseT2
  repeat' split
  all_goals first
    | exact NsKeep.refl _
    | exact nsKeep_confirm _

theorem nsKeep_phaseT1 (c : Cli) : NsKeep c (phaseT1 c).1 := by
  unfold phaseT1
  repeat' split
  all_goals exact NsKeep.refl _

theorem nsKeep_handleTimeouts (c : Cli) : NsKeep c (handleTimeouts c).1 := by
  unfold handleTimeouts
  simp only
  split
  · exact nsKeep_phaseT3 c
  · exact (nsKeep_phaseT3 c).trans ((nsKeep_phaseT2 _).trans (nsKeep_phaseT1 _))

theorem nsKeep_ackIfW (c : Cli) : NsKeep c (ackIfW c) := by
  unfold ackIfW
  split
  · exact nsKeep_confirm c
  · exact NsKeep.refl c

theorem nsKeep_sendStartDT (c : Cli) : NsKeep c (sendStartDT c) := by
  unfold sendStartDT
  exact (nsKeep_of_eq rfl rfl rfl rfl).trans (nsKeep_write _ _ (by decide))

theorem nsKeep_sendStopDT (c : Cli) : NsKeep c (sendStopDT c) := by
  unfold sendStopDT
  exact (nsKeep_confirm c).trans ((nsKeep_of_eq rfl rfl rfl rfl).trans (nsKeep_write _ _ (by decide)))

/-- what the application and the connection thread do on an open connection: a send call, a received message, a pass
over the timers (t1, t2, t3), the `w` test, STARTDT / STOPDT requests -/
inductive MOp where
  | send (a : List Nat)
  | recv (m : List Nat)
  | timers
  | ackW
  | startdt
  | stopdt

def MOp.apply (c : Cli) : MOp → Cli
  | .send a => (sendAsdu c a).1
  | .recv m => (checkMessage c m).1
  | .timers => (handleTimeouts c).1
  | .ackW => ackIfW c
  | .startdt => sendStartDT c
  | .stopdt => sendStopDT c

def MOp.isSend : MOp → Bool
  | .send _ => true
  | _ => false

def mixRun (c : Cli) (ops : List MOp) : Cli := ops.foldl MOp.apply c

/-- how many of the send calls in the history report success -/
def mixSent (c : Cli) : List MOp → Nat
  | [] => 0
  | op :: r => (match op with | .send a => (if (sendAsdu c a).2 then 1 else 0) | _ => 0) + mixSent (op.apply c) r

theorem nsKeep_apply (c : Cli) (op : MOp) (h : op.isSend = false) : NsKeep c (op.apply c) := by
  cases op with
  | send a => simp [MOp.isSend] at h
  | recv m => exact nsKeep_checkMessage c m
  | timers => exact nsKeep_handleTimeouts c
  | ackW => exact nsKeep_ackIfW c
  | startdt => exact nsKeep_sendStartDT c
  | stopdt => exact nsKeep_sendStopDT c

theorem range_shift (v n : Nat) :
    v % 32768 :: (List.range n).map (fun j => ((v + 1) % 32768 + j) % 32768) =
      (List.range (n + 1)).map (fun j => (v + j) % 32768) := by
  rw [List.range_succ_eq_map]
  simp only [List.map_cons, List.map_map, Nat.add_zero]
  congr 1
  apply List.map_congr_left
  intro j _
  simp only [Function.comp]
  omega

/-- **N(S) on the wire over every interleaving of send calls and received messages** -/
theorem ns_on_the_wire_mix : ∀ (ops : List MOp) (c : Cli), c.vs < 32768 → Writable c →
    nsLog (mixRun c ops).log = nsLog c.log ++ (List.range (mixSent c ops)).map (fun j => (c.vs + j) % 32768) := by
  intro ops
  induction ops with
  | nil => intro c _ _; simp [mixRun, mixSent]
  | cons op ops ih =>
    intro c hv hw
    by_cases hsend : op.isSend = false
    · obtain ⟨h1, h2, h3⟩ := nsKeep_apply c op hsend
      have := ih (op.apply c) (by rw [h1]; exact hv) (h2 hw)
      unfold mixRun at this ⊢
      have h0 : (match op with | .send a => (if (sendAsdu c a).2 then 1 else 0) | _ => 0) = 0 := by
        cases op <;> simp_all [MOp.isSend]
      simp only [List.foldl_cons, mixSent, h0, Nat.zero_add]
      rw [this, h3, h1]
    cases op with
    | recv m => simp [MOp.isSend] at hsend
    | timers => simp [MOp.isSend] at hsend
    | ackW => simp [MOp.isSend] at hsend
    | startdt => simp [MOp.isSend] at hsend
    | stopdt => simp [MOp.isSend] at hsend
    | send a =>
      obtain ⟨hs, hf⟩ := sendAsdu_vs c a
      obtain ⟨hl, hw'⟩ := sendAsdu_wire c a hw
      unfold mixRun
      simp only [List.foldl_cons, MOp.apply, mixSent]
      cases hr : (sendAsdu c a).2
      · have := ih c hv hw
        unfold mixRun at this
        rw [hf hr]
        simpa using this
      · have hvs := (hs hr).1
        have := ih (sendAsdu c a).1 (by rw [hvs]; exact Nat.mod_lt _ (by decide)) hw'
        unfold mixRun at this
        obtain ⟨x, y⟩ := iFrame_ns c a hv
        have hi : isIFrame (iFrame c a) = true := by unfold isIFrame; rw [y]; rfl
        rw [this, hl hr, hvs]
        simp only [nsLog_append, if_true, List.append_assoc]
        congr 1
        have hn : nsLog [Obs.tx (iFrame c a)] = [c.vs % 32768] := by
          simp [nsLog, hi, x, Nat.mod_eq_of_lt hv]
        rw [hn, Nat.add_comm 1, ← range_shift]
        rfl

end Iec.Cli104
