import Iec.Lemmas.NormDef
/- chunk 6 of the normalised/scaled round-trip table: 8192 raw values evaluated by the kernel -/
namespace Iec.Norm
set_option maxRecDepth 100000 in
theorem chunk6 : Iec.Days.allTree normOk (6 * 8192) 13 = true := by decide +kernel
end Iec.Norm
