/-
Every operation the server applies to a reply ring keeps the layout invariant `HpInv` (for some pair of lists).
-/
import Iec.Lemmas.HpQueue
namespace Iec.Queues

def HWf (q : HpQueue) : Prop := ∃ up low, HpInv q up low

theorem hwf_create (n : Nat) (hn : 1 ≤ n) : HWf (HpQueue.create n) := ⟨[], [], HpInv.empty n hn⟩

theorem hwf_enqueue (q : HpQueue) (d : List Nat) (h : HWf q) : HWf (q.enqueue d).1 := by
  obtain ⟨up, low, hi⟩ := h
  obtain ⟨h1, h2⟩ := enqueue_refines q up low hi d
  cases hb : (q.enqueue d).2
  · exact ⟨up, low, h2 hb⟩
  · obtain ⟨up', low', h', _⟩ := h1 hb
    exact ⟨up', low', h'⟩

theorem hwf_getNext (q : HpQueue) (h : HWf q) : HWf q.getNext.1 := by
  obtain ⟨up, low, hi⟩ := h
  cases up with
  | nil =>
    have := hi.lowup rfl; subst this
    have hc : q.count = 0 := by simpa using hi.count
    have : q.getNext = (q, none) := by simp [HpQueue.getNext, hc]
    rw [this]; exact ⟨[], [], hi⟩
  | cons u0 rest =>
    obtain ⟨q', he, h1, h2⟩ := getNext_refines q u0 rest low hi
    rw [he]
    by_cases hr : rest = []
    · exact ⟨_, _, h2 hr⟩
    · exact ⟨_, _, h1 hr⟩

theorem hwf_reset (q : HpQueue) (h : HWf q) : HWf q.reset := by
  obtain ⟨up, low, hi⟩ := h
  exact ⟨[], [], { size := hi.size, count := rfl, data := (by simp), lowup := fun _ => rfl, upper := (by intro a b h; cases h),
                   lastU := (by simp), lower := (by intro a b h; cases h) }⟩

end Iec.Queues
