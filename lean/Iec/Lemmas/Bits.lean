/-
Byte-level facts about the C bit operations used by the packed records:
every `x &&& mask` / `x ||| mask` on an octet is rewritten into `/`, `%`, `+` so
that `omega` can finish.  One-octet facts are proved by exhaustive kernel
evaluation over all 256 octets (`decide +kernel` on a bounded ∀), which is a proof,
not a sample.
-/
namespace Iec.Bits

theorem and_255 (x : Nat) : x &&& 255 = x % 256 := Nat.and_two_pow_sub_one_eq_mod x 8
theorem and_127 (x : Nat) : x &&& 127 = x % 128 := Nat.and_two_pow_sub_one_eq_mod x 7
theorem and_63 (x : Nat) : x &&& 63 = x % 64 := Nat.and_two_pow_sub_one_eq_mod x 6
theorem and_31 (x : Nat) : x &&& 31 = x % 32 := Nat.and_two_pow_sub_one_eq_mod x 5
theorem and_15 (x : Nat) : x &&& 15 = x % 16 := Nat.and_two_pow_sub_one_eq_mod x 4
theorem and_7 (x : Nat) : x &&& 7 = x % 8 := Nat.and_two_pow_sub_one_eq_mod x 3
theorem and_3 (x : Nat) : x &&& 3 = x % 4 := Nat.and_two_pow_sub_one_eq_mod x 2

/-- all octet facts in one exhaustive statement -/
theorem octet_masks : ∀ x, x < 256 →
    (x &&& 0xc0 = x / 64 * 64) ∧ (x &&& 0x80 = x / 128 * 128) ∧
    (x &&& 0x40 = x / 64 % 2 * 64) ∧ (x &&& 0xbf = x / 128 * 128 + x % 64) ∧
    (x ||| 0x80 = x % 128 + 128) ∧ (x ||| 0x40 = x / 128 * 128 + 64 + x % 64) ∧
    (x &&& 0xe0 = x / 32 * 32) ∧ (x &&& 0xf0 = x / 16 * 16) ∧
    (x &&& 0x20 = x / 32 % 2 * 32) ∧ (x &&& 0xdf = x / 64 * 64 + x % 32) ∧
    (x ||| 0x20 = x / 64 * 64 + 32 + x % 32) ∧ (x &&& 0xfc = x / 4 * 4) := by
  decide +kernel

theorem and_c0 {x : Nat} (h : x < 256) : x &&& 192 = x / 64 * 64 := (octet_masks x h).1
theorem and_80 {x : Nat} (h : x < 256) : x &&& 128 = x / 128 * 128 := (octet_masks x h).2.1
theorem and_40 {x : Nat} (h : x < 256) : x &&& 64 = x / 64 % 2 * 64 := (octet_masks x h).2.2.1
theorem and_bf {x : Nat} (h : x < 256) : x &&& 191 = x / 128 * 128 + x % 64 := (octet_masks x h).2.2.2.1
theorem or_80 {x : Nat} (h : x < 256) : x ||| 128 = x % 128 + 128 := (octet_masks x h).2.2.2.2.1
theorem or_40 {x : Nat} (h : x < 256) : x ||| 64 = x / 128 * 128 + 64 + x % 64 := (octet_masks x h).2.2.2.2.2.1
theorem and_e0 {x : Nat} (h : x < 256) : x &&& 224 = x / 32 * 32 := (octet_masks x h).2.2.2.2.2.2.1
theorem and_f0 {x : Nat} (h : x < 256) : x &&& 240 = x / 16 * 16 := (octet_masks x h).2.2.2.2.2.2.2.1
theorem and_20 {x : Nat} (h : x < 256) : x &&& 32 = x / 32 % 2 * 32 := (octet_masks x h).2.2.2.2.2.2.2.2.1
theorem and_df {x : Nat} (h : x < 256) : x &&& 223 = x / 64 * 64 + x % 32 := (octet_masks x h).2.2.2.2.2.2.2.2.2.1
theorem or_20 {x : Nat} (h : x < 256) : x ||| 32 = x / 64 * 64 + 32 + x % 32 := (octet_masks x h).2.2.2.2.2.2.2.2.2.2.1
theorem and_fc {x : Nat} (h : x < 256) : x &&& 252 = x / 4 * 4 := (octet_masks x h).2.2.2.2.2.2.2.2.2.2.2

/-- `hi ||| lo = hi + lo` when `hi` is a multiple of `2^k` and `lo < 2^k` -/
theorem or_eq_add (k q lo : Nat) (h : lo < 2 ^ k) : q * 2 ^ k ||| lo = q * 2 ^ k + lo := by
  rw [← Nat.shiftLeft_eq]
  exact (Nat.shiftLeft_add_eq_or_of_lt h q).symm

theorem or_64 (q lo : Nat) (h : lo < 64) : q * 64 ||| lo = q * 64 + lo := or_eq_add 6 q lo h
theorem or_32 (q lo : Nat) (h : lo < 32) : q * 32 ||| lo = q * 32 + lo := or_eq_add 5 q lo h

theorem shl5 (x : Nat) : x <<< 5 = x * 32 := by rw [Nat.shiftLeft_eq]
theorem shr5 (x : Nat) : x >>> 5 = x / 32 := by rw [Nat.shiftRight_eq_div_pow]

/-- `lo ||| q*32` for the day-of-week setter -/
theorem or_32' (q lo : Nat) (h : lo < 32) : lo ||| q * 32 = q * 32 + lo := by
  rw [Nat.or_comm]; exact or_32 q lo h

end Iec.Bits
