import Iec.Lemmas.NormDef
/- chunk 7 of the normalised/scaled round-trip table: 8192 raw values evaluated by the kernel -/
namespace Iec.Norm
set_option maxRecDepth 100000 in
theorem chunk7 : Iec.Days.allTree normOk (7 * 8192) 13 = true := by decide +kernel
end Iec.Norm
