/-
The client's V(R) over every sequence of received messages: it advances by one (modulo 32768) exactly when an I-format
APDU passes both sequence checks of `checkMessage`, and is otherwise unchanged - so the N(R) the client sends is the number
of I-format APDUs it accepted since the connection was opened.
-/
import Iec.Lemmas.Cli104Win
namespace Iec.Cli104
open Iec.KWindow Iec.Srv104

/-- the message is an I-format APDU (by its control field and length) that passes both sequence checks in state `c` -/
def CAccepted (c : Cli) (buf : List Nat) : Prop :=
  7 ≤ buf.length ∧ buf.getD 2 0 &&& 1 = 0 ∧ frameNS buf = c.vr ∧ valid c.vs c.win (frameNR buf) = true

instance (c : Cli) (buf : List Nat) : Decidable (CAccepted c buf) := by unfold CAccepted; infer_instance

theorem checkSeq_fst (vs : Nat) (win : List KEntry) (nr : Nat) : (checkSeq vs win nr).1 = valid vs win nr := by
  unfold checkSeq; split <;> simp_all

theorem write_vr (c : Cli) (b : List Nat) : (write c b).vr = c.vr := by
  unfold write emit
  repeat' split
  all_goals rfl

set_option linter.unusedSimpArgs false in
/-- **`checkMessage`: V(R) advances by one exactly for an accepted I-format APDU** -/
theorem checkMessage_vr (c : Cli) (buf : List Nat) :
    (CAccepted c buf → (checkMessage c buf).1.vr = (c.vr + 1) % 32768) ∧
    (¬ CAccepted c buf → (checkMessage c buf).1.vr = c.vr) := by
  unfold checkMessage CAccepted frameNS frameNR
  simp only
  repeat' split
  all_goals first
    | (refine ⟨fun ha => ?_, fun _ => ?_⟩ <;> simp_all [checkSeq_fst, write_vr, emit]; done)
    | (refine ⟨fun ha => ?_, fun _ => ?_⟩ <;> (try simp_all [checkSeq_fst, write_vr, emit]) <;> omega)

/-- receive the messages one after the other -/
def recvAllC (c : Cli) (ms : List (List Nat)) : Cli := ms.foldl (fun c m => (checkMessage c m).1) c

/-- how many of them are accepted I-format APDUs (each judged in the state it arrives in) -/
def acceptedCountC (c : Cli) : List (List Nat) → Nat
  | [] => 0
  | m :: ms => (if CAccepted c m then 1 else 0) + acceptedCountC (checkMessage c m).1 ms

/-- **V(R) of the client counts the accepted I-format APDUs, modulo 32768, over every sequence of received messages** -/
theorem vr_counts_acceptedC : ∀ (ms : List (List Nat)) (c : Cli), c.vr < 32768 →
    (recvAllC c ms).vr = (c.vr + acceptedCountC c ms) % 32768 := by
  intro ms
  induction ms with
  | nil => intro c hv; simp [recvAllC, acceptedCountC, Nat.mod_eq_of_lt hv]
  | cons m ms ih =>
    intro c hv
    obtain ⟨a, b⟩ := checkMessage_vr c m
    unfold recvAllC acceptedCountC
    simp only [List.foldl_cons]
    by_cases hacc : CAccepted c m
    · have hvr := a hacc
      have := ih (checkMessage c m).1 (by rw [hvr]; exact Nat.mod_lt _ (by decide))
      unfold recvAllC at this
      rw [this, hvr, if_pos hacc]
      omega
    · have hvr := b hacc
      have := ih (checkMessage c m).1 (by rw [hvr]; exact hv)
      unfold recvAllC at this
      rw [this, hvr, if_neg hacc]
      simp

end Iec.Cli104
