import Iec.Model.Scaled
import Iec.Lemmas.DaysDef
/-
Table obligation for C19: every 16-bit raw value x ∈ [-32768, 32767] satisfies
NormalizedValue_toScaled (NormalizedValue_fromScaled x) = x in the dyadic binary32
model.  The quantifier is finite (65 536 values); eight chunks of 8192 are
evaluated by the kernel in parallel modules.
-/
namespace Iec.Norm
open Iec.Scaled

def normOk (i : Nat) : Bool :=
  let x : Int := (i : Int) - 32768
  toScaled (fromScaledBits x) == some x

end Iec.Norm
