/-
Life-cycle events of the CS104 client model (`Iec.Cli104`): per connection attempt OPENED at most once and first,
then exactly one of CLOSED / FAILED, nothing after.
-/
import Iec.Model.Cli104
namespace Iec.Cli104
open Iec.KWindow Iec.Srv104

def isLife (w : String) : Bool := w == "OPENED" || w == "CLOSED" || w == "FAILED"

/-- the life-cycle events in a log, in order -/
def life (l : List Obs) : List String :=
  l.filterMap (fun o => match o with | .ev w => if isLife w then some w else none | _ => none)

@[simp] theorem life_append (a b : List Obs) : life (a ++ b) = life a ++ life b := by simp [life]
@[simp] theorem life_nil : life [] = [] := rfl

/-- same thread phase, same life-cycle events -/
def Quiet (c c' : Cli) : Prop := c'.phase = c.phase ∧ life c'.log = life c.log

theorem Quiet.refl (c : Cli) : Quiet c c := ⟨rfl, rfl⟩
theorem Quiet.trans {a b c : Cli} (h1 : Quiet a b) (h2 : Quiet b c) : Quiet a c :=
  ⟨h2.1.trans h1.1, h2.2.trans h1.2⟩

theorem quiet_of_eq {c c' : Cli} (hp : c'.phase = c.phase) (hl : c'.log = c.log) : Quiet c c' := ⟨hp, by rw [hl]⟩

theorem quiet_emit_tx (c : Cli) (b : List Nat) : Quiet c (emit c (.tx b)) := ⟨rfl, by simp [emit, life]⟩
theorem quiet_emit_asdu (c : Cli) (b : List Nat) : Quiet c (emit c (.asdu b)) := ⟨rfl, by simp [emit, life]⟩
theorem quiet_emit_ev (c : Cli) (w : String) (h : isLife w = false) : Quiet c (emit c (.ev w)) :=
  ⟨rfl, by simp [emit, life, h]⟩

@[simp] theorem write_phase (c : Cli) (b : List Nat) : (write c b).phase = c.phase := by
  unfold write emit; split
  · rfl
  · split <;> rfl

@[simp] theorem write_life (c : Cli) (b : List Nat) : life (write c b).log = life c.log := by
  unfold write emit; split
  · rfl
  · split
    · rfl
    · simp [life]

theorem quiet_write (c : Cli) (b : List Nat) : Quiet c (write c b) := ⟨write_phase c b, write_life c b⟩

@[simp] theorem confirm_phase (c : Cli) : (confirmOutstanding c).phase = c.phase := by
  unfold confirmOutstanding; simp

@[simp] theorem confirm_life (c : Cli) : life (confirmOutstanding c).log = life c.log := by
  unfold confirmOutstanding; simp

theorem quiet_confirm (c : Cli) : Quiet c (confirmOutstanding c) := ⟨confirm_phase c, confirm_life c⟩

@[simp] theorem emit_phase (c : Cli) (o : Obs) : (emit c o).phase = c.phase := rfl
@[simp] theorem emit_asdu_life (c : Cli) (b : List Nat) : life (emit c (.asdu b)).log = life c.log := by simp [emit, life]
@[simp] theorem emit_tx_life (c : Cli) (b : List Nat) : life (emit c (.tx b)).log = life c.log := by simp [emit, life]

theorem quiet_checkMessage (c : Cli) (buf : List Nat) : Quiet c (checkMessage c buf).1 := by
  unfold checkMessage Quiet
  simp only
  repeat' split
  all_goals simp

theorem quiet_phaseT3 (c : Cli) : Quiet c (phaseT3 c).1 := by
  unfold phaseT3 Quiet
  repeat' split
  all_goals simp

theorem quiet_phaseT2 (c : Cli) : Quiet c (phaseT2 c) := by
  unfold phaseT2 Quiet
  repeat' split
  all_goals simp

theorem quiet_phaseT1 (c : Cli) : Quiet c (phaseT1 c).1 := by
  unfold phaseT1 Quiet
  repeat' split
  all_goals simp

theorem quiet_handleTimeouts (c : Cli) : Quiet c (handleTimeouts c).1 := by
  unfold handleTimeouts
  simp only
  split
  · exact quiet_phaseT3 c
  · exact Quiet.trans (quiet_phaseT3 c) (Quiet.trans (quiet_phaseT2 _) (quiet_phaseT1 _))

theorem quiet_ackIfW (c : Cli) : Quiet c (ackIfW c) := by
  unfold ackIfW; split
  · exact quiet_confirm c
  · exact Quiet.refl c

theorem quiet_sendAsdu (c : Cli) (a : List Nat) : Quiet c (sendAsdu c a).1 := by
  unfold sendAsdu Quiet
  repeat' split
  all_goals simp

theorem quiet_sendStartDT (c : Cli) : Quiet c (sendStartDT c) := by
  unfold sendStartDT Quiet; simp

theorem quiet_sendStopDT (c : Cli) : Quiet c (sendStopDT c) := by
  unfold sendStopDT Quiet; simp

end Iec.Cli104
