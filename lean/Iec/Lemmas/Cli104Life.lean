/-
Life-cycle events of the CS104 client model (`Iec.Cli104`): per connection attempt OPENED at most once and first,
then exactly one of CLOSED / FAILED, nothing after.
-/
import Iec.Model.Cli104
namespace Iec.Cli104
open Iec.KWindow Iec.Srv104

def isLife (w : String) : Bool := w == "OPENED" || w == "CLOSED" || w == "FAILED"

/-- the life-cycle events in a log, in order -/
def life (l : List Obs) : List String :=
  l.filterMap (fun o => match o with | .ev w => if isLife w then some w else none | _ => none)

@[simp] theorem life_append (a b : List Obs) : life (a ++ b) = life a ++ life b := by simp [life]
@[simp] theorem life_nil : life [] = [] := rfl

/-- same thread phase, same life-cycle events -/
def Quiet (c c' : Cli) : Prop := c'.phase = c.phase ∧ life c'.log = life c.log

theorem Quiet.refl (c : Cli) : Quiet c c := ⟨rfl, rfl⟩
theorem Quiet.trans {a b c : Cli} (h1 : Quiet a b) (h2 : Quiet b c) : Quiet a c :=
  ⟨h2.1.trans h1.1, h2.2.trans h1.2⟩

theorem quiet_of_eq {c c' : Cli} (hp : c'.phase = c.phase) (hl : c'.log = c.log) : Quiet c c' := ⟨hp, by rw [hl]⟩

theorem quiet_emit_tx (c : Cli) (b : List Nat) : Quiet c (emit c (.tx b)) := ⟨rfl, by simp [emit, life]⟩
theorem quiet_emit_asdu (c : Cli) (b : List Nat) : Quiet c (emit c (.asdu b)) := ⟨rfl, by simp [emit, life]⟩
theorem quiet_emit_ev (c : Cli) (w : String) (h : isLife w = false) : Quiet c (emit c (.ev w)) :=
  ⟨rfl, by simp [emit, life, h]⟩

@[simp] theorem write_phase (c : Cli) (b : List Nat) : (write c b).phase = c.phase := by
  unfold write emit; split
  · rfl
  · split <;> rfl

@[simp] theorem write_life (c : Cli) (b : List Nat) : life (write c b).log = life c.log := by
  unfold write emit; split
  · rfl
  · split
    · rfl
    · simp [life]

theorem quiet_write (c : Cli) (b : List Nat) : Quiet c (write c b) := ⟨write_phase c b, write_life c b⟩

@[simp] theorem confirm_phase (c : Cli) : (confirmOutstanding c).phase = c.phase := by
  unfold confirmOutstanding; simp

@[simp] theorem confirm_life (c : Cli) : life (confirmOutstanding c).log = life c.log := by
  unfold confirmOutstanding; simp

theorem quiet_confirm (c : Cli) : Quiet c (confirmOutstanding c) := ⟨confirm_phase c, confirm_life c⟩

@[simp] theorem emit_phase (c : Cli) (o : Obs) : (emit c o).phase = c.phase := rfl
@[simp] theorem emit_asdu_life (c : Cli) (b : List Nat) : life (emit c (.asdu b)).log = life c.log := by simp [emit, life]
@[simp] theorem emit_tx_life (c : Cli) (b : List Nat) : life (emit c (.tx b)).log = life c.log := by simp [emit, life]

theorem quiet_checkMessage (c : Cli) (buf : List Nat) : Quiet c (checkMessage c buf).1 := by
  unfold checkMessage Quiet
  simp only
  repeat' split
  all_goals simp

theorem quiet_phaseT3 (c : Cli) : Quiet c (phaseT3 c).1 := by
  unfold phaseT3 Quiet
  repeat' split
  all_goals simp

theorem quiet_phaseT2 (c : Cli) : Quiet c (phaseT2 c) := by
  unfold phaseT2 Quiet
  repeat' split
  all_goals simp

theorem quiet_phaseT1 (c : Cli) : Quiet c (phaseT1 c).1 := by
  unfold phaseT1 Quiet
  repeat' split
  all_goals simp

theorem quiet_handleTimeouts (c : Cli) : Quiet c (handleTimeouts c).1 := by
  unfold handleTimeouts
  simp only
  split
  · exact quiet_phaseT3 c
  · exact Quiet.trans (quiet_phaseT3 c) (Quiet.trans (quiet_phaseT2 _) (quiet_phaseT1 _))

theorem quiet_ackIfW (c : Cli) : Quiet c (ackIfW c) := by
  unfold ackIfW; split
  · exact quiet_confirm c
  · exact Quiet.refl c

theorem quiet_sendAsdu (c : Cli) (a : List Nat) : Quiet c (sendAsdu c a).1 := by
  unfold sendAsdu Quiet
  repeat' split
  all_goals simp

theorem quiet_sendStartDT (c : Cli) : Quiet c (sendStartDT c) := by
  unfold sendStartDT Quiet; simp

theorem quiet_sendStopDT (c : Cli) : Quiet c (sendStopDT c) := by
  unfold sendStopDT Quiet; simp

/-! ### the thread -/

theorem life_ev (w : String) : life [Obs.ev w] = if isLife w then [w] else [] := by
  simp only [life, List.filterMap_cons, List.filterMap_nil]
  split <;> rename_i h <;> split at h <;> simp_all

theorem finish_spec (c : Cli) (ev : String) :
    (finish c ev).phase = 4 ∧ life (finish c ev).log = life c.log ++ (if isLife ev then [ev] else []) := by
  unfold finish
  simp only
  refine ⟨rfl, ?_⟩
  show life ((if c.unconf > 0 then confirmOutstanding c else c).log ++ [Obs.ev ev]) = _
  rw [life_append, life_ev]
  congr 1
  split
  · exact confirm_life c
  · rfl

theorem quiet_onMessage (c : Cli) (msg : List Nat) (lr : Bool) : Quiet c (onMessage c msg lr).1 := by
  unfold onMessage
  have hq := quiet_checkMessage c msg
  generalize checkMessage c msg = r at hq
  obtain ⟨c1, ok⟩ := r
  simp only at hq ⊢
  obtain ⟨c2, hc2⟩ : ∃ c2, c2 = (if (!ok) = true then (({ c1 with failure := true } : Cli), false) else (c1, lr)).1 := ⟨_, rfl⟩
  have h12 : Quiet c1 c2 := by rw [hc2]; split <;> exact quiet_of_eq rfl rfl
  have : Quiet c2 (if (c2.conState != c.conState) = true then
      (if (c2.conState == 2) = true then emit c2 (.ev "STARTDT_CON") else if (c2.conState == 1) = true then emit c2 (.ev "STOPDT_CON") else c2)
    else c2) := by
    repeat' split
    all_goals first
      | exact Quiet.refl _
      | exact quiet_emit_ev _ _ (by decide)
  have hfin := Quiet.trans hq (Quiet.trans h12 this)
  rw [hc2] at hfin
  cases ok <;> simpa using hfin

theorem quiet_loopRecv (c : Cli) : Quiet c (loopRecv c).1 := by
  unfold loopRecv
  split
  · generalize recvStep c.recvBuf c.sock = r
    obtain ⟨buf, sk, rr, msg⟩ := r
    simp only
    obtain ⟨c1, hc1⟩ : ∃ c1, c1 = (if rr = -1 then (({ ({ c with recvBuf := buf, sock := sk } : Cli) with failure := true } : Cli), false) else (({ c with recvBuf := buf, sock := sk } : Cli), true)) := ⟨_, rfl⟩
    have h1 : Quiet c c1.1 := by rw [hc1]; split <;> exact quiet_of_eq rfl rfl
    rw [← hc1]
    by_cases hr : rr > 0
    · simp only [hr, if_true]
      exact Quiet.trans h1 (Quiet.trans (quiet_onMessage _ _ _) (quiet_ackIfW _))
    · simp only [hr, if_false]
      exact Quiet.trans h1 (quiet_ackIfW _)
  · exact Quiet.refl c

theorem quiet_loopBody (c : Cli) : Quiet c (loopBody c).1 := by
  unfold loopBody
  exact Quiet.trans (quiet_loopRecv c) (quiet_handleTimeouts _)

/-- one pass of the loop: either nothing of the life cycle happens, or the thread ends with CLOSED -/
theorem loopIter_spec (c : Cli) :
    Quiet c (loopIter c) ∨ ((loopIter c).phase = 4 ∧ life (loopIter c).log = life c.log ++ ["CLOSED"]) := by
  unfold loopIter
  have hq := quiet_loopBody c
  generalize loopBody c = r at hq
  obtain ⟨c2, run⟩ := r
  simp only at hq ⊢
  cases run
  · right
    simp only [Bool.false_eq_true, if_false]
    obtain ⟨f1, f2⟩ := finish_spec c2 "CLOSED"
    exact ⟨f1, by rw [f2, hq.2]; rfl⟩
  · left
    simpa using hq

/-- the thread, from one blocking point to the next, by phase -/
theorem step_spec (c : Cli) :
    (c.phase = 1 → (step c).phase = 2 ∧ life (step c).log = life c.log) ∧
    (c.phase = 2 → ((step c).phase = 3 ∧ life (step c).log = life c.log ++ ["OPENED"]) ∨
                   ((step c).phase = 4 ∧ life (step c).log = life c.log ++ ["FAILED"])) ∧
    (c.phase = 3 → ((step c).phase = 3 ∧ life (step c).log = life c.log) ∨
                   ((step c).phase = 4 ∧ life (step c).log = life c.log ++ ["CLOSED"])) ∧
    (c.phase ≠ 1 → c.phase ≠ 2 → c.phase ≠ 3 → step c = c) := by
  refine ⟨?_, ?_, ?_, ?_⟩
  · intro h
    unfold step resetConnection
    simp [h]
  · intro h
    unfold step
    rw [if_neg (by rw [h]; decide), if_pos h]
    by_cases hc : c.connectOk = true
    · left
      rw [if_pos hc]
      refine ⟨rfl, ?_⟩
      show life (c.log ++ [Obs.ev "OPENED"]) = _
      rw [life_append, life_ev]; rfl
    · right
      rw [if_neg hc]
      obtain ⟨f1, f2⟩ := finish_spec ({ c with failure := true } : Cli) "FAILED"
      exact ⟨f1, by rw [f2]; rfl⟩
  · intro h
    unfold step
    simp only [h, show (3 : Nat) ≠ 1 by decide, show (3 : Nat) ≠ 2 by decide, if_false, if_true]
    rcases loopIter_spec c with hq | hq
    · left; exact ⟨by rw [hq.1, h], hq.2⟩
    · right; exact hq
  · intro h1 h2 h3
    unfold step
    simp [h1, h2, h3]

/-! ### every history of one connection attempt -/

/-- what can happen between `connectAsync` and the end of the attempt: the thread runs to its next blocking point, the
peer / the clock / the connect result change, the application sends -/
inductive COp where
  | step
  | env (sock : Sock) (dt : Nat) (connectOk : Bool)
  | send (asdu : List Nat)
  | startdt
  | stopdt

def COp.apply (c : Cli) : COp → Cli
  | .step => Iec.Cli104.step c
  | .env sk dt ok => { c with sock := sk, now := c.now + dt, connectOk := ok }
  | .send a => (sendAsdu c a).1
  | .startdt => sendStartDT c
  | .stopdt => sendStopDT c

/-- the life-cycle events of the attempt so far, given those (`base`) reported before it began -/
def LifeInv (base : List String) (c : Cli) : Prop :=
  ((c.phase = 1 ∨ c.phase = 2) ∧ life c.log = base) ∨
  (c.phase = 3 ∧ life c.log = base ++ ["OPENED"]) ∨
  (c.phase = 4 ∧ (life c.log = base ++ ["OPENED", "CLOSED"] ∨ life c.log = base ++ ["FAILED"]))

theorem lifeInv_quiet {base : List String} {c c' : Cli} (h : LifeInv base c) (hq : Quiet c c') : LifeInv base c' := by
  obtain ⟨hp, hl⟩ := hq
  unfold LifeInv at *
  rw [hp, hl]; exact h

theorem apply_inv (base : List String) (c : Cli) (op : COp) (h : LifeInv base c) : LifeInv base (op.apply c) := by
  cases op with
  | env sk dt ok => exact lifeInv_quiet h (quiet_of_eq rfl rfl)
  | send a => exact lifeInv_quiet h (quiet_sendAsdu c a)
  | startdt => exact lifeInv_quiet h (quiet_sendStartDT c)
  | stopdt => exact lifeInv_quiet h (quiet_sendStopDT c)
  | step =>
    obtain ⟨s1, s2, s3, s4⟩ := step_spec c
    show LifeInv base (Iec.Cli104.step c)
    rcases h with ⟨hp, hl⟩ | ⟨hp, hl⟩ | ⟨hp, hl⟩
    · rcases hp with hp | hp
      · obtain ⟨a, b⟩ := s1 hp
        exact Or.inl ⟨Or.inr a, by rw [b, hl]⟩
      · rcases s2 hp with ⟨a, b⟩ | ⟨a, b⟩
        · exact Or.inr (Or.inl ⟨a, by rw [b, hl]⟩)
        · exact Or.inr (Or.inr ⟨a, Or.inr (by rw [b, hl])⟩)
    · rcases s3 hp with ⟨a, b⟩ | ⟨a, b⟩
      · exact Or.inr (Or.inl ⟨a, by rw [b, hl]⟩)
      · exact Or.inr (Or.inr ⟨a, Or.inl (by rw [b, hl]; simp)⟩)
    · rw [s4 (by omega) (by omega) (by omega)]
      exact Or.inr (Or.inr ⟨hp, hl⟩)

/-- **every history**: whatever the thread, the peer, the clock and the application do after `connectAsync`, the
attempt reports OPENED at most once and first, then exactly one of CLOSED / FAILED, and nothing after it -/
theorem attempt_life (c0 : Cli) (ops : List COp) :
    LifeInv (life c0.log) (ops.foldl COp.apply (connectAsync c0)) := by
  have h0 : LifeInv (life c0.log) (connectAsync c0) := Or.inl ⟨Or.inl rfl, rfl⟩
  generalize connectAsync c0 = c at h0
  induction ops generalizing c with
  | nil => exact h0
  | cons op ops ih => exact ih _ (apply_inv _ c op h0)

end Iec.Cli104
