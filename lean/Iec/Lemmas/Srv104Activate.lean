/-
`CS104_Slave_activate`: the other used connections of the group are deactivated first, then the connection is
started (moved here from Props/C07 and Props/C08 so that the history-level invariant can use them).
-/
import Iec.Lemmas.Srv104
namespace Iec.Srv104
open Iec.KWindow

/-- deactivating other connections does not touch connection `i`'s socket or the table size -/
theorem deactivate_facts (s : Slave) (j : Nat) :
    (deactivate s j).conns.length = s.conns.length ∧ (deactivate s j).p = s.p ∧ (deactivate s j).now = s.now ∧
    (deactivate s j).groups = s.groups ∧
    ∀ i, i ≠ j → (deactivate s j).conn i = s.conn i := by
  unfold deactivate
  simp only
  refine ⟨?_, ?_, ?_, ?_, ?_⟩
  · split <;> simp [Slave.setConn, emit]
  · split <;> rfl
  · split <;> rfl
  · split <;> rfl
  · intro i hij
    split <;> simp [Slave.conn, Slave.setConn, emit, List.getD_eq_getElem?_getD, List.getElem?_set_ne (Ne.symm hij)]

theorem deactivate_fold (js : List Nat) : ∀ (s : Slave) (i : Nat), (∀ j ∈ js, j ≠ i) →
    (js.foldl deactivate s).conns.length = s.conns.length ∧ (js.foldl deactivate s).p = s.p ∧
    (js.foldl deactivate s).groups = s.groups ∧ (js.foldl deactivate s).now = s.now ∧
    (js.foldl deactivate s).conn i = s.conn i := by
  induction js with
  | nil => intro s i _; simp
  | cons j js ih =>
    intro s i h
    simp only [List.foldl_cons]
    have hd := deactivate_facts s j
    have := ih (deactivate s j) i (fun x hx => h x (by simp [hx]))
    refine ⟨by rw [this.1, hd.1], by rw [this.2.1, hd.2.1], by rw [this.2.2.1, hd.2.2.2.1], by rw [this.2.2.2.1, hd.2.2.1], ?_⟩
    rw [this.2.2.2.2]; exact hd.2.2.2.2 i (Ne.symm (h j (by simp)))

theorem activateConn_facts (s : Slave) (i : Nat) (hi : i < s.conns.length) :
    (activateConn s i).conn i = { (s.conn i) with state := 1 } ∧ (activateConn s i).conns.length = s.conns.length := by
  unfold activateConn
  simp only
  split
  · refine ⟨?_, by simp [Slave.setConn, emit]⟩
    rw [conn_setConn _ _ _ (by simpa [emit] using hi)]; rfl
  · refine ⟨?_, by simp [Slave.setConn]⟩
    rw [conn_setConn _ _ _ hi]

/-- every deactivated connection ends not started -/
theorem deactivate_state (s : Slave) (j : Nat) (hj : j < s.conns.length) : ((deactivate s j).conn j).state = 2 := by
  unfold deactivate
  simp only
  split
  · rw [conn_setConn _ _ _ (by simpa [emit] using hj)]
  · rw [conn_setConn _ _ _ hj]

theorem fold_state (js : List Nat) : ∀ (s : Slave) (j : Nat), j ∈ js → (∀ x ∈ js, x < s.conns.length) →
    ((js.foldl deactivate s).conn j).state = 2 := by
  induction js with
  | nil => intro s j h; simp at h
  | cons x xs ih =>
    intro s j hj hlen
    simp only [List.foldl_cons]
    have hd := deactivate_facts s x
    by_cases hx : j ∈ xs
    · exact ih (deactivate s x) j hx (fun y hy => by rw [hd.1]; exact hlen y (by simp [hy]))
    · have hjx : j = x := by simpa [hx] using hj
      subst hjx
      have hf := deactivate_fold xs (deactivate s j) j (fun y hy => by intro h; exact hx (h ▸ hy))
      rw [hf.2.2.2.2]
      exact deactivate_state s j (hlen j (by simp))

/-- **one active connection per group**: after `CS104_Slave_activate` on connection i, i is
started and every other used connection of the same group (all of them in single-group mode)
is not -/
theorem activate_exclusive (s : Slave) (i : Nat) (hi : i < s.conns.length) (j : Nat) (hj : j < s.conns.length)
    (hne : j ≠ i) (hu : (s.conn j).isUsed = true)
    (hg : s.p.mode = 0 ∨ (s.p.mode = 2 ∧ (s.conn j).group = (s.conn i).group)) :
    ((activate s i).conn i).state = 1 ∧ ((activate s i).conn j).state = 2 := by
  unfold activate
  simp only
  obtain ⟨js, hjs⟩ : ∃ js, js = (List.range s.conns.length).filter (fun j =>
      j != i && (s.conn j).isUsed && (s.p.mode = 0 || (s.p.mode = 2 && (s.conn j).group == (s.conn i).group))) := ⟨_, rfl⟩
  rw [← hjs]
  have hmem : j ∈ js := by
    rw [hjs]; simp only [List.mem_filter, List.mem_range, Bool.and_eq_true, bne_iff_ne, Bool.or_eq_true,
      decide_eq_true_eq, beq_iff_eq]
    exact ⟨hj, ⟨hne, hu⟩, by rcases hg with h | h; exact Or.inl h; exact Or.inr h⟩
  have hall : ∀ x ∈ js, x < s.conns.length := by
    intro x hx; rw [hjs] at hx; simp only [List.mem_filter, List.mem_range] at hx; exact hx.1
  have hni : ∀ x ∈ js, x ≠ i := by
    intro x hx; rw [hjs] at hx; simp only [List.mem_filter, Bool.and_eq_true, bne_iff_ne] at hx; exact hx.2.1.1
  have hf := deactivate_fold js s i hni
  have ha := activateConn_facts (js.foldl deactivate s) i (by rw [hf.1]; exact hi)
  refine ⟨by rw [ha.1], ?_⟩
  -- connection j is untouched by activating i
  have hj2 : ((activateConn (js.foldl deactivate s) i).conn j) = ((js.foldl deactivate s).conn j) := by
    unfold activateConn
    simp only
    split <;> simp [Slave.conn, Slave.setConn, emit, List.getD_eq_getElem?_getD, List.getElem?_set_ne (Ne.symm hne)]
  rw [hj2]
  exact fold_state js s j hmem hall

theorem deactivate_i (s : Slave) (i : Nat) (hi : i < s.conns.length) :
    (deactivate s i).conn i = { (s.conn i) with state := 2 } ∧
    (deactivate s i).log = s.log ++ (if (s.conn i).isUsed && (s.conn i).state = 1 then [.ev i "DEACTIVATED"] else []) := by
  unfold deactivate
  simp only
  split
  · refine ⟨?_, by simp [Slave.setConn, emit]⟩
    rw [conn_setConn _ _ _ (by simpa [emit] using hi)]; rfl
  · refine ⟨?_, by simp [Slave.setConn]⟩
    rw [conn_setConn _ _ _ hi]

end Iec.Srv104
