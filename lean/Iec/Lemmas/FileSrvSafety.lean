import Iec.Lemmas.FileSrv
/-
Safety of the download for ARBITRARY histories (any requests in any order on any connection,
any clock): an invariant that couples the server state with what a procedure-following
master has reassembled from the messages sent so far (`Rx`, Iec.Lemmas.FileSrv).
-/
namespace Iec.FileSrv

/-- section with number `n` (numbers start at 1) -/
def secAt (f : File) (n : Nat) : List Nat := f.getD (n - 1) []

def rxFold (r : Rx) (outs : List Out) : Rx := outs.foldl rxStep r

/-- the environment offers a well-formed file: at most 254 sections, none empty -/
structure FileOk (e : Env) : Prop where
  count : e.file.length ≤ 254
  sections : ∀ sec ∈ e.file, sec ≠ []

/-- **the invariant**: in every state of a download the master's reassembly buffer agrees with the
server's progress through the file -/
structure Good (e : Env) (s : Srv) (r : Rx) : Prop where
  dl : s.st = .waitSectionCall ∨ s.st = .transmit ∨ s.st = .waitSectionAck →
    1 ≤ s.secNo ∧ r.curNo = s.secNo ∧ r.done = (e.file.take (s.secNo - 1)).flatten
  wsc : s.st = .waitSectionCall → r.cur = []
  tr : s.st = .transmit ∨ s.st = .waitSectionAck →
    s.secNo ≤ e.file.length ∧ s.secSize = (secAt e.file s.secNo).length ∧ s.secOff ≤ s.secSize ∧
      r.cur = (secAt e.file s.secNo).take s.secOff
  wsa : s.st = .waitSectionAck → s.secOff = s.secSize
  wfa : s.st = .waitFileAck → r.done = e.file.flatten ∧ r.cur = []
  wfc : s.st = .waitFileCall → r = ⟨[], [], 0⟩

/-- states in which no download is in progress: nothing is claimed -/
def Inert (st : St) : Prop :=
  st = .idle ∨ st = .sendAbort ∨ st = .completed ∨ st = .waitSectionReady ∨ st = .receiveSection

theorem Good.of_inert {e : Env} {s : Srv} {r : Rx} (h : Inert s.st) : Good e s r := by
  rcases h with h | h | h | h | h <;> constructor <;> intro h' <;> simp_all

/-- a step that keeps the state and the section bookkeeping keeps the invariant -/
theorem Good.congr {e : Env} {s s' : Srv} {r : Rx} (g : Good e s r) (hst : s'.st = s.st) (hno : s'.secNo = s.secNo)
    (hoff : s'.secOff = s.secOff) (hsz : s'.secSize = s.secSize) : Good e s' r := by
  constructor <;> intro h <;> simp only [hst, hno, hoff, hsz] at h ⊢
  · exact g.dl h
  · exact g.wsc h
  · exact g.tr h
  · exact g.wsa h
  · exact g.wfa h
  · exact g.wfc h

theorem Good.expire {e : Env} {s : Srv} {r : Rx} (g : Good e s r) (now : Nat) : Good e (s.expire now) r := by
  unfold Srv.expire
  split
  · exact Good.of_inert (Or.inl rfl)
  · exact g

/-- messages a reassembling master ignores -/
def Quiet : Out → Prop
  | .send _ _ _ _ _ (.fileReady _ true) => False
  | .send _ _ _ _ _ (.sectionReady _ _) => False
  | .send _ _ _ _ _ (.segment _ _) => False
  | .send _ _ _ _ _ (.lastSection _ _) => False
  | _ => True

theorem rxStep_quiet (r : Rx) (o : Out) (h : Quiet o) : rxStep r o = r := by
  unfold rxStep
  split <;> simp_all [Quiet]

theorem rxFold_quiet (r : Rx) (outs : List Out) (h : ∀ o ∈ outs, Quiet o) : rxFold r outs = r := by
  induction outs generalizing r with
  | nil => rfl
  | cons o os ih =>
    simp only [rxFold, List.foldl_cons]
    rw [rxStep_quiet r o (h o (by simp))]
    exact ih r (fun o' ho' => h o' (by simp [ho']))

end Iec.FileSrv

namespace Iec.FileSrv

/-- closes a goal `Good e s' (rxFold r outs)` for a handler branch that sends nothing a reassembling master
looks at and either leaves the download bookkeeping alone or leaves the download states -/
macro "good_quiet" g:ident : tactic =>
  `(tactic| first
    | exact $g
    | (simp only [rxFold, List.foldl_cons, List.foldl_nil, rxStep, Srv.send, List.foldl_append]; exact $g)
    | (simp only [rxFold, List.foldl_cons, List.foldl_nil, rxStep, Srv.send, List.foldl_append]
       apply Good.of_inert; simp_all [Inert]; done)
    | (simp only [rxFold, List.foldl_cons, List.foldl_nil, rxStep, Srv.send, List.foldl_append]
       exact Good.congr $g rfl rfl rfl rfl))

theorem onFileReady_good {e : Env} {s : Srv} {r : Rx} (g : Good e s r) (conn now : Nat) (q : Req) :
    Good e (onFileReady e s conn now q).1 (rxFold r (onFileReady e s conn now q).2) := by
  unfold onFileReady
  repeat' split
  all_goals good_quiet g

theorem onSectionReady_good {e : Env} {s : Srv} {r : Rx} (g : Good e s r) (conn now : Nat) (q : Req) :
    Good e (onSectionReady s conn now q).1 (rxFold r (onSectionReady s conn now q).2) := by
  unfold onSectionReady
  repeat' split
  all_goals good_quiet g

theorem onSegment_good {e : Env} {s : Srv} {r : Rx} (g : Good e s r) (now : Nat) (q : Req) :
    Good e (onSegment s now q).1 (rxFold r (onSegment s now q).2) := by
  unfold onSegment
  repeat' split
  all_goals good_quiet g

theorem onLastSeg_good {e : Env} {s : Srv} {r : Rx} (g : Good e s r) (conn now : Nat) (q : Req) :
    Good e (onLastSeg s conn now q).1 (rxFold r (onLastSeg s conn now q).2) := by
  unfold onLastSeg
  repeat' split
  all_goals good_quiet g

end Iec.FileSrv

namespace Iec.FileSrv

/-! ### list facts about sections -/

theorem sectionSize_secAt (f : File) (n : Nat) (h : 1 ≤ n) : sectionSize f ((n : Int) - 1) = (secAt f n).length := by
  unfold sectionSize secAt
  have h1 : ¬ ((n : Int) - 1 < 0) := by omega
  have h2 : ((n : Int) - 1).toNat = n - 1 := by omega
  simp only [h1, if_false, h2]

theorem sectionSize_nat (f : File) (n : Nat) : sectionSize f (n : Int) = (secAt f (n + 1)).length := by
  have := sectionSize_secAt f (n + 1) (by omega)
  simpa using this

theorem segData_secAt (f : File) (n : Nat) (h : 1 ≤ n) (off k : Nat) :
    segData f ((n : Int) - 1) off k = ((secAt f n).drop off).take k := by
  unfold segData secAt
  have h1 : ¬ ((n : Int) - 1 < 0) := by omega
  have h2 : ((n : Int) - 1).toNat = n - 1 := by omega
  simp only [h1, if_false, h2]

theorem getD_lt {α} (l : List α) (n : Nat) (d : α) (h : n < l.length) : l.getD n d = l[n] := by
  rw [List.getD_eq_getElem?_getD, List.getElem?_eq_getElem h]; rfl

theorem getD_ge {α} (l : List α) (n : Nat) (d : α) (h : l.length ≤ n) : l.getD n d = d := by
  rw [List.getD_eq_getElem?_getD, List.getElem?_eq_none h]; rfl

theorem secAt_pos {e : Env} (ok : FileOk e) (n : Nat) (h : 1 ≤ n) : 0 < (secAt e.file n).length ↔ n ≤ e.file.length := by
  unfold secAt
  constructor
  · intro hp
    by_cases hn : n - 1 < e.file.length
    · omega
    · rw [getD_ge _ _ _ (by omega)] at hp; simp at hp
  · intro hn
    have hlt : n - 1 < e.file.length := by omega
    rw [getD_lt _ _ _ hlt]
    exact List.length_pos_iff.mpr (ok.sections _ (List.getElem_mem hlt))

theorem flatten_take_succ (f : File) (n : Nat) (h : 1 ≤ n) (hn : n ≤ f.length) :
    (f.take (n - 1)).flatten ++ secAt f n = (f.take n).flatten := by
  unfold secAt
  have hlt : n - 1 < f.length := by omega
  have : f.take n = f.take (n - 1) ++ [f[n - 1]] := by
    have := List.take_succ (l := f) (i := n - 1)
    rw [show n - 1 + 1 = n by omega] at this
    rw [this, List.getElem?_eq_getElem hlt]; rfl
  rw [getD_lt _ _ _ hlt, this]
  simp only [List.flatten_append, List.flatten_cons, List.flatten_nil, List.append_nil]

end Iec.FileSrv

namespace Iec.FileSrv

theorem Good.to_idle {e : Env} {s : Srv} {r : Rx} : Good e { s with st := .idle } r :=
  Good.of_inert (Or.inl rfl)

/-- the transmitting part of `runTask` keeps the invariant: a segment extends the pass by exactly the next
octets of the section -/
theorem pumpStep_good {e : Env} {s : Srv} {r : Rx} (g : Good e s r) (conn now : Nat) :
    Good e (pumpStep e s conn now).1 (rxFold r (pumpStep e s conn now).2) := by
  unfold pumpStep
  split
  · rename_i hp
    obtain ⟨hst, hcon, hsel⟩ := hp
    obtain ⟨h1, hcur, hdone⟩ := g.dl (Or.inr (Or.inl hst))
    obtain ⟨hle, hsz, hoff, hrc⟩ := g.tr (Or.inl hst)
    dsimp only
    split
    · -- a segment
      rename_i hn
      simp only [rxFold, List.foldl_cons, List.foldl_nil, rxStep, Srv.send]
      have hd := segData_secAt e.file s.secNo h1
      constructor
      · intro _; exact ⟨h1, hcur, hdone⟩
      · intro h; simp [hst] at h
      · intro _
        refine ⟨hle, hsz, ?_, ?_⟩
        · show s.secOff + _ ≤ s.secSize
          split <;> omega
        · show r.cur ++ _ = _
          rw [hrc, hd]
          have : ∀ k, List.take s.secOff (secAt e.file s.secNo) ++ List.take k (List.drop s.secOff (secAt e.file s.secNo)) =
                  List.take (s.secOff + k) (secAt e.file s.secNo) := by
            intro k; rw [List.take_add]
          apply this
      · intro h; simp [hst] at h
      · intro h; simp [hst] at h
      · intro h; simp [hst] at h
    · -- LAST SEGMENT
      rename_i hn
      simp only [rxFold, List.foldl_cons, List.foldl_nil, rxStep, Srv.send]
      constructor
      · intro _; exact ⟨h1, hcur, hdone⟩
      · intro h; simp at h
      · intro _; exact ⟨hle, hsz, hoff, hrc⟩
      · intro _; show s.secOff = s.secSize; omega
      · intro h; simp at h
      · intro h; simp at h
  · exact g

theorem runTask_good {e : Env} {s : Srv} {r : Rx} (g : Good e s r) (conn now : Nat) :
    Good e (runTask e s conn now).1 (rxFold r (runTask e s conn now).2) := by
  unfold runTask
  split
  · exact g
  · have := pumpStep_good g conn now
    simp only
    split
    · exact Good.to_idle
    · exact this

end Iec.FileSrv

namespace Iec.FileSrv

/-- negative section acknowledgement: the master discards the pass, the server restarts the section -/
theorem good_nack {e : Env} {s : Srv} {r : Rx} (g : Good e s r) (hst : s.st = .waitSectionAck) (conn oa now : Nat) :
    Good e { s with secOff := 0, secChk := 0, lastSend := now, st := .transmit }
      (rxStep r (Out.send conn oa s.ca s.ioa s.nof (.sectionReady s.secNo s.secSize))) := by
  obtain ⟨h1, hcur, hdone⟩ := g.dl (Or.inr (Or.inr hst))
  obtain ⟨hle, hsz, hoff, hrc⟩ := g.tr (Or.inr hst)
  simp only [rxStep, hcur, if_true]
  constructor
  · intro _; exact ⟨h1, rfl, hdone⟩
  · intro h; simp at h
  · intro _; exact ⟨hle, hsz, Nat.zero_le _, by simp⟩
  · intro h; simp at h
  · intro h; simp at h
  · intro h; simp at h

/-- positive section acknowledgement after a complete pass: the section joins the received octets -/
theorem good_posack {e : Env} (ok : FileOk e) {s : Srv} {r : Rx} (g : Good e s r) (hst : s.st = .waitSectionAck)
    (conn oa now : Nat) :
    let n1 := (s.secNo + 1) % 256
    let next := sectionSize e.file ((n1 : Int) - 1)
    let c := (s.fileChk + s.secChk) % 256
    (next = 0 → Good e { s with fileChk := c, secNo := n1, secOff := 0, lastSend := now, st := .waitFileAck, secChk := 0 }
        (rxStep r (Out.send conn oa s.ca s.ioa s.nof (.lastSection n1 c)))) ∧
    (next ≠ 0 → Good e { s with fileChk := c, secNo := n1, secOff := 0, secSize := next, lastSend := now,
                                st := .waitSectionCall, secChk := 0 }
        (rxStep r (Out.send conn oa s.ca s.ioa s.nof (.sectionReady n1 next)))) := by
  obtain ⟨h1, hcur, hdone⟩ := g.dl (Or.inr (Or.inr hst))
  obtain ⟨hle, hsz, hoff, hrc⟩ := g.tr (Or.inr hst)
  have hfull := g.wsa hst
  have hmod : (s.secNo + 1) % 256 = s.secNo + 1 := Nat.mod_eq_of_lt (by have := ok.count; omega)
  have hnext : sectionSize e.file (((s.secNo + 1 : Nat) : Int) - 1) = (secAt e.file (s.secNo + 1)).length :=
    sectionSize_secAt e.file (s.secNo + 1) (by omega)
  have hcurfull : r.cur = secAt e.file s.secNo := by
    rw [hrc, hfull, hsz]; exact List.take_length
  have hjoin : r.done ++ r.cur = (e.file.take s.secNo).flatten := by
    rw [hdone, hcurfull]; exact flatten_take_succ e.file s.secNo h1 hle
  intro n1 next c
  have hn1 : n1 = s.secNo + 1 := hmod
  have hnx : next = (secAt e.file (s.secNo + 1)).length := by show sectionSize e.file ((n1 : Int) - 1) = _; rw [hn1]; exact hnext
  constructor
  · intro hz
    -- no further section: s.secNo is the last one
    have hlast : ¬ (s.secNo + 1 ≤ e.file.length) := by
      intro hc
      have := (secAt_pos ok (s.secNo + 1) (by omega)).mpr hc
      omega
    have hall : e.file.take s.secNo = e.file := List.take_of_length_le (by omega)
    simp only [rxStep]
    constructor
    · intro h; simp at h
    · intro h; simp at h
    · intro h; simp at h
    · intro h; simp at h
    · intro _; exact ⟨by rw [hjoin, hall], rfl⟩
    · intro h; simp at h
  · intro hnz
    have hmore : s.secNo + 1 ≤ e.file.length := (secAt_pos ok (s.secNo + 1) (by omega)).mp (by omega)
    have hne : ¬ (n1 = r.curNo) := by rw [hn1, hcur]; omega
    simp only [rxStep, hne, if_false]
    constructor
    · intro _; exact ⟨by show 1 ≤ n1; omega, rfl, by show r.done ++ r.cur = _; rw [hjoin, hn1]; simp⟩
    · intro _; rfl
    · intro h; simp at h
    · intro h; simp at h
    · intro h; simp at h
    · intro h; simp at h

end Iec.FileSrv

namespace Iec.FileSrv

theorem onAck_good {e : Env} (ok : FileOk e) {s : Srv} {r : Rx} (g : Good e s r) (conn now : Nat) (q : Req) :
    Good e (onAck e s conn now q).1 (rxFold r (onAck e s conn now q).2) := by
  unfold onAck
  split
  · good_quiet g
  · split
    · dsimp only
      split
      · repeat' split
        all_goals good_quiet g
      · split
        · repeat' split
          all_goals good_quiet g
        · split
          · split
            · rename_i hst
              simp only [rxFold, List.foldl_cons, List.foldl_nil, Srv.send]
              exact good_nack g hst conn q.oa now
            · good_quiet g
          · split
            · split
              · rename_i hst
                have hp := good_posack ok g hst conn q.oa now
                simp only [rxFold, Srv.send] at hp ⊢
                split
                · rename_i hz
                  simp only [List.foldl_cons, List.foldl_nil]
                  exact hp.1 hz
                · rename_i hnz
                  simp only [List.foldl_cons, List.foldl_nil]
                  exact hp.2 hnz
              · good_quiet g
            · good_quiet g
    · good_quiet g

end Iec.FileSrv

namespace Iec.FileSrv

theorem good_callfile {e : Env} {s : Srv} {r : Rx} (g : Good e s r) (hst : s.st = .waitFileCall) (conn oa now : Nat) :
    Good e { s with secNo := 1, secOff := 0, secChk := 0, fileChk := 0, secSize := sectionSize e.file 0, lastSend := now,
                    st := .waitSectionCall }
      (rxStep r (Out.send conn oa s.ca s.ioa s.nof (.sectionReady 1 (sectionSize e.file 0)))) := by
  have hr := g.wfc hst
  subst hr
  have h10 : ¬ ((1 : Nat) = 0) := by omega
  simp only [rxStep, h10, if_false]
  constructor
  · intro _; exact ⟨Nat.le_refl 1, rfl, by simp⟩
  · intro _; rfl
  · intro h; simp at h
  · intro h; simp at h
  · intro h; simp at h
  · intro h; simp at h

theorem good_callsection {e : Env} (ok : FileOk e) {s : Srv} {r : Rx} (g : Good e s r) (hst : s.st = .waitSectionCall)
    (hpos : sectionSize e.file ((s.secNo : Int) - 1) > 0) :
    Good e { s with secSize := sectionSize e.file ((s.secNo : Int) - 1), secNo := s.secNo, secOff := 0, st := .transmit } r := by
  obtain ⟨h1, hcur, hdone⟩ := g.dl (Or.inl hst)
  have hc := g.wsc hst
  have hsz := sectionSize_secAt e.file s.secNo h1
  have hle : s.secNo ≤ e.file.length := (secAt_pos ok s.secNo h1).mp (by omega)
  constructor
  · intro _; exact ⟨h1, hcur, hdone⟩
  · intro h; simp at h
  · intro _; exact ⟨hle, hsz, Nat.zero_le _, by simp [hc]⟩
  · intro h; simp at h
  · intro h; simp at h
  · intro h; simp at h

theorem onCallSel_good {e : Env} (ok : FileOk e) {s : Srv} {r : Rx} (g : Good e s r) (conn now : Nat) (q : Req)
    (hneg : q.neg = false) :
    Good e (onCallSel e s conn now q).1 (rxFold r (onCallSel e s conn now q).2) := by
  unfold onCallSel
  split
  · good_quiet g
  · split
    · dsimp only
      split
      · -- SELECT
        split
        · split
          · repeat' split
            all_goals good_quiet g
          · -- the file is selected: FILE READY (positive) starts the master's transfer
            simp only [rxFold, List.foldl_append, List.foldl_cons, List.foldl_nil, Srv.send, rxStep]
            constructor <;> intro h <;> simp at h ⊢
        · good_quiet g
      · split
        · repeat' split
          all_goals good_quiet g
        · split
          · -- CALL FILE
            split
            · split
              · good_quiet g
              · rename_i hst _
                simp only [rxFold, List.foldl_cons, List.foldl_nil, Srv.send]
                exact good_callfile g hst conn q.oa now
            · good_quiet g
          · split
            · -- CALL SECTION
              split
              · split
                · good_quiet g
                · simp only [hneg]
                  split
                  · rename_i h; simp at h
                  · split
                    · rename_i hst _ _ hc
                      obtain ⟨hn, hp⟩ := hc
                      subst hn
                      simp only [rxFold, List.foldl_nil]
                      exact good_callsection ok g hst hp
                    · good_quiet g
              · good_quiet g
            · good_quiet g
    · good_quiet g

end Iec.FileSrv

namespace Iec.FileSrv

/-- the master never declines a section (no negative CALL/SELECT request) -/
def NoDecline : Op → Prop
  | .asdu _ _ q => q.tid = 122 → q.neg = false
  | .task _ _ => True

theorem handleAsdu_good {e : Env} (ok : FileOk e) {s : Srv} {r : Rx} (g : Good e s r) (conn now : Nat) (q : Req)
    (hnd : q.tid = 122 → q.neg = false) :
    Good e ((handleAsdu e s conn now q).getD (s, [])).1 (rxFold r ((handleAsdu e s conn now q).getD (s, [])).2) := by
  unfold handleAsdu
  split
  · exact g
  · have ge := g.expire now
    simp only [Option.getD_some]
    split
    · exact onFileReady_good ge conn now q
    · split
      · exact onSectionReady_good ge conn now q
      · split
        · exact onSegment_good ge now q
        · split
          · exact onLastSeg_good ge conn now q
          · split
            · exact onAck_good ok ge conn now q
            · split
              · rename_i h122
                exact onCallSel_good ok ge conn now q (hnd h122)
              · exact ge

theorem step_good {e : Env} (ok : FileOk e) {s : Srv} {r : Rx} (g : Good e s r) (op : Op) (hnd : NoDecline op) :
    Good e (step e s op).1 (rxFold r (step e s op).2) := by
  cases op with
  | asdu conn now q => exact handleAsdu_good ok g conn now q hnd
  | task conn now => exact runTask_good g conn now

/-! ### when success is reported -/

/-- closes `Out.complete true ∉ outs` goals of handler branches -/
macro "no_complete" : tactic =>
  `(tactic| first
    | (intro hc; simp [Srv.send] at hc; done)
    | (intro hc; dsimp only at hc; split at hc <;> simp [Srv.send] at hc))

theorem onFileReady_nc (e : Env) (s : Srv) (conn now : Nat) (q : Req) : Out.complete true ∉ (onFileReady e s conn now q).2 := by
  unfold onFileReady; repeat' split
  all_goals no_complete
theorem onSectionReady_nc (s : Srv) (conn now : Nat) (q : Req) : Out.complete true ∉ (onSectionReady s conn now q).2 := by
  unfold onSectionReady; repeat' split
  all_goals no_complete
theorem onSegment_nc (s : Srv) (now : Nat) (q : Req) : Out.complete true ∉ (onSegment s now q).2 := by
  unfold onSegment; repeat' split
  all_goals no_complete
theorem onLastSeg_nc (s : Srv) (conn now : Nat) (q : Req) : Out.complete true ∉ (onLastSeg s conn now q).2 := by
  unfold onLastSeg; repeat' split
  all_goals no_complete
theorem onCallSel_nc (e : Env) (s : Srv) (conn now : Nat) (q : Req) : Out.complete true ∉ (onCallSel e s conn now q).2 := by
  unfold onCallSel; repeat' split
  all_goals no_complete
theorem runTask_nc (e : Env) (s : Srv) (conn now : Nat) : Out.complete true ∉ (runTask e s conn now).2 := by
  unfold runTask pumpStep; repeat' split
  all_goals no_complete

/-- success is reported to the provider only by the positive file acknowledgement in WAITING_FOR_FILE_ACK -/
theorem onAck_complete (e : Env) (s : Srv) (conn now : Nat) (q : Req) (h : Out.complete true ∈ (onAck e s conn now q).2) :
    s.st = .waitFileAck ∧ (onAck e s conn now q).2 = [Out.complete true] := by
  unfold onAck at h ⊢
  repeat' split at h
  all_goals first
    | (simp [Srv.send] at h; done)
    | (dsimp only at h; split at h <;> simp [Srv.send] at h; done)
    | exact ⟨by assumption, by simp_all⟩

end Iec.FileSrv

namespace Iec.FileSrv

/-- success reported by one step: the step reports nothing else and the master already holds the file -/
theorem step_complete {e : Env} {s : Srv} {r : Rx} (g : Good e s r) (op : Op) (h : Out.complete true ∈ (step e s op).2) :
    (step e s op).2 = [Out.complete true] ∧ r.done = e.file.flatten ∧ r.cur = [] := by
  cases op with
  | task conn now => exact absurd h (runTask_nc e s conn now)
  | asdu conn now q =>
    simp only [step, handleAsdu] at h ⊢
    split at h
    · simp at h
    · rename_i hr
      simp only [hr, if_false, Option.getD_some] at h ⊢
      have ge := g.expire now
      split at h
      · exact absurd h (onFileReady_nc e _ conn now q)
      · split at h
        · exact absurd h (onSectionReady_nc _ conn now q)
        · split at h
          · exact absurd h (onSegment_nc _ now q)
          · split at h
            · exact absurd h (onLastSeg_nc _ conn now q)
            · split at h
              · rename_i h1 h2 h3 h4 h5
                obtain ⟨hst, hout⟩ := onAck_complete e _ conn now q h
                simp only [h1, h2, h3, h4, h5, if_false, if_true]
                exact ⟨hout, ge.wfa hst⟩
              · split at h
                · exact absurd h (onCallSel_nc e _ conn now q)
                · simp at h

/-- at every point of the trace where success is reported to the provider, the master holds `file` -/
def SafeFrom (file : List Nat) : Rx → List Out → Prop
  | _, [] => True
  | r, o :: os => (o = Out.complete true → r.done = file ∧ r.cur = []) ∧ SafeFrom file (rxStep r o) os

theorem safeFrom_append (file : List Nat) : ∀ (a b : List Out) (r : Rx),
    SafeFrom file r (a ++ b) ↔ SafeFrom file r a ∧ SafeFrom file (rxFold r a) b := by
  intro a
  induction a with
  | nil => intro b r; simp [SafeFrom, rxFold]
  | cons o os ih => intro b r; simp [SafeFrom, rxFold, ih, and_assoc]

theorem safeFrom_no_complete (file : List Nat) : ∀ (a : List Out) (r : Rx), Out.complete true ∉ a → SafeFrom file r a := by
  intro a
  induction a with
  | nil => intro r _; trivial
  | cons o os ih =>
    intro r h
    refine ⟨fun ho => absurd (by simp [ho]) h, ih _ (fun h' => h (by simp [h']))⟩

theorem run_safe {e : Env} (ok : FileOk e) : ∀ (ops : List Op) (s : Srv) (r : Rx), Good e s r →
    (∀ op ∈ ops, NoDecline op) → SafeFrom e.file.flatten r (run e s ops).2 := by
  intro ops
  induction ops with
  | nil => intro s r _ _; trivial
  | cons op ops ih =>
    intro s r g hnd
    rw [run_cons]
    rw [safeFrom_append]
    constructor
    · by_cases hc : Out.complete true ∈ (step e s op).2
      · obtain ⟨hout, hd, hcur⟩ := step_complete g op hc
        rw [hout]
        exact ⟨fun _ => ⟨hd, hcur⟩, trivial⟩
      · exact safeFrom_no_complete _ _ _ hc
    · exact ih _ _ (step_good ok g op (hnd op (by simp))) (fun o ho => hnd o (by simp [ho]))

end Iec.FileSrv
