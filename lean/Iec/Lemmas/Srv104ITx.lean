/-
Where I-format APDUs are written: every function the server model runs for connection `j` (reception, periodic
tasks) appends to the log only I-format APDUs on connection `j`, and only when `j` is STARTED at that moment.
-/
import Iec.Lemmas.Srv104Started
namespace Iec.Srv104
open Iec.KWindow Iec.Queues

/-- the written frame is an I-format APDU (control octet 1 has bit 0 clear) -/
def isI (b : List Nat) : Prop := b.getD 2 1 % 2 = 0

/-- `s'` extends the log of `s`; every I-format APDU among the new entries is on connection `j` and `ok` holds -/
def IExt (j : Nat) (ok : Prop) (s s' : Slave) : Prop :=
  ∃ l, s'.log = s.log ++ l ∧ ∀ c b, Obs.tx c b ∈ l → isI b → (c = j ∧ ok)

theorem IExt.refl (j : Nat) (ok : Prop) (s : Slave) : IExt j ok s s := ⟨[], by simp, by simp⟩

theorem IExt.trans {j : Nat} {ok : Prop} {a b c : Slave} (h1 : IExt j ok a b) (h2 : IExt j ok b c) : IExt j ok a c := by
  obtain ⟨l1, e1, p1⟩ := h1
  obtain ⟨l2, e2, p2⟩ := h2
  refine ⟨l1 ++ l2, by rw [e2, e1, List.append_assoc], ?_⟩
  intro c' b' hm hi
  rcases List.mem_append.mp hm with hm | hm
  · exact p1 c' b' hm hi
  · exact p2 c' b' hm hi

theorem IExt.mono {j : Nat} {ok ok' : Prop} {a b : Slave} (h : IExt j ok a b) (hk : ok → ok') : IExt j ok' a b := by
  obtain ⟨l, e, p⟩ := h
  exact ⟨l, e, fun c b hm hi => ⟨(p c b hm hi).1, hk (p c b hm hi).2⟩⟩

/-- nothing I-format is written at all -/
abbrev NoI (j : Nat) (s s' : Slave) : Prop := IExt j False s s'

theorem noI_of_log {j : Nat} {s s' : Slave} (h : s'.log = s.log) : NoI j s s' := ⟨[], by rw [h]; simp, by simp⟩

theorem noI_setConn (j : Nat) (s : Slave) (i : Nat) (c : Conn) : NoI j s (s.setConn i c) := noI_of_log rfl
theorem noI_setGrp (j : Nat) (s : Slave) (g : Nat) (x : Group) : NoI j s (s.setGrp g x) := noI_of_log rfl

theorem noI_emit (j : Nat) (s : Slave) (o : Obs) (h : ∀ c b, o = .tx c b → ¬ isI b) : NoI j s (emit s o) := by
  refine ⟨[o], rfl, ?_⟩
  intro c b hm hi
  have : Obs.tx c b = o := by simpa using hm
  exact absurd hi (h c b this.symm)

theorem noI_emit_ev (j : Nat) (s : Slave) (c : Nat) (w : String) : NoI j s (emit s (.ev c w)) :=
  noI_emit j s _ (by intro c b h; cases h)
theorem noI_emit_asdu (j : Nat) (s : Slave) (c : Nat) (a : List Nat) : NoI j s (emit s (.asdu c a)) :=
  noI_emit j s _ (by intro c b h; cases h)
theorem noI_emit_reply (j : Nat) (s : Slave) (c : Nat) (r : Bool) : NoI j s (emit s (.reply c r)) :=
  noI_emit j s _ (by intro c b h; cases h)

/-- a written frame that is not I-format -/
theorem noI_write (j : Nat) (s : Slave) (i : Nat) (b : List Nat) (hb : ¬ isI b) : NoI j s (write s i b).1 := by
  unfold write; simp only; split
  · exact IExt.refl _ _ _
  · exact noI_emit j s _ (by intro c b' h; cases h; exact hb)

theorem noI_sendS (j : Nat) (s : Slave) (i : Nat) : NoI j s (sendS s i) := by
  unfold sendS
  simp only
  have hw := noI_write j s i [0x68, 0x04, 0x01, 0, seqLo (s.conn i).vr, seqHi (s.conn i).vr] (by unfold isI; simp)
  generalize write s i [0x68, 0x04, 0x01, 0, seqLo (s.conn i).vr, seqHi (s.conn i).vr] = r at hw
  obtain ⟨s1, ok⟩ := r
  simp only at hw ⊢
  split
  · exact hw
  · exact IExt.trans hw (noI_setConn _ _ _ _)

/-- `sendI` writes on its own connection only -/
theorem iext_sendI (s : Slave) (i : Nat) (a : List Nat) (q : Option (Nat × Nat)) : IExt i True s (sendI s i a q) := by
  unfold sendI write
  simp only
  split
  · exact (noI_setConn i _ _ _).mono (fun h => h.elim)
  · refine ⟨[.tx i ([0x68, (a.length + 4) % 256, seqLo (s.conn i).vs, seqHi (s.conn i).vs, seqLo (s.conn i).vr, seqHi (s.conn i).vr] ++ a)], by simp [emit, Slave.setConn], ?_⟩
    intro c b hm _
    have : c = i := by simp at hm; exact hm.1
    exact ⟨this, trivial⟩

theorem iext_sendAsduInternal (s : Slave) (i : Nat) (a : List Nat) : IExt i True s (sendAsduInternal s i a).1 := by
  unfold sendAsduInternal
  simp only
  repeat' split
  all_goals first
    | exact iext_sendI _ _ _ _
    | exact (noI_setGrp i _ _ _).mono (fun h => h.elim)
    | exact IExt.refl _ _ _

theorem iext_foldl {α} (j : Nat) (ok : Prop) (f : Slave → α → Slave) (hf : ∀ s a, IExt j ok s (f s a)) :
    ∀ (l : List α) (s : Slave), IExt j ok s (l.foldl f s) := by
  intro l
  induction l with
  | nil => intro s; exact IExt.refl _ _ s
  | cons a l ih => intro s; exact IExt.trans (hf s a) (ih _)

theorem iext_appHandler (s : Slave) (i : Nat) (a : List Nat) : IExt i True s (appHandler s i a) := by
  unfold appHandler
  simp only
  refine IExt.trans ((noI_emit_asdu i s i a).mono (fun h => h.elim)) (iext_foldl i True _ ?_ _ _)
  intro t _
  exact IExt.trans (iext_sendAsduInternal t i a) ((noI_emit_reply i _ i _).mono (fun h => h.elim))

theorem noI_deactivate (j : Nat) (s : Slave) (i : Nat) : NoI j s (deactivate s i) := by
  unfold deactivate
  simp only
  split
  · exact IExt.trans (noI_emit_ev j s i _) (noI_setConn _ _ _ _)
  · exact noI_setConn _ _ _ _

theorem noI_activate (j : Nat) (s : Slave) (i : Nat) : NoI j s (activate s i) := by
  unfold activate
  simp only
  generalize (List.filter _ (List.range s.conns.length)) = js
  have h0 : NoI j s (js.foldl deactivate s) := iext_foldl j False _ (fun t x => noI_deactivate j t x) _ _
  generalize js.foldl deactivate s = t at h0
  refine IExt.trans h0 ?_
  unfold activateConn
  simp only
  split
  · exact IExt.trans (noI_emit_ev j t i _) (noI_setConn _ _ _ _)
  · exact noI_setConn _ _ _ _

theorem noI_checkSeqConn (j : Nat) (s : Slave) (i : Nat) (nr : Nat) : NoI j s (checkSeqConn s i nr).1 := by
  unfold checkSeqConn
  simp only
  generalize checkSeq (s.conn i).vs (s.conn i).win nr = r
  obtain ⟨ok, w, rel⟩ := r
  simp only
  exact noI_of_log (by rw [(confirmReleased_facts rel _ i).2.1]; rfl)

theorem noI_t3upd (j : Nat) (s : Slave) (i : Nat) : NoI j s (t3upd s i) := noI_of_log rfl

theorem state_after_set (s : Slave) (j : Nat) (c : Conn) (h : c.state = (s.conn j).state) :
    ((s.setConn j c).conn j).state = (s.conn j).state := by
  by_cases hl : j < s.conns.length
  · rw [conn_setConn _ _ _ hl]; exact h
  · have hs : s.conns.set j c = s.conns := List.set_eq_of_length_le (Nat.le_of_not_lt hl)
    have : (s.setConn j c).conn j = s.conn j := by unfold Slave.conn Slave.setConn; simp only [hs]
    rw [this]

/-- the I-format branch: replies of the application go out on this connection, and only when it is started -/
theorem iext_handleI (s : Slave) (i : Nat) (buf : List Nat) : IExt i ((s.conn i).state = 1) s (handleI s i buf).1 := by
  unfold handleI
  extract_lets n c c1 s1 ns nr
  have h1 : NoI i s s1 := noI_setConn _ _ _ _
  split
  · exact IExt.refl _ _ _
  · split
    · exact IExt.refl _ _ _
    · rename_i hst
      have hst1 : (s.conn i).state = 1 := by simpa [c] using hst
      have up : ∀ {a b : Slave}, IExt i True a b → IExt i ((s.conn i).state = 1) a b := fun h => h.mono (fun _ => hst1)
      have upn : ∀ {a b : Slave}, NoI i a b → IExt i ((s.conn i).state = 1) a b := fun h => h.mono (fun x => x.elim)
      split
      · exact upn h1
      · have h2 := noI_checkSeqConn i s1 i nr
        generalize checkSeqConn s1 i nr = r at h2
        obtain ⟨s2, ok⟩ := r
        dsimp only at h2
        show IExt i _ s (if (!ok) = true then (s2, false) else _).1
        split
        · exact upn (IExt.trans h1 h2)
        · extract_lets c2 s3
          have h3 : NoI i s2 s3 := noI_setConn _ _ _ _
          have h123 := IExt.trans h1 (IExt.trans h2 h3)
          split
          · split
            · exact upn h123
            · exact IExt.trans (upn h123) (IExt.trans (up (iext_appHandler _ _ _)) (upn (noI_setConn _ _ _ _)))
          · exact upn h123

theorem noI_writeTail (j : Nat) (s : Slave) (i : Nat) (b : List Nat) (hb : ¬ isI b) :
    NoI j s (let (s1, ok) := write s i b; if ok then (t3upd s1 i, true) else (s1, false)).1 := by
  have h := noI_write j s i b hb
  generalize write s i b = r at h
  obtain ⟨s1, ok⟩ := r
  show NoI j s (if ok = true then (t3upd s1 i, true) else (s1, false)).1
  split
  · exact IExt.trans h (noI_t3upd _ _ _)
  · exact h

theorem noI_hmTestFR (j : Nat) (s : Slave) (i : Nat) : NoI j s (hmTestFR s i).1 := by
  unfold hmTestFR
  exact noI_writeTail j s i TESTFR_CON (by unfold isI; decide)

theorem noI_hmStartDT (j : Nat) (s : Slave) (i : Nat) : NoI j s (hmStartDT s i).1 := by
  unfold hmStartDT
  extract_lets s0 g s1
  have h0 : NoI j s s0 := noI_activate j s i
  have h1 : NoI j s0 s1 := noI_setGrp _ _ _ _
  exact IExt.trans h0 (IExt.trans h1 (noI_writeTail j s1 i STARTDT_CON (by unfold isI; decide)))

theorem noI_stopTail (j : Nat) (s : Slave) (i : Nat) (c : Conn) :
    NoI j s (let s := s.setConn i c
              let (s, ok) := write s i STOPDT_CON
              if ok then (t3upd s i, true) else (s, false)).1 := by
  extract_lets s1
  exact IExt.trans (noI_setConn j s i c) (noI_writeTail j s1 i STOPDT_CON (by unfold isI; decide))

theorem noI_hmStopDT (j : Nat) (s : Slave) (i : Nat) : NoI j s (hmStopDT s i).1 := by
  unfold hmStopDT
  extract_lets s0 c s1
  have h0 : NoI j s s0 := noI_deactivate j s i
  have h1 : NoI j s0 s1 := by
    dsimp only [s1]
    split
    · exact IExt.trans (noI_setConn _ _ _ _) (noI_sendS _ _ _)
    · exact IExt.refl _ _ _
  split
  · exact IExt.trans h0 (IExt.trans h1 (noI_t3upd _ _ _))
  · exact IExt.trans h0 (IExt.trans h1 (noI_stopTail j s1 i _))

theorem noI_hmS (j : Nat) (s : Slave) (i : Nat) (buf : List Nat) : NoI j s (hmS s i buf).1 := by
  unfold hmS
  extract_lets nr
  have h := noI_checkSeqConn j s i nr
  generalize checkSeqConn s i nr = r at h
  obtain ⟨s1, ok⟩ := r
  dsimp only at h
  show NoI j s (if (!ok) = true then (s1, false) else _).1
  split
  · exact h
  · extract_lets c
    split
    · split
      · exact IExt.trans h (noI_stopTail j s1 i _)
      · exact IExt.trans h (noI_t3upd _ _ _)
    · split
      · exact h
      · exact IExt.trans h (noI_t3upd _ _ _)

/-- **`handleMessage` writes I-format APDUs only on the connection the message came in on, and only when that
connection is started** -/
theorem iext_handleMessage (s : Slave) (i : Nat) (buf : List Nat) :
    IExt i ((s.conn i).state = 1) s (handleMessage s i buf).1 := by
  have upn : ∀ {a b : Slave}, NoI i a b → IExt i ((s.conn i).state = 1) a b := fun h => h.mono (fun x => x.elim)
  unfold handleMessage
  extract_lets n b2
  split
  · exact IExt.refl _ _ _
  split
  · exact IExt.refl _ _ _
  split
  · exact IExt.refl _ _ _
  split
  · exact iext_handleI s i buf
  split
  · exact upn (noI_hmTestFR i s i)
  split
  · exact upn (noI_hmStartDT i s i)
  split
  · exact upn (noI_hmStopDT i s i)
  split
  · exact upn (IExt.trans (noI_setConn _ _ _ _) (noI_t3upd _ _ _))
  split
  · exact upn (noI_hmS i s i buf)
  · exact IExt.refl _ _ _

theorem noI_ackIfW (j : Nat) (s : Slave) (i : Nat) : NoI j s (ackIfW s i) := by
  unfold ackIfW
  simp only
  split
  · exact IExt.trans (noI_setConn _ _ _ _) (noI_sendS _ _ _)
  · exact IExt.refl _ _ _

theorem receiveMessage_facts (j : Nat) (s : Slave) :
    NoI j s (receiveMessage s j).1 ∧ ((receiveMessage s j).1.conn j).state = (s.conn j).state := by
  unfold receiveMessage
  simp only
  exact ⟨noI_setConn _ _ _ _, state_after_set s j _ rfl⟩

/-- **reception on connection `j`**: whatever arrives, I-format APDUs are written on `j` only, and only if `j` is
started when the message is taken from the socket -/
theorem iext_handleTcpConnection (s : Slave) (j : Nat) :
    IExt j ((s.conn j).state = 1) s (handleTcpConnection s j) := by
  have upn : ∀ {a b : Slave}, NoI j a b → IExt j ((s.conn j).state = 1) a b := fun h => h.mono (fun x => x.elim)
  unfold handleTcpConnection
  obtain ⟨hs1, hst1⟩ := receiveMessage_facts j s
  generalize receiveMessage s j = r at hs1 hst1
  obtain ⟨s1, rr, msg⟩ := r
  dsimp only at hs1 hst1
  simp (config := { zeta := false }) only []
  extract_lets c1 s2 c3 s4
  have hs2 : NoI j s1 s2 := by dsimp only [s2]; split; exact noI_setConn _ _ _ _; exact IExt.refl _ _ _
  have hst2 : (s2.conn j).state = (s.conn j).state := by
    dsimp only [s2]; split
    · rw [state_after_set s1 j _ (by dsimp only [c1])]; exact hst1
    · exact hst1
  split
  · have h3 := iext_handleMessage s2 j msg
    rw [hst2] at h3
    have h4 : NoI j (handleMessage s2 j msg).1 s4 := by
      dsimp only [s4]; split; exact noI_setConn _ _ _ _; exact IExt.refl _ _ _
    exact IExt.trans (upn (IExt.trans hs1 hs2)) (IExt.trans h3 (upn (IExt.trans h4 (noI_ackIfW _ _ _))))
  · exact upn (IExt.trans hs1 hs2)

theorem iext_sendWaitingHigh (i : Nat) : ∀ (fuel : Nat) (s : Slave), IExt i True s (sendWaitingHigh s i fuel).1 := by
  intro fuel
  induction fuel with
  | zero => intro s; exact IExt.refl _ _ s
  | succ n ih =>
    intro s
    have up : ∀ {a b : Slave}, NoI i a b → IExt i True a b := fun h => h.mono (fun x => x.elim)
    unfold sendWaitingHigh
    simp only
    repeat' split
    all_goals first
      | exact IExt.refl _ _ _
      | exact up (noI_setGrp _ _ _ _)
      | exact IExt.trans (up (noI_setGrp _ _ _ _)) (iext_sendI _ _ _ _)
      | exact IExt.trans (IExt.trans (up (noI_setGrp _ _ _ _)) (iext_sendI _ _ _ _)) (ih _)

theorem iext_sendWaitingASDUs (s : Slave) (i : Nat) : IExt i True s (sendWaitingASDUs s i) := by
  have up : ∀ {a b : Slave}, NoI i a b → IExt i True a b := fun h => h.mono (fun x => x.elim)
  unfold sendWaitingASDUs
  have h1 := iext_sendWaitingHigh i ((s.grp (s.gidx i)).highQ.count + 1) s
  simp only
  repeat' split
  all_goals first
    | exact h1
    | exact IExt.trans h1 (up (noI_setGrp _ _ _ _))
    | exact IExt.trans h1 (IExt.trans (up (noI_setGrp _ _ _ _)) (iext_sendI _ _ _ _))

macro "noi_step" : tactic => `(tactic| first
  | with_reducible exact IExt.refl _ _ _
  | with_reducible refine IExt.trans ?_ (noI_setConn _ _ _ _)
  | with_reducible refine IExt.trans ?_ (noI_setGrp _ _ _ _)
  | with_reducible refine IExt.trans ?_ (noI_sendS _ _ _)
  | with_reducible refine IExt.trans ?_ (noI_t3upd _ _ _)
  | ((with_reducible refine IExt.trans ?_ (noI_write _ _ _ _ ?_)) <;> (try (unfold isI; decide))))

macro "noi_auto" : tactic => `(tactic| repeat' (first
  | (with_reducible exact IExt.refl _ _ _)
  | split
  | extract_lets
  | noi_step
  | (dsimp (config := { zetaDelta := true, zeta := false }) only)))

theorem noI_phaseT3 (j : Nat) (s : Slave) (i : Nat) : NoI j s (phaseT3 s i) := by
  unfold phaseT3
  try simp (config := { zeta := false }) only []
  noi_auto

theorem noI_phaseTestFR (j : Nat) (s : Slave) (i : Nat) : NoI j s (phaseTestFR s i).1 := by
  unfold phaseTestFR
  try simp (config := { zeta := false }) only []
  noi_auto

theorem noI_phaseT2 (j : Nat) (s : Slave) (i : Nat) : NoI j s (phaseT2 s i) := by
  unfold phaseT2
  try simp (config := { zeta := false }) only []
  noi_auto

theorem noI_phaseT1 (j : Nat) (s : Slave) (i : Nat) (ok : Bool) : NoI j s (phaseT1 s i ok).1 := by
  unfold phaseT1
  try simp (config := { zeta := false }) only []
  noi_auto

theorem noI_handleTimeouts (j : Nat) (s : Slave) (i : Nat) : NoI j s (handleTimeouts s i).1 := by
  unfold handleTimeouts
  try simp (config := { zeta := false }) only []
  exact IExt.trans (noI_phaseT3 j s i) (IExt.trans (noI_phaseTestFR j _ i) (IExt.trans (noI_phaseT2 j _ i) (noI_phaseT1 j _ i _)))

/-- **the periodic tasks of connection `j`** (transmission of parked replies and waiting events, timeouts): I-format
APDUs are written on `j` only, and only if `j` is started -/
theorem iext_periodic (s : Slave) (j : Nat) : IExt j ((s.conn j).state = 1) s (periodic s j) := by
  have upn : ∀ {a b : Slave}, NoI j a b → IExt j ((s.conn j).state = 1) a b := fun h => h.mono (fun x => x.elim)
  unfold periodic
  have h1 : IExt j ((s.conn j).state = 1) s (if (s.conn j).state = 1 then sendWaitingASDUs s j else s) := by
    split
    · rename_i hst; exact (iext_sendWaitingASDUs s j).mono (fun _ => hst)
    · exact IExt.refl _ _ _
  extract_lets s1
  have h2 := noI_handleTimeouts j s1 j
  generalize handleTimeouts s1 j = r at h2
  obtain ⟨s2, ok⟩ := r
  show IExt j _ s (if (!ok) = true then s2.setConn j { s2.conn j with isRunning := false } else s2)
  split
  · exact IExt.trans h1 (upn (IExt.trans h2 (noI_setConn _ _ _ _)))
  · exact IExt.trans h1 (upn h2)

end Iec.Srv104
