/-
Which connections are STARTED, over every operation of the server model: no function of `Iec.Srv104` other than the
STARTDT branch of `handleMessage` (`activate`) makes a connection started (`Shrink`), and `activate` first deactivates
the other connections of the group - so at most one connection per redundancy group is started after every step of
every history (`Props/C08.lean`, `one_started_per_group`).
-/
import Iec.Lemmas.Srv104
namespace Iec.Srv104
open Iec.KWindow Iec.Queues

/-- `c'` is started and in use only if `c` was (same group) -/
def CShrink (c c' : Conn) : Prop :=
  c'.isUsed = true → c'.state = 1 → (c.isUsed = true ∧ c.state = 1 ∧ c'.group = c.group)

theorem CShrink.refl (c : Conn) : CShrink c c := fun hu hs => ⟨hu, hs, rfl⟩
theorem CShrink.trans {a b c : Conn} (h1 : CShrink a b) (h2 : CShrink b c) : CShrink a c := by
  intro hu hs
  obtain ⟨u, s, g⟩ := h2 hu hs
  obtain ⟨u', s', g'⟩ := h1 u s
  exact ⟨u', s', g.trans g'⟩

/-- nothing becomes started; parameters and table size stay -/
def Shrink (s s' : Slave) : Prop :=
  s'.p = s.p ∧ s'.conns.length = s.conns.length ∧ ∀ j, CShrink (s.conn j) (s'.conn j)

theorem Shrink.refl (s : Slave) : Shrink s s := ⟨rfl, rfl, fun j => CShrink.refl _⟩
theorem Shrink.trans {a b c : Slave} (h1 : Shrink a b) (h2 : Shrink b c) : Shrink a c :=
  ⟨h2.1.trans h1.1, h2.2.1.trans h1.2.1, fun j => CShrink.trans (h1.2.2 j) (h2.2.2 j)⟩

theorem shrink_of_conns {s s' : Slave} (hp : s'.p = s.p) (hc : s'.conns = s.conns) : Shrink s s' :=
  ⟨hp, by rw [hc], fun j => by unfold Slave.conn; rw [hc]; exact CShrink.refl _⟩

theorem shrink_emit (s : Slave) (o : Obs) : Shrink s (emit s o) := shrink_of_conns rfl rfl
theorem shrink_setGrp (s : Slave) (g : Nat) (x : Group) : Shrink s (s.setGrp g x) := shrink_of_conns rfl rfl

theorem conn_setConn_ne (s : Slave) (i j : Nat) (c : Conn) (h : j ≠ i) : (s.setConn i c).conn j = s.conn j := by
  simp [Slave.conn, Slave.setConn, List.getD_eq_getElem?_getD, List.getElem?_set_ne (Ne.symm h)]

theorem shrink_setConn (s : Slave) (i : Nat) (c : Conn) (h : CShrink (s.conn i) c) : Shrink s (s.setConn i c) := by
  refine ⟨rfl, setConn_len _ _ _, fun j => ?_⟩
  by_cases hj : j = i
  · subst hj
    by_cases hl : j < s.conns.length
    · rw [conn_setConn _ _ _ hl]; exact h
    · have hs : s.conns.set j c = s.conns := List.set_eq_of_length_le (Nat.le_of_not_lt hl)
      have : (s.setConn j c).conn j = s.conn j := by unfold Slave.conn Slave.setConn; simp only [hs]
      rw [this]; exact CShrink.refl _
  · rw [conn_setConn_ne _ _ _ _ hj]; exact CShrink.refl _

/-- closes `CShrink (s.conn i) { s.conn i with … }` goals: the update leaves used / state / group alone, or sets a
state other than STARTED -/
macro "cshrink0" : tactic => `(tactic| first
  | exact CShrink.refl _
  | exact (fun hu hs => ⟨hu, hs, rfl⟩)
  | (intro _ hs; simp at hs; done)
  | (intro hu _; simp at hu; done))

/-- the record written back is compared with what an earlier write of the same slot left there -/
theorem cshrink_after_set (s : Slave) (i : Nat) (c c' : Conn) (h1 : CShrink c c') (h2 : CShrink (s.conn i) c') :
    CShrink ((s.setConn i c).conn i) c' := by
  by_cases hl : i < s.conns.length
  · rw [conn_setConn _ _ _ hl]; exact h1
  · have hs : s.conns.set i c = s.conns := List.set_eq_of_length_le (Nat.le_of_not_lt hl)
    have : (s.setConn i c).conn i = s.conn i := by unfold Slave.conn Slave.setConn; simp only [hs]
    rw [this]; exact h2

macro "cshrink" : tactic => `(tactic| first
  | cshrink0
  | (apply cshrink_after_set <;> cshrink0))

theorem shrink_write (s : Slave) (i : Nat) (b : List Nat) : Shrink s (write s i b).1 := by
  unfold write; simp only; split
  · exact Shrink.refl s
  · exact shrink_emit s _

theorem shrink_sendS (s : Slave) (i : Nat) : Shrink s (sendS s i) := by
  unfold sendS
  simp only
  have hw := shrink_write s i [0x68, 0x04, 0x01, 0, seqLo (s.conn i).vr, seqHi (s.conn i).vr]
  generalize write s i [0x68, 0x04, 0x01, 0, seqLo (s.conn i).vr, seqHi (s.conn i).vr] = r at hw
  obtain ⟨s1, ok⟩ := r
  simp only at hw ⊢
  split
  · exact hw
  · exact Shrink.trans hw (shrink_setConn _ _ _ (by cshrink))

theorem shrink_sendI (s : Slave) (i : Nat) (a : List Nat) (q : Option (Nat × Nat)) : Shrink s (sendI s i a q) := by
  unfold sendI
  simp only
  have hw := shrink_write s i ([0x68, (a.length + 4) % 256, seqLo (s.conn i).vs, seqHi (s.conn i).vs, seqLo (s.conn i).vr, seqHi (s.conn i).vr] ++ a)
  generalize write s i ([0x68, (a.length + 4) % 256, seqLo (s.conn i).vs, seqHi (s.conn i).vs, seqLo (s.conn i).vr, seqHi (s.conn i).vr] ++ a) = r at hw
  obtain ⟨s1, ok⟩ := r
  simp only at hw ⊢
  refine Shrink.trans hw (shrink_setConn _ _ _ ?_)
  cases ok <;> (simp only [Bool.false_eq_true, if_false, if_true]; cshrink)

theorem shrink_sendAsduInternal (s : Slave) (i : Nat) (a : List Nat) : Shrink s (sendAsduInternal s i a).1 := by
  unfold sendAsduInternal
  simp only
  repeat' split
  all_goals first
    | exact shrink_sendI _ _ _ _
    | exact shrink_setGrp _ _ _
    | exact Shrink.refl _

theorem shrink_deactivate (s : Slave) (i : Nat) : Shrink s (deactivate s i) := by
  unfold deactivate
  simp only
  split
  · exact Shrink.trans (shrink_emit s _) (shrink_setConn _ _ _ (by cshrink))
  · exact shrink_setConn _ _ _ (by cshrink)

theorem shrink_confirmReleased (rel : List KEntry) : ∀ (s : Slave) (i : Nat), Shrink s (confirmReleased s i rel) := by
  intro s i
  have hf := confirmReleased_facts rel s i
  exact shrink_of_conns hf.2.2.1 hf.1

theorem shrink_checkSeqConn (s : Slave) (i : Nat) (nr : Nat) : Shrink s (checkSeqConn s i nr).1 := by
  unfold checkSeqConn
  simp only
  generalize checkSeq (s.conn i).vs (s.conn i).win nr = r
  obtain ⟨ok, w, rel⟩ := r
  simp only
  exact Shrink.trans (shrink_setConn _ _ _ (by cshrink)) (shrink_confirmReleased _ _ _)

theorem shrink_foldl {α} (f : Slave → α → Slave) (hf : ∀ s a, Shrink s (f s a)) : ∀ (l : List α) (s : Slave), Shrink s (l.foldl f s) := by
  intro l
  induction l with
  | nil => intro s; exact Shrink.refl s
  | cons a l ih => intro s; exact Shrink.trans (hf s a) (ih _)

theorem shrink_appHandler (s : Slave) (i : Nat) (a : List Nat) : Shrink s (appHandler s i a) := by
  unfold appHandler
  simp only
  refine Shrink.trans (shrink_emit s _) (shrink_foldl _ ?_ _ _)
  intro t _
  exact Shrink.trans (shrink_sendAsduInternal t i a) (shrink_emit _ _)

/-- peel the outermost state transformer off a `Shrink s (F …)` goal (syntactic match only) -/
macro "shrink_step" : tactic => `(tactic| first
  | with_reducible exact Shrink.refl _
  | ((with_reducible refine Shrink.trans ?_ (shrink_setConn _ _ _ ?_)) <;> (try cshrink))
  | with_reducible refine Shrink.trans ?_ (shrink_emit _ _)
  | with_reducible refine Shrink.trans ?_ (shrink_setGrp _ _ _)
  | with_reducible refine Shrink.trans ?_ (shrink_write _ _ _)
  | with_reducible refine Shrink.trans ?_ (shrink_sendS _ _)
  | with_reducible refine Shrink.trans ?_ (shrink_sendI _ _ _ _)
  | with_reducible refine Shrink.trans ?_ (shrink_sendAsduInternal _ _ _)
  | with_reducible refine Shrink.trans ?_ (shrink_deactivate _ _)
  | with_reducible refine Shrink.trans ?_ (shrink_checkSeqConn _ _ _)
  | with_reducible refine Shrink.trans ?_ (shrink_appHandler _ _ _))

theorem shrink_handleI (s : Slave) (i : Nat) (buf : List Nat) : Shrink s (handleI s i buf).1 := by
  unfold handleI
  extract_lets n c c1 s1 ns nr
  have h1 : Shrink s s1 := shrink_setConn _ _ _ (by dsimp only [c1, c]; split <;> cshrink)
  split
  · exact Shrink.refl s
  · split
    · exact Shrink.refl s
    · split
      · exact h1
      · have h2 := shrink_checkSeqConn s1 i nr
        generalize checkSeqConn s1 i nr = r at h2
        obtain ⟨s2, ok⟩ := r
        dsimp only at h2
        show Shrink s (if (!ok) = true then (s2, false) else _).fst
        have h12 := Shrink.trans h1 h2
        split
        · exact h12
        · extract_lets c2 s3
          have h3 : Shrink s2 s3 := shrink_setConn _ _ _ (by dsimp only [c2]; cshrink)
          split
          · split
            · exact Shrink.trans h12 h3
            · exact Shrink.trans h12 (Shrink.trans h3 (Shrink.trans (shrink_appHandler _ _ _) (shrink_setConn _ _ _ (by cshrink))))
          · exact Shrink.trans h12 h3

theorem shrink_receiveMessage (s : Slave) (i : Nat) : Shrink s (receiveMessage s i).1 := by
  unfold receiveMessage
  simp only
  exact shrink_setConn _ _ _ (by cshrink)

theorem shrink_ackIfW (s : Slave) (i : Nat) : Shrink s (ackIfW s i) := by
  unfold ackIfW
  simp only
  split
  · exact Shrink.trans (shrink_setConn _ _ _ (by cshrink)) (shrink_sendS _ _)
  · exact Shrink.refl s

theorem shrink_sendWaitingHigh (i : Nat) : ∀ (fuel : Nat) (s : Slave), Shrink s (sendWaitingHigh s i fuel).1 := by
  intro fuel
  induction fuel with
  | zero => intro s; exact Shrink.refl s
  | succ n ih =>
    intro s
    unfold sendWaitingHigh
    simp only
    repeat' split
    all_goals first
      | exact Shrink.refl _
      | exact shrink_setGrp _ _ _
      | exact Shrink.trans (shrink_setGrp _ _ _) (shrink_sendI _ _ _ _)
      | exact Shrink.trans (Shrink.trans (shrink_setGrp _ _ _) (shrink_sendI _ _ _ _)) (ih _)

theorem shrink_sendWaitingASDUs (s : Slave) (i : Nat) : Shrink s (sendWaitingASDUs s i) := by
  unfold sendWaitingASDUs
  have h1 := shrink_sendWaitingHigh i ((s.grp (s.gidx i)).highQ.count + 1) s
  simp only
  repeat' split
  all_goals first
    | exact h1
    | exact Shrink.trans h1 (shrink_setGrp _ _ _)
    | exact Shrink.trans h1 (Shrink.trans (shrink_setGrp _ _ _) (shrink_sendI _ _ _ _))

/-- unfold nothing, split every `if` / `match`, name every `let`, peel the state transformers from the outside -/
macro "shrink_auto" : tactic => `(tactic| repeat' (first
  | (with_reducible exact Shrink.refl _)
  | cshrink
  | split
  | extract_lets
  | shrink_step
  | (dsimp (config := { zetaDelta := true, zeta := false }) only)))

theorem shrink_phaseT3 (s : Slave) (i : Nat) : Shrink s (phaseT3 s i) := by
  unfold phaseT3
  try simp (config := { zeta := false }) only []
  shrink_auto

theorem shrink_phaseTestFR (s : Slave) (i : Nat) : Shrink s (phaseTestFR s i).1 := by
  unfold phaseTestFR
  try simp (config := { zeta := false }) only []
  shrink_auto

theorem shrink_phaseT2 (s : Slave) (i : Nat) : Shrink s (phaseT2 s i) := by
  unfold phaseT2
  try simp (config := { zeta := false }) only []
  shrink_auto

theorem shrink_phaseT1 (s : Slave) (i : Nat) (ok : Bool) : Shrink s (phaseT1 s i ok).1 := by
  unfold phaseT1
  try simp (config := { zeta := false }) only []
  shrink_auto

theorem shrink_handleTimeouts (s : Slave) (i : Nat) : Shrink s (handleTimeouts s i).1 := by
  unfold handleTimeouts
  try simp (config := { zeta := false }) only []
  exact Shrink.trans (shrink_phaseT3 s i) (Shrink.trans (shrink_phaseTestFR _ i) (Shrink.trans (shrink_phaseT2 _ i) (shrink_phaseT1 _ i _)))

theorem shrink_periodic (s : Slave) (i : Nat) : Shrink s (periodic s i) := by
  unfold periodic
  have h1 : Shrink s (if (s.conn i).state = 1 then sendWaitingASDUs s i else s) := by
    split
    · exact shrink_sendWaitingASDUs s i
    · exact Shrink.refl s
  extract_lets s1
  have h2 := shrink_handleTimeouts s1 i
  generalize handleTimeouts s1 i = r at h2
  obtain ⟨s2, ok⟩ := r
  show Shrink s (if (!ok) = true then s2.setConn i { s2.conn i with isRunning := false } else s2)
  split
  · exact Shrink.trans h1 (Shrink.trans h2 (shrink_setConn _ _ _ (by cshrink)))
  · exact Shrink.trans h1 h2

theorem shrink_resetUnconfirmed (s : Slave) (j : Nat) : Shrink s (resetUnconfirmed s j) := by
  unfold resetUnconfirmed
  apply shrink_foldl
  intro t e
  split
  · exact shrink_setGrp _ _ _
  · exact Shrink.refl t

theorem shrink_t3upd (s : Slave) (i : Nat) : Shrink s (t3upd s i) := by
  unfold t3upd; exact shrink_setConn _ _ _ (by cshrink)

theorem shrink_hmTestFR (s : Slave) (i : Nat) : Shrink s (hmTestFR s i).1 := by
  unfold hmTestFR
  have h := shrink_write s i TESTFR_CON
  generalize write s i TESTFR_CON = r at h
  obtain ⟨s1, ok⟩ := r
  show Shrink s (if ok = true then (t3upd s1 i, true) else (s1, false)).1
  split
  · exact Shrink.trans h (shrink_t3upd _ _)
  · exact h

theorem shrink_hmStartDT (s : Slave) (i : Nat) : Shrink (activate s i) (hmStartDT s i).1 := by
  unfold hmStartDT
  extract_lets s0 g s1
  have h1 : Shrink s0 s1 := shrink_setGrp _ _ _
  have h := shrink_write s1 i STARTDT_CON
  generalize write s1 i STARTDT_CON = r at h
  obtain ⟨s2, ok⟩ := r
  show Shrink s0 (if ok = true then (t3upd s2 i, true) else (s2, false)).1
  split
  · exact Shrink.trans h1 (Shrink.trans h (shrink_t3upd _ _))
  · exact Shrink.trans h1 h

theorem shrink_stopTail (s : Slave) (i : Nat) (c : Conn) (hc : CShrink (s.conn i) c) :
    Shrink s (let s := s.setConn i c
              let (s, ok) := write s i STOPDT_CON
              if ok then (t3upd s i, true) else (s, false)).1 := by
  extract_lets s1
  have h1 : Shrink s s1 := shrink_setConn _ _ _ hc
  have h := shrink_write s1 i STOPDT_CON
  generalize write s1 i STOPDT_CON = r at h
  obtain ⟨s2, ok⟩ := r
  show Shrink s (if ok = true then (t3upd s2 i, true) else (s2, false)).1
  split
  · exact Shrink.trans h1 (Shrink.trans h (shrink_t3upd _ _))
  · exact Shrink.trans h1 h

theorem shrink_hmStopDT (s : Slave) (i : Nat) : Shrink s (hmStopDT s i).1 := by
  unfold hmStopDT
  extract_lets s0 c s1
  have h0 : Shrink s s0 := shrink_deactivate s i
  have h1 : Shrink s0 s1 := by
    dsimp only [s1]
    split
    · exact Shrink.trans (shrink_setConn _ _ _ (by dsimp only [c]; cshrink)) (shrink_sendS _ _)
    · exact Shrink.refl _
  split
  · exact Shrink.trans h0 (Shrink.trans h1 (shrink_t3upd _ _))
  · exact Shrink.trans h0 (Shrink.trans h1 (shrink_stopTail s1 i _ (by cshrink)))

theorem shrink_hmS (s : Slave) (i : Nat) (buf : List Nat) : Shrink s (hmS s i buf).1 := by
  unfold hmS
  extract_lets nr
  have h := shrink_checkSeqConn s i nr
  generalize checkSeqConn s i nr = r at h
  obtain ⟨s1, ok⟩ := r
  dsimp only at h
  show Shrink s (if (!ok) = true then (s1, false) else _).1
  split
  · exact h
  · extract_lets c
    split
    · split
      · exact Shrink.trans h (shrink_stopTail s1 i _ (by dsimp only [c]; cshrink))
      · exact Shrink.trans h (shrink_t3upd _ _)
    · split
      · exact h
      · exact Shrink.trans h (shrink_t3upd _ _)

/-- **`handleMessage` starts nothing, except through `activate`** (the STARTDT act branch) -/
theorem handleMessage_started (s : Slave) (i : Nat) (buf : List Nat) :
    Shrink s (handleMessage s i buf).1 ∨ Shrink (activate s i) (handleMessage s i buf).1 := by
  unfold handleMessage
  extract_lets n b2
  split
  · exact Or.inl (Shrink.refl s)
  split
  · exact Or.inl (Shrink.refl s)
  split
  · exact Or.inl (Shrink.refl s)
  split
  · exact Or.inl (shrink_handleI s i buf)
  split
  · exact Or.inl (shrink_hmTestFR s i)
  split
  · exact Or.inr (shrink_hmStartDT s i)
  split
  · exact Or.inl (shrink_hmStopDT s i)
  split
  · exact Or.inl (Shrink.trans (shrink_setConn _ _ _ (by cshrink)) (shrink_t3upd _ _))
  split
  · exact Or.inl (shrink_hmS s i buf)
  · exact Or.inl (Shrink.refl s)

end Iec.Srv104
