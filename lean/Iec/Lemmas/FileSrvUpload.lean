import Iec.Lemmas.FileSrvSafety
/-
Upload direction (the master sends a file to the receiver callback): an observer `Ux` over the
emitted events, the invariant `GoodU` that couples it with the server state for ARBITRARY
histories, and the trace of a procedure-following upload.
-/
namespace Iec.FileSrv

/-- what an observer of the application side and of the wire knows about the upload in progress -/
structure Ux where
  /-- file length announced with the last FILE READY handed to the application -/
  lof : Nat
  /-- octets of the sections acknowledged positively so far -/
  acked : List Nat
  /-- octets delivered to the receiver in the section pass in progress -/
  pass : List Nat
  /-- every segment was delivered at the offset = number of octets delivered before it in its pass -/
  ok : Bool
  deriving Repr, DecidableEq

def uxStep (u : Ux) : Out → Ux
  | .readyCb _ _ _ lof => { lof := lof, acked := [], pass := [], ok := true }
  | .send _ _ _ _ _ (.callSection _) => { u with pass := [] }
  | .segRecv _ off d => { u with ok := u.ok && (off == u.pass.length), pass := u.pass ++ d }
  | .send _ _ _ _ _ (.ack _ 3) => { u with acked := u.acked ++ u.pass, pass := [] }
  | .send _ _ _ _ _ (.ack _ 4) => { u with pass := [] }
  | _ => u

def uxFold (u : Ux) (outs : List Out) : Ux := outs.foldl uxStep u

/-- **upload invariant** -/
structure GoodU (s : Srv) (u : Ux) : Prop where
  okk : u.ok = true
  up : (s.st = .waitSectionReady ∨ s.st = .receiveSection) → s.receiver = true →
    s.expLen = u.lof ∧ s.recvLen = u.acked.length ∧ s.fileChk = chk u.acked
  rs : s.st = .receiveSection → s.receiver = true → s.secOff = u.pass.length ∧ s.secChk = chk u.pass

/-- states outside an upload -/
def NoUp (st : St) : Prop := st ≠ .waitSectionReady ∧ st ≠ .receiveSection

theorem GoodU.of_noup {s : Srv} {u : Ux} (h : NoUp s.st) (hok : u.ok = true) : GoodU s u :=
  ⟨hok, fun h' _ => by rcases h' with h' | h' <;> simp [NoUp, h'] at h, fun h' _ => by simp [NoUp, h'] at h⟩

theorem GoodU.congr {s s' : Srv} {u : Ux} (g : GoodU s u) (hst : s'.st = s.st) (hr : s'.receiver = s.receiver)
    (h1 : s'.expLen = s.expLen) (h2 : s'.recvLen = s.recvLen) (h3 : s'.fileChk = s.fileChk)
    (h4 : s'.secOff = s.secOff) (h5 : s'.secChk = s.secChk) : GoodU s' u := by
  refine ⟨g.okk, ?_, ?_⟩
  · intro h hr'; rw [hst] at h; rw [hr] at hr'; rw [h1, h2, h3]; exact g.up h hr'
  · intro h hr'; rw [hst] at h; rw [hr] at hr'; rw [h4, h5]; exact g.rs h hr'

theorem GoodU.expire {s : Srv} {u : Ux} (g : GoodU s u) (now : Nat) : GoodU (s.expire now) u := by
  unfold Srv.expire
  split
  · exact GoodU.of_noup (by simp [NoUp]) g.okk
  · exact g

/-- closes `GoodU s' (uxFold u outs)` for a branch that emits nothing the observer reacts to and either keeps
the upload bookkeeping or leaves the upload states -/
macro "goodu_quiet" g:ident : tactic =>
  `(tactic| first
    | exact $g
    | (simp only [uxFold, List.foldl_cons, List.foldl_nil, uxStep, Srv.send, List.foldl_append]; exact $g)
    | (simp only [uxFold, List.foldl_cons, List.foldl_nil, uxStep, Srv.send, List.foldl_append]
       exact GoodU.of_noup (by simp_all [NoUp]) (GoodU.okk $g))
    | (simp only [uxFold, List.foldl_cons, List.foldl_nil, uxStep, Srv.send, List.foldl_append]
       exact GoodU.congr $g rfl rfl rfl rfl rfl rfl rfl))

theorem onSectionReady_goodu {s : Srv} {u : Ux} (g : GoodU s u) (conn now : Nat) (q : Req) :
    GoodU (onSectionReady s conn now q).1 (uxFold u (onSectionReady s conn now q).2) := by
  unfold onSectionReady
  split
  · rename_i hst
    split
    · simp only [uxFold, List.foldl_cons, List.foldl_nil, uxStep, Srv.send]
      refine ⟨g.okk, ?_, ?_⟩
      · intro _ hr; exact g.up (Or.inl hst) hr
      · intro _ _; exact ⟨rfl, by simp [chk]⟩
    · exact g
  · exact g

theorem onSegment_goodu {s : Srv} {u : Ux} (g : GoodU s u) (now : Nat) (q : Req) :
    GoodU (onSegment s now q).1 (uxFold u (onSegment s now q).2) := by
  unfold onSegment
  split
  · rename_i hst
    split
    · rename_i ioa nof nos data _
      by_cases hr : s.receiver = true
      · obtain ⟨hoff, hchk⟩ := g.rs hst hr
        simp only [hr, if_true, uxFold, List.foldl_cons, List.foldl_nil, uxStep]
        refine ⟨?_, ?_, ?_⟩
        · simp [g.okk, hoff]
        · intro _ _; exact g.up (Or.inr hst) hr
        · intro _ _
          refine ⟨by simp [hoff], ?_⟩
          show (s.secChk + chk data) % 256 = chk (u.pass ++ data)
          rw [hchk, chk_append]
      · simp only [hr, uxFold, List.foldl_nil]
        refine ⟨g.okk, ?_, ?_⟩
        · intro _ hr'; exact absurd hr' (by simp_all)
        · intro _ hr'; exact absurd hr' (by simp_all)
    · exact g
  · exact g

end Iec.FileSrv

namespace Iec.FileSrv

/-- success of an upload is reported only when the acknowledged sections add up to the announced length and
their octets sum to the announced file checksum -/
theorem onLastSeg_goodu {s : Srv} {u : Ux} (g : GoodU s u) (conn now : Nat) (q : Req) :
    GoodU (onLastSeg s conn now q).1 (uxFold u (onLastSeg s conn now q).2) ∧
    (Out.finished 0 ∈ (onLastSeg s conn now q).2 →
      u.acked.length = u.lof ∧ u.pass = u.pass ∧ ∃ i n k c, q.obj = some (.lastSeg i n k 1 c) ∧ c = chk u.acked) := by
  unfold onLastSeg
  split
  · rename_i ioa nof nos lsq chs hobj
    split
    · rename_i hst
      split
      · split
        · -- section accepted
          rename_i hcond
          obtain ⟨hfull, hchs⟩ := hcond
          refine ⟨?_, by intro h; simp [Srv.send] at h⟩
          simp only [uxFold, List.foldl_cons, List.foldl_nil, uxStep, Srv.send]
          refine ⟨g.okk, ?_, ?_⟩
          · intro _ hr
            obtain ⟨h1, h2, h3⟩ := g.up (Or.inr hst) hr
            obtain ⟨h4, h5⟩ := g.rs hst hr
            refine ⟨h1, ?_, ?_⟩
            · show s.recvLen + s.secSize = (u.acked ++ u.pass).length
              rw [List.length_append, h2, ← h4, hfull]
            · show (s.fileChk + s.secChk) % 256 = chk (u.acked ++ u.pass)
              rw [h3, h5, chk_append]
          · intro h; simp at h
        · -- section refused: the pass is discarded
          refine ⟨?_, by intro h; simp [Srv.send] at h⟩
          simp only [uxFold, List.foldl_cons, List.foldl_nil, uxStep, Srv.send]
          refine ⟨g.okk, ?_, ?_⟩
          · intro _ hr; exact g.up (Or.inr hst) hr
          · intro h; simp at h
      · split
        · refine ⟨?_, by intro h; split at h <;> simp at h⟩
          split <;> (simp only [uxFold, List.foldl_cons, List.foldl_nil, uxStep]; exact GoodU.of_noup (by simp [NoUp]) g.okk)
        · exact ⟨g, by intro h; simp at h⟩
    · split
      · rename_i hst
        split
        · -- LAST SECTION: the verdict
          rename_i hlsq
          constructor
          · refine GoodU.of_noup (by simp [NoUp]) ?_
            by_cases hc : s.recvLen = s.expLen ∧ chs = s.fileChk <;> by_cases hr : s.receiver = true <;>
              simp [uxFold, uxStep, Srv.send, hc, hr, g.okk]
          · intro h
            simp only [Srv.send, List.mem_append, List.mem_cons, List.mem_nil_iff, or_false] at h
            rcases h with h | h
            · cases h
            · split at h
              · rename_i hr
                simp only [List.mem_cons, List.mem_nil_iff, or_false] at h
                injection h with h
                by_cases hc : s.recvLen = s.expLen ∧ chs = s.fileChk
                · obtain ⟨h1, h2, h3⟩ := g.up (Or.inl hst) hr
                  refine ⟨by rw [← h2, hc.1, h1], rfl, ioa, nof, nos, chs, ?_, by rw [hc.2, h3]⟩
                  rw [hobj, hlsq]
                · simp [hc] at h
              · simp at h
        · split
          · refine ⟨?_, by intro h; split at h <;> simp at h⟩
            split <;> (simp only [uxFold, List.foldl_cons, List.foldl_nil, uxStep]; exact GoodU.of_noup (by simp [NoUp]) g.okk)
          · exact ⟨g, by intro h; simp at h⟩
      · exact ⟨g, by intro h; simp at h⟩
  · exact ⟨g, by intro h; simp at h⟩

end Iec.FileSrv

namespace Iec.FileSrv

theorem onFileReady_goodu {e : Env} {s : Srv} {u : Ux} (g : GoodU s u) (conn now : Nat) (q : Req) :
    GoodU (onFileReady e s conn now q).1 (uxFold u (onFileReady e s conn now q).2) := by
  unfold onFileReady
  split
  · goodu_quiet g
  · split
    · dsimp only
      split
      · -- accepted: the observer and the server start afresh
        simp only [uxFold, List.foldl_cons, List.foldl_nil, uxStep, Srv.send]
        refine ⟨rfl, ?_, ?_⟩
        · intro _ _; exact ⟨rfl, rfl, by simp [chk]⟩
        · intro h; simp at h
      · -- refused: no receiver, whatever state the server is in
        repeat' split
        all_goals
          simp only [uxFold, List.foldl_cons, List.foldl_nil, uxStep, Srv.send]
          refine ⟨rfl, ?_, ?_⟩ <;> intro _ hr <;> simp at hr
    · exact g

/-- case split through `if`s, `match`es and the `let`s in between -/
macro "split_all" : tactic => `(tactic| repeat' (first | split | (dsimp only; split)))

/-- handlers of the download direction never touch the upload bookkeeping while an upload is in progress -/
theorem onAck_goodu {e : Env} {s : Srv} {u : Ux} (g : GoodU s u) (conn now : Nat) (q : Req) :
    GoodU (onAck e s conn now q).1 (uxFold u (onAck e s conn now q).2) := by
  unfold onAck
  split_all
  all_goals goodu_quiet g

theorem onCallSel_goodu {e : Env} {s : Srv} {u : Ux} (g : GoodU s u) (conn now : Nat) (q : Req) :
    GoodU (onCallSel e s conn now q).1 (uxFold u (onCallSel e s conn now q).2) := by
  unfold onCallSel
  split_all
  all_goals first
    | goodu_quiet g
    | (simp only [uxFold, List.foldl_cons, List.foldl_nil, uxStep, Srv.send, List.foldl_append]
       split <;> simp only [List.foldl_cons, List.foldl_nil, uxStep] <;>
         first | exact GoodU.of_noup (by simp_all [NoUp]) (GoodU.okk g) | exact GoodU.congr g rfl rfl rfl rfl rfl rfl rfl)

theorem runTask_goodu {e : Env} {s : Srv} {u : Ux} (g : GoodU s u) (conn now : Nat) :
    GoodU (runTask e s conn now).1 (uxFold u (runTask e s conn now).2) := by
  unfold runTask pumpStep
  split_all
  all_goals goodu_quiet g

end Iec.FileSrv

namespace Iec.FileSrv

macro "no_fin" : tactic =>
  `(tactic| first
    | (intro hc; simp [Srv.send] at hc; done)
    | (intro hc; dsimp only at hc; split at hc <;> simp [Srv.send] at hc))

theorem onFileReady_nf (e : Env) (s : Srv) (conn now : Nat) (q : Req) : Out.finished 0 ∉ (onFileReady e s conn now q).2 := by
  unfold onFileReady; split_all
  all_goals no_fin
theorem onSectionReady_nf (s : Srv) (conn now : Nat) (q : Req) : Out.finished 0 ∉ (onSectionReady s conn now q).2 := by
  unfold onSectionReady; split_all
  all_goals no_fin
theorem onSegment_nf (s : Srv) (now : Nat) (q : Req) : Out.finished 0 ∉ (onSegment s now q).2 := by
  unfold onSegment; split_all
  all_goals no_fin
theorem onAck_nf (e : Env) (s : Srv) (conn now : Nat) (q : Req) : Out.finished 0 ∉ (onAck e s conn now q).2 := by
  unfold onAck; split_all
  all_goals no_fin
theorem onCallSel_nf (e : Env) (s : Srv) (conn now : Nat) (q : Req) : Out.finished 0 ∉ (onCallSel e s conn now q).2 := by
  unfold onCallSel; split_all
  all_goals no_fin
theorem runTask_nf (e : Env) (s : Srv) (conn now : Nat) : Out.finished 0 ∉ (runTask e s conn now).2 := by
  unfold runTask pumpStep; split_all
  all_goals no_fin

/-- the invariant is inductive for every operation, and a reported success means: the octets delivered to the
receiver in positively acknowledged sections are as many as the master announced -/
theorem step_goodu {e : Env} {s : Srv} {u : Ux} (g : GoodU s u) (op : Op) :
    GoodU (step e s op).1 (uxFold u (step e s op).2) ∧
    (Out.finished 0 ∈ (step e s op).2 → u.acked.length = u.lof) := by
  cases op with
  | task conn now => exact ⟨runTask_goodu g conn now, fun h => absurd h (runTask_nf e s conn now)⟩
  | asdu conn now q =>
    simp only [step, handleAsdu]
    split
    · exact ⟨g, by intro h; simp at h⟩
    · have ge := g.expire now
      simp only [Option.getD_some]
      split
      · exact ⟨onFileReady_goodu ge conn now q, fun h => absurd h (onFileReady_nf e _ conn now q)⟩
      · split
        · exact ⟨onSectionReady_goodu ge conn now q, fun h => absurd h (onSectionReady_nf _ conn now q)⟩
        · split
          · exact ⟨onSegment_goodu ge now q, fun h => absurd h (onSegment_nf _ now q)⟩
          · split
            · have := onLastSeg_goodu ge conn now q
              exact ⟨this.1, fun h => (this.2 h).1⟩
            · split
              · exact ⟨onAck_goodu ge conn now q, fun h => absurd h (onAck_nf e _ conn now q)⟩
              · split
                · exact ⟨onCallSel_goodu ge conn now q, fun h => absurd h (onCallSel_nf e _ conn now q)⟩
                · exact ⟨ge, by intro h; simp at h⟩

/-- at every `finished(SUCCESS)` in the trace the observer has seen as many acknowledged octets as were
announced, and every segment so far was delivered at the right offset -/
def SafeUp : Ux → List Out → Prop
  | _, [] => True
  | u, o :: os => (o = Out.finished 0 → u.acked.length = u.lof ∧ u.ok = true) ∧ SafeUp (uxStep u o) os

theorem safeUp_append : ∀ (a b : List Out) (u : Ux), SafeUp u (a ++ b) ↔ SafeUp u a ∧ SafeUp (uxFold u a) b := by
  intro a
  induction a with
  | nil => intro b u; simp [SafeUp, uxFold]
  | cons o os ih => intro b u; simp [SafeUp, uxFold, ih, and_assoc]

/-- a LAST SECTION that is answered with success produces exactly: positive file ACK, then `finished(SUCCESS)` -/
theorem onLastSeg_fin_shape (s : Srv) (conn now : Nat) (q : Req) (h : Out.finished 0 ∈ (onLastSeg s conn now q).2) :
    ∃ nos, (onLastSeg s conn now q).2 = [s.send conn q.oa (.ack nos 1), Out.finished 0] := by
  unfold onLastSeg at h ⊢
  cases hq : q.obj with
  | none => simp [hq] at h
  | some b =>
    cases b with
    | lastSeg ioa nof nos lsq chs =>
      simp only [hq] at h ⊢
      by_cases h1 : s.st = .receiveSection
      · by_cases h3 : lsq = 3
        · simp only [h1, h3, if_true] at h
          split at h <;> simp [Srv.send] at h
        · by_cases h2 : lsq = 2
          · subst h2
            simp [h1] at h
          · simp [h1, h3, h2] at h
      · by_cases h2 : s.st = .waitSectionReady
        · by_cases hl1 : lsq = 1
          · by_cases hc : (s.recvLen = s.expLen ∧ chs = s.fileChk) <;> by_cases hr : s.receiver = true <;>
              simp [h1, h2, hl1, hc, hr, Srv.send] at h ⊢
          · by_cases hl2 : lsq = 2
            · subst hl2
              simp [h1, h2] at h
            · simp [h1, h2, hl1, hl2] at h
        · simp [h1, h2] at h
    | fileReady _ _ _ _ => simp [hq] at h
    | sectionReady _ _ _ _ _ => simp [hq] at h
    | callSel _ _ _ _ => simp [hq] at h
    | ack _ _ _ _ => simp [hq] at h
    | segment _ _ _ _ => simp [hq] at h

/-- within one step a reported success is preceded only by the positive file ACK, which the observer ignores:
the verdict is taken on what was observed before the step -/
theorem step_safeUp {e : Env} {s : Srv} {u : Ux} (g : GoodU s u) (op : Op) : SafeUp u (step e s op).2 := by
  by_cases hf : Out.finished 0 ∈ (step e s op).2
  · have hlen := (step_goodu (e := e) g op).2 hf
    have hshape : ∃ o, (step e s op).2 = [o, Out.finished 0] ∧ uxStep u o = u := by
      cases op with
      | task conn now => exact absurd hf (runTask_nf e s conn now)
      | asdu conn now q =>
        simp only [step, handleAsdu] at hf ⊢
        split at hf
        · simp at hf
        · rename_i hr
          simp only [hr, if_false, Option.getD_some] at hf ⊢
          split at hf
          · exact absurd hf (onFileReady_nf e _ conn now q)
          · split at hf
            · exact absurd hf (onSectionReady_nf _ conn now q)
            · split at hf
              · exact absurd hf (onSegment_nf _ now q)
              · split at hf
                · rename_i h1 h2 h3 h4
                  obtain ⟨nos, hs⟩ := onLastSeg_fin_shape _ conn now q hf
                  simp only [h1, h2, h3, h4, if_false, if_true]
                  exact ⟨_, hs, rfl⟩
                · split at hf
                  · exact absurd hf (onAck_nf e _ conn now q)
                  · split at hf
                    · exact absurd hf (onCallSel_nf e _ conn now q)
                    · simp at hf
    obtain ⟨o, ho, hu⟩ := hshape
    rw [ho]
    refine ⟨fun h => ?_, ?_, trivial⟩
    · rw [h] at hu; exact ⟨hlen, g.okk⟩
    · intro _; rw [hu]; exact ⟨hlen, g.okk⟩
  · clear g
    generalize (step e s op).2 = outs at hf
    induction outs generalizing u with
    | nil => trivial
    | cons o os ih => exact ⟨fun ho => absurd (by simp [ho]) hf, ih (fun h => hf (by simp [h]))⟩

theorem run_safeUp {e : Env} : ∀ (ops : List Op) (s : Srv) (u : Ux), GoodU s u → SafeUp u (run e s ops).2 := by
  intro ops
  induction ops with
  | nil => intro s u _; trivial
  | cons op ops ih =>
    intro s u g
    rw [run_cons, safeUp_append]
    exact ⟨step_safeUp g op, ih _ _ (step_goodu g op).1⟩

end Iec.FileSrv

namespace Iec.FileSrv

/-! ### the procedure-following master (upload) -/

structure UpId where
  ca : Nat
  ioa : Nat
  nof : Nat
  oa : Nat

def uFileReady (i : UpId) (lof : Nat) : Req :=
  { tid := 120, cot := cotFile, neg := false, ca := i.ca, oa := i.oa, obj := some (.fileReady i.ioa i.nof lof 0) }
def uSectionReady (i : UpId) (nos los : Nat) : Req :=
  { tid := 121, cot := cotFile, neg := false, ca := i.ca, oa := i.oa, obj := some (.sectionReady i.ioa i.nof nos los 0) }
def uSegment (i : UpId) (nos : Nat) (d : List Nat) : Req :=
  { tid := 125, cot := cotFile, neg := false, ca := i.ca, oa := i.oa, obj := some (.segment i.ioa i.nof nos d) }
def uLast (i : UpId) (nos lsq chs : Nat) : Req :=
  { tid := 123, cot := cotFile, neg := false, ca := i.ca, oa := i.oa, obj := some (.lastSeg i.ioa i.nof nos lsq chs) }

/-- the receiver callbacks for the segments of one section, `off` octets of it already delivered -/
def segRecvs (n : Nat) : Nat → List (List Nat) → List Out
  | _, [] => []
  | off, d :: ds => Out.segRecv n off d :: segRecvs n (off + d.length) ds

/-- requests for the sections `secs` (each a list of segments), the first named `n` -/
def upSecOps (i : UpId) (conn now : Nat) : Nat → List (List (List Nat)) → List Op
  | _, [] => []
  | n, segs :: rest =>
    Op.asdu conn now (uSectionReady i n segs.flatten.length) ::
      (segs.map (fun d => Op.asdu conn now (uSegment i n d)) ++
        (Op.asdu conn now (uLast i n 3 (chk segs.flatten)) :: upSecOps i conn now (n + 1) rest))

def upSecOut (i : UpId) (conn : Nat) : Nat → List (List (List Nat)) → List Out
  | _, [] => []
  | n, segs :: rest =>
    Out.send conn i.oa i.ca i.ioa i.nof (.callSection n) ::
      (segRecvs n 0 segs ++ (Out.send conn i.oa i.ca i.ioa i.nof (.ack n 3) :: upSecOut i conn (n + 1) rest))

/-- facts that stay true during an upload at (virtual) time `now` -/
structure Up (s : Srv) (i : UpId) (now : Nat) : Prop where
  rcv : s.receiver = true
  ca : s.ca = i.ca
  ioa : s.ioa = i.ioa
  nof : s.nof = i.nof
  last : s.lastSend = now

theorem segment_step (e : Env) (i : UpId) (conn now n : Nat) (d : List Nat) (s : Srv) (hu : Up s i now)
    (hst : s.st = .receiveSection) :
    step e s (Op.asdu conn now (uSegment i n d)) =
      ({ s with secOff := s.secOff + d.length, secChk := (s.secChk + chk d) % 256, lastSend := now },
       [Out.segRecv n s.secOff d]) := by
  simp [step, handleAsdu, uSegment, no_expiry s now hu.last, onSegment, hst, hu.rcv]

theorem segments_run (e : Env) (i : UpId) (conn now n : Nat) : ∀ (segs : List (List Nat)) (s : Srv),
    Up s i now → s.st = .receiveSection → s.secChk < 256 →
    ∃ s', run e s (segs.map (fun d => Op.asdu conn now (uSegment i n d))) = (s', segRecvs n s.secOff segs) ∧
      Up s' i now ∧ s'.st = .receiveSection ∧ s'.secOff = s.secOff + segs.flatten.length ∧
      s'.secChk = (s.secChk + chk segs.flatten) % 256 ∧ s'.secSize = s.secSize ∧ s'.recvLen = s.recvLen ∧
      s'.fileChk = s.fileChk ∧ s'.expLen = s.expLen ∧ s'.secNo = s.secNo := by
  intro segs
  induction segs with
  | nil =>
    intro s hu hst hc
    refine ⟨s, rfl, hu, hst, by simp, ?_, rfl, rfl, rfl, rfl, rfl⟩
    simp [chk]; omega
  | cons d ds ih =>
    intro s hu hst hc
    let s1 : Srv := { s with secOff := s.secOff + d.length, secChk := (s.secChk + chk d) % 256, lastSend := now }
    have h1 := segment_step e i conn now n d s hu hst
    have hu1 : Up s1 i now := ⟨hu.rcv, hu.ca, hu.ioa, hu.nof, rfl⟩
    obtain ⟨s2, h2, hu2, hst2, hoff2, hchk2, hsz2, hrl2, hfc2, hel2, hno2⟩ := ih s1 hu1 hst (by show _ % 256 < 256; omega)
    refine ⟨s2, ?_, hu2, hst2, ?_, ?_, hsz2, hrl2, hfc2, hel2, hno2⟩
    · simp only [List.map_cons, segRecvs]
      rw [run_cons, h1]; dsimp only
      rw [h2]; rfl
    · rw [hoff2]; show s.secOff + d.length + _ = _; simp; omega
    · rw [hchk2]; show ((s.secChk + chk d) % 256 + _) % 256 = _
      simp only [List.flatten_cons]
      rw [chk_append]; omega

end Iec.FileSrv

namespace Iec.FileSrv

theorem upSections_run (e : Env) (i : UpId) (conn now : Nat) : ∀ (secs : List (List (List Nat))) (n : Nat) (s : Srv),
    Up s i now → s.st = .waitSectionReady → s.fileChk < 256 →
    ∃ s', run e s (upSecOps i conn now n secs) = (s', upSecOut i conn n secs) ∧
      Up s' i now ∧ s'.st = .waitSectionReady ∧ s'.expLen = s.expLen ∧
      s'.recvLen = s.recvLen + (secs.map List.flatten).flatten.length ∧
      s'.fileChk = (s.fileChk + chk (secs.map List.flatten).flatten) % 256 := by
  intro secs
  induction secs with
  | nil =>
    intro n s hu hst hc
    refine ⟨s, rfl, hu, hst, rfl, by simp, ?_⟩
    simp [chk]; omega
  | cons segs rest ih =>
    intro n s hu hst hc
    -- SECTION READY
    let s1 : Srv := { s with secNo := n, secOff := 0, secChk := 0, secSize := segs.flatten.length, lastSend := now,
                             st := .receiveSection }
    have h1 : step e s (Op.asdu conn now (uSectionReady i n segs.flatten.length)) =
        (s1, [Out.send conn i.oa i.ca i.ioa i.nof (.callSection n)]) := by
      simp [step, handleAsdu, uSectionReady, no_expiry s now hu.last, onSectionReady, hst, Srv.send, hu.ca, hu.ioa, hu.nof, s1]
    have hu1 : Up s1 i now := ⟨hu.rcv, hu.ca, hu.ioa, hu.nof, rfl⟩
    -- segments
    obtain ⟨s2, h2, hu2, hst2, hoff2, hchk2, hsz2, hrl2, hfc2, hel2, _⟩ :=
      segments_run e i conn now n segs s1 hu1 rfl (by show (0 : Nat) < 256; omega)
    have hoff2' : s2.secOff = segs.flatten.length := by rw [hoff2]; show 0 + _ = _; omega
    have hchk2' : s2.secChk = chk segs.flatten := by
      rw [hchk2]; show (0 + _) % 256 = _; have := chk_lt segs.flatten; omega
    have hsz2' : s2.secSize = segs.flatten.length := hsz2
    -- LAST SEGMENT: complete and unchanged -> positive section ACK
    let s3 : Srv := { s2 with recvLen := s2.recvLen + s2.secSize, fileChk := (s2.fileChk + s2.secChk) % 256, lastSend := now,
                              st := .waitSectionReady }
    have h3 : step e s2 (Op.asdu conn now (uLast i n 3 (chk segs.flatten))) =
        (s3, [Out.send conn i.oa i.ca i.ioa i.nof (.ack n 3)]) := by
      simp [step, handleAsdu, uLast, no_expiry s2 now hu2.last, onLastSeg, hst2, hoff2', hsz2', hchk2', Srv.send,
        hu2.ca, hu2.ioa, hu2.nof, s3]
    have hu3 : Up s3 i now := ⟨hu2.rcv, hu2.ca, hu2.ioa, hu2.nof, rfl⟩
    obtain ⟨s4, h4, hu4, hst4, hel4, hrl4, hfc4⟩ := ih (n + 1) s3 hu3 rfl (by show _ % 256 < 256; omega)
    refine ⟨s4, ?_, hu4, hst4, ?_, ?_, ?_⟩
    · simp only [upSecOps, upSecOut]
      rw [run_cons, h1]; dsimp only
      rw [run_append, h2]; dsimp only
      rw [run_cons, h3]; dsimp only
      rw [h4]
      simp [s1]
    · rw [hel4]; show s2.expLen = _; rw [hel2]
    · rw [hrl4]; show s2.recvLen + s2.secSize + _ = _; rw [hrl2, hsz2']; show s.recvLen + _ + _ = _
      simp; omega
    · rw [hfc4]; show ((s2.fileChk + s2.secChk) % 256 + _) % 256 = _
      rw [hfc2, hchk2']; show ((s.fileChk + _) % 256 + _) % 256 = _
      simp only [List.map_cons, List.flatten_cons]
      rw [chk_append]; omega

/-- a procedure-following master sending a file of the sections `secs` (each cut into segments any way it
likes), announced with its true length -/
def uploadOps (i : UpId) (conn now : Nat) (secs : List (List (List Nat))) : List Op :=
  Op.asdu conn now (uFileReady i (secs.map List.flatten).flatten.length) ::
    (upSecOps i conn now 1 secs ++ [Op.asdu conn now (uLast i secs.length 1 (chk (secs.map List.flatten).flatten))])

def uploadOut (i : UpId) (conn : Nat) (secs : List (List (List Nat))) : List Out :=
  Out.readyCb i.ca i.ioa i.nof (secs.map List.flatten).flatten.length :: Out.send conn i.oa i.ca i.ioa i.nof .callFile ::
    (upSecOut i conn 1 secs ++ [Out.send conn i.oa i.ca i.ioa i.nof (.ack secs.length 1), Out.finished 0])

/-- **upload, procedure-following master**: from ANY server state the receiver callback gets every segment, in
order, at offset = number of octets of the section delivered before it; every section and the file are
acknowledged positively; the receiver is told success. -/
theorem upload_run (e : Env) (i : UpId) (conn now : Nat) (secs : List (List (List Nat))) (s0 : Srv)
    (hr : e.hasReady = true) (ha : e.accept = true) :
    ∃ s', run e s0 (uploadOps i conn now secs) = (s', uploadOut i conn secs) ∧ s'.st = .idle := by
  let se : Srv := s0.expire now
  let s1 : Srv := { se with receiver := true, ca := i.ca, ioa := i.ioa, oa := i.oa, nof := i.nof, fileChk := 0,
                            expLen := (secs.map List.flatten).flatten.length, recvLen := 0, lastSend := now,
                            st := .waitSectionReady }
  have h1 : step e s0 (Op.asdu conn now (uFileReady i (secs.map List.flatten).flatten.length)) =
      (s1, [Out.readyCb i.ca i.ioa i.nof (secs.map List.flatten).flatten.length, Out.send conn i.oa i.ca i.ioa i.nof .callFile]) := by
    simp [step, handleAsdu, uFileReady, onFileReady, hr, ha, Srv.send, s1, se]
  have hu1 : Up s1 i now := ⟨rfl, rfl, rfl, rfl, rfl⟩
  obtain ⟨s2, h2, hu2, hst2, hel2, hrl2, hfc2⟩ := upSections_run e i conn now secs 1 s1 hu1 rfl (by show (0 : Nat) < 256; omega)
  have e1 : s1.recvLen = 0 := rfl
  have e2 : s1.expLen = (secs.map List.flatten).flatten.length := rfl
  have e3 : s1.fileChk = 0 := rfl
  have hrl : s2.recvLen = s2.expLen := by rw [hrl2, hel2, e1, e2]; omega
  have hfc : s2.fileChk = chk (secs.map List.flatten).flatten := by
    rw [hfc2, e3]; have := chk_lt (secs.map List.flatten).flatten; omega
  have h3 : step e s2 (Op.asdu conn now (uLast i secs.length 1 (chk (secs.map List.flatten).flatten))) =
      ({ s2 with lastSend := now, st := .idle }, [Out.send conn i.oa i.ca i.ioa i.nof (.ack secs.length 1), Out.finished 0]) := by
    simp [step, handleAsdu, uLast, no_expiry s2 now hu2.last, onLastSeg, hst2, hrl, hfc, Srv.send, hu2.ca, hu2.ioa, hu2.nof, hu2.rcv]
  refine ⟨{ s2 with lastSend := now, st := .idle }, ?_, rfl⟩
  unfold uploadOps uploadOut
  rw [run_cons, h1]; dsimp only
  rw [run_append, h2]; dsimp only
  rw [run_cons, h3]
  simp [run]

end Iec.FileSrv
