import Iec.Model.TimeTag
import Iec.Lemmas.Bits
/-
Helper lemmas for C19: each setter's effect on the octets, in `/`,`%` form.
-/
namespace Iec.TimeTag
open Iec.Bits

theorem bne_eq_bne_iff (a b c : Nat) : ((a != c) = (b != c)) ↔ (a = c ↔ b = c) := by
  by_cases h1 : a = c <;> by_cases h2 : b = c <;> simp [h1, h2]
  rw [bne_iff_ne.mpr h1, bne_iff_ne.mpr h2]

theorem beq_eq_beq_iff (a b c : Nat) : ((a == c) = (b == c)) ↔ (a = c ↔ b = c) := by
  by_cases h1 : a = c <;> by_cases h2 : b = c <;> simp [h1, h2]
  rw [beq_eq_false_iff_ne.mpr h1, beq_eq_false_iff_ne.mpr h2]

/-- Everything the public getters of a CP56Time2a can observe. -/
structure Fields where
  ms : Nat
  sec : Nat
  min : Nat
  iv : Bool
  sb : Bool
  hour : Nat
  su : Bool
  dow : Nat
  dom : Nat
  month : Nat
  year : Nat
  deriving DecidableEq, Repr

def Tag.fields (r : Tag) : Fields :=
  { ms := getMillisecond r, sec := getSecond r, min := getMinute r, iv := isInvalid r,
    sb := isSubstituted r, hour := getHour r, su := isSummerTime r, dow := getDayOfWeek r,
    dom := getDayOfMonth r, month := getMonth r, year := getYear r }

/-- the spare bits no getter shows (b3 bits 5-6, b5 bits 4-7, b6 bit 7) are part of
the record as well: setters must not disturb them -/
def Tag.spare (r : Tag) : Nat × Nat × Nat := (r.b3 / 32 % 4, r.b5 / 16, r.b6 / 128)

/-- a record is determined by its fields and spare bits -/
theorem Tag.ext_fields {r s : Tag} (hr : r.WF) (hs : s.WF)
    (hf : r.fields = s.fields) (hsp : r.spare = s.spare) : r = s := by
  obtain ⟨r0, r1, r2, r3, r4, r5, r6⟩ := r
  obtain ⟨s0, s1, s2, s3, s4, s5, s6⟩ := s
  simp only [Tag.WF] at hr hs
  obtain ⟨h0, h1, h2, h3, h4, h5, h6⟩ := hr
  obtain ⟨g0, g1, g2, g3, g4, g5, g6⟩ := hs
  simp only [Tag.fields, Tag.spare, getMillisecond, getSecond, getMinute, isInvalid, isSubstituted,
    getHour, isSummerTime, getDayOfWeek, getDayOfMonth, getMonth, getYear, Fields.mk.injEq,
    Prod.mk.injEq, and_63, and_31, and_15, and_127, and_80 h2, and_80 g2, and_40 h2, and_40 g2,
    and_80 h3, and_80 g3, and_e0 h4, and_e0 g4, shr5, bne_eq_bne_iff, beq_eq_beq_iff] at hf hsp
  simp only [Tag.mk.injEq]
  omega

/-- the 16-bit field of the record -/
def ms16 (r : Tag) : Nat := r.b0 + r.b1 * 256

macro "tag_setter" : tactic => `(tactic| (
  simp (disch := omega) only [Tag.WF, Tag.fields, Tag.spare, getMillisecond, getSecond, getMinute,
    isInvalid, isSubstituted, getHour, isSummerTime, getDayOfWeek, getDayOfMonth, getMonth, getYear,
    setMillisecond, setMillisecond32, setSecond, setMinute, setInvalid, setSubstituted, setHour,
    setSummerTime, setDayOfWeek, setDayOfMonth, setMonth, setYear, u8,
    and_255, and_127, and_63, and_31, and_15, and_7, and_c0, and_80, and_40, and_bf, or_80, or_40,
    and_e0, and_f0, shl5, shr5, or_64, or_32, or_32', Fields.mk.injEq, Prod.mk.injEq];
  try simp only [bne_eq_bne_iff, beq_eq_beq_iff, true_and, and_true]))

theorem recompose16 (x : Nat) (h : x < 65536) :
    x % 256 % 256 + x / 256 % 256 % 256 * 256 = x := by omega

end Iec.TimeTag
