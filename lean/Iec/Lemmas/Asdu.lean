import Iec.Model.Asdu
import Iec.Lemmas.Layout
/-
ASDU-level lemmas: what an accepted addition appends, and reading element i back
from a payload that is a concatenation of equal-sized element encodings.
-/
namespace Iec.Asdu
open Iec.Layout

/-- fields without a variable-length part have size `fixedSize` -/
def noSeg : List FieldSpec → Bool
  | [] => true
  | .seg :: _ => false
  | _ :: fs => noSeg fs

abbrev NoSeg (fs : List FieldSpec) : Prop := noSeg fs = true

theorem fieldsSize_fixed (fs : List FieldSpec) (vs : List Nat) (h : NoSeg fs) (hw : WFVals fs vs) :
    fieldsSize fs vs = fixedSize fs := by
  induction fs generalizing vs with
  | nil => cases vs <;> simp [fieldsSize, fixedSize]
  | cons f fs ih =>
    cases f with
    | le n => cases vs with
      | nil => simp [WFVals] at hw
      | cons v vs => simp only [WFVals] at hw; simp [fieldsSize, fixedSize, ih vs (show NoSeg fs from h) hw.2]
    | siq => match vs, hw with
      | v :: q :: vs, hw => simp only [WFVals] at hw; simp [fieldsSize, fixedSize, ih vs (show NoSeg fs from h) hw.2.2.2]
    | diq => match vs, hw with
      | v :: q :: vs, hw => simp only [WFVals] at hw; simp [fieldsSize, fixedSize, ih vs (show NoSeg fs from h) hw.2.2.2]
    | seg => exact Bool.noConfusion (show false = true from h)

theorem fixedSize_le (fs : List FieldSpec) (vs : List Nat) (hw : WFVals fs vs) :
    fixedSize fs ≤ fieldsSize fs vs := by
  induction fs generalizing vs with
  | nil => simp [fixedSize]
  | cons f fs ih =>
    cases f with
    | le n => cases vs with
      | nil => simp [WFVals] at hw
      | cons v vs => simp only [WFVals] at hw; have := ih vs hw.2; simp only [fieldsSize, fixedSize]; omega
    | siq => match vs, hw with
      | v :: q :: vs, hw => simp only [WFVals] at hw; have := ih vs hw.2.2.2; simp only [fieldsSize, fixedSize]; omega
    | diq => match vs, hw with
      | v :: q :: vs, hw => simp only [WFVals] at hw; have := ih vs hw.2.2.2; simp only [fieldsSize, fixedSize]; omega
    | seg => match vs, hw with
      | los :: d :: vs, hw => simp only [WFVals] at hw; have := ih vs hw.2.2; simp only [fieldsSize, fixedSize]; omega

/-- the octets of one element: optional object address, then the fields -/
def chunk (p : Params) (e : TypeEntry) (withIoa : Bool) (x : Nat × List Nat) : List Nat :=
  (if withIoa then leBytes p.sizeOfIOA x.1 else []) ++ (encodeFields e.fields x.2).getD []

theorem chunk_length (p : Params) (e : TypeEntry) (w : Bool) (x : Nat × List Nat)
    (hn : NoSeg e.fields) (hw : WFVals e.fields x.2) :
    (chunk p e w x).length = (if w then p.sizeOfIOA else 0) + fixedSize e.fields := by
  obtain ⟨bs, he, hl, _⟩ := encodeFields_wf e.fields x.2 hw
  unfold chunk
  rw [he, Option.getD_some, List.length_append, hl, fieldsSize_fixed _ _ hn hw]
  cases w <;> simp [leBytes_length]

/-- dropping `i` equal-sized chunks from a concatenation -/
theorem drop_flatten_eq {α : Type} (f : α → List Nat) (k : Nat) (l : List α)
    (h : ∀ x ∈ l, (f x).length = k) (i : Nat) :
    ((l.map f).flatten).drop (i * k) = ((l.drop i).map f).flatten := by
  induction l generalizing i with
  | nil => simp
  | cons x xs ih =>
    cases i with
    | zero => simp
    | succ i =>
      have hx : (f x).length = k := h x (by simp)
      simp only [List.map_cons, List.flatten_cons, List.drop_succ_cons]
      rw [Nat.succ_mul, Nat.add_comm, ← List.drop_drop]
      rw [List.drop_left' hx]
      exact ih (fun y hy => h y (by simp [hy])) i

/-- decoding one chunk (with anything behind it) gives back the element -/
theorem decodeObj_chunk (p : Params) (e : TypeEntry) (x : Nat × List Nat) (w : Bool)
    (hw : WFVals e.fields x.2) (hio : x.1 < 256 ^ p.sizeOfIOA) (pre rest : List Nat) :
    decodeObj p e (pre ++ chunk p e w x ++ rest) pre.length w = some (if w then x.1 else 0, x.2) := by
  obtain ⟨bs, he, hl, _⟩ := encodeFields_wf e.fields x.2 hw
  have hfx := fixedSize_le e.fields x.2 hw
  unfold decodeObj chunk
  rw [he, Option.getD_some]
  have hd : (pre ++ ((if w = true then leBytes p.sizeOfIOA x.1 else []) ++ bs) ++ rest).drop pre.length
      = (if w = true then leBytes p.sizeOfIOA x.1 else []) ++ bs ++ rest := by
    rw [List.append_assoc]; exact List.drop_left
  have hl2 : (leBytes p.sizeOfIOA x.1).length = p.sizeOfIOA := leBytes_length _ _
  have hguard : ¬ (pre.length + (if w = true then p.sizeOfIOA else 0) + fixedSize e.fields >
      (pre ++ ((if w = true then leBytes p.sizeOfIOA x.1 else []) ++ bs) ++ rest).length) := by
    simp only [List.length_append]
    cases w <;> simp [hl2] <;> omega
  rw [if_neg hguard]
  simp only [hd]
  cases w with
  | false =>
    simp only [Bool.false_eq_true, if_false, List.nil_append]
    rw [decode_encode_fields e.fields x.2 hw bs he rest]
    rfl
  | true =>
    simp only [if_true]
    have hdd : (leBytes p.sizeOfIOA x.1 ++ bs ++ rest).drop p.sizeOfIOA = bs ++ rest := by
      rw [List.append_assoc]; exact List.drop_left' hl2
    have htt : (leBytes p.sizeOfIOA x.1 ++ bs ++ rest).take p.sizeOfIOA = leBytes p.sizeOfIOA x.1 := by
      rw [List.append_assoc]; exact List.take_left' hl2
    rw [hdd, decode_encode_fields e.fields x.2 hw bs he rest]
    simp only [Option.map_some, parseIOA, htt, leVal_leBytes _ _ hio]

theorem vsq_inc : ∀ b, b < 256 → (b &&& 0x7f) < 127 →
    (((b + 1) % 256) &&& 0x7f = (b &&& 0x7f) + 1) ∧ (((b + 1) % 256) &&& 0x80 = b &&& 0x80) := by
  decide +kernel

/-- whether the encoder is called with `isSequence = true` for the next addition -/
def Asdu.nextSeq (a : Asdu) : Bool := a.count != 0 && a.isSequence

theorem encodeObj_some (a : Asdu) (e : TypeEntry) (sq : Bool) (ioa : Nat) (vals bs : List Nat)
    (h : encodeObj a e sq ioa vals = some bs) :
    ∃ fb, encodeFields e.fields vals = some fb ∧
      bs = (if sq then [] else leBytes a.p.sizeOfIOA ioa) ++ fb ∧
      ¬ (a.spaceLeft < (guardSize a e sq vals : Int)) := by
  unfold encodeObj at h
  split at h
  · simp at h
  · split at h
    · simp at h
    · rename_i _ hsp
      simp only [Option.map_eq_some_iff] at h
      obtain ⟨fb, hfb, rfl⟩ := h
      exact ⟨fb, hfb, rfl, hsp⟩

theorem add_accept_shape (a : Asdu) (e : TypeEntry) (ioa : Nat) (vals : List Nat) (a' : Asdu)
    (h : a.add e ioa vals = (a', true)) :
    ∃ bs, encodeObj a e a.nextSeq ioa vals = some bs ∧ a'.p = a.p ∧
      a'.bytes = setByte ((if a.count = 0 then setByte a.bytes 0 (e.typeId % 256) else a.bytes) ++ bs) 1
        ((a.byte 1 + 1) % 256) ∧
      a.count < 127 ∧ (a.count ≠ 0 → a.typeId = e.typeId % 256) ∧
      (a.count ≠ 0 → a.isSequence = true → ioa = parseIOA a.p.sizeOfIOA a.payload + a.count) := by
  unfold Asdu.add at h
  simp only at h
  split at h
  · rename_i bs hres
    simp only [Prod.mk.injEq, and_true] at h
    subst h
    by_cases h0 : a.count = 0
    · simp only [h0, if_true] at hres
      refine ⟨bs, ?_, rfl, by simp [h0], by omega, by simp [h0], by simp [h0]⟩
      simp [Asdu.nextSeq, h0, hres]
    · simp only [h0, if_false] at hres
      by_cases h1 : a.count < 0x7f
      · simp only [h1, if_true] at hres
        by_cases h2 : a.typeId = e.typeId % 256
        · simp only [h2, if_true] at hres
          by_cases h3 : a.isSequence = true
          · simp only [h3, if_true] at hres
            by_cases h4 : ioa = parseIOA a.p.sizeOfIOA a.payload + a.count
            · simp only [h4, if_true] at hres
              refine ⟨bs, ?_, rfl, by simp [h0], h1, fun _ => h2, fun _ _ => h4⟩
              have : a.nextSeq = true := by simp [Asdu.nextSeq, h3, h0]
              rw [this, h4]; exact hres
            · simp [h4] at hres
          · simp only [h3] at hres
            refine ⟨bs, ?_, rfl, by simp [h0], h1, fun _ => h2, fun _ h => absurd h h3⟩
            have : a.nextSeq = false := by simp [Asdu.nextSeq, h3]
            rw [this]; simpa using hres
        · simp [h2] at hres
      · simp [h1] at hres
  · simp at h


/-- payload of an ASDU holding `elems` of type `e` -/
def payloadOf (p : Params) (e : TypeEntry) (sq : Bool) (elems : List (Nat × List Nat)) : List Nat :=
  if sq then
    match elems with
    | [] => []
    | x :: _ => leBytes p.sizeOfIOA x.1 ++ (elems.map (chunk p e false)).flatten
  else (elems.map (chunk p e true)).flatten

/-- `a` is an ASDU under construction that holds exactly `elems` -/
structure Built (a : Asdu) (e : TypeEntry) (elems : List (Nat × List Nat)) : Prop where
  hdr4 : 4 ≤ a.p.hdrLen
  len : a.p.hdrLen ≤ a.bytes.length
  oct : ∀ b ∈ a.bytes, b < 256
  count : a.count = elems.length
  typ : elems ≠ [] → a.typeId = e.typeId % 256
  pay : a.payload = payloadOf a.p e a.isSequence elems
  wf : ∀ x ∈ elems, WFVals e.fields x.2 ∧ x.1 < 256 ^ a.p.sizeOfIOA
  consec : a.isSequence = true → ∀ i (h : i < elems.length), (elems[i]).1 = (elems.headD (0, [])).1 + i

theorem payloadOf_snoc (p : Params) (e : TypeEntry) (sq : Bool) (elems : List (Nat × List Nat))
    (x : Nat × List Nat) :
    payloadOf p e sq (elems ++ [x]) =
      payloadOf p e sq elems ++ chunk p e (!(sq && !elems.isEmpty)) x := by
  unfold payloadOf
  cases sq with
  | false => simp
  | true =>
    cases elems with
    | nil => simp [chunk]
    | cons y ys => simp


theorem getD_set_same (l : List Nat) (i v : Nat) (h : i < l.length) : (l.set i v).getD i 0 = v := by
  simp [List.getD_eq_getElem?_getD, h]

theorem getD_set_ne (l : List Nat) (i j v : Nat) (h : i ≠ j) : (l.set i v).getD j 0 = l.getD j 0 := by
  simp [List.getD_eq_getElem?_getD, List.getElem?_set_ne h]

theorem getD_append_lt (l m : List Nat) (i : Nat) (h : i < l.length) : (l ++ m).getD i 0 = l.getD i 0 := by
  simp [List.getD_eq_getElem?_getD, List.getElem?_append_left h]

theorem mem_set_lt (l : List Nat) (i v : Nat) (hv : v < 256) (h : ∀ b ∈ l, b < 256) :
    ∀ b ∈ l.set i v, b < 256 := by
  intro b hb
  rcases List.mem_or_eq_of_mem_set hb with hb | rfl
  · exact h b hb
  · exact hv

theorem byte_lt (a : Asdu) (i : Nat) (h : ∀ b ∈ a.bytes, b < 256) : a.byte i < 256 := by
  unfold Asdu.byte
  rw [List.getD_eq_getElem?_getD]
  cases hg : a.bytes[i]? with
  | none => simp
  | some v => simp; exact h v (List.mem_of_getElem? hg)

theorem parseIOA_leBytes (n v : Nat) (h : v < 256 ^ n) (rest : List Nat) :
    parseIOA n (leBytes n v ++ rest) = v := by
  unfold parseIOA
  rw [List.take_left' (leBytes_length n v), leVal_leBytes n v h]

theorem built_add (a : Asdu) (e : TypeEntry) (elems : List (Nat × List Nat)) (hb : Built a e elems)
    (ioa : Nat) (vals : List Nat) (hw : WFVals e.fields vals) (hio : ioa < 256 ^ a.p.sizeOfIOA)
    (a' : Asdu) (h : a.add e ioa vals = (a', true)) :
    Built a' e (elems ++ [(ioa, vals)]) ∧ a'.p = a.p ∧ a'.isSequence = a.isSequence ∧
    a'.bytes.length ≤ a.p.maxSize ∧
    (∀ i, 2 ≤ i → i < a.p.hdrLen → a'.byte i = a.byte i) := by
  obtain ⟨bs, henc, hp, hbytes, hc127, htyp, hcons⟩ := add_accept_shape a e ioa vals a' h
  obtain ⟨fb, hfb, hbs, hspace⟩ := encodeObj_some a e a.nextSeq ioa vals bs henc
  obtain ⟨fb', hfb', hfl, hflt⟩ := encodeFields_wf e.fields vals hw
  rw [hfb] at hfb'; cases hfb'
  have h4 := hb.hdr4
  have hlen := hb.len
  -- the new byte string
  obtain ⟨B, hB⟩ : ∃ B, B = (if a.count = 0 then setByte a.bytes 0 (e.typeId % 256) else a.bytes) :=
    ⟨_, rfl⟩
  rw [← hB] at hbytes
  have hBlen : B.length = a.bytes.length := by
    rw [hB]; split <;> simp [setByte]
  have hBdrop : B.drop a.p.hdrLen = a.payload := by
    rw [hB]; simp only [Asdu.payload]; split
    · exact List.drop_set_of_lt (by omega)
    · rfl
  have hb1 : a.byte 1 < 256 := byte_lt a 1 hb.oct
  have hcnt : (a.byte 1 &&& 0x7f) < 127 := hc127
  have hinc := vsq_inc (a.byte 1) hb1 hcnt
  have hbyte1 : a'.byte 1 = (a.byte 1 + 1) % 256 := by
    unfold Asdu.byte; rw [hbytes]
    exact getD_set_same _ 1 _ (by simp [hBlen]; omega)
  have hcount' : a'.count = a.count + 1 := by
    unfold Asdu.count; rw [hbyte1]; exact hinc.1
  have hseq' : a'.isSequence = a.isSequence := by
    unfold Asdu.isSequence; rw [hbyte1, hinc.2]
  have hbyteI : ∀ i, 2 ≤ i → i < a.p.hdrLen → a'.byte i = a.byte i := by
    intro i h2 hi
    unfold Asdu.byte; rw [hbytes]
    rw [show setByte (B ++ bs) 1 ((a.byte 1 + 1) % 256) = (B ++ bs).set 1 ((a.byte 1 + 1) % 256) from rfl]
    rw [getD_set_ne _ 1 i _ (by omega), getD_append_lt _ _ _ (by rw [hBlen]; omega)]
    rw [hB]; split
    · exact getD_set_ne _ 0 i _ (by omega)
    · rfl
  have hpay' : a'.payload = a.payload ++ bs := by
    unfold Asdu.payload; rw [hbytes, hp]
    rw [show setByte (B ++ bs) 1 ((a.byte 1 + 1) % 256) = (B ++ bs).set 1 ((a.byte 1 + 1) % 256) from rfl]
    rw [List.drop_set_of_lt (by omega), List.drop_append_of_le_length (by rw [hBlen]; exact hlen), hBdrop]
    rfl
  have hbs_lt : ∀ b ∈ bs, b < 256 := by
    intro b hbm; rw [hbs] at hbm
    rcases List.mem_append.mp hbm with hbm | hbm
    · split at hbm
      · simp at hbm
      · exact leBytes_lt _ _ b hbm
    · exact hflt b hbm
  have hnext : a.nextSeq = (a.isSequence && !elems.isEmpty) := by
    unfold Asdu.nextSeq
    rw [hb.count, Bool.and_comm]
    cases elems <;> simp
  have hchunk : bs = chunk a.p e (!(a.isSequence && !elems.isEmpty)) (ioa, vals) := by
    rw [hbs, hnext]; unfold chunk; rw [hfb]
    cases (a.isSequence && !elems.isEmpty) <;> simp
  have hsize : a'.bytes.length ≤ a.p.maxSize := by
    rw [hbytes]; simp only [setByte, List.length_set, List.length_append, hBlen]
    have hbl : bs.length = (if a.nextSeq then 0 else a.p.sizeOfIOA) + fieldsSize e.fields vals := by
      rw [hbs, List.length_append, hfl]; cases a.nextSeq <;> simp [leBytes_length]
    unfold Asdu.spaceLeft Asdu.payloadSize guardSize at hspace
    rw [hbl]
    cases hns : a.nextSeq <;> simp only [hns, Bool.false_eq_true, if_false, if_true] at hspace ⊢ <;> omega
  refine ⟨?_, hp, hseq', hsize, hbyteI⟩
  refine ⟨by rw [hp]; exact h4, ?_, ?_, ?_, ?_, ?_, ?_, ?_⟩
  · rw [hp, hbytes]; simp only [setByte, List.length_set, List.length_append, hBlen]; omega
  · rw [hbytes]
    apply mem_set_lt _ _ _ (by omega)
    intro b hbm
    rcases List.mem_append.mp hbm with hbm | hbm
    · rw [hB] at hbm; split at hbm
      · exact mem_set_lt _ _ _ (by omega) hb.oct b hbm
      · exact hb.oct b hbm
    · exact hbs_lt b hbm
  · rw [hcount', hb.count]; simp
  · intro _
    unfold Asdu.typeId Asdu.byte; rw [hbytes]
    rw [show setByte (B ++ bs) 1 ((a.byte 1 + 1) % 256) = (B ++ bs).set 1 ((a.byte 1 + 1) % 256) from rfl]
    rw [getD_set_ne _ 1 0 _ (by omega), getD_append_lt _ _ _ (by rw [hBlen]; omega)]
    rw [hB]; split
    · exact getD_set_same _ 0 _ (by omega)
    · rename_i hc0; exact htyp hc0
  · rw [hpay', hp, hseq', payloadOf_snoc, hb.pay, hchunk]
  · intro x hx
    rw [hp]
    rcases List.mem_append.mp hx with hx | hx
    · exact hb.wf x hx
    · simp only [List.mem_singleton] at hx; subst hx; exact ⟨hw, hio⟩
  · intro hs i hi
    rw [hseq'] at hs
    cases elems with
    | nil =>
      have : i = 0 := by simpa using hi
      subst this; simp
    | cons y ys =>
      by_cases hil : i < (y :: ys).length
      · have := hb.consec hs i hil
        simp only [List.cons_append, List.headD_cons] at this ⊢
        rw [show (y :: (ys ++ [(ioa, vals)]))[i] = ((y :: ys) ++ [(ioa, vals)])[i]'(by simpa using hi) from rfl]
        rw [List.getElem_append_left hil]
        exact this
      · have hie : i = (y :: ys).length := by
          simp only [List.length_append, List.length_cons, List.length_nil] at hi hil ⊢; omega
        subst hie
        rw [List.getElem_append_right (by simp)]
        simp only [Nat.sub_self, List.getElem_cons_zero]
        have hc0 : a.count ≠ 0 := by rw [hb.count]; simp
        have := hcons hc0 hs
        rw [this, hb.pay, hs, hb.count]
        simp only [payloadOf, if_true]
        rw [parseIOA_leBytes _ _ (hb.wf y (by simp)).2]
        simp


theorem length_flatten_eq {α : Type} (f : α → List Nat) (k : Nat) (l : List α)
    (h : ∀ x ∈ l, (f x).length = k) : ((l.map f).flatten).length = l.length * k := by
  induction l with
  | nil => simp
  | cons x xs ih =>
    simp only [List.map_cons, List.flatten_cons, List.length_append, List.length_cons]
    rw [h x (by simp), ih (fun y hy => h y (by simp [hy])), Nat.succ_mul]; omega

/-- a concatenation of equal-sized chunks, split at chunk `i` -/
theorem split_chunks (p : Params) (e : TypeEntry) (w : Bool) (elems : List (Nat × List Nat))
    (hn : NoSeg e.fields) (hw : ∀ x ∈ elems, WFVals e.fields x.2) (i : Nat) (hi : i < elems.length) :
    ∃ pre rest, (elems.map (chunk p e w)).flatten = pre ++ chunk p e w elems[i] ++ rest ∧
      pre.length = i * ((if w then p.sizeOfIOA else 0) + fixedSize e.fields) := by
  let k := (if w then p.sizeOfIOA else 0) + fixedSize e.fields
  have hk : ∀ x ∈ elems, (chunk p e w x).length = k := fun x hx => chunk_length p e w x hn (hw x hx)
  refine ⟨((elems.map (chunk p e w)).flatten).take (i * k), (((elems.drop (i + 1)).map (chunk p e w)).flatten), ?_, ?_⟩
  · have hd := drop_flatten_eq (chunk p e w) k elems hk i
    rw [List.drop_eq_getElem_cons hi] at hd
    simp only [List.map_cons, List.flatten_cons] at hd
    rw [List.append_assoc, ← hd, List.take_append_drop]
  · rw [List.length_take, length_flatten_eq _ k _ hk]
    exact Nat.min_eq_left (Nat.mul_le_mul_right k (Nat.le_of_lt hi))

theorem get_nonseq (p : Params) (e : TypeEntry) (elems : List (Nat × List Nat)) (hn : NoSeg e.fields)
    (hw : ∀ x ∈ elems, WFVals e.fields x.2 ∧ x.1 < 256 ^ p.sizeOfIOA) (i : Nat) (hi : i < elems.length) :
    decodeObj p e ((elems.map (chunk p e true)).flatten) (i * (p.sizeOfIOA + fixedSize e.fields)) true
      = some elems[i] := by
  obtain ⟨pre, rest, hsplit, hpl⟩ := split_chunks p e true elems hn (fun x hx => (hw x hx).1) i hi
  simp only [if_true] at hpl
  rw [hsplit, ← hpl]
  have h2 := decodeObj_chunk p e elems[i] true (hw _ (List.getElem_mem hi)).1 (hw _ (List.getElem_mem hi)).2 pre rest
  simpa using h2

theorem get_seq (p : Params) (e : TypeEntry) (elems : List (Nat × List Nat)) (hn : NoSeg e.fields)
    (hw : ∀ x ∈ elems, WFVals e.fields x.2 ∧ x.1 < 256 ^ p.sizeOfIOA) (ioa0 : Nat) (i : Nat)
    (hi : i < elems.length) :
    decodeObj p e (leBytes p.sizeOfIOA ioa0 ++ (elems.map (chunk p e false)).flatten)
      (p.sizeOfIOA + i * fixedSize e.fields) false = some (0, elems[i].2) := by
  obtain ⟨pre, rest, hsplit, hpl⟩ := split_chunks p e false elems hn (fun x hx => (hw x hx).1) i hi
  simp only [Bool.false_eq_true, if_false, Nat.zero_add] at hpl
  rw [hsplit]
  have hlen : (leBytes p.sizeOfIOA ioa0 ++ pre).length = p.sizeOfIOA + i * fixedSize e.fields := by
    simp [leBytes_length, hpl]
  rw [← hlen]
  have h2 := decodeObj_chunk p e elems[i] false (hw _ (List.getElem_mem hi)).1 (hw _ (List.getElem_mem hi)).2
    (leBytes p.sizeOfIOA ioa0 ++ pre) rest
  simp only [List.append_assoc] at h2 ⊢
  simpa using h2

theorem encodeFields_length (fs : List FieldSpec) (vs bs : List Nat) (h : encodeFields fs vs = some bs) :
    bs.length = fieldsSize fs vs ∧ ∀ b ∈ bs, b < 256 := by
  induction fs generalizing vs bs with
  | nil => cases vs with
    | nil => simp [encodeFields] at h; subst h; simp [fieldsSize]
    | cons => simp [encodeFields] at h
  | cons f fs ih =>
    cases f with
    | le n => cases vs with
      | nil => simp [encodeFields] at h
      | cons v vs =>
        simp only [encodeFields, Option.map_eq_some_iff] at h
        obtain ⟨tl, htl, rfl⟩ := h
        obtain ⟨l, lt⟩ := ih vs tl htl
        refine ⟨by simp [fieldsSize, leBytes_length, l], ?_⟩
        intro b hb
        rcases List.mem_append.mp hb with hb | hb
        · exact leBytes_lt n v b hb
        · exact lt b hb
    | siq => match vs, h with
      | [], h => simp [encodeFields] at h
      | [_], h => simp [encodeFields] at h
      | v :: q :: vs, h =>
        simp only [encodeFields, Option.map_eq_some_iff] at h
        obtain ⟨tl, htl, rfl⟩ := h
        obtain ⟨l, lt⟩ := ih vs tl htl
        refine ⟨by simp [fieldsSize, l]; omega, ?_⟩
        intro b hb
        rcases List.mem_cons.mp hb with rfl | hb
        · omega
        · exact lt b hb
    | diq => match vs, h with
      | [], h => simp [encodeFields] at h
      | [_], h => simp [encodeFields] at h
      | v :: q :: vs, h =>
        simp only [encodeFields, Option.map_eq_some_iff] at h
        obtain ⟨tl, htl, rfl⟩ := h
        obtain ⟨l, lt⟩ := ih vs tl htl
        refine ⟨by simp [fieldsSize, l]; omega, ?_⟩
        intro b hb
        rcases List.mem_cons.mp hb with rfl | hb
        · omega
        · exact lt b hb
    | seg => match vs, h with
      | [], h => simp [encodeFields] at h
      | [_], h => simp [encodeFields] at h
      | los :: d :: vs, h =>
        simp only [encodeFields, Option.map_eq_some_iff] at h
        obtain ⟨tl, htl, rfl⟩ := h
        obtain ⟨l, lt⟩ := ih vs tl htl
        refine ⟨by simp [fieldsSize, leBytes_length, l]; omega, ?_⟩
        intro b hb
        simp only [List.cons_append, List.mem_cons, List.mem_append] at hb
        rcases hb with rfl | hb | hb
        · omega
        · exact leBytes_lt los d b hb
        · exact lt b hb

/-- storage invariant of an ASDU under construction -/
structure Inv (a : Asdu) : Prop where
  legal : a.p.Legal
  len : a.p.hdrLen ≤ a.bytes.length
  fits : a.bytes.length ≤ 256
  oct : ∀ b ∈ a.bytes, b < 256

theorem Inv.hdr4 {a : Asdu} (h : Inv a) : 4 ≤ a.p.hdrLen := by
  obtain ⟨h1, h2, _⟩ := h.legal; unfold Params.hdrLen; omega

theorem Inv.hdr6 {a : Asdu} (h : Inv a) : a.p.hdrLen ≤ 6 := by
  obtain ⟨h1, h2, _⟩ := h.legal; unfold Params.hdrLen; omega

theorem add_refused (a : Asdu) (e : TypeEntry) (ioa : Nat) (vals : List Nat) (a' : Asdu)
    (h : a.add e ioa vals = (a', false)) : a' = a := by
  unfold Asdu.add at h
  simp only at h
  split at h
  · simp at h
  · simp only [Prod.mk.injEq, and_true] at h; exact h.symm

/-- what an accepted addition does, for arbitrary (not only well-formed) stored values -/
theorem add_accepted (a : Asdu) (hi : Inv a) (hm : a.p.maxSize ≤ 256) (e : TypeEntry) (ioa : Nat)
    (vals : List Nat) (a' : Asdu) (h : a.add e ioa vals = (a', true)) :
    ∃ fb, encodeFields e.fields vals = some fb ∧
      a'.payload = a.payload ++ ((if a.nextSeq then [] else leBytes a.p.sizeOfIOA ioa) ++ fb) ∧
      a'.bytes.length ≤ a.p.maxSize ∧ a'.count = a.count + 1 ∧ a'.count ≤ 127 ∧ a'.p = a.p ∧ Inv a' := by
  obtain ⟨bs, henc, hp, hbytes, hc127, htyp, hcons⟩ := add_accept_shape a e ioa vals a' h
  obtain ⟨fb, hfb, hbs, hspace⟩ := encodeObj_some a e a.nextSeq ioa vals bs henc
  obtain ⟨hfl, hflt⟩ := encodeFields_length e.fields vals fb hfb
  have h4 := hi.hdr4
  have hlen := hi.len
  obtain ⟨B, hB⟩ : ∃ B, B = (if a.count = 0 then setByte a.bytes 0 (e.typeId % 256) else a.bytes) :=
    ⟨_, rfl⟩
  rw [← hB] at hbytes
  have hBlen : B.length = a.bytes.length := by
    rw [hB]; split <;> simp [setByte]
  have hBdrop : B.drop a.p.hdrLen = a.payload := by
    rw [hB]; simp only [Asdu.payload]; split
    · exact List.drop_set_of_lt (by omega)
    · rfl
  have hb1 : a.byte 1 < 256 := byte_lt a 1 hi.oct
  have hinc := vsq_inc (a.byte 1) hb1 hc127
  have hbyte1 : a'.byte 1 = (a.byte 1 + 1) % 256 := by
    unfold Asdu.byte; rw [hbytes]
    exact getD_set_same _ 1 _ (by simp [hBlen]; omega)
  have hcount' : a'.count = a.count + 1 := by
    unfold Asdu.count; rw [hbyte1]; exact hinc.1
  have hpay' : a'.payload = a.payload ++ bs := by
    unfold Asdu.payload; rw [hbytes, hp]
    rw [show setByte (B ++ bs) 1 ((a.byte 1 + 1) % 256) = (B ++ bs).set 1 ((a.byte 1 + 1) % 256) from rfl]
    rw [List.drop_set_of_lt (by omega), List.drop_append_of_le_length (by rw [hBlen]; exact hlen), hBdrop]
    rfl
  have hbs_lt : ∀ b ∈ bs, b < 256 := by
    intro b hbm; rw [hbs] at hbm
    rcases List.mem_append.mp hbm with hbm | hbm
    · split at hbm
      · simp at hbm
      · exact leBytes_lt _ _ b hbm
    · exact hflt b hbm
  have hsize : a'.bytes.length ≤ a.p.maxSize := by
    rw [hbytes]; simp only [setByte, List.length_set, List.length_append, hBlen]
    have hbl : bs.length = (if a.nextSeq then 0 else a.p.sizeOfIOA) + fieldsSize e.fields vals := by
      rw [hbs, List.length_append, hfl]; cases a.nextSeq <;> simp [leBytes_length]
    unfold Asdu.spaceLeft Asdu.payloadSize guardSize at hspace
    rw [hbl]
    cases hns : a.nextSeq <;> simp only [hns, Bool.false_eq_true, if_false, if_true] at hspace ⊢ <;> omega
  refine ⟨fb, hfb, by rw [hpay', hbs], hsize, hcount', by omega, hp, ?_⟩
  refine ⟨by rw [hp]; exact hi.legal, ?_, by omega, ?_⟩
  · rw [hp, hbytes]; simp only [setByte, List.length_set, List.length_append, hBlen]; omega
  · rw [hbytes]
    apply mem_set_lt _ _ _ (by omega)
    intro b hbm
    rcases List.mem_append.mp hbm with hbm | hbm
    · rw [hB] at hbm; split at hbm
      · exact mem_set_lt _ _ _ (by omega) hi.oct b hbm
      · exact hi.oct b hbm
    · exact hbs_lt b hbm


end Iec.Asdu
