import Iec.Model.TimeTag
import Iec.Model.Bcr
import Iec.Model.Scaled
import Iec.Lemmas.Bits
