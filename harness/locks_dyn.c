/*
 * C17 schedule search on the real code: the CS104 server with its own threads (listener +
 * one thread per connection, all cooperative fibers of the simulated HAL) and the CS104
 * client thread, scheduled by one PRNG.  Fibers can be descheduled at every blocking HAL
 * call and, through sim_preempt_hook, right after every Semaphore_wait / Semaphore_post,
 * so threads are interleaved at lock granularity; the application context calls the API
 * between any two steps.  The simulated semaphores record: value above 1 (released twice),
 * release by another thread than the taker, wait on a semaphore the thread itself holds,
 * a blocked application call that no thread can unblock, a join that cannot progress.
 *
 * usage: locks_dyn <quick|thorough> [trace-out]
 *        locks_dyn finding-server | finding-server-open | finding-client   (known findings, real code)
 * Prints one line "DYN ..." per scenario class and "LOCK_FAIL <what>" for the first problem.
 */
#include <stdio.h>
#include <string.h>
#include <stdlib.h>
#include "simhal.h"
#include <stdarg.h>
#include "cs104_slave.h"
#include "cs104_connection.h"
#include "prng.h"

const char* __asan_default_options(void) { return "detect_leaks=0"; }   /* leaks are the business of C18, not of this search */
static FILE* trace = NULL;
static int fail = 0; static char fail_info[600];
static long n_steps = 0, n_apicalls = 0, n_frames = 0, n_preempt = 0, n_cb_api = 0, n_scen = 0;
/* C18 accounting oracle on the threaded server (public API only): the reported number of open connections is never
 * negative, never above the number of live sockets (accepted or pending), and zero after CS104_Slave_stop */
static int acct_fail = 0; static char acct_info[400]; static int acct_mode = 0; static long n_acct = 0;
static void note_fail(const char* what) { if (!fail) snprintf(fail_info, sizeof fail_info, "%s", what); fail++; }
static bool check_flags(const char* where)
{
    char b[600];
    if (sim_deadlock) { snprintf(b, sizeof b, "%s: deadlock: %s", where, sim_deadlock_info); note_fail(b); return false; }
    if (sim_sem_violations) { snprintf(b, sizeof b, "%s: lock released twice: %s", where, sim_sem_violation_where); note_fail(b); return false; }
    if (sim_owner_violations) { snprintf(b, sizeof b, "%s: lock released by another thread: %s", where, sim_owner_violation_where); note_fail(b); return false; }
    return true;
}
static bool preempt(void) { bool r = prng_below(3) == 0; if (r) n_preempt++; return r; }
static void tr(const char* fmt, ...) { if (!trace) return; va_list ap; va_start(ap, fmt); vfprintf(trace, fmt, ap); va_end(ap); fputc('\n', trace); }

/* ------------------------------------------------------------ server side */
static CS104_Slave slave; static int mode_cb = 0;   /* 1: event handler calls back into the API (known finding) */
static CS101_AppLayerParameters alp;
/* C07 oracle on the threaded server (public API only): raw-message and event callbacks give the order of things as the
 * server itself sees it; an I-format APDU written on a connection that is not started (never confirmed STARTDT, has read
 * STOPDT act, or was deactivated) is a violation */
static int state_fail = 0; static char state_info[400]; static long n_state_checks = 0;
/* why a connection is not started: 1 never confirmed STARTDT, 2 it read STOPDT act, 3 deactivated (another connection's STARTDT) */
static struct { void* key; int why; int after; } cst[256]; static int n_cst = 0;
static int race_seen = 0; static char race_info[400];
static int cst_idx(IMasterConnection c) { for (int i = 0; i < n_cst; i++) if (cst[i].key == c->object) return i; if (n_cst < 256) { cst[n_cst].key = c->object; cst[n_cst].why = 1; cst[n_cst].after = 0; return n_cst++; } return 0; }
static void srv_raw(void* p, IMasterConnection c, uint8_t* msg, int n, bool sent)
{
    int k = cst_idx(c);
    tr("  raw %s con=%p ctl=%02x n=%d why=%d task=%d", sent ? "sent" : "recv", c->object, n > 2 ? msg[2] : 0, n, cst[k].why, sim_last_task);
    if (!sent && n >= 6 && (msg[2] & 3) == 3) { if ((msg[2] & 0x13) == 0x13) { cst[k].why = 2; cst[k].after = 0; } else if ((msg[2] & 0x07) == 0x07) cst[k].why = 0; }
    if (sent && n > 6 && (msg[2] & 1) == 0) { n_state_checks++;
        if (cst[k].why) { cst[k].after++;
            static const char* W[] = { "", "that never confirmed STARTDT", "after it read STOPDT act", "after it was deactivated by another connection's STARTDT" };
            if (cst[k].why == 3 && cst[k].after == 1) {     /* the recorded race: at most one frame, only after a deactivation from outside */
                if (!race_seen++) snprintf(race_info, sizeof race_info, "scenario %ld: one I-format APDU (N(S)=%d) written on a connection right after another connection's STARTDT deactivated it", n_scen, (msg[2] + (msg[3] << 8)) >> 1); }
            else if (!state_fail++) snprintf(state_info, sizeof state_info, "scenario %ld: I-format APDU number %d (N(S)=%d, %d octets) written on a connection %s", n_scen, cst[k].after, (msg[2] + (msg[3] << 8)) >> 1, n, W[cst[k].why]); } }
}
static bool srv_asdu(void* p, IMasterConnection c, CS101_ASDU asdu)
{
    /* an ASDU handler answers through the connection: this is the documented use */
    n_cb_api++;
    CS101_ASDU_setCOT(asdu, CS101_COT_ACTIVATION_CON); IMasterConnection_sendASDU(c, asdu);
    if (prng_below(3) == 0) { CS101_ASDU_setCOT(asdu, CS101_COT_ACTIVATION_TERMINATION); IMasterConnection_sendASDU(c, asdu); }
    if (prng_below(4) == 0) CS104_Slave_getOpenConnections(slave);
    return true;
}
static void srv_event(void* p, IMasterConnection c, CS104_PeerConnectionEvent ev)
{
    if (mode_cb == 1 && ev == CS104_CON_EVENT_ACTIVATED) {
        CS101_ASDU a = CS101_ASDU_create(alp, false, CS101_COT_INITIALIZED, 0, 1, false, false);
        uint8_t pl[4] = { 1, 0, 0, 0 }; CS101_ASDU_setTypeID(a, M_EI_NA_1); CS101_ASDU_addPayload(a, pl, 4);
        IMasterConnection_sendASDU(c, a); CS101_ASDU_destroy(a);
    }
    if (mode_cb == 2 && ev == CS104_CON_EVENT_DEACTIVATED) CS104_Slave_getOpenConnections(slave);
    tr("  event %d con=%p task=%d", (int) ev, c->object, sim_last_task);
    { int k = cst_idx(c);
      if (ev == CS104_CON_EVENT_CONNECTION_OPENED || ev == CS104_CON_EVENT_CONNECTION_CLOSED) { cst[k].why = 1; cst[k].after = 0; }
      else if (ev == CS104_CON_EVENT_DEACTIVATED) { if (cst[k].why != 2) { cst[k].why = 3; cst[k].after = 0; } }
      else if (ev == CS104_CON_EVENT_ACTIVATED) cst[k].why = 0; }
}
static bool srv_request(void* p, const char* ip) { return prng_below(10) != 0; }
typedef struct { SimSocket* s; int ns; int rx_i; bool started; uint8_t acc[70000]; int acc_len; } Peer;
static Peer peers[32]; static int n_peers = 0;
static void peer_drain(Peer* p)
{
    int n = sim_take_output(p->s, p->acc + p->acc_len, (int) sizeof p->acc - p->acc_len); p->acc_len += n;
    int pos = 0;
    while (p->acc_len - pos >= 2 && p->acc_len - pos >= p->acc[pos + 1] + 2) { if ((p->acc[pos + 2] & 1) == 0) p->rx_i = (p->rx_i + 1) % 32768; pos += p->acc[pos + 1] + 2; }
    memmove(p->acc, p->acc + pos, p->acc_len - pos); p->acc_len -= pos;
}
static void feed(Peer* p, const uint8_t* f, int n) { n_frames++; if (prng_below(3) == 0 && n > 2) { int c = prng_range(1, n - 1); sim_feed(p->s, f, c); sim_feed(p->s, f + c, n - c); } else sim_feed(p->s, f, n); }
static void feed_u(Peer* p, int ctl) { uint8_t f[6] = { 0x68, 4, (uint8_t) ctl, 0, 0, 0 }; feed(p, f, 6); }
static void feed_s(Peer* p) { peer_drain(p); uint8_t f[6] = { 0x68, 4, 1, 0, (uint8_t) ((p->rx_i % 128) * 2), (uint8_t) (p->rx_i / 128) }; feed(p, f, 6); }
static void feed_i(Peer* p)
{
    peer_drain(p);
    uint8_t f[32] = { 0x68, 0, (uint8_t) ((p->ns % 128) * 2), (uint8_t) (p->ns / 128), (uint8_t) ((p->rx_i % 128) * 2), (uint8_t) (p->rx_i / 128) };
    static const uint8_t T[] = { 100, 101, 45, 103, 102, 105 };
    int t = T[prng_below(6)]; int n = 6;
    f[n++] = t; f[n++] = 1; f[n++] = (t == 102) ? 5 : 6; f[n++] = 0; f[n++] = 1; f[n++] = 0; f[n++] = 0; f[n++] = 0; f[n++] = 0;
    if (t == 100 || t == 101 || t == 45 || t == 105) f[n++] = 20; else if (t == 103) { for (int i = 0; i < 7; i++) f[n++] = 1; }
    f[1] = n - 2; p->ns = (p->ns + 1) % 32768; feed(p, f, n);
}
static int pick_runnable(void) { int c = sim_task_count(), r[64], k = 0; for (int i = 0; i < c && k < 64; i++) if (sim_task_runnable(i)) r[k++] = i; return k ? r[prng_below(k)] : -1; }
static void step_some(int n) { for (int i = 0; i < n; i++) { int t = pick_runnable(); if (t < 0) return; sim_task_step(t); n_steps++; } }

static bool server_scenario(bool thorough)
{
    n_scen++; sim_reset(); sim_set_time(5000000); n_peers = 0;
    int mode = prng_below(3);
    slave = CS104_Slave_create(prng_range(2, 12), prng_range(2, 8));
    CS104_Slave_setServerMode(slave, (CS104_ServerMode) mode);
    CS104_APCIParameters ap = CS104_Slave_getConnectionParameters(slave); ap->k = prng_range(1, 6); ap->w = prng_range(1, 4); ap->t1 = 4; ap->t2 = 2; ap->t3 = 6;
    alp = CS104_Slave_getAppLayerParameters(slave);
    CS104_Slave_setASDUHandler(slave, srv_asdu, NULL); CS104_Slave_setConnectionEventHandler(slave, srv_event, NULL);
    CS104_Slave_setInterrogationHandler(slave, NULL, NULL);
    if (acct_mode) CS104_Slave_setRawMessageHandler(slave, srv_raw, NULL);
    if (prng_below(2)) CS104_Slave_setConnectionRequestHandler(slave, srv_request, NULL);
    if (mode == 1) { CS104_RedundancyGroup g = CS104_RedundancyGroup_create("a"); CS104_RedundancyGroup_addAllowedClient(g, "10.0.0.1"); CS104_Slave_addRedundancyGroup(slave, g); CS104_Slave_addRedundancyGroup(slave, CS104_RedundancyGroup_create("all")); }
    CS104_Slave_setMaxOpenConnections(slave, prng_range(1, 5));
    tr("server mode=%d", mode);
    int n_restarts = 0;
    CS104_Slave_start(slave);
    if (!check_flags("CS104_Slave_start")) return false;
    int len = thorough ? 900 : 260;
    for (int i = 0; i < len; i++) {
        int x = prng_below(100);
        if (x < 45) step_some(prng_range(1, 4));
        else if (x < 52 && n_peers < 30) { char peer[40]; snprintf(peer, sizeof peer, "10.0.0.%d:%d", prng_range(1, 3), 1000 + n_peers); Peer* p = &peers[n_peers++]; memset(p, 0, sizeof *p); p->s = sim_incoming(peer); tr("incoming %s", peer); }
        else if (n_peers == 0) continue;
        else {
            Peer* p = &peers[prng_below(n_peers)]; if (!p->s) continue;
            if (x < 60) { feed_u(p, 0x07); p->started = true; tr("startdt"); }
            else if (x < 72) { feed_i(p); tr("iframe"); }
            else if (x < 78) { feed_s(p); tr("sframe"); }
            else if (x < 81) { feed_u(p, 0x13); tr("stopdt"); }
            else if (x < 84) { feed_u(p, 0x43); tr("testfr"); }
            else if (x < 91) { n_apicalls++; CS101_ASDU a = CS101_ASDU_create(alp, false, CS101_COT_SPONTANEOUS, 0, 1, false, false); uint8_t pl[4] = { (uint8_t) i, 0, 0, 1 }; CS101_ASDU_setTypeID(a, M_SP_NA_1); CS101_ASDU_addPayload(a, pl, 4); CS104_Slave_enqueueASDU(slave, a); CS101_ASDU_destroy(a); tr("enqueue"); }
            else if (x < 93) { n_apicalls++; int oc = CS104_Slave_getOpenConnections(slave); CS104_Slave_getNumberOfQueueEntries(slave, NULL); CS104_Slave_isRunning(slave); tr("query oc=%d", oc); n_acct++;
                if ((oc < 0 || oc > sim_live_sockets) && !acct_fail++) snprintf(acct_info, sizeof acct_info, "scenario %ld step %d: CS104_Slave_getOpenConnections() = %d with %d sockets alive (accepted or still pending; restarts so far in this scenario: %d)", n_scen, i, oc, sim_live_sockets, n_restarts); }
            else if (x < 96) { sim_advance(prng_below(3) ? prng_range(0, 900) : prng_range(1000, 7000)); tr("advance"); }
            else if (x < 98) { sim_peer_close(p->s); tr("peerclose"); }
            else if (x >= 99 || (acct_mode && prng_below(2))) { n_apicalls++; tr("stop/start"); CS104_Slave_stop(slave); if (!check_flags("CS104_Slave_stop")) return false; for (int j = 0; j < n_peers; j++) peers[j].s = NULL; n_peers = 0;
                { int oc = CS104_Slave_getOpenConnections(slave); n_acct++; if (oc != 0 && !acct_fail++) snprintf(acct_info, sizeof acct_info, "scenario %ld step %d: CS104_Slave_getOpenConnections() = %d right after CS104_Slave_stop", n_scen, i, oc); }
                n_restarts++; CS104_Slave_start(slave); }
            else { p->s->write_fail = true; tr("wfail"); }
        }
        if (!check_flags("server traffic")) return false;
    }
    n_apicalls++; CS104_Slave_destroy(slave); slave = NULL;
    if (!check_flags("CS104_Slave_destroy")) return false;
    if (sim_live_threads != 0) { char b[200]; snprintf(b, sizeof b, "after CS104_Slave_destroy: %d threads still alive", sim_live_threads); note_fail(b); return false; }
    return true;
}

/* ------------------------------------------------------------ client side */
static CS104_Connection con; static int cli_cb = 0;
static bool cli_asdu(void* p, int addr, CS101_ASDU asdu) { if (cli_cb == 1) { n_cb_api++; CS104_Connection_sendTestCommand(con, 1); } return true; }
static void cli_event(void* p, CS104_Connection c, CS104_ConnectionEvent ev) { if (ev == CS104_CONNECTION_OPENED && prng_below(2)) { n_cb_api++; CS104_Connection_sendStartDT(c); } if (ev == CS104_CONNECTION_STARTDT_CON_RECEIVED) { n_cb_api++; CS104_Connection_sendInterrogationCommand(c, CS101_COT_ACTIVATION, 1, 20); } }
static bool client_scenario(bool thorough)
{
    n_scen++; sim_reset(); sim_set_time(7000000);
    con = CS104_Connection_create("10.1.1.1", 2404);
    struct sCS104_APCIParameters ap = { prng_range(1, 6), prng_range(1, 4), 10, 4, 2, 6 }; CS104_Connection_setAPCIParameters(con, &ap);
    CS104_Connection_setASDUReceivedHandler(con, cli_asdu, NULL); CS104_Connection_setConnectionHandler(con, cli_event, NULL);
    int rounds = prng_range(1, 3);
    for (int r = 0; r < rounds; r++) {
        sim_connect_result = prng_below(8) != 0; CS104_Connection_connectAsync(con);
        int ns = 0, rx = 0; uint8_t acc[70000]; int acc_len = 0;
        int len = thorough ? 400 : 120;
        for (int i = 0; i < len; i++) {
            int x = prng_below(100); SimSocket* s = sim_last_client_socket;
            if (s && s->open) { int n = sim_take_output(s, acc + acc_len, (int) sizeof acc - acc_len); acc_len += n; int pos = 0; while (acc_len - pos >= 2 && acc_len - pos >= acc[pos + 1] + 2) { if ((acc[pos + 2] & 1) == 0) rx = (rx + 1) % 32768; pos += acc[pos + 1] + 2; } memmove(acc, acc + pos, acc_len - pos); acc_len -= pos; }
            if (x < 45) step_some(prng_range(1, 3));
            else if (!s || !s->open) { step_some(1); }
            else if (x < 55) { uint8_t f[6] = { 0x68, 4, 0x0b, 0, 0, 0 }; sim_feed(s, f, 6); n_frames++; }
            else if (x < 70) { uint8_t f[16] = { 0x68, 14, (uint8_t) ((ns % 128) * 2), (uint8_t) (ns / 128), (uint8_t) ((rx % 128) * 2), (uint8_t) (rx / 128), 1, 1, 3, 0, 1, 0, 1, 0, 0, 1 }; ns = (ns + 1) % 32768; sim_feed(s, f, 16); n_frames++; }
            else if (x < 76) { uint8_t f[6] = { 0x68, 4, 1, 0, (uint8_t) ((rx % 128) * 2), (uint8_t) (rx / 128) }; sim_feed(s, f, 6); n_frames++; }
            else if (x < 84) { n_apicalls++; CS104_Connection_sendInterrogationCommand(con, CS101_COT_ACTIVATION, 1, 20); }
            else if (x < 87) { n_apicalls++; CS104_Connection_sendStartDT(con); }
            else if (x < 89) { n_apicalls++; CS104_Connection_sendStopDT(con); }
            else if (x < 91) { uint8_t f[6] = { 0x68, 4, 0x23, 0, 0, 0 }; sim_feed(s, f, 6); n_frames++; }
            else if (x < 94) { n_apicalls++; CS104_Connection_isTransmitBufferFull(con); }
            else if (x < 97) sim_advance(prng_below(3) ? prng_range(0, 900) : prng_range(1000, 7000));
            else if (x < 98) sim_peer_close(s);
            else break;
            if (!check_flags("client traffic")) return false;
        }
        n_apicalls++; CS104_Connection_close(con);
        if (!check_flags("CS104_Connection_close")) return false;
    }
    n_apicalls++; CS104_Connection_destroy(con); con = NULL;
    if (!check_flags("CS104_Connection_destroy")) return false;
    if (sim_live_threads != 0) { char b[200]; snprintf(b, sizeof b, "after CS104_Connection_destroy: %d threads still alive", sim_live_threads); note_fail(b); return false; }
    return true;
}

int main(int argc, char** argv)
{
    if (argc < 2) return 2;
    if (argc > 2) trace = fopen(argv[2], "w");
    sim_preempt_hook = preempt; sim_main_sleep_runs_tasks = true;
    prng_seed(seed_from_env());
    if (!strncmp(argv[1], "finding-", 8)) {
        /* the recorded findings, reproduced on the real code: a callback that calls back into the API */
        bool ok = true;
        if (!strcmp(argv[1], "finding-server")) { mode_cb = 1; for (int i = 0; i < 40 && ok; i++) ok = server_scenario(false); }
        else if (!strcmp(argv[1], "finding-server-open")) { mode_cb = 2; for (int i = 0; i < 60 && ok; i++) ok = server_scenario(false); }
        else if (!strcmp(argv[1], "finding-client")) { cli_cb = 1; for (int i = 0; i < 40 && ok; i++) ok = client_scenario(false); }
        printf("FINDING %s reproduced=%d %s\n", argv[1], ok ? 0 : 1, ok ? "" : fail_info);
        return 0;
    }
    if (!strncmp(argv[1], "acct", 4)) {
        /* C18: server scenarios only, more restarts, the accounting oracle decides */
        acct_mode = 1; bool th = !strcmp(argv[1], "acct-thorough"); bool ok = true;
        for (int i = 0; i < (th ? 300 : 60) && ok && !acct_fail && !state_fail; i++) { n_cst = 0; ok = server_scenario(th); }
        if (acct_fail) printf("ACCT_FAIL (seed %llu) %s\n", (unsigned long long) seed_from_env(), acct_info);
        if (state_fail) printf("STATE_FAIL (seed %llu) %s\n", (unsigned long long) seed_from_env(), state_info);
        if (race_seen) printf("STATE_RACE (seed %llu) %s (%d times in this run)\n", (unsigned long long) seed_from_env(), race_info, race_seen);
        printf("ACCT scenarios=%ld accounting_checks=%ld iframes_checked=%ld thread_steps=%ld\n", n_scen, n_acct, n_state_checks, n_steps);
        return 0;
    }
    bool thorough = !strcmp(argv[1], "thorough");
    int ns = thorough ? 400 : 60; bool ok = true;
    for (int i = 0; i < ns && ok; i++) ok = (i % 3 == 2) ? client_scenario(thorough) : server_scenario(thorough);
    if (!ok) printf("LOCK_FAIL scenario %ld (seed %llu): %s\n", n_scen, (unsigned long long) seed_from_env(), fail_info);
    printf("DYN scenarios=%ld thread_steps=%ld preemptions_at_lock_ops=%ld api_calls_from_application=%ld api_calls_from_callbacks=%ld frames=%ld sem_waits=%ld sem_max=%d released_twice=%d released_by_other=%d deadlock=%d\n",
        n_scen, n_steps, n_preempt, n_apicalls, n_cb_api, n_frames, sim_sem_waits, sim_sem_max_value, sim_sem_violations, sim_owner_violations, sim_deadlock);
    return 0;
}
