/* helpers shared by the ASDU harness and the ASDU oracle */
#ifndef ASDU_COMMON_H
#define ASDU_COMMON_H
typedef struct { int tid; const char* tname; const char* cname; int cat; int nvals; } TypeInfo;

static FILE* ops; static FILE* impl;
static long n_ops = 0, n_add_ok = 0, n_add_ref = 0, n_elem_some = 0, n_elem_none = 0, n_parse = 0, n_nohdr = 0;

static unsigned long long leval(const uint8_t* b, int n) { unsigned long long v = 0; for (int i = n - 1; i >= 0; i--) v = (v << 8) | b[i]; return v; }
static unsigned long long f32bits(float f) { uint32_t b; memcpy(&b, &f, 4); return b; }
static char bigbuf[600];
static const char* bigle(const uint8_t* d, int n) { char* p = bigbuf; *p++ = 'x'; if (n == 0) *p++ = '-'; for (int i = 0; i < n; i++) p += sprintf(p, "%02x", d[i]); *p = 0; return bigbuf; }
static uint32_t rnd_u(int bits) { int k = prng_below(8); uint32_t m = bits == 32 ? 0xffffffffu : ((1u << bits) - 1); if (k == 0) return 0; if (k == 1) return m; if (k == 2) return 1u << prng_below(bits); return (uint32_t) prng_next() & m; }
static int rnd_int(void) { int k = prng_below(10); static const int B[] = { 0, 1, -1, 63, 64, -64, -65, 32767, -32768, 32768 }; if (k < 4) return B[prng_below(10)]; if (k < 7) return prng_range(-70, 70); return prng_range(-40000, 40000); }
static void rnd_bytes(uint8_t* b, int n) { int k = prng_below(6); for (int i = 0; i < n; i++) b[i] = k == 0 ? 0 : k == 1 ? 0xff : (uint8_t) prng_next(); }
static uint8_t rnd_los(void) { int k = prng_below(8); if (k == 0) return 0; if (k == 1) return 255; if (k == 2) return (uint8_t) prng_range(230, 254); return (uint8_t) prng_below(80); }
static float rnd_float(bool allow_nan) {
    uint32_t b = (uint32_t) prng_next(); int k = prng_below(6);
    if (k == 0) b = (b & 0x807fffffu) | ((uint32_t) prng_range(110, 130) << 23);
    if (k == 1) { static const uint32_t S[] = { 0, 0x80000000u, 0x3f800000u, 0xbf800000u, 0x7f800000u, 0xff800000u, 1, 0x7f7fffffu }; b = S[prng_below(8)]; }
    float f; memcpy(&f, &b, 4);
    if (!allow_nan && f != f) { b &= 0x3fffffffu; memcpy(&f, &b, 4); }
    return f;
}

#include "gen_types.inc"

#endif
