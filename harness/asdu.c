/*
 * ASDU correspondence harness (C01 / C02 / C12): executes build / parse operations on
 * the real cs101_asdu.c + cs101_information_objects.c through the public API and prints
 * the operation stream (ops file, flushed before each operation so that a sanitizer
 * abort is attributed to the last line) and the canonical observations (impl file).
 *
 * usage: asdu <ops-out> <impl-out> <quick|thorough> <mode: build|parse|all>
 */
#include <stdio.h>
#include <string.h>
#include <stdint.h>
#include <stdbool.h>
#include <stdlib.h>
#include "iec60870_common.h"
#include "cs101_information_objects.h"
#include "information_objects_internal.h"
#include "cs101_asdu_internal.h"
#include "lib_memory.h"
#include "prng.h"

#include "asdu_common.h"

static int type_index(int tid) { for (int i = 0; i < NTYPES; i++) if (TYPES[i].tid == tid) return i; return -1; }

static void hexout(FILE* f, const uint8_t* b, int n) { if (n == 0) fputc('-', f); for (int i = 0; i < n; i++) fprintf(f, "%02x", b[i]); }

/* current ASDU under construction */
static struct sCS101_AppLayerParameters P;
static CS101_ASDU cur = NULL;

static void op_begin(void) { n_ops++; }
static void op_flush(void) { fflush(ops); }

static void show_cur(void) { hexout(impl, cur->asdu, cur->asduHeaderLength + cur->payloadSize); }

static void do_new(int scot, int sca, int sioa, int max, int sq, int cot, int oa, int ca, int t, int n)
{
    if (cur) CS101_ASDU_destroy(cur);
    memset(&P, 0, sizeof P);
    P.sizeOfTypeId = 1; P.sizeOfVSQ = 1; P.sizeOfCOT = scot; P.originatorAddress = 0; P.sizeOfCA = sca; P.sizeOfIOA = sioa; P.maxSizeOfASDU = max;
    op_begin();
    fprintf(ops, "new %d %d %d %d %d %d %d %d %d %d\n", scot, sca, sioa, max, sq, cot, oa, ca, t, n); op_flush();
    cur = CS101_ASDU_create(&P, sq, (CS101_CauseOfTransmission) cot, oa, ca, t, n);
    fprintf(impl, "ok "); show_cur(); fprintf(impl, "\n");
}

static char dumpbuf[1200];

/* returns true when accepted */
static bool do_add(int t, int ioa)
{
    int used;
    InformationObject io = gen_create(t, ioa, &used);
    gen_dump(t, io, dumpbuf);
    op_begin();
    fprintf(ops, "add %d %d %s\n", TYPES[t].tid, used, dumpbuf); op_flush();
    bool r = CS101_ASDU_addInformationObject(cur, io);
    fprintf(impl, "%d wf=1 ", r ? 1 : 0); show_cur(); fprintf(impl, "\n");
    InformationObject_destroy(io);
    if (r) n_add_ok++; else n_add_ref++;
    return r;
}

static void do_pay(int n)
{
    uint8_t buf[300]; for (int i = 0; i < n; i++) buf[i] = (uint8_t) prng_next();
    op_begin(); fprintf(ops, "pay "); hexout(ops, buf, n); fprintf(ops, "\n"); op_flush();
    bool r = CS101_ASDU_addPayload(cur, buf, n);
    fprintf(impl, "%d ", r ? 1 : 0); show_cur(); fprintf(impl, "\n");
}

static void do_clone(void)
{
    op_begin(); fprintf(ops, "clone\n"); op_flush();
    CS101_ASDU c = CS101_ASDU_clone(cur, NULL);
    hexout(impl, c->asdu, c->asduHeaderLength + c->payloadSize); fprintf(impl, "\n");
    /* clone into caller storage as well: must agree */
    sCS101_StaticASDU st; CS101_ASDU c2 = CS101_ASDU_clone(cur, &st);
    if (c2->payloadSize != c->payloadSize || memcmp(c2->asdu, c->asdu, c->asduHeaderLength + c->payloadSize)) fprintf(impl, "static-clone-differs\n");
    CS101_ASDU_destroy(c);
}

static void do_set(int what, int v)
{
    static const char* N[] = { "type", "sq", "count", "cot", "test", "neg", "ca", "clear" };
    op_begin(); fprintf(ops, "set %s %d\n", N[what], v); op_flush();
    switch (what) {
    case 0: CS101_ASDU_setTypeID(cur, (IEC60870_5_TypeID) v); break; case 1: CS101_ASDU_setSequence(cur, v != 0); break;
    case 2: CS101_ASDU_setNumberOfElements(cur, v); break; case 3: CS101_ASDU_setCOT(cur, (CS101_CauseOfTransmission) v); break;
    case 4: CS101_ASDU_setTest(cur, v != 0); break; case 5: CS101_ASDU_setNegative(cur, v != 0); break;
    case 6: CS101_ASDU_setCA(cur, v); break; case 7: CS101_ASDU_removeAllElements(cur); break; }
    show_cur(); fprintf(impl, "\n");
}

static void show_hdr(CS101_ASDU a)
{
    fprintf(impl, "t=%d sq=%d n=%d cot=%d test=%d neg=%d oa=%d ca=%d", CS101_ASDU_getTypeID(a), CS101_ASDU_isSequence(a) ? 1 : 0, CS101_ASDU_getNumberOfElements(a),
        CS101_ASDU_getCOT(a), CS101_ASDU_isTest(a) ? 1 : 0, CS101_ASDU_isNegative(a) ? 1 : 0, CS101_ASDU_getOA(a), CS101_ASDU_getCA(a));
}

static void show_elem(CS101_ASDU a, int i)
{
    InformationObject io = CS101_ASDU_getElement(a, i);
    union uInformationObject store; memset(&store, 0xa5, sizeof store);
    InformationObject io2 = CS101_ASDU_getElementEx(a, (InformationObject) &store, i);
    if ((io == NULL) != (io2 == NULL)) { fprintf(impl, "heap/static-disagree"); if (io) InformationObject_destroy(io); return; }
    if (io == NULL) { fprintf(impl, "none"); n_elem_none++; return; }
    n_elem_some++;
    int t = type_index(InformationObject_getType(io));
    if (t < 0) { fprintf(impl, "unknown-type-object %d", InformationObject_getType(io)); InformationObject_destroy(io); return; }
    gen_dump(t, io, dumpbuf);
    fprintf(impl, "%d %d %s", TYPES[t].tid, InformationObject_getObjectAddress(io), dumpbuf);
    char d2[1200]; strcpy(d2, dumpbuf); gen_dump(t, io2, dumpbuf);
    if (strcmp(d2, dumpbuf) || InformationObject_getObjectAddress(io) != InformationObject_getObjectAddress(io2) || InformationObject_getType(io) != InformationObject_getType(io2)) fprintf(impl, " static-storage-differs");
    InformationObject_destroy(io);
}

/* parse `len` octets under the given sizes, in an exactly-sized heap block */
static void do_parse(int scot, int sca, int sioa, const uint8_t* bytes, int len, int idx)
{
    struct sCS101_AppLayerParameters p2; memset(&p2, 0, sizeof p2);
    p2.sizeOfTypeId = 1; p2.sizeOfVSQ = 1; p2.sizeOfCOT = scot; p2.sizeOfCA = sca; p2.sizeOfIOA = sioa; p2.maxSizeOfASDU = 249;
    op_begin(); n_parse++;
    fprintf(ops, "parse %d %d %d ", scot, sca, sioa); hexout(ops, bytes, len); fprintf(ops, " %d\n", idx); op_flush();
    uint8_t* blk = (uint8_t*) malloc(len ? len : 1);
    if (len) memcpy(blk, bytes, len);
    CS101_ASDU a = CS101_ASDU_createFromBuffer(&p2, len ? blk : blk + 1, len);
    if (a == NULL) { fprintf(impl, "nohdr\n"); n_nohdr++; free(blk); return; }
    show_hdr(a); fprintf(impl, " | "); show_elem(a, idx); fprintf(impl, "\n");
    /* the caller-supplied-ASDU variant must agree on acceptance */
    struct sCS101_ASDU sa; if (CS101_ASDU_createFromBufferEx(&sa, &p2, blk, len) == NULL) fprintf(impl, "ex-disagrees\n");
    CS101_ASDU_destroy(a);
    free(blk);
}

static void do_elem_cur(int idx)
{
    int len = cur->asduHeaderLength + cur->payloadSize;
    uint8_t tmp[300]; memcpy(tmp, cur->asdu, len);
    do_parse(P.sizeOfCOT, P.sizeOfCA, P.sizeOfIOA, tmp, len, idx);
}

static int pick_max(int hdr)
{
    int k = prng_below(10);
    if (k < 3) return 249; if (k < 5) return 254; if (k < 7) return prng_range(hdr, hdr + 30); return prng_range(hdr, 254);
}

int main(int argc, char** argv)
{
    if (argc < 5) return 2;
    ops = fopen(argv[1], "w"); impl = fopen(argv[2], "w");
    bool thorough = !strcmp(argv[3], "thorough");
    bool want_build = strcmp(argv[4], "parse") != 0, want_parse = strcmp(argv[4], "build") != 0;
    prng_seed(seed_from_env());
    static uint8_t keep[64][260]; static int keeplen[64]; 
    for (int t = 0; t < NTYPES; t++) {
        for (int cfg = 0; cfg < 12; cfg++) {
            int scot = 1 + cfg % 2, sca = 1 + (cfg / 2) % 2, sioa = 1 + cfg / 4;
            if (!thorough && prng_below(3) != 0 && cfg != (t % 12)) continue;     /* quick: the type's own config + a random third */
            for (int sq = 0; sq < 2; sq++) {
                int hdr = 2 + scot + sca;
                int max = pick_max(hdr);
                int ioa0 = prng_below(4) ? (int) rnd_u(8 * sioa) : prng_range(0, 300);
                if (ioa0 > (1 << (8 * sioa)) - 200) ioa0 -= 200; if (ioa0 < 0) ioa0 = 0;
                do_new(scot, sca, sioa, max, sq, prng_below(64), prng_below(256), (int) rnd_u(8 * sca), prng_below(2), prng_below(2));
                int refused = 0, n = 0; int cap = prng_below(4) ? 140 : prng_range(1, 6);
                for (int k = 0; k < cap && refused < 2; k++) {
                    int tt = t, ioa = sq ? ioa0 + n : (prng_below(3) ? ioa0 + n : (int) rnd_u(8 * sioa));
                    int dice = prng_below(40);
                    if (dice == 0 && n > 0) tt = prng_below(NTYPES);        /* other type: must be refused (unless same id) */
                    if (dice == 1 && sq && n > 0) ioa = ioa0 + n + prng_range(1, 3); /* breaks continuity */
                    if (do_add(tt, ioa)) n++; else refused++;
                    if (want_build && prng_below(50) == 0) do_clone();
                }
                if (want_build) {
                    do_clone();
                    /* element read-back of what was built: every index up to count+1 (capped), plus 127 */
                    int cnt = CS101_ASDU_getNumberOfElements(cur);
                    int step = cnt > 12 && !thorough ? cnt / 6 : 1;
                    for (int i = 0; i <= cnt + 1; i += (i < 3 || i >= cnt - 1) ? 1 : step) do_elem_cur(i);
                    do_elem_cur(127);
                }
                /* keep small ones for truncation / mutation */
                int len = cur->asduHeaderLength + cur->payloadSize;
                if (want_parse && (n <= 4 || prng_below(6) == 0)) {
                    uint8_t tmp[300]; memcpy(tmp, cur->asdu, len);
                    int nidx = CS101_ASDU_getNumberOfElements(cur);
                    for (int cut = 0; cut <= len; cut++) {
                        if (len > 80 && !thorough && cut > 12 && cut < len - 40 && cut % 7) continue;
                        int idxs[6] = { 0, 1, nidx > 0 ? nidx - 1 : 0, nidx, 2, 127 };
                        for (int q = 0; q < (thorough ? 6 : 4); q++) do_parse(scot, sca, sioa, tmp, cut, idxs[q]);
                    }
                    for (int m = 0; m < (thorough ? 40 : 10); m++) {     /* mutations of a valid ASDU */
                        uint8_t mu[300]; memcpy(mu, tmp, len); int ml = len;
                        int k = prng_below(5);
                        if (k == 0) mu[0] = (uint8_t) prng_next();
                        else if (k == 1) mu[1] = (uint8_t) prng_next();
                        else if (k == 2 && ml) mu[prng_below(ml)] ^= 1 << prng_below(8);
                        else if (k == 3) mu[1] = (mu[1] & 0x80) | 0x7f;
                        else { mu[1] ^= 0x80; }
                        do_parse(scot, sca, sioa, mu, prng_below(4) ? ml : (int) prng_below(ml + 1), prng_below(3) ? prng_below(8) : prng_below(128));
                    }
                }
                if (want_build) {      /* header setters, raw payload, clear */
                    for (int s = 0; s < 4; s++) { int w = prng_below(8); do_set(w, w == 6 ? (int) rnd_u(17) : (int) prng_below(300)); }
                    do_pay(prng_below(3) ? prng_below(40) : prng_range(200, 256)); do_pay(prng_below(260)); do_clone();
                }
            }
        }
    }
    if (want_parse) {
        /* pure noise and every type id with short payloads */
        for (long i = 0; i < (thorough ? 200000 : 20000); i++) {
            uint8_t b[256]; int len = prng_below(5) ? prng_below(40) : prng_below(256);
            for (int k = 0; k < len; k++) b[k] = (uint8_t) prng_next();
            if (len > 0 && prng_below(2)) b[0] = (uint8_t) TYPES[prng_below(NTYPES)].tid;
            do_parse(1 + prng_below(2), 1 + prng_below(2), 1 + prng_below(3), b, len, prng_below(3) ? prng_below(4) : prng_below(128));
        }
        for (int tid = 0; tid < 256; tid++) for (int len = 0; len < 24; len += thorough ? 1 : 3) {
            uint8_t b[32]; for (int k = 0; k < len; k++) b[k] = (uint8_t) prng_next(); if (len) b[0] = tid;
            do_parse(2, 2, 3, b, len, 0); do_parse(1, 1, 1, b, len, 1);
        }
    }
    if (cur) CS101_ASDU_destroy(cur);
    fclose(ops); fclose(impl);
    printf("HISTO ops=%ld add_ok=%ld add_refused=%ld parse=%ld nohdr=%ld elem_some=%ld elem_none=%ld\n", n_ops, n_add_ok, n_add_ref, n_parse, n_nohdr, n_elem_some, n_elem_none);
    return 0;
}
