/*
 * Replacement of hal/memory/lib_memory.c for lifecycle harnesses (C18): the library's
 * GLOBAL_MALLOC / GLOBAL_CALLOC / GLOBAL_FREEMEM with a table of live allocations.
 * LeakSanitizer does not report in processes that switch ucontext fibers, so the
 * "allocation counters are balanced" part of C18 is observed here directly.
 * Blocks that were not obtained through these functions (strdup in the library, objects the
 * harness created with malloc) are freed without being counted.
 */
#include <stdlib.h>
#include <stdint.h>
#include "lib_memory.h"
#define TBL (1 << 16)
static void* live[TBL];
long mem_live = 0, mem_allocs = 0, mem_frees = 0;
static void note(void* p) { if (!p) return; size_t h = ((uintptr_t) p >> 4) & (TBL - 1); for (int i = 0; i < TBL; i++) { size_t k = (h + i) & (TBL - 1); if (!live[k] || live[k] == (void*) 1) { live[k] = p; mem_live++; mem_allocs++; return; } } }
static void drop(void* p) { if (!p) return; size_t h = ((uintptr_t) p >> 4) & (TBL - 1); for (int i = 0; i < TBL; i++) { size_t k = (h + i) & (TBL - 1); if (!live[k]) return; if (live[k] == p) { live[k] = (void*) 1; mem_live--; mem_frees++; return; } } }
void Memory_installExceptionHandler(MemoryExceptionHandler handler, void* parameter) { (void) handler; (void) parameter; }
void* Memory_malloc(size_t size) { void* p = malloc(size); note(p); return p; }
void* Memory_calloc(size_t nmemb, size_t size) { void* p = calloc(nmemb, size); note(p); return p; }
void* Memory_realloc(void* ptr, size_t size) { drop(ptr); void* p = realloc(ptr, size); note(p); return p; }
void Memory_free(void* memb) { drop(memb); free(memb); }
void mem_forget_all(void) { for (int i = 0; i < TBL; i++) live[i] = 0; mem_live = 0; }
