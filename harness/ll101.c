/*
 * CS101 link layer correspondence harness: the real link_layer.c (included, so that the
 * static parsers, the state machines and the struct internals are visible) and the real
 * serial_transceiver_ft_1_2.c over the simulated serial port, with stub application
 * layers that are queues of octet strings (the same stand-in as in Iec.Link101).
 * Three roles: u = secondary unbalanced, b = balanced, p = primary unbalanced.
 * Prints the operation stream and, per operation, the observation (octets written per
 * SerialPort_write, application callbacks, link state callbacks) and a summary read from
 * the real structures.  Model-free oracles: every written frame is well-formed FT 1.2
 * (C14); FCB discipline and at-most-once delivery (C15).
 * usage: ll101 <ops-out> <impl-out> <quick|thorough>
 */
#include <stdio.h>
#include <string.h>
#include <stdlib.h>
#include <stdarg.h>
#include "simhal.h"
#include "link_layer.c"
#include "prng.h"

static FILE* ops; static FILE* impl;
static char logbuf[1 << 18]; static int loglen = 0;
static void logf_(const char* fmt, ...) { va_list ap; va_start(ap, fmt); if (loglen) { logbuf[loglen++] = ' '; logbuf[loglen++] = ';'; logbuf[loglen++] = ' '; } loglen += vsnprintf(logbuf + loglen, sizeof logbuf - loglen - 4, fmt, ap); va_end(ap); }
static void hexs(char* out, const uint8_t* b, int n) { if (n <= 0) { strcpy(out, "-"); return; } for (int i = 0; i < n; i++) sprintf(out + 2 * i, "%02x", b[i]); }

static struct sLinkLayerParameters llp;
static SerialTransceiverFT12 trx;
static int u_own = 0;
static LinkLayerSecondaryUnbalanced U; static LinkLayerBalanced B; static LinkLayerPrimaryUnbalanced P;
static long n_ops = 0, n_tx = 0, n_rx = 0, n_corrupt = 0, n_corrupt_accepted = 0, n_valid_fed = 0, n_retx = 0, n_state = 0;

/* ---- model-free oracle C14: what is written is a well-formed FT 1.2 frame ---- */
static int frame_fail = 0; static char frame_info[700];
static void frame_check(const uint8_t* b, int n)
{
    const char* why = NULL; int aL = llp.addressLength;
    if (n == 1) { if (b[0] != 0xe5) why = "single character is not E5"; }
    else if (b[0] == 0x10) { if (n != 4 + aL) why = "fixed frame length"; else { unsigned cs = 0; for (int i = 1; i < n - 2; i++) cs += b[i]; if ((cs & 0xff) != b[n - 2]) why = "fixed frame checksum"; else if (b[n - 1] != 0x16) why = "end octet"; } }
    else if (b[0] == 0x68) { if (n < 6 || b[1] != b[2]) why = "length octets differ"; else if (b[3] != 0x68) why = "second start octet"; else if (n != b[1] + 6) why = "length octet is not the true length"; else if (b[1] < 1 + aL) why = "no room for control and address";
        else { unsigned cs = 0; for (int i = 4; i < n - 2; i++) cs += b[i]; if ((cs & 0xff) != b[n - 2]) why = "variable frame checksum"; else if (b[n - 1] != 0x16) why = "end octet"; } }
    else why = "start octet";
    if (why) { if (!frame_fail) { char h[600]; hexs(h, b, n > 280 ? 280 : n); snprintf(frame_info, sizeof frame_info, "at ops-file offset %ld wrote %s: %s", (long) ftell(ops), h, why); } frame_fail++; }
}
/* ---- model-free oracle C15 (primary side): FCB of successive FCV frames per destination ---- */
static int fcb_fail = 0; static char fcb_info[700];
static uint8_t last_fcv_frame[70000][300]; static int last_fcv_len[70000]; static int reset_acked[70000]; static int have_last[70000];
/* the oracle abstains for the rest of the episode once the application handed over user data that does not fit a frame
 * (1 + address + data > 255 octets): the library accepts it, never writes it, but counts it as sent - outside the
 * property's domain (11.5) */
static int fcb_blind = 0; static long n_unframeable = 0;
static int dest_of(const uint8_t* b, int n) { int aL = llp.addressLength; const uint8_t* a = (b[0] == 0x10) ? b + 2 : b + 5; (void) n; return aL == 0 ? 0 : aL == 1 ? a[0] : a[0] + 256 * a[1]; }
static void fcb_note(const char* why, const uint8_t* b, int n) { if (!fcb_fail) { char h[600]; hexs(h, b, n > 280 ? 280 : n); snprintf(fcb_info, sizeof fcb_info, "at ops-file offset %ld wrote %s: %s", (long) ftell(ops), h, why); } fcb_fail++; }
static void fcb_check(const uint8_t* b, int n)
{
    if (n < 4 || (b[0] != 0x10 && b[0] != 0x68)) return;
    uint8_t c = (b[0] == 0x10) ? b[1] : b[4];
    if (!(c & 0x40)) return;                    /* only frames of a primary */
    if (fcb_blind) return;
    int d = dest_of(b, n); if (d < 0 || d >= 70000) return;
    int fc = c & 0x0f;
    if (fc == 0) { reset_acked[d] = 2; have_last[d] = 0; return; }      /* reset sent: next FCV frame must carry FCB=1 once it is acknowledged */
    if (!(c & 0x10)) return;                    /* FCV=0 */
    int fcb = (c & 0x20) ? 1 : 0;
    if (have_last[d]) {
        int lfcb = (((last_fcv_frame[d][0] == 0x10) ? last_fcv_frame[d][1] : last_fcv_frame[d][4]) & 0x20) ? 1 : 0;
        if (fcb == lfcb) { n_retx++; if (n != last_fcv_len[d] || memcmp(b, last_fcv_frame[d], n)) fcb_note("frame with an unchanged FCB is not identical to the frame it repeats", b, n); }
    }
    else if (reset_acked[d] == 2 && fcb != 1) fcb_note("first FCV frame after a link reset carries FCB=0", b, n);
    memcpy(last_fcv_frame[d], b, n); last_fcv_len[d] = n; have_last[d] = 1; reset_acked[d] = 0;
}
static uint8_t first_tx[600]; static int first_tx_n;
static void on_serial(int idx, const uint8_t* b, int n) { static char h[700]; hexs(h, b, n); logf_("tx %s", h); n_tx++; frame_check(b, n); fcb_check(b, n); if (first_tx_n < 0 && n <= 600 && (n == 1 || !(((b[0] == 0x10) ? b[1] : b[4]) & 0x40))) { memcpy(first_tx, b, n); first_tx_n = n; }   /* responses only (PRM=0) */ (void) idx; }

/* ---- stub application layers ---- */
typedef struct { uint8_t d[64][256]; int n[64]; int cnt; } Q;
static Q c1, c2, outq; static bool accept_rx = true;
static void q_push(Q* q, const uint8_t* d, int n) { if (q->cnt < 64) { memcpy(q->d[q->cnt], d, n); q->n[q->cnt++] = n; } }
static Frame q_pop(Q* q, Frame f) { if (!q->cnt) return NULL; Frame_appendBytes(f, q->d[0], q->n[0]); memmove(q->d, q->d + 1, sizeof(q->d[0]) * (q->cnt - 1)); memmove(q->n, q->n + 1, sizeof(int) * (q->cnt - 1)); q->cnt--; return f; }
/* C15 oracle (secondary side): a confirmed user-data frame is delivered at most once per FCB value between resets */
static bool s_c1avail(void* p) { return c1.cnt > 0; }
static Frame s_get1(void* p, Frame f) { return q_pop(&c1, f); }
static Frame s_get2(void* p, Frame f) { return q_pop(&c2, f); }
static int cur_fcv = 0, cur_fcb = 0, cur_fc = -1, cur_valid = 0, prev_fcv_fcb = -1; static int dup_fail = 0; static char dup_info[300];
static bool s_rx(void* p, uint8_t* msg, bool bc, int start, int len)
{
    static char h[600]; hexs(h, msg + start, len); logf_("rx %d %s", bc ? 1 : 0, h); n_rx++;
    /* the previous well-formed FCV frame for this station carried the same FCB and no reset came in between: this is a retransmission, it must not be delivered */
    if (cur_valid && cur_fc == 3 && cur_fcv && prev_fcv_fcb == cur_fcb) { if (!dup_fail) snprintf(dup_info, sizeof dup_info, "at ops-file offset %ld: a confirmed user-data frame with FCB=%d was delivered although the previous FCV frame carried the same FCB (retransmission delivered twice)", (long) ftell(ops), cur_fcb); dup_fail++; }
    return accept_rx;
}
static void s_reset(void* p, bool onlyFcb) { logf_("resetcu %d", onlyFcb ? 1 : 0); }
static struct sISecondaryApplicationLayer sec_app = { s_c1avail, s_get1, s_get2, s_rx, s_reset };
static Frame b_get(void* p, Frame f) { return q_pop(&outq, f); }
static struct sIBalancedApplicationLayer bal_app = { b_get, s_rx };
static void p_ad(void* p, int a) { logf_("ad %d", a); }
static void p_ud(void* p, int a, uint8_t* msg, int start, int len) { static char h[600]; hexs(h, msg + start, len); logf_("ud %d %s", a, h); n_rx++; }
static struct sIPrimaryApplicationLayer pri_app = { p_ad, p_ud, NULL };
static void on_state(void* p, int a, LinkLayerState s) { logf_("state %d %d", a, (int) s); n_state++; }

/* ---- C15 oracle (secondary side): a repeated request gets the previous response again ---- */
static uint8_t prev_fed[600]; static int prev_fed_n = 0, prev_valid = 0; static char prev_norm[600]; static int rep_fail = 0; static char rep_info[900]; static long n_repeats_checked = 0;
static void norm_resp(char* out, const uint8_t* b, int n)
{
    if (n <= 0) { strcpy(out, "nothing"); return; }
    if (n == 1) { strcpy(out, "ack"); return; }
    int fc = ((b[0] == 0x10) ? b[1] : b[4]) & 0x0f;
    if (b[0] == 0x10) { if (fc == 0 || fc == 9) strcpy(out, "ack"); else sprintf(out, "fixed-fc%d", fc); return; }
    int aL = llp.addressLength; sprintf(out, "var-fc%d-", fc); hexs(out + strlen(out), b + 5 + aL, n - 7 - aL > 250 ? 250 : n - 7 - aL);
}
static void after_run(const uint8_t* fed, int n, int valid)
{
    /* called after the library processed one fed frame */
    char norm[600]; norm_resp(norm, first_tx, first_tx_n);
    int fc = cur_fc, is_req = valid && cur_fcv && (fc == 3 || fc == 10 || fc == 11 || fc == 2);
    if (is_req && prev_valid && n == prev_fed_n && !memcmp(fed, prev_fed, n)) {
        n_repeats_checked++;
        if (strcmp(norm, prev_norm)) { if (!rep_fail) { char h[600]; hexs(h, fed, n > 250 ? 250 : n); snprintf(rep_info, sizeof rep_info, "at ops-file offset %ld: request %s repeated (same FCB): first answered with <%.200s>, the repetition with <%.200s>", (long) ftell(ops), h, prev_norm, norm); } rep_fail++; }
    }
    if (!valid && n > 0) prev_fcv_fcb = -1;                     /* corrupted / arbitrary frame: it may or may not have consumed an FCB */
    if (valid && (cur_fc == 0 || cur_fc == 7)) prev_fcv_fcb = -1;   /* reset */
    if (valid && cur_fcv) prev_fcv_fcb = cur_fcb;
    if (is_req) { memcpy(prev_fed, fed, n); prev_fed_n = n; prev_valid = 1; strcpy(prev_norm, norm); } else if (n > 0) prev_valid = 0;
}
static int port_left(void) { return sim_serial[0].in_len - sim_serial[0].in_pos; }
static void destroy_all(void)
{
    if (U) { LinkLayerSecondaryUnbalanced_destroy(U); U = NULL; } if (B) { LinkLayerBalanced_destroy(B); B = NULL; }
    if (P) { LinkLayerPrimaryUnbalanced_destroy(P); P = NULL; }
    if (trx) { SerialTransceiverFT12_destroy(trx); trx = NULL; }
    memset(&sim_serial[0], 0, sizeof sim_serial[0]); c1.cnt = c2.cnt = outq.cnt = 0; accept_rx = true; memset(have_last, 0, sizeof have_last); memset(reset_acked, 0, sizeof reset_acked); fcb_blind = 0; prev_fcv_fcb = -1; prev_valid = 0;
}
static void flush(const char* sum) { fprintf(impl, "%s%s\n", loglen ? logbuf : "-", sum); loglen = 0; logbuf[0] = 0; }
static void feed(const uint8_t* b, int n) { SimSerial* s = &sim_serial[0]; if (s->in_len + n < SIM_BUF) { memcpy(s->in + s->in_len, b, n); s->in_len += n; } }
static void note_cur(const uint8_t* b, int n) { cur_fc = -1; cur_fcv = 0; if (n >= 4 && (b[0] == 0x10 || b[0] == 0x68)) { uint8_t c = (b[0] == 0x10) ? b[1] : (n > 4 ? b[4] : 0); if (c & 0x40) { cur_fc = c & 0x0f; cur_fcv = (c & 0x10) ? 1 : 0; cur_fcb = (c & 0x20) ? 1 : 0; } } }

/* ---- operations ---- */
static void u_run_inner(uint64_t now, const uint8_t* b, int n, int valid);
static void u_new(int aL, int tAck, int tRep, int single, int tLink, int addr, int idle)
{
    destroy_all(); fprintf(ops, "u.new %d %d %d %d %d %d %d\n", aL, tAck, tRep, single, tLink, addr, idle); fflush(ops);
    llp.addressLength = aL; llp.timeoutForAck = tAck; llp.timeoutRepeat = tRep; llp.useSingleCharACK = single; llp.timeoutLinkState = tLink;
    trx = SerialTransceiverFT12_create(sim_serial_port(0), &llp); u_own = addr; U = LinkLayerSecondaryUnbalanced_create(addr, trx, &llp, &sec_app, NULL);
    LinkLayerSecondaryUnbalanced_setIdleTimeout(U, idle); LinkLayerSecondaryUnbalanced_setStateChangeHandler(U, on_state, NULL);
    fprintf(impl, "ok\n");
}
static void u_q(int cls, const uint8_t* d, int n) { static char h[600]; hexs(h, d, n); fprintf(ops, "u.c%d %s\n", cls, h); fflush(ops); q_push(cls == 1 ? &c1 : &c2, d, n); fprintf(impl, "ok\n"); }
/* ---- model-free oracle C14 (receiving, unbalanced slave): a frame that arrives on an idle line and whose length octets, true length,
 * checksum or destination (own address, or the broadcast address of the configured width with FC 4) are wrong must cause neither a
 * delivery to the application nor a transmission.  Second start octet / end octet are not judged (the library does not check them). ---- */
static int acc_fail = 0; static char acc_info[900]; static long n_silent_checked = 0; static int judge_next = 1;
static int must_be_silent(const uint8_t* b, int n)
{
    int aL = llp.addressLength; unsigned cs = 0; int c, dest;
    if (n < 1) return -1;
    if (b[0] == 0x10) { if (n != 4 + aL || b[n - 1] != 0x16) return -1; for (int i = 1; i < n - 2; i++) cs += b[i]; c = b[1]; dest = aL == 0 ? -1 : aL == 1 ? b[2] : b[2] + 256 * b[3]; if ((cs & 0xff) != b[n - 2]) return 1; }
    else if (b[0] == 0x68) { if (n < 6 || n != b[1] + 6 || b[3] != 0x68 || b[n - 1] != 0x16) return -1; if (b[1] != b[2]) return 1; if (b[1] < 1 + aL) return -1;
        for (int i = 4; i < n - 2; i++) cs += b[i]; c = b[4]; dest = aL == 0 ? -1 : aL == 1 ? b[5] : b[5] + 256 * b[6]; if ((cs & 0xff) != b[n - 2]) return 1; }
    else return -1;
    if (aL == 0 || dest == u_own) return 0;
    if (dest == (aL == 1 ? 255 : 65535) && (c & 0x0f) == 4) return 0;
    return 1;
}
static void u_run(uint64_t now, const uint8_t* b, int n, int valid)
{
    int silent = (judge_next && port_left() == 0) ? must_be_silent(b, n) : -1; long rx0 = n_rx, tx0 = n_tx;
    u_run_inner(now, b, n, valid);
    if (silent == 1) { n_silent_checked++; if ((n_rx != rx0 || n_tx != tx0) && !acc_fail++) { char h[600]; hexs(h, b, n > 280 ? 280 : n);
        snprintf(acc_info, sizeof acc_info, "at ops-file offset %ld: frame %s (address width %d, own address %d) has a wrong checksum / length or is addressed to another station, yet it caused %s", (long) ftell(ops), h, llp.addressLength, u_own, n_rx != rx0 ? "a delivery to the application" : "a transmission"); } }
}
static void u_run_inner(uint64_t now, const uint8_t* b, int n, int valid)
{
    static char h[1400]; hexs(h, b, n); fprintf(ops, "u.run %llu %s\n", (unsigned long long) now, h); fflush(ops); n_ops++;
    if (port_left() > 0) valid = 0;
    sim_set_time(now); feed(b, n); note_cur(b, n); cur_valid = valid; first_tx_n = -1; LinkLayerSecondaryUnbalanced_run(U); after_run(b, n, valid);
    char sum[200]; snprintf(sum, sizeof sum, " | st=%d efcb=%d uds=%d c1=%d c2=%d port=%d", (int) U->state, U->expectedFcb ? 1 : 0, (int) U->_linkLayer.userDataSize, c1.cnt, c2.cnt, port_left()); flush(sum);
}
static void b_new(int aL, int tAck, int tRep, int single, int addr, int other, int dir, int idle)
{
    destroy_all(); fprintf(ops, "b.new %d %d %d %d %d %d %d %d\n", aL, tAck, tRep, single, addr, other, dir, idle); fflush(ops);
    llp.addressLength = aL; llp.timeoutForAck = tAck; llp.timeoutRepeat = tRep; llp.useSingleCharACK = single; llp.timeoutLinkState = 0;
    trx = SerialTransceiverFT12_create(sim_serial_port(0), &llp); B = LinkLayerBalanced_create(addr, trx, &llp, &bal_app, NULL);
    LinkLayerBalanced_setOtherStationAddress(B, other); LinkLayerBalanced_setDIR(B, dir); LinkLayerBalanced_setIdleTimeout(B, idle); LinkLayerBalanced_setStateChangeHandler(B, on_state, NULL);
    B->primaryLinkLayer.lastSendTime = 0; B->primaryLinkLayer.originalSendTime = 0; B->primaryLinkLayer.lastReceivedMsg = 0;   /* not initialised by the library; never read before written except lastReceivedMsg */
    fprintf(impl, "ok\n");
}
static void b_out(const uint8_t* d, int n) { static char h[600]; hexs(h, d, n); if (1 + llp.addressLength + n > 255) { fcb_blind = 1; n_unframeable++; } fprintf(ops, "b.out %s\n", h); fflush(ops); q_push(&outq, d, n); fprintf(impl, "ok\n"); }
static void b_accept(int v) { fprintf(ops, "b.accept %d\n", v); fflush(ops); accept_rx = v; fprintf(impl, "ok\n"); }
static void b_test(void) { fprintf(ops, "b.test\n"); fflush(ops); LinkLayerBalanced_sendLinkLayerTestFunction(B); fprintf(impl, "ok\n"); }
static void b_run(uint64_t now, const uint8_t* b, int n, int valid)
{
    static char h[1400]; hexs(h, b, n); fprintf(ops, "b.run %llu %s\n", (unsigned long long) now, h); fflush(ops); n_ops++;
    if (port_left() > 0) valid = 0;
    sim_set_time(now); feed(b, n); note_cur(b, n); cur_valid = valid; first_tx_n = -1; LinkLayerBalanced_run(B); after_run(b, n, valid);
    struct sLinkLayerPrimaryBalanced* p = &B->primaryLinkLayer;
    char sum[240]; snprintf(sum, sizeof sum, " | st=%d ps=%d efcb=%d%d nfcb=%d wait=%d test=%d out=%d port=%d", (int) p->state, (int) p->primaryState, B->secondaryLinkLayer.expectedFcb ? 1 : 0, B->secondaryLinkLayer.lastFrameAcknowledged ? 1 : 0, p->nextFcb ? 1 : 0, p->waitingForResponse ? 1 : 0, p->sendLinkLayerTestFunction ? 1 : 0, outq.cnt, port_left()); flush(sum);
}
static void p_new(int aL, int tAck, int tRep, int single, int tLink)
{
    destroy_all(); fprintf(ops, "p.new %d %d %d %d %d\n", aL, tAck, tRep, single, tLink); fflush(ops);
    llp.addressLength = aL; llp.timeoutForAck = tAck; llp.timeoutRepeat = tRep; llp.useSingleCharACK = single; llp.timeoutLinkState = tLink;
    trx = SerialTransceiverFT12_create(sim_serial_port(0), &llp); P = LinkLayerPrimaryUnbalanced_create(trx, &llp, &pri_app, NULL);
    LinkLayerPrimaryUnbalanced_setStateChangeHandler(P, on_state, NULL);
    fprintf(impl, "ok\n");
}
static void p_add(int a) { fprintf(ops, "p.add %d\n", a); fflush(ops); bool isnew = LinkLayerPrimaryUnbalanced_getSlaveConnection(P, a) == NULL; LinkLayerPrimaryUnbalanced_addSlaveConnection(P, a);
    if (isnew) { LinkLayerSlaveConnection c = LinkLayerPrimaryUnbalanced_getSlaveConnection(P, a); c->dontSendMessages = false; }   /* not initialised by the library, never read */
    fprintf(impl, "ok\n"); }
static void p_send(int a, const uint8_t* d, int n, int noreply)
{
    static char h[600]; hexs(h, d, n); fprintf(ops, "%s %d %s\n", noreply ? "p.noreply" : "p.send", a, h); fflush(ops);
    if (1 + llp.addressLength + n > 255) { fcb_blind = 1; n_unframeable++; }
    struct sBufferFrame bf; uint8_t tmp[256]; BufferFrame_initialize(&bf, tmp, 0); Frame_appendBytes((Frame) &bf, d, n);
    bool r = noreply ? LinkLayerPrimaryUnbalanced_sendNoReply(P, a, &bf) : LinkLayerPrimaryUnbalanced_sendConfirmed(P, a, &bf);
    fprintf(impl, "%d\n", r ? 1 : 0);
}
static void p_req(int cls, int a) { fprintf(ops, "p.req%d %d\n", cls, a); fflush(ops); bool r = cls == 1 ? LinkLayerPrimaryUnbalanced_requestClass1Data(P, a) : LinkLayerPrimaryUnbalanced_requestClass2Data(P, a); fprintf(impl, "%d\n", r ? 1 : 0); }
static void p_test(int a) { fprintf(ops, "p.test %d\n", a); fflush(ops); LinkLayerPrimaryUnbalanced_sendLinkLayerTestFunction(P, a); fprintf(impl, "ok\n"); }
static void p_run(uint64_t now, const uint8_t* b, int n)
{
    static char h[1400]; hexs(h, b, n); fprintf(ops, "p.run %llu %s\n", (unsigned long long) now, h); fflush(ops); n_ops++;
    sim_set_time(now); feed(b, n); LinkLayerPrimaryUnbalanced_run(P);
    char sum[1200]; int k = 0, curpos = -1, i = 0;
    LinkedList e = LinkedList_getNext(P->slaveConnections); while (e) { if (LinkedList_getData(e) == P->currentSlave) curpos = i; i++; e = LinkedList_getNext(e); }
    if (curpos >= 0) k += snprintf(sum + k, sizeof sum - k, " | cur=%d", curpos); else k += snprintf(sum + k, sizeof sum - k, " | cur=-");
    k += snprintf(sum + k, sizeof sum - k, " idx=%d bc=%d ", P->currentSlaveIndex, P->hasNextBroadcastToSend ? 1 : 0);
    e = LinkedList_getNext(P->slaveConnections); i = 0;
    while (e) { LinkLayerSlaveConnection c = (LinkLayerSlaveConnection) LinkedList_getData(e);
        k += snprintf(sum + k, sizeof sum - k, "%s%d:%d/%d/%d%d%d%d%d%d%d/%d", i ? "," : "", c->address, (int) c->state, (int) c->primaryState, c->hasMessageToSend, c->requestClass1Data, c->requestClass2Data, c->waitingForResponse, c->sendLinkLayerTestFunction, c->nextFcb, c->dontSendMessages, (int) c->lastRequestFc);
        i++; e = LinkedList_getNext(e); }
    k += snprintf(sum + k, sizeof sum - k, " port=%d", port_left()); flush(sum);
}

/* ---- frame construction (independent of the library) ---- */
static int mk_fixed(uint8_t* f, int aL, int c, int addr) { int n = 0; f[n++] = 0x10; f[n++] = c; if (aL > 0) f[n++] = addr & 0xff; if (aL > 1) f[n++] = (addr >> 8) & 0xff; unsigned cs = 0; for (int i = 1; i < n; i++) cs += f[i]; f[n++] = cs & 0xff; f[n++] = 0x16; return n; }
static int mk_var(uint8_t* f, int aL, int c, int addr, const uint8_t* d, int len) { int n = 0, l = 1 + aL + len; f[n++] = 0x68; f[n++] = l; f[n++] = l; f[n++] = 0x68; f[n++] = c; if (aL > 0) f[n++] = addr & 0xff; if (aL > 1) f[n++] = (addr >> 8) & 0xff; memcpy(f + n, d, len); n += len; unsigned cs = 0; for (int i = 4; i < n; i++) cs += f[i]; f[n++] = cs & 0xff; f[n++] = 0x16; return n; }
/* data the application hands to the library for sending: also sizes at and above what fits one frame (1 + aL + len <= 255) */
static int rnd_data_out(uint8_t* d, int aL) { int len = prng_below(6) == 0 ? prng_range(249, 254) : prng_below(6) ? prng_range(1, 24) : prng_range(1, 254 - aL); for (int i = 0; i < len; i++) d[i] = (uint8_t) prng_next(); return len; }
static int rnd_data(uint8_t* d, int aL) { int len = prng_below(6) ? prng_range(1, 24) : prng_below(3) ? prng_range(1, 254 - aL) : 0; for (int i = 0; i < len; i++) d[i] = (uint8_t) prng_next(); return len; }
/* corrupt a well-formed frame: one octet, a truncation, or the length pair */
static int corrupt(uint8_t* f, int n)
{
    n_corrupt++;
    int k = prng_below(10);
    if (k < 6 || n < 3) { int i = prng_below(n); uint8_t o = f[i]; do f[i] = (uint8_t) prng_next(); while (f[i] == o); return n; }
    if (k < 8) return prng_range(1, n - 1);
    if (f[0] == 0x68 && n > 3) { f[1 + prng_below(2)] ^= (uint8_t) (1 << prng_below(8)); return n; }
    f[n - 2] ^= 0x01; return n;
}
static uint64_t now = 1000;
static uint64_t tick(int tAck, int tRep) { int k = prng_below(10); now += k < 5 ? prng_range(0, tAck / 2 + 1) : k < 8 ? prng_range(tAck, tAck * 2 + 2) : prng_range(tRep, tRep * 2 + 2); return now; }

static void episode_u(bool thorough)
{
    int aL = prng_below(8) ? prng_range(1, 2) : 0, single = prng_below(2), addr = aL == 0 ? 0 : aL == 1 ? prng_range(0, 254) : prng_range(0, 65534), idle = prng_range(50, 3000);
    u_new(aL, 200, 1000, single, 500, addr, idle); now = 1000;
    int fcb = 1, steps = thorough ? 260 : 80; uint8_t f[600], d[300], last[600]; int lastn = 0, lastvalid = 0;
    for (int i = 0; i < steps; i++) {
        int x = prng_below(100), valid = 0;
        if (x < 12) { int n = rnd_data_out(d, aL); if (n) u_q(prng_below(3) ? 2 : 1, d, n); continue; }
        now += prng_below(6) ? prng_range(0, 60) : prng_range(idle, idle * 2);
        int n = 0, a = (aL && prng_below(12) == 0) ? (addr + 1 + prng_below(5)) % (aL == 1 ? 255 : 65535) : addr;
        /* foreign addresses that are easily confused with broadcast or with the own address */
        if (aL && prng_below(14) == 0) { const int c2[6] = { 0x00ff, 0xff00, 0xfffe, addr ^ 0x100, addr ^ 0xff00, (addr & 0xff) }; const int c1[3] = { 254, addr ^ 1, addr ^ 0x80 }; a = aL == 2 ? c2[prng_below(6)] : (c1[prng_below(3)] & 0xff); }
        if (x < 20) { n = mk_fixed(f, aL, 0x49, a); }
        else if (x < 27) { n = mk_fixed(f, aL, prng_below(8) ? 0x40 : 0x47, a); fcb = 1; }
        else if (x < 55) { int c = 0x40 | 0x10 | (fcb ? 0x20 : 0) | (prng_below(4) ? 11 : 10); n = mk_fixed(f, aL, c, a); if (a == addr) fcb = !fcb; }
        else if (x < 72) { int len = rnd_data(d, aL); int c = 0x40 | 0x10 | (fcb ? 0x20 : 0) | 3; n = mk_var(f, aL, c, a, d, len); if (a == addr) fcb = !fcb; }
        else if (x < 78 && lastn) { memcpy(f, last, lastn); n = lastn; valid = lastvalid; }                     /* retransmission of the previous frame */
        else if (x < 83) { int len = rnd_data(d, aL); int bc = aL && prng_below(2); if (!bc && aL == 2 && prng_below(3) == 0) a = prng_below(2) ? 0x00ff : 0xff00; n = mk_var(f, aL, 0x44, bc ? (aL == 1 ? 255 : 65535) : a, d, len); }
        else if (x < 88) { int c = (int) prng_below(256); n = prng_below(2) ? mk_fixed(f, aL, c, a) : mk_var(f, aL, c, a, d, rnd_data(d, aL)); }   /* arbitrary control octet */
        else if (x < 92) { n = prng_range(1, 12); for (int j = 0; j < n; j++) f[j] = (uint8_t) prng_next(); if (prng_below(2)) f[0] = prng_below(2) ? 0x68 : 0x10; }
        else if (x < 94) { f[0] = 0xe5; n = 1; }
        else { n = 0; }
        if (n && x >= 12 && x < 83 && !(x >= 72 && x < 78)) valid = (a == addr);
        if (n && x >= 20 && x < 83 && !(x >= 72 && x < 78)) { memcpy(last, f, n); lastn = n; lastvalid = valid; }
        if (n && prng_below(7) == 0) { long before = n_rx, btx = n_tx; n = corrupt(f, n); u_run(now, f, n, 0); if (n_rx != before || n_tx != btx) n_corrupt_accepted++; /* a corruption can still be a well-formed frame (control octet, data, both + checksum unlikely) */ continue; }
        if (n) n_valid_fed++;
        /* sometimes deliver the frame in two reads */
        if (n > 2 && prng_below(10) == 0) { int cut = prng_range(1, n - 1); judge_next = 0; u_run(now, f, cut, 0); u_run(now, f + cut, n - cut, 0); judge_next = 1; }
        else u_run(now, f, n, valid);
    }
}

static int reply_for(uint8_t* f, int aL, const uint8_t* lasttx, int lastn, int addr, bool secondary_is_unbalanced, uint8_t* d)
{
    /* a plausible answer of the other station to the frame the library wrote last */
    if (lastn < 4) return 0;
    uint8_t c = (lasttx[0] == 0x10) ? lasttx[1] : lasttx[4]; int fc = c & 0x0f; if (!(c & 0x40)) return 0;
    int flags = (prng_below(6) == 0 ? 0x20 : 0) | (prng_below(14) == 0 ? 0x10 : 0);
    if (!secondary_is_unbalanced) flags &= 0x10;
    if (fc == 9) return mk_fixed(f, aL, 11 | flags, addr);
    if (fc == 0 || fc == 3 || fc == 2) return prng_below(3) == 0 ? (f[0] = 0xe5, 1) : prng_below(10) == 0 ? mk_fixed(f, aL, 1 | flags, addr) : mk_fixed(f, aL, 0 | flags, addr);
    if (fc == 10 || fc == 11) { int k = prng_below(4); if (k == 0) return mk_fixed(f, aL, 9 | flags, addr); if (k == 1) { f[0] = 0xe5; return 1; } int len = rnd_data(d, aL); return mk_var(f, aL, 8 | flags, addr, d, len ? len : 1); }
    return 0;
}
static uint8_t lasttx[600]; static int lasttxn = 0;
static void on_serial2(int idx, const uint8_t* b, int n) { on_serial(idx, b, n); if (n <= 600) { memcpy(lasttx, b, n); lasttxn = n; } }

static void episode_b(bool thorough)
{
    int aL = prng_below(8) ? prng_range(1, 2) : 0, single = prng_below(2), addr = aL == 0 ? 0 : prng_range(0, 200), other = aL == 0 ? 0 : prng_range(0, 200), dir = prng_below(2), idle = prng_range(300, 4000);
    int tAck = prng_range(50, 300), tRep = tAck * prng_range(2, 5);
    b_new(aL, tAck, tRep, single, addr, other, dir, idle); now = 1000; lasttxn = 0;
    int fcb = 1, steps = thorough ? 300 : 90; uint8_t f[600], d[300], last[600]; int lastn = 0;
    for (int i = 0; i < steps; i++) {
        int x = prng_below(100);
        if (x < 10) { int n = rnd_data_out(d, aL); if (n) b_out(d, n); continue; }
        if (x < 12) { b_accept(prng_below(4) != 0); continue; }
        if (x < 13) { b_test(); continue; }
        tick(tAck, tRep);
        int n = 0, odir = dir ? 0 : 0x80;
        if (x < 40) { n = reply_for(f, aL, lasttx, lasttxn, other, false, d); if (n > 1) { if (f[0] == 0x10) f[1] |= odir; else f[4] |= odir; n = (f[0] == 0x10) ? mk_fixed(f, aL, f[1], other) : n; } lasttxn = 0; }
        else if (x < 46) { n = mk_fixed(f, aL, 0x49 | odir, addr); }
        else if (x < 52) { n = mk_fixed(f, aL, 0x40 | odir, addr); fcb = 1; }
        else if (x < 66) { int len = rnd_data(d, aL); n = mk_var(f, aL, 0x40 | 0x10 | (fcb ? 0x20 : 0) | 3 | odir, addr, d, len); fcb = !fcb; }
        else if (x < 70) { n = mk_fixed(f, aL, 0x40 | 0x10 | (fcb ? 0x20 : 0) | 2 | odir, addr); fcb = !fcb; }
        else if (x < 75 && lastn) { memcpy(f, last, lastn); n = lastn; }
        else if (x < 79) { int len = rnd_data(d, aL); n = mk_var(f, aL, 0x44 | odir, addr, d, len); }
        else if (x < 85) { int c = (int) prng_below(256); n = prng_below(2) ? mk_fixed(f, aL, c, addr) : mk_var(f, aL, c, addr, d, rnd_data(d, aL)); }
        else if (x < 88) { n = prng_range(1, 12); for (int j = 0; j < n; j++) f[j] = (uint8_t) prng_next(); if (prng_below(2)) f[0] = prng_below(2) ? 0x68 : 0x10; }
        else n = 0;
        if (n && x >= 52 && x < 79 && !(x >= 70 && x < 75)) { memcpy(last, f, n); lastn = n; }
        if (n && prng_below(8) == 0) { long before = n_rx; n = corrupt(f, n); b_run(now, f, n, 0); if (n_rx != before) n_corrupt_accepted++; continue; }
        if (n) n_valid_fed++;
        b_run(now, f, n, n && x >= 40 && x < 79);
    }
}

static void episode_p(bool thorough)
{
    int aL = prng_range(1, 2), single = prng_below(2), tAck = prng_range(50, 300), tRep = tAck * prng_range(2, 5), tLink = prng_range(100, 1000);
    p_new(aL, tAck, tRep, single, tLink); now = 1000; lasttxn = 0;
    int ns = prng_range(1, 3), addrs[3]; for (int i = 0; i < ns; i++) { addrs[i] = 1 + i * 7 + prng_below(5); p_add(addrs[i]); }
    if (prng_below(4) == 0) p_add(addrs[0]);
    int steps = thorough ? 400 : 120; uint8_t f[600], d[300];
    for (int i = 0; i < steps; i++) {
        int x = prng_below(100), a = addrs[prng_below(ns)];
        if (x < 8) { int n = rnd_data_out(d, aL); if (n) p_send(prng_below(15) ? a : 99, d, n, 0); continue; }
        if (x < 10) { int n = rnd_data_out(d, aL); if (n) p_send(prng_below(2) ? (aL == 1 ? 255 : 65535) : a, d, n, 1); continue; }
        if (x < 16) { p_req(1, prng_below(15) ? a : 99); continue; }
        if (x < 26) { p_req(2, a); continue; }
        if (x < 27) { p_test(a); continue; }
        tick(tAck, tRep);
        int n = 0;
        if (x < 70) { int dst = lasttxn >= 4 ? ((lasttx[0] == 0x10) ? (aL == 1 ? lasttx[2] : lasttx[2] + 256 * lasttx[3]) : (aL == 1 ? lasttx[5] : lasttx[5] + 256 * lasttx[6])) : a; n = reply_for(f, aL, lasttx, lasttxn, prng_below(20) ? dst : a, true, d); lasttxn = 0; }
        else if (x < 76) { int c = (int) prng_below(16) | (prng_below(4) == 0 ? 0x20 : 0) | (prng_below(10) == 0 ? 0x10 : 0) | (prng_below(12) == 0 ? 0x40 : 0); n = prng_below(2) ? mk_fixed(f, aL, c, a) : mk_var(f, aL, c, a, d, rnd_data(d, aL)); }
        else if (x < 79) { n = prng_range(1, 12); for (int j = 0; j < n; j++) f[j] = (uint8_t) prng_next(); if (prng_below(2)) f[0] = prng_below(2) ? 0x68 : 0x10; }
        else n = 0;
        if (n && prng_below(8) == 0) { long before = n_rx; n = corrupt(f, n); p_run(now, f, n); if (n_rx != before) n_corrupt_accepted++; continue; }
        if (n) n_valid_fed++;
        p_run(now, f, n);
    }
}

int main(int argc, char** argv)
{
    if (argc < 4) return 2;
    ops = fopen(argv[1], "w"); impl = fopen(argv[2], "w"); setvbuf(impl, NULL, _IOLBF, 0);
    bool thorough = !strcmp(argv[3], "thorough");
    sim_serial_hook = on_serial2; prng_seed(seed_from_env());
    int episodes = thorough ? 900 : 150;
    for (int e = 0; e < episodes; e++) { int k = e % 3; if (k == 0) episode_u(thorough); else if (k == 1) episode_b(thorough); else episode_p(thorough); }
    destroy_all(); fclose(ops); fclose(impl);
    if (frame_fail) printf("FRAME_FAIL %s\n", frame_info);
    if (fcb_fail) printf("FCB_FAIL %s\n", fcb_info);
    if (dup_fail) printf("DUP_FAIL %s\n", dup_info);
    if (rep_fail) printf("REPEAT_FAIL %s\n", rep_info);
    if (acc_fail) printf("ACCEPT_FAIL %s\n", acc_info);
    printf("HISTO role=link101 run_ops=%ld frames_written=%ld deliveries=%ld valid_frames_fed=%ld corrupted_fed=%ld corrupted_still_accepted=%ld retransmissions_seen=%ld state_events=%ld frame_violations=%d fcb_violations=%d duplicate_deliveries=%d repeats_checked=%ld repeat_violations=%d silent_checked=%ld accept_violations=%d\n",
        n_ops, n_tx, n_rx, n_valid_fed, n_corrupt, n_corrupt_accepted, n_retx, n_state, frame_fail, fcb_fail, dup_fail, n_repeats_checked, rep_fail, n_silent_checked, acc_fail);
    return 0;
}
