/*
 * C19 failing-input search: checks the property's statement directly on the real
 * code (no model involved).  Prints one line "FAIL <key> <description of the input>"
 * for the first failing input of each kind and exits 1, or "OK <count>" and exits 0.
 *
 * usage: c19_oracle <quick|thorough>
 */
#include <stdio.h>
#include <string.h>
#include <stdint.h>
#include <stdbool.h>
#include "iec60870_common.h"
#include "cs101_information_objects.h"
#include "information_objects_internal.h"
#include "prng.h"

static long checked = 0; static int fails = 0;
typedef struct { int ms, s, mi, iv, sb, h, su, dow, dom, mon, y; uint8_t spare[3]; } F;
static F fields(struct sCP56Time2a* t)
{
    F f = { CP56Time2a_getMillisecond(t), CP56Time2a_getSecond(t), CP56Time2a_getMinute(t), CP56Time2a_isInvalid(t), CP56Time2a_isSubstituted(t),
        CP56Time2a_getHour(t), CP56Time2a_isSummerTime(t), CP56Time2a_getDayOfWeek(t), CP56Time2a_getDayOfMonth(t), CP56Time2a_getMonth(t),
        CP56Time2a_getYear(t), { (uint8_t)(t->encodedValue[3] & 0x60), (uint8_t)(t->encodedValue[5] & 0xf0), (uint8_t)(t->encodedValue[6] & 0x80) } };
    return f;
}
static int* fld(F* f, int i) { int* p[] = { &f->ms, &f->s, &f->mi, &f->iv, &f->sb, &f->h, &f->su, &f->dow, &f->dom, &f->mon, &f->y }; return p[i]; }
static const char* FN[] = { "ms", "s", "mi", "iv", "sb", "h", "su", "dow", "dom", "mon", "y" };
static const int FMAX[] = { 999, 59, 59, 1, 1, 23, 1, 7, 31, 12, 99 };
static bool seen[16];

static void apply(struct sCP56Time2a* t, int i, int v)
{
    switch (i) {
    case 0: CP56Time2a_setMillisecond(t, v); break; case 1: CP56Time2a_setSecond(t, v); break;
    case 2: CP56Time2a_setMinute(t, v); break; case 3: CP56Time2a_setInvalid(t, v); break;
    case 4: CP56Time2a_setSubstituted(t, v); break; case 5: CP56Time2a_setHour(t, v); break;
    case 6: CP56Time2a_setSummerTime(t, v); break; case 7: CP56Time2a_setDayOfWeek(t, v); break;
    case 8: CP56Time2a_setDayOfMonth(t, v); break; case 9: CP56Time2a_setMonth(t, v); break;
    case 10: CP56Time2a_setYear(t, v); break; }
}

static void check_setter(int i, const uint8_t* pat, int v)
{
    struct sCP56Time2a t; memcpy(t.encodedValue, pat, 7);
    F before = fields(&t);
    /* representable? (ms and s share one 16-bit field) */
    if (i == 0 && before.s * 1000 + v > 65535) return;
    apply(&t, i, v);
    F after = fields(&t);
    checked++;
    bool bad = *fld(&after, i) != v;
    for (int k = 0; k < 11 && !bad; k++) if (k != i && *fld(&after, k) != *fld(&before, k)) bad = true;
    if (memcmp(after.spare, before.spare, 3)) bad = true;
    if (bad && !seen[i]) {
        seen[i] = true; fails++;
        printf("FAIL setter-%s CP56Time2a pattern=", FN[i]); for (int k = 0; k < 7; k++) printf("%02x", pat[k]);
        printf(" set %s=%d -> ", FN[i], v); for (int k = 0; k < 7; k++) printf("%02x", t.encodedValue[k]);
        printf(" reads"); for (int k = 0; k < 11; k++) printf(" %s=%d(was %d)", FN[k], *fld(&after, k), *fld(&before, k)); printf("\n");
    }
}

int main(int argc, char** argv)
{
    bool thorough = argc > 1 && !strcmp(argv[1], "thorough");
    prng_seed(seed_from_env());
    uint8_t pat[7];
    /* 1. setters: exhaustive over the octets each setter touches, other octets from {00, ff, random} */
    for (int fill = 0; fill < 3; fill++) {
        for (int i = 0; i < 11; i++) {
            int oct = (i <= 1) ? 0 : (i <= 4) ? 2 : (i <= 6) ? 3 : (i <= 8) ? 4 : (i == 9) ? 5 : 6;
            long npat = (i <= 1) ? 65536 : 256;
            int step = (!thorough && i == 0) ? 7 : 1;
            for (long p = 0; p < npat; p++) {
                for (int k = 0; k < 7; k++) pat[k] = fill == 0 ? 0 : fill == 1 ? 0xff : (uint8_t) prng_next();
                pat[oct] = p & 0xff; if (i <= 1) pat[1] = p >> 8;
                for (int v = (p % step); v <= FMAX[i]; v += step) check_setter(i, pat, v);
            }
        }
    }
    /* CP24 / CP32 wrappers agree with CP56 on the shared octets (sampled patterns, all values) */
    for (long n = 0; n < 20000; n++) {
        for (int k = 0; k < 7; k++) pat[k] = (uint8_t) prng_next();
        struct sCP24Time2a a; struct sCP32Time2a b; struct sCP56Time2a c;
        int v = prng_below(1000);
        memcpy(a.encodedValue, pat, 3); memcpy(b.encodedValue, pat, 4); memcpy(c.encodedValue, pat, 7);
        if (CP56Time2a_getSecond(&c) * 1000 + v > 65535) continue;
        CP24Time2a_setMillisecond(&a, v); CP32Time2a_setMillisecond(&b, v); CP56Time2a_setMillisecond(&c, v); checked++;
        if (memcmp(a.encodedValue, c.encodedValue, 3) || memcmp(b.encodedValue, c.encodedValue, 4) || CP32Time2a_getMillisecond(&b) != v || CP24Time2a_getMillisecond(&a) != v) {
            if (!seen[11]) { seen[11] = true; fails++; printf("FAIL setter-ms-wrappers pattern=%02x%02x%02x%02x v=%d cp24=%02x%02x cp32=%02x%02x cp56=%02x%02x\n", pat[0], pat[1], pat[2], pat[3], v,
                a.encodedValue[0], a.encodedValue[1], b.encodedValue[0], b.encodedValue[1], c.encodedValue[0], c.encodedValue[1]); } }
        int s = prng_below(60), mi = prng_below(60), h = prng_below(24);
        CP24Time2a_setSecond(&a, s); CP32Time2a_setSecond(&b, s); CP24Time2a_setMinute(&a, mi); CP32Time2a_setMinute(&b, mi); CP32Time2a_setHour(&b, h);
        if (CP24Time2a_getSecond(&a) != s || CP32Time2a_getSecond(&b) != s || CP24Time2a_getMinute(&a) != mi || CP32Time2a_getMinute(&b) != mi || CP32Time2a_getHour(&b) != h ||
            CP24Time2a_getMillisecond(&a) != v || CP32Time2a_getMillisecond(&b) != v) {
            if (!seen[12]) { seen[12] = true; fails++; printf("FAIL setter-cp24-cp32 pattern=%02x%02x%02x%02x ms=%d s=%d mi=%d h=%d\n", pat[0], pat[1], pat[2], pat[3], v, s, mi, h); } }
    }
    /* CP16 */
    for (int v = 0; v < 65536; v++) { struct sCP16Time2a e; e.encodedValue[0] = (uint8_t) prng_next(); e.encodedValue[1] = (uint8_t) prng_next();
        CP16Time2a_setEplapsedTimeInMs(&e, v); checked++;
        if (CP16Time2a_getEplapsedTimeInMs(&e) != v) { fails++; printf("FAIL cp16 elapsed=%d reads %d\n", v, CP16Time2a_getEplapsedTimeInMs(&e)); break; } }
    /* 2. millisecond timestamp round trip: every day of the century x boundary and random instants */
    static const long SOD[] = { 0, 1, 59, 60, 3599, 3600, 43199, 43200, 86398, 86399 };
    static const int MSB[] = { 0, 1, 500, 999 };
    bool tsfail = false;
    for (long d = 10957; d < 47482 && !tsfail; d++) {
        int reps = thorough ? 400 : 24;
        for (int r = 0; r < reps && !tsfail; r++) {
            long sod = r < 10 ? SOD[r] : (long) prng_below(86400);
            int ms = r < 14 ? MSB[r % 4] : (int) prng_below(1000);
            uint64_t t = ((uint64_t) d * 86400 + sod) * 1000 + ms;
            struct sCP56Time2a x; memset(&x, 0xa5, sizeof x);
            CP56Time2a_createFromMsTimestamp(&x, t); checked++;
            uint64_t back = CP56Time2a_toMsTimestamp(&x);
            if (back != t) { tsfail = true; fails++; printf("FAIL ms-roundtrip t=%llu encodes to ", (unsigned long long) t);
                for (int k = 0; k < 7; k++) printf("%02x", x.encodedValue[k]); printf(" decodes to %llu\n", (unsigned long long) back); }
        }
    }
    /* 3. BCR */
    bool bf = false;
    for (int b4 = 0; b4 < 256 && !bf; b4++) for (int op = 0; op < 4 && !bf; op++) for (int v = 0; v < (op == 0 ? 32 : 2) && !bf; v++) {
        struct sBinaryCounterReading b; for (int k = 0; k < 4; k++) b.encodedValue[k] = (uint8_t) prng_next(); b.encodedValue[4] = b4;
        int32_t val = BinaryCounterReading_getValue(&b); int sq = BinaryCounterReading_getSequenceNumber(&b);
        int cy = BinaryCounterReading_hasCarry(&b), ca = BinaryCounterReading_isAdjusted(&b), iv = BinaryCounterReading_isInvalid(&b);
        switch (op) { case 0: BinaryCounterReading_setSequenceNumber(&b, v); sq = v; break; case 1: BinaryCounterReading_setCarry(&b, v); cy = v; break;
            case 2: BinaryCounterReading_setAdjusted(&b, v); ca = v; break; case 3: BinaryCounterReading_setInvalid(&b, v); iv = v; break; }
        checked++;
        if (BinaryCounterReading_getValue(&b) != val || BinaryCounterReading_getSequenceNumber(&b) != sq || BinaryCounterReading_hasCarry(&b) != cy ||
            BinaryCounterReading_isAdjusted(&b) != ca || BinaryCounterReading_isInvalid(&b) != iv) {
            bf = true; fails++; printf("FAIL bcr-field octet4=%02x op=%d v=%d -> %02x\n", b4, op, v, b.encodedValue[4]); }
    }
    for (long n = 0; n < 2000000 && !bf; n++) {
        struct sBinaryCounterReading b; for (int k = 0; k < 5; k++) b.encodedValue[k] = (uint8_t) prng_next();
        uint8_t b4 = b.encodedValue[4];
        int32_t v = n == 0 ? INT32_MIN : n == 1 ? INT32_MAX : n == 2 ? -1 : (int32_t) prng_next();
        BinaryCounterReading_setValue(&b, v); checked++;
        if (BinaryCounterReading_getValue(&b) != v || b.encodedValue[4] != b4) { bf = true; fails++; printf("FAIL bcr-value v=%d reads %d\n", v, BinaryCounterReading_getValue(&b)); }
    }
    /* 4. single event, SCD */
    bool sf = false;
    for (int b = 0; b < 256 && !sf; b++) {
        for (int es = 0; es < 4 && !sf; es++) { tSingleEvent e = b; int q = SingleEvent_getQDP(&e); SingleEvent_setEventState(&e, es); checked++;
            if (SingleEvent_getEventState(&e) != es || SingleEvent_getQDP(&e) != q) { sf = true; fails++; printf("FAIL single-event octet=%02x eventState=%d -> %02x\n", b, es, e); } }
        for (int q = 0; q < 256 && !sf; q += 4) { tSingleEvent e = b; int es = SingleEvent_getEventState(&e); SingleEvent_setQDP(&e, q); checked++;
            if (SingleEvent_getEventState(&e) != es || SingleEvent_getQDP(&e) != q) { sf = true; fails++; printf("FAIL single-event octet=%02x qdp=%02x -> %02x\n", b, q, e); } }
    }
    for (int v = 0; v < 65536 && !sf; v++) { tStatusAndStatusChangeDetection s; for (int k = 0; k < 4; k++) s.encodedValue[k] = (uint8_t) prng_next();
        int cd = StatusAndStatusChangeDetection_getCDn(&s); StatusAndStatusChangeDetection_setSTn(&s, v); checked++;
        bool bad = StatusAndStatusChangeDetection_getSTn(&s) != v || StatusAndStatusChangeDetection_getCDn(&s) != cd;
        for (int i = 0; i < 16 && !bad; i++) if (StatusAndStatusChangeDetection_getST(&s, i) != ((v >> i) & 1) || StatusAndStatusChangeDetection_getCD(&s, i) != ((cd >> i) & 1)) bad = true;
        if (bad) { sf = true; fails++; printf("FAIL scd stn=%d cdn=%d\n", v, cd); } }
    /* 5. scaled / normalised: all 65536 raw values; saturation */
    bool nf = false;
    for (int v = -32768; v <= 32767 && !nf; v++) {
        struct sMeasuredValueScaled m; memset(&m, 0, sizeof m); MeasuredValueScaled_setValue(&m, v); checked++;
        if (MeasuredValueScaled_getValue(&m) != v) { nf = true; fails++; printf("FAIL scaled-raw v=%d reads %d\n", v, MeasuredValueScaled_getValue(&m)); }
        struct sMeasuredValueNormalized n; memset(&n, 0, sizeof n); float f = NormalizedValue_fromScaled(v);
        if (NormalizedValue_toScaled(f) != v) { nf = true; fails++; printf("FAIL normalized-raw v=%d -> %.9g -> %d\n", v, f, NormalizedValue_toScaled(f)); }
        MeasuredValueNormalized_setValue(&n, f);
        if ((n.encodedValue[0] | (n.encodedValue[1] << 8)) != (v & 0xffff)) { nf = true; fails++; printf("FAIL normalized-object v=%d stored %02x%02x\n", v, n.encodedValue[0], n.encodedValue[1]); }
    }
    static const float BIG[] = { 1.0f, 1.0000001f, 1.5f, 2.f, 1e10f, 3.4e38f, __builtin_inff() };
    for (unsigned i = 0; i < sizeof BIG / sizeof BIG[0] && !nf; i++) { checked += 2;
        if (NormalizedValue_toScaled(BIG[i]) != 32767) { nf = true; fails++; printf("FAIL saturate-high value=%.9g -> %d\n", BIG[i], NormalizedValue_toScaled(BIG[i])); }
        if (i && NormalizedValue_toScaled(-BIG[i]) != -32768) { nf = true; fails++; printf("FAIL saturate-low value=%.9g -> %d\n", -BIG[i], NormalizedValue_toScaled(-BIG[i])); } }
    for (int v = 32768; v < 200000 && !nf; v += 997) { checked += 2;
        if (NormalizedValue_toScaled(NormalizedValue_fromScaled(v)) != 32767 || NormalizedValue_toScaled(NormalizedValue_fromScaled(-v - 1)) != -32768) {
            nf = true; fails++; printf("FAIL saturate-int v=%d\n", v); } }
    if (fails == 0) printf("OK %ld\n", checked); else printf("CHECKED %ld\n", checked);
    return fails ? 1 : 0;
}
