/*
 * Simulated HAL for lib60870 harnesses: sockets and the serial line are byte queues
 * owned by the harness, the clock is virtual, semaphores are counters that record
 * every wait/post, threads are cooperative fibers that run only when the harness
 * schedules them and yield inside blocking HAL calls.  Replaces hal/socket, hal/thread,
 * hal/time, hal/serial completely (link WITHOUT the real HAL objects).
 */
#ifndef SIMHAL_H
#define SIMHAL_H
#include <stdint.h>
#include <stdbool.h>
#include "hal_socket.h"
#include "hal_thread.h"
#include "hal_time.h"
#include "hal_serial.h"

#define SIM_MAX_SOCKETS 64
#define SIM_BUF 65536

typedef struct sSimSocket {
    int id;
    bool open;              /* library side still holds it */
    bool peer_closed;       /* harness closed its end: reads return -1 once drained */
    bool write_fail;        /* Socket_write returns -1 */
    bool connect_ok;
    char peer[64];
    /* input to the library: a list of chunks; a read never crosses a chunk boundary */
    uint8_t in[SIM_BUF]; int in_len; int in_pos;
    int chunk_end[4096]; int n_chunks; int cur_chunk;
    /* output of the library since the last sim_take_output */
    uint8_t out[SIM_BUF]; int out_len;
    long reads, writes;
} SimSocket;

/* harness API */
void sim_reset(void);
void sim_set_time(uint64_t ms);
void sim_advance(uint64_t ms);
uint64_t sim_time(void);
SimSocket* sim_incoming(const char* peer);            /* queue an incoming connection on the (single) server socket */
SimSocket* sim_socket_by_id(int id);
void sim_feed(SimSocket* s, const uint8_t* data, int n);   /* one chunk */
void sim_peer_close(SimSocket* s);
int  sim_take_output(SimSocket* s, uint8_t* buf, int max);
extern void (*sim_write_hook)(SimSocket* s, const uint8_t* buf, int n);   /* called for every successful Socket_write */
extern SimSocket* sim_last_client_socket;            /* socket created by TcpSocket_create (client role) */
extern bool sim_connect_result;                      /* what Socket_connect returns */
extern int  sim_server_listening;

/* semaphore monitor */
extern long sim_sem_waits, sim_sem_posts;
extern int  sim_sem_max_value;                       /* highest value any semaphore reached */
extern int  sim_sem_violations;                      /* posts that raised a binary semaphore above its initial value */
extern char sim_sem_violation_where[256];
extern int  sim_owner_violations;                    /* a binary semaphore released by another thread than the one that took it */
extern char sim_owner_violation_where[256];
extern bool (*sim_preempt_hook)(void);               /* optional: deschedule a fiber right after a wait / post */
extern int  sim_live_semaphores, sim_live_sockets, sim_live_threads, sim_live_handlesets;

/* fibers */
typedef struct sSimTask SimTask;
int  sim_task_count(void);
bool sim_task_done(int idx);
bool sim_task_runnable(int idx);
void sim_task_step(int idx);                          /* run task idx until it yields */
extern bool sim_main_sleep_runs_tasks;               /* Thread_sleep in the application context steps every runnable thread */
extern int sim_last_task;                            /* slot of the most recently created thread */
extern int sim_deadlock;                              /* set when a join cannot make progress */
extern char sim_deadlock_info[256];
extern long sim_hal_calls;                            /* watchdog: HAL calls since last reset of this counter */

/* serial line */
typedef struct { uint8_t in[SIM_BUF]; int in_len, in_pos; uint8_t out[SIM_BUF]; int out_len; } SimSerial;
extern SimSerial sim_serial[4];
extern void (*sim_serial_hook)(int idx, const uint8_t* buf, int n);   /* called for every SerialPort_write */
SerialPort sim_serial_port(int idx);
#endif
