/*
 * C01 / C02 / C12 failing-input search on the real code alone (no model):
 *  - C12: add objects until refused; every accepted addition keeps the ASDU within
 *    maxSizeOfASDU and 127 elements and leaves the previous octets in place, every
 *    refused addition leaves all octets unchanged;
 *  - C01: parse the octets back; every element's type, address and stored struct
 *    members equal the original's; header getters read back;
 *  - C02: truncate at every length inside an exactly-sized heap block (ASan): element
 *    i is returned iff its last octet (measured while building) is present.
 * Prints "FAIL <key> <input>" per first failure of a kind; exit 1 if any.
 * usage: asdu_oracle <quick|thorough>
 */
#include <stdio.h>
#include <string.h>
#include <stdint.h>
#include <stdbool.h>
#include <stdlib.h>
#include "iec60870_common.h"
#include "cs101_information_objects.h"
#include "information_objects_internal.h"
#include "cs101_asdu_internal.h"
#include "lib_memory.h"
#include "prng.h"
#include "asdu_common.h"

static int fails = 0; static long checked = 0;
static char seenkeys[400][64]; static int nseen = 0;
static bool first(const char* key) { for (int i = 0; i < nseen; i++) if (!strcmp(seenkeys[i], key)) return false; if (nseen < 400) strcpy(seenkeys[nseen++], key); fails++; return true; }
static void hexs(const uint8_t* b, int n) { if (!n) printf("-"); for (int i = 0; i < n; i++) printf("%02x", b[i]); }

int main(int argc, char** argv)
{
    bool thorough = argc > 1 && !strcmp(argv[1], "thorough");
    prng_seed(seed_from_env());
    char key[64];
    static char dumps[130][1200]; static int ioas[130]; static int ends[130];
    for (int t = 0; t < NTYPES; t++) for (int cfg = 0; cfg < 12; cfg++) for (int sq = 0; sq < 2; sq++) for (int rep = 0; rep < (thorough ? 6 : 2); rep++) {
        int scot = 1 + cfg % 2, sca = 1 + (cfg / 2) % 2, sioa = 1 + cfg / 4, hdr = 2 + scot + sca;
        if (sq && TYPES[t].cat != 0) continue;
        struct sCS101_AppLayerParameters P; memset(&P, 0, sizeof P);
        P.sizeOfTypeId = 1; P.sizeOfVSQ = 1; P.sizeOfCOT = scot; P.sizeOfCA = sca; P.sizeOfIOA = sioa;
        P.maxSizeOfASDU = rep == 0 ? 249 : rep == 1 ? prng_range(hdr, hdr + 40) : prng_range(hdr, 254);
        int cot = prng_below(64), oa = prng_below(256), ca = (int) rnd_u(8 * sca), tst = prng_below(2), neg = prng_below(2);
        CS101_ASDU a = CS101_ASDU_create(&P, sq, (CS101_CauseOfTransmission) cot, oa, ca, tst, neg);
        int ioa0 = prng_range(0, (1 << (8 * sioa)) - 200), n = 0, refused = 0;
        int limit = TYPES[t].cat == 2 ? 1 : 140;
        for (int k = 0; k < limit && refused < 2; k++) {
            if (sq && n > 0 && prng_below(3) == 0) {
                /* continuity: an object whose address is not first+n must be refused (deltas include multiples of 256 / 65536) */
                static const int D[] = { 1, -1, 2, 256, -256, 255, 65536, -65536, 257 };
                int pick = prng_below(13); int used2;
                int wrong = pick < 9 ? ioa0 + n + D[pick] : pick == 9 ? (ioa0 % 256) + n : pick == 10 ? (ioa0 % 65536) + n : pick == 11 ? ((ioa0 + n) % 256) : (ioa0 / 256) + n;
                if (wrong >= 0 && wrong < (1 << (8 * sioa)) && wrong != ioa0 + n) {
                    InformationObject w = gen_create(t, wrong, &used2);
                    uint8_t bf[300]; int bl = a->asduHeaderLength + a->payloadSize; memcpy(bf, a->asdu, bl);
                    bool r2 = CS101_ASDU_addInformationObject(a, w); checked++;
                    if (r2 || bl != a->asduHeaderLength + a->payloadSize || memcmp(bf, a->asdu, bl)) {
                        sprintf(key, "c12-continuity-%s", TYPES[t].tname);
                        if (first(key)) printf("FAIL %s sizes=%d/%d/%d SQ=1 first address %d, %d elements: object with address %d %s\n", key, scot, sca, sioa, ioa0, n, wrong, r2 ? "was accepted" : "changed the ASDU");
                        if (r2) { gen_dump(t, w, dumps[n]); ioas[n] = used2; ends[n] = a->payloadSize; n++; }
                    }
                    InformationObject_destroy(w);
                    if (n >= 127) break;
                }
            }
            int used; InformationObject io = gen_create(t, sq ? ioa0 + n : (prng_below(2) ? ioa0 + n : (int) rnd_u(8 * sioa)), &used);
            uint8_t before[300]; int blen = a->asduHeaderLength + a->payloadSize; memcpy(before, a->asdu, blen);
            bool r = CS101_ASDU_addInformationObject(a, io); checked++;
            int alen = a->asduHeaderLength + a->payloadSize;
            if (r) {
                gen_dump(t, io, dumps[n]); ioas[n] = used; ends[n] = a->payloadSize; n++;
                if (alen > P.maxSizeOfASDU || CS101_ASDU_getNumberOfElements(a) != n || n > 127 || memcmp(before + 2, a->asdu + 2, blen - 2)) {
                    sprintf(key, "c12-accept-%s", TYPES[t].tname);
                    if (first(key)) { printf("FAIL %s sizes=%d/%d/%d max=%d sq=%d after %d additions: length %d count %d bytes=", key, scot, sca, sioa, P.maxSizeOfASDU, sq, n, alen, CS101_ASDU_getNumberOfElements(a)); hexs(a->asdu, alen < 300 ? alen : 300); printf("\n"); }
                }
            } else {
                refused++;
                /* C01 "any element count that fits": a correctly addressed object of the same type with ample room must be accepted */
                if (n >= 1 && n < 127 && TYPES[t].cat != 2 && blen + 2 * ends[0] + 2 <= P.maxSizeOfASDU) {
                    sprintf(key, "c01-refused-fitting-%s", TYPES[t].tname);
                    if (first(key)) printf("FAIL %s sizes=%d/%d/%d max=%d sq=%d: element %d (address %d, first address %d) refused although the ASDU holds only %d of %d octets\n", key, scot, sca, sioa, P.maxSizeOfASDU, sq, n + 1, used, ioas[0], blen, P.maxSizeOfASDU);
                }
                if (alen != blen || memcmp(before, a->asdu, blen)) {
                    sprintf(key, "c12-refused-changed-%s", TYPES[t].tname);
                    if (first(key)) { printf("FAIL %s sizes=%d/%d/%d max=%d sq=%d refused addition #%d changed the ASDU: before=", key, scot, sca, sioa, P.maxSizeOfASDU, sq, n + 1); hexs(before, blen); printf(" after="); hexs(a->asdu, alen); printf("\n"); }
                }
            }
            InformationObject_destroy(io);
        }
        int len = a->asduHeaderLength + a->payloadSize;
        uint8_t full[300]; memcpy(full, a->asdu, len);
        /* C01: parse back */
        for (int cut = len; cut >= 0; cut -= (thorough || len < 60 || cut > len - 30 || cut < 16) ? 1 : 5) {
            uint8_t* blk = (uint8_t*) malloc(cut ? cut : 1); memcpy(blk, full, cut);
            CS101_ASDU b = CS101_ASDU_createFromBuffer(&P, blk, cut); checked++;
            if ((b != NULL) != (cut >= hdr)) { if (first("c02-header")) { printf("FAIL c02-header sizes=%d/%d/%d length=%d createFromBuffer %s\n", scot, sca, sioa, cut, b ? "accepted" : "refused"); } }
            if (b) {
                if (cut == len && n > 0) {
                    if (CS101_ASDU_getTypeID(b) != TYPES[t].tid || CS101_ASDU_isSequence(b) != (sq != 0) || CS101_ASDU_getNumberOfElements(b) != n || CS101_ASDU_getCOT(b) != cot ||
                        CS101_ASDU_isTest(b) != (tst != 0) || CS101_ASDU_isNegative(b) != (neg != 0) || CS101_ASDU_getCA(b) != ca || CS101_ASDU_getOA(b) != (scot > 1 ? oa : -1)) {
                        sprintf(key, "c01-header-%s", TYPES[t].tname); if (first(key)) { printf("FAIL %s sizes=%d/%d/%d bytes=", key, scot, sca, sioa); hexs(full, len); printf("\n"); } }
                }
                int idxs = n < 128 ? n + 1 : 128;
                for (int i = 0; i < idxs; i += (cut == len || i < 2 || i > n - 2 || thorough) ? 1 : 9) {
                    InformationObject io = CS101_ASDU_getElement(b, i); checked++;
                    int e = TYPES[t].cat == 2 ? 0 : i;        /* single-object types ignore the index */
                    bool expect = n > 0 && e < n && ends[e] <= cut - hdr;
                    if ((io != NULL) != expect) {
                        sprintf(key, "c02-trunc-%s", TYPES[t].tname);
                        if (first(key)) { printf("FAIL %s sizes=%d/%d/%d sq=%d index=%d elements=%d element-end=%d supplied=%d octets: object %s; bytes=", key, scot, sca, sioa, sq, i, n, e < n ? ends[e] + hdr : -1, cut, io ? "returned" : "not returned"); hexs(full, cut); printf("\n"); }
                    }
                    if (io && expect && cut == len) {
                        char d[1200]; gen_dump(t, io, d);
                        if (InformationObject_getType(io) != TYPES[t].tid || InformationObject_getObjectAddress(io) != ioas[e] || strcmp(d, dumps[e])) {
                            sprintf(key, "c01-roundtrip-%s", TYPES[t].tname);
                            if (first(key)) { printf("FAIL %s sizes=%d/%d/%d sq=%d element %d: built ioa=%d %s, parsed ioa=%d %s; bytes=", key, scot, sca, sioa, sq, i, ioas[e], dumps[e], InformationObject_getObjectAddress(io), d); hexs(full, len); printf("\n"); }
                        }
                    }
                    if (io) InformationObject_destroy(io);
                }
                CS101_ASDU_destroy(b);
            }
            free(blk);
        }
        /* re-encode: clone of the parsed ASDU has the same octets */
        { uint8_t* blk = (uint8_t*) malloc(len); memcpy(blk, full, len); CS101_ASDU b = CS101_ASDU_createFromBuffer(&P, blk, len);
          if (b) { CS101_ASDU c = CS101_ASDU_clone(b, NULL); checked++;
              if (c->asduHeaderLength + c->payloadSize != len || memcmp(c->asdu, full, len)) { sprintf(key, "c01-reencode-%s", TYPES[t].tname); if (first(key)) { printf("FAIL %s bytes=", key); hexs(full, len); printf(" clone="); hexs(c->asdu, c->asduHeaderLength + c->payloadSize); printf("\n"); } }
              CS101_ASDU_destroy(c); CS101_ASDU_destroy(b); }
          free(blk); }
        /* C12: raw payload and clone stay inside the 256-octet storage (ASan on the heap ASDU) */
        { int sz = prng_below(260); uint8_t buf[300]; memset(buf, 0x5a, sizeof buf); int before = a->payloadSize; bool r = CS101_ASDU_addPayload(a, buf, sz); checked++;
          if (r != (before + hdr + sz <= 256) || a->payloadSize != before + (r ? sz : 0)) { if (first("c12-addpayload")) printf("FAIL c12-addpayload header=%d payload=%d add=%d result=%d new payload=%d\n", hdr, before, sz, r, a->payloadSize); } }
        CS101_ASDU_destroy(a);
    }
    if (fails == 0) printf("OK %ld\n", checked); else printf("CHECKED %ld\n", checked);
    return fails ? 1 : 0;
}
