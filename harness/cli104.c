/*
 * CS104 client correspondence harness: the real cs104_connection.c (included), its
 * connection thread running as a cooperative fiber of the simulated HAL: the harness
 * decides when the thread runs (one blocking point to the next), when octets arrive,
 * how they are chunked, when the clock moves and when the application calls the API.
 * usage: cli104 <ops-out> <impl-out> <quick|thorough> [replay-ops]
 */
#include <stdio.h>
#include <string.h>
#include <stdlib.h>
#include "simhal.h"
#include "cs104_connection.c"
#include "prng.h"

static FILE* ops; static FILE* impl;
static char logbuf[1 << 18]; static int loglen = 0;
static void logf_(const char* fmt, ...) { va_list ap; va_start(ap, fmt); if (loglen) { logbuf[loglen++] = ' '; logbuf[loglen++] = ';'; logbuf[loglen++] = ' '; } loglen += vsnprintf(logbuf + loglen, sizeof logbuf - loglen - 4, fmt, ap); va_end(ap); }
static void hexs(char* out, const uint8_t* b, int n) { if (!n) { strcpy(out, "-"); return; } for (int i = 0; i < n; i++) sprintf(out + 2 * i, "%02x", b[i]); }

static CS104_Connection con = NULL;
static long n_tx = 0, n_asdu = 0, n_ev = 0, n_steps = 0, n_sends = 0, n_send_refused = 0;
/* model-free oracles */
static int wire_fail = 0; static char wire_info[700]; static int next_ns = 0; static int kwin_fail = 0; static char kwin_info[300];
extern long mem_live, mem_allocs, mem_frees; void mem_forget_all(void);
static int life_fail = 0; static char life_info[400]; static int opened_seen = 0, end_seen = 0, attempts = 0;

static void wire_check(const uint8_t* b, int n)
{
    const char* why = NULL;
    if (n < 6 || b[0] != 0x68) why = "start octet / minimum length";
    else if (b[1] != n - 2 || b[1] < 4 || b[1] > 253) why = "length octet";
    else if ((b[2] & 1) == 0) { int ns = (b[3] * 256 + (b[2] & 0xfe)) / 2; if ((b[4] & 1) != 0) why = "I-format control field"; else if (ns != next_ns) why = "N(S) not previous + 1 mod 32768"; next_ns = (ns + 1) % 32768; }
    else if ((b[2] & 3) == 1) { if (n != 6 || b[2] != 1 || b[3] != 0 || (b[4] & 1)) why = "S-format control field"; }
    else { if (n != 6 || b[3] || b[4] || b[5] || !(b[2] == 0x0b || b[2] == 0x23 || b[2] == 0x83 || b[2] == 0x43 || b[2] == 0x07 || b[2] == 0x13)) why = "U-format control field"; }
    if (why && !wire_fail) { char h[600]; hexs(h, b, n > 280 ? 280 : n); snprintf(wire_info, sizeof wire_info, "client at ops-file offset %ld wrote %s: %s", (long) ftell(ops), h, why); }
    if (why) wire_fail++;
}
static void on_write(SimSocket* s, const uint8_t* buf, int n) { static char h[600]; hexs(h, buf, n); logf_("tx %s", h); n_tx++; wire_check(buf, n); }
static bool on_asdu(void* p, int address, CS101_ASDU asdu) { static char h[600]; hexs(h, asdu->asdu, asdu->asduHeaderLength + asdu->payloadSize); logf_("asdu %s", h); n_asdu++; return true; }
static void on_conn(void* p, CS104_Connection c, CS104_ConnectionEvent ev)
{
    static const char* N[] = { "OPENED", "CLOSED", "STARTDT_CON", "STOPDT_CON", "FAILED" };
    logf_("ev %s", N[ev]); n_ev++;
    if (ev == CS104_CONNECTION_OPENED) { if (opened_seen || end_seen) { if (!life_fail) snprintf(life_info, sizeof life_info, "at ops-file offset %ld: OPENED reported twice or after the end of the attempt", (long) ftell(ops)); life_fail++; } opened_seen = 1; }
    if (ev == CS104_CONNECTION_CLOSED || ev == CS104_CONNECTION_FAILED) { if (end_seen) { if (!life_fail) snprintf(life_info, sizeof life_info, "at ops-file offset %ld: CLOSED/FAILED reported twice for one connection attempt", (long) ftell(ops)); life_fail++; } end_seen = 1; }
}
static void summary(void)
{
    if (!con) { fprintf(impl, " | none"); return; }
    char lc[32]; if (con->timeoutT2Trigger) sprintf(lc, "%llu", (unsigned long long) con->lastConfirmationTime); else strcpy(lc, "-");
    fprintf(impl, " | run=%d fail=%d cs=%d vs=%d vr=%d un=%d rb=%d t2=%s win=", con->running, con->failure, con->conState, con->sendCount, con->receiveCount, con->unconfirmedReceivedIMessages, con->recvBufPos, lc);
    int cnt = 0;
    if (con->sentASDUs == NULL || con->oldestSentASDU == -1) fprintf(impl, "-");
    else { int j = con->oldestSentASDU; for (;;) { cnt++; fprintf(impl, "%s%d", j == con->oldestSentASDU ? "" : ",", con->sentASDUs[j].seqNo); if (j == con->newestSentASDU || cnt > 40000) break; j = (j + 1) % con->maxSentASDUs; } }
    if (con->sentASDUs && cnt > con->maxSentASDUs) { if (!kwin_fail) snprintf(kwin_info, sizeof kwin_info, "client at ops-file offset %ld has %d unacknowledged I-frames with k=%d", (long) ftell(ops), cnt, con->maxSentASDUs); kwin_fail++; }
}
static void flush_obs(void) { fprintf(impl, "%s", loglen ? logbuf : "-"); loglen = 0; logbuf[0] = 0; summary(); fprintf(impl, "\n"); }
static int cur_task(void) { return sim_last_task; }

static int cfg_t2; static uint64_t first_unacked_at;
static void op_new(int k, int w, int t0, int t1, int t2, int t3, int scot, int sca)
{
    cfg_t2 = t2; first_unacked_at = 0;
    if (con) { CS104_Connection_destroy(con); con = NULL; }
    /* C18 accounting: everything the previous connection object allocated has been freed */
    if (mem_live != 0 && !life_fail++) snprintf(life_info, sizeof life_info, "at ops-file offset %ld: %ld allocations of the library are still live after CS104_Connection_destroy (allocs %ld, frees %ld): resources not released", (long) ftell(ops), mem_live, mem_allocs, mem_frees);
    mem_forget_all();
    sim_reset();
    fprintf(ops, "c.new %d %d %d %d %d %d %d %d\n", k, w, t0, t1, t2, t3, scot, sca); fflush(ops);
    con = CS104_Connection_create("10.1.1.1", 2404);
    struct sCS104_APCIParameters ap = { k, w, t0, t1, t2, t3 }; CS104_Connection_setAPCIParameters(con, &ap);
    CS101_AppLayerParameters al = CS104_Connection_getAppLayerParameters(con); al->sizeOfCOT = scot; al->sizeOfCA = sca;
    CS104_Connection_setASDUReceivedHandler(con, on_asdu, NULL); CS104_Connection_setConnectionHandler(con, on_conn, NULL);
    sim_set_time(1000000); next_ns = 0;
    fprintf(impl, "ok\n");
}
static void op_connect(int ok) { fprintf(ops, "c.connect %d\n", ok); fflush(ops); sim_connect_result = ok; opened_seen = end_seen = 0; attempts++; next_ns = 0; CS104_Connection_connectAsync(con); flush_obs(); }
/* model-free oracle C11 (client): received I-frames are acknowledged no later than t2 after the first unacknowledged one
 * (checked once the connection thread has had several turns at the current clock value) */
static int t2_fail = 0; static char t2_info[300]; static uint64_t first_unacked_at = 0, last_clock = 0; static int steps_at_clock = 0, cfg_t2 = 0;
static void op_step(void)
{
    fprintf(ops, "c.step\n"); fflush(ops); n_steps++;
    int un0 = con->running ? con->unconfirmedReceivedIMessages : 0;
    sim_task_step(cur_task());
    int un1 = con->running ? con->unconfirmedReceivedIMessages : 0; uint64_t now = sim_time();
    if (now != last_clock) { last_clock = now; steps_at_clock = 0; } steps_at_clock++;
    if (un1 == 0 || un1 < un0) first_unacked_at = 0; if (un0 == 0 && un1 > 0) first_unacked_at = now; if (un1 > 0 && first_unacked_at == 0) first_unacked_at = now;
    if (con->running && un1 > 0 && first_unacked_at && cfg_t2 && now > first_unacked_at + (uint64_t) cfg_t2 * 1000 && steps_at_clock >= 8 && !t2_fail++)
        snprintf(t2_info, sizeof t2_info, "client at ops-file offset %ld: %d received I-frames unacknowledged for %llu ms, t2 = %d s, and the connection thread has run %d times since", (long) ftell(ops), un1, (unsigned long long) (now - first_unacked_at), cfg_t2, steps_at_clock);
    flush_obs();
}
static void op_rx(const uint8_t* b, int n) { static char hx[1200]; hexs(hx, b, n); fprintf(ops, "c.rx %s\n", hx); fflush(ops); if (sim_last_client_socket && sim_last_client_socket->open) sim_feed(sim_last_client_socket, b, n); fprintf(impl, "ok\n"); }
static void op_peerclose(void) { fprintf(ops, "c.peerclose\n"); fflush(ops); if (sim_last_client_socket) sim_peer_close(sim_last_client_socket); fprintf(impl, "ok\n"); }
static void op_wfail(int v) { fprintf(ops, "c.wfail %d\n", v); fflush(ops); if (sim_last_client_socket) sim_last_client_socket->write_fail = v; fprintf(impl, "ok\n"); }
static void op_adv(int dt) { fprintf(ops, "c.adv %d\n", dt); fflush(ops); sim_advance(dt); fprintf(impl, "ok\n"); }
static void op_startdt(void) { fprintf(ops, "c.startdt\n"); fflush(ops); CS104_Connection_sendStartDT(con); flush_obs(); }
static void op_stopdt(void) { fprintf(ops, "c.stopdt\n"); fflush(ops); CS104_Connection_sendStopDT(con); flush_obs(); }
static void op_send(const uint8_t* b, int n)
{
    static char hx[1200]; hexs(hx, b, n); fprintf(ops, "c.send %s\n", hx); fflush(ops);
    CS101_AppLayerParameters al = CS104_Connection_getAppLayerParameters(con); int hdr = 2 + al->sizeOfCOT + al->sizeOfCA;
    CS101_ASDU a = CS101_ASDU_create(al, false, CS101_COT_ACTIVATION, 0, 1, false, false);
    memcpy(a->asdu, b, hdr); CS101_ASDU_addPayload(a, (uint8_t*) b + hdr, n - hdr);
    long before = n_tx; bool full = false;
    if (con->sentASDUs && con->oldestSentASDU != -1) { int cnt = 0, j = con->oldestSentASDU; for (;;) { cnt++; if (j == con->newestSentASDU || cnt > 40000) break; j = (j + 1) % con->maxSentASDUs; } full = cnt >= con->maxSentASDUs; }   /* occupancy counted from the ring itself */
    bool r = CS104_Connection_sendASDU(con, a); CS101_ASDU_destroy(a); n_sends++; if (!r) n_send_refused++;
    if (full && (r || n_tx != before)) { if (!kwin_fail) snprintf(kwin_info, sizeof kwin_info, "client at ops-file offset %ld: window full but sendASDU returned %d and wrote %ld frames", (long) ftell(ops), r, n_tx - before); kwin_fail++; }
    logf_("send %d", r ? 1 : 0); flush_obs();
}
/* C09: the hand-written command builders of the client (cs104_connection.c:1137-1375) */
static int n_cmds = 0, cmd_kinds[6];
static void op_al(int sioa, int oa)
{
    fprintf(ops, "c.al %d %d\n", sioa, oa); fflush(ops);
    CS101_AppLayerParameters al = CS104_Connection_getAppLayerParameters(con); al->sizeOfIOA = sioa; al->originatorAddress = oa;
    fprintf(impl, "ok\n");
}
static void op_cmd(int kind, int a, int b, int d, const uint8_t* t7)
{
    static char hx[40]; hexs(hx, t7, 7); fprintf(ops, "c.cmd %d %d %d %d %s\n", kind, a, b, d, hx); fflush(ops);
    struct sCP56Time2a tm; memcpy(tm.encodedValue, t7, 7);
    bool r = false; n_cmds++; cmd_kinds[kind % 6]++;
    switch (kind) {
    case 0: r = CS104_Connection_sendInterrogationCommand(con, (CS101_CauseOfTransmission) a, b, (QualifierOfInterrogation) d); break;
    case 1: r = CS104_Connection_sendCounterInterrogationCommand(con, (CS101_CauseOfTransmission) a, b, (uint8_t) d); break;
    case 2: r = CS104_Connection_sendReadCommand(con, a, b); break;
    case 3: r = CS104_Connection_sendClockSyncCommand(con, a, &tm); break;
    case 4: r = CS104_Connection_sendTestCommand(con, a); break;
    default: r = CS104_Connection_sendTestCommandWithTimestamp(con, a, (uint16_t) b, &tm); break;
    }
    n_sends++; if (!r) n_send_refused++;
    logf_("send %d", r ? 1 : 0); flush_obs();
}
static void rnd_cmd(void)
{
    uint8_t t7[7]; for (int i = 0; i < 7; i++) t7[i] = (uint8_t) prng_next();
    int kind = prng_below(6);
    int ca = prng_below(3) ? (int) prng_below(65536) : (int) prng_below(256);
    int ioa = prng_below(3) == 0 ? (int) prng_below(256) : (prng_below(2) ? (int) prng_below(65536) : (int) (prng_next() & 0xffffff));
    static const int COT[] = { 6, 8, 5, 7, 3, 10, 44, 63 };
    switch (kind) {
    case 0: case 1: op_cmd(kind, COT[prng_below(8)], ca, prng_below(256), t7); break;
    case 2: op_cmd(2, ca, ioa, 0, t7); break;
    case 3: case 4: op_cmd(kind, ca, 0, 0, t7); break;
    default: op_cmd(5, ca, prng_below(65536), 0, t7); break;
    }
}
static void op_close(void) { fprintf(ops, "c.close\n"); fflush(ops); CS104_Connection_close(con); flush_obs(); }

static int frame_u(uint8_t* b, int ctl) { b[0] = 0x68; b[1] = 4; b[2] = ctl; b[3] = b[4] = b[5] = 0; return 6; }
static int frame_s(uint8_t* b, int nr) { b[0] = 0x68; b[1] = 4; b[2] = 1; b[3] = 0; b[4] = (nr % 128) * 2; b[5] = nr / 128; return 6; }
static int frame_i(uint8_t* b, int ns, int nr, const uint8_t* asdu, int n) { b[0] = 0x68; b[1] = n + 4; b[2] = (ns % 128) * 2; b[3] = ns / 128; b[4] = (nr % 128) * 2; b[5] = nr / 128; memcpy(b + 6, asdu, n); return n + 6; }
static int rnd_asdu(uint8_t* a, int hdr) { int len = hdr + prng_range(prng_below(6) ? 1 : 0, prng_below(5) ? 12 : 249 - hdr); if (len > 249) len = 249; for (int i = 0; i < len; i++) a[i] = (uint8_t) prng_next(); a[0] = 1 + prng_below(40); a[1] = 1; return len; }
static void deliver(const uint8_t* f, int n)
{
    int mode = prng_below(6);
    if (mode < 3 || n < 2) { op_rx(f, n); return; }
    if (mode == 3) { for (int i = 0; i < n; i++) { op_rx(f + i, 1); if (prng_below(3) == 0) op_step(); } return; }
    int cut = prng_range(1, n - 1); op_rx(f, cut); if (prng_below(2)) op_step(); op_rx(f + cut, n - cut);
}
static int ack_nr(int k) { int nr = con->sendCount; if (con->oldestSentASDU != -1) { int j = con->oldestSentASDU, st = prng_below(k + 1); nr = con->sentASDUs[j].seqNo; while (st-- > 0 && j != con->newestSentASDU) { j = (j + 1) % con->maxSentASDUs; nr = con->sentASDUs[j].seqNo; } if (prng_below(5) == 0) nr = (con->sentASDUs[con->oldestSentASDU].seqNo + 32767) % 32768; } return nr; }

static void episode(bool thorough)
{
    int k = prng_below(4) ? prng_range(1, 12) : prng_range(1, 3), w = prng_range(1, 8), t1 = prng_range(2, 6), t2 = prng_range(1, t1 > 2 ? t1 - 1 : 1), t3 = prng_range(2, 10);
    int scot = prng_range(1, 2), sca = prng_range(1, 2), hdr = 2 + scot + sca;
    op_new(k, w, 10, t1, t2, t3, scot, sca);
    if (prng_below(4)) op_al(prng_range(1, 3), prng_below(256));
    int rounds = prng_range(1, 3);
    for (int r = 0; r < rounds; r++) {
        op_connect(prng_below(12) != 0); op_step(); op_step(); op_step();
        if (con->running && prng_below(3) == 0) { con->sendCount = prng_below(2) ? 32768 - prng_range(1, 15) : (int) prng_below(32768); con->receiveCount = prng_below(2) ? 32768 - prng_range(1, 15) : (int) prng_below(32768); next_ns = con->sendCount;
            fprintf(ops, "c.preset %d %d\n", con->sendCount, con->receiveCount); fflush(ops); fprintf(impl, "ok\n"); }
        if (prng_below(5)) { op_startdt(); uint8_t f[8]; deliver(f, frame_u(f, 0x0b)); op_step(); }
        int steps = thorough ? 300 : 90;
        for (int st = 0; st < steps && con->running; st++) {
            int x = prng_below(100); uint8_t f[300], a[260];
            if (x < 22) op_step();
            else if (x < 32) { op_adv(prng_below(4) ? prng_range(0, 60) : prng_range(400, 1200) * prng_range(1, 4)); op_step(); }
            else if (x < 44) { int n = rnd_asdu(a, hdr); op_send(a, n); }
            else if (x < 50) rnd_cmd();
            else if (x < 68) { int ns = con->receiveCount, nr = ack_nr(k); if (prng_below(25) == 0) ns = (ns + prng_range(1, 3)) % 32768; if (prng_below(25) == 0) nr = prng_below(32768);
                int n = rnd_asdu(a, hdr); if (prng_below(30) == 0) n = prng_below(hdr + 1); deliver(f, frame_i(f, ns, nr, a, n)); if (prng_below(2)) op_step(); }
            else if (x < 82) { int nr = ack_nr(k); if (prng_below(25) == 0) nr = prng_below(32768); deliver(f, frame_s(f, nr)); if (prng_below(2)) op_step(); }
            else if (x < 90) { static const int U[] = { 0x43, 0x83, 0x0b, 0x23, 0x07, 0x43, 0x83, 0x13 }; deliver(f, frame_u(f, U[prng_below(8)])); if (prng_below(2)) op_step(); }
            else if (x < 92) { op_stopdt(); if (prng_below(2)) { deliver(f, frame_u(f, 0x23)); op_step(); } }
            else if (x < 94) { int n = prng_range(1, 10); for (int i = 0; i < n; i++) f[i] = (uint8_t) prng_next(); if (prng_below(2)) f[0] = 0x68; if (prng_below(3) == 0 && n > 1) { static const int C[] = { 0x07, 0x43, 0x0b, 0x01, 0x83, 0x23, 0x00 }; f[0] = 0x68; f[1] = n - 2; if (n > 2) f[2] = C[prng_below(7)]; } op_rx(f, n); op_step(); op_step(); }
            else if (x < 96) { op_peerclose(); op_step(); }
            else if (x < 97) { op_wfail(1); }
            else if (x < 99) op_startdt();
            else break;
        }
        op_close();
        /* API use on the closed / never connected object: must be refused, must not crash, must not leak */
        if (prng_below(3) == 0) { uint8_t a[260]; int k2 = prng_range(1, 4); for (int j = 0; j < k2; j++) { int n = rnd_asdu(a, hdr); op_send(a, n); } }
    }
}

int main(int argc, char** argv)
{
    if (argc < 4) return 2;
    ops = fopen(argv[1], "w"); impl = fopen(argv[2], "w"); setvbuf(impl, NULL, _IOLBF, 0);
    bool thorough = !strcmp(argv[3], "thorough");
    sim_write_hook = on_write;
    prng_seed(seed_from_env());
    int episodes = thorough ? 600 : 120;
    for (int e = 0; e < episodes; e++) episode(thorough);
    if (con) CS104_Connection_destroy(con);
    if (mem_live != 0 && !life_fail++) snprintf(life_info, sizeof life_info, "at the end of the run: %ld allocations of the library are still live after CS104_Connection_destroy", mem_live);
    fclose(ops); fclose(impl);
    if (wire_fail) printf("WIRE_FAIL %s\n", wire_info);
    if (kwin_fail) printf("KWIN_FAIL %s\n", kwin_info);
    if (life_fail) printf("LIFE_FAIL %s\n", life_info);
    if (t2_fail) printf("T2_FAIL %s\n", t2_info);
    printf("HISTO role=client commands=%d wire_violations=%d kwin_violations=%d life_violations=%d tx=%ld asdu_callbacks=%ld events=%ld thread_steps=%ld sends=%ld refused=%ld attempts=%d sem_max=%d sem_violations=%d deadlock=%d live_sem=%d live_threads=%d\n", n_cmds,
        wire_fail, kwin_fail, life_fail, n_tx, n_asdu, n_ev, n_steps, n_sends, n_send_refused, attempts, sim_sem_max_value, sim_sem_violations, sim_deadlock, sim_live_semaphores, sim_live_threads);
    return 0;
}
