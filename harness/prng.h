/* one PRNG for every random choice of a harness: xorshift64*, seeded from VERIF_SEED */
#ifndef VERIF_PRNG_H
#define VERIF_PRNG_H
#include <stdint.h>
#include <stdlib.h>
static uint64_t prng_state = 0x9E3779B97F4A7C15ull;
static inline void prng_seed(uint64_t s) { prng_state = s * 0x9E3779B97F4A7C15ull + 0xD1B54A32D192ED03ull; if (prng_state == 0) prng_state = 1; }
static inline uint64_t prng_next(void) {
    uint64_t x = prng_state;
    x ^= x >> 12; x ^= x << 25; x ^= x >> 27;
    prng_state = x;
    return x * 0x2545F4914F6CDD1Dull;
}
static inline uint32_t prng_below(uint32_t n) { return n ? (uint32_t)(prng_next() >> 32) % n : 0; }
static inline int prng_range(int lo, int hi) { return lo + (int)prng_below((uint32_t)(hi - lo + 1)); }
static inline uint64_t seed_from_env(void) { const char* s = getenv("VERIF_SEED"); return s ? strtoull(s, NULL, 10) : 1; }
#endif
