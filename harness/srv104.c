/*
 * CS104 server correspondence harness: the real cs104_slave.c (included, so that statics
 * and struct internals are visible), threadless mode, behind the simulated HAL.
 * Executes an operation stream generated from one PRNG and prints, per operation, the
 * operation line and the canonical observation: ordered log of octets written per
 * connection, connection events and application callbacks, followed by a state summary
 * (counters, k-buffer content, queue contents) read from the real structures.
 *
 * usage: srv104 <ops-out> <impl-out> <quick|thorough> [replay-ops-file]
 */
#include <stdio.h>
#include <string.h>
#include <stdlib.h>
#include "simhal.h"
#include "cs104_slave.c"
#include "prng.h"

static FILE* ops; static FILE* impl;
static char logbuf[1 << 20]; static int loglen = 0;
static void logf_(const char* fmt, ...) { va_list ap; va_start(ap, fmt); if (loglen) { logbuf[loglen++] = ' '; logbuf[loglen++] = ';'; logbuf[loglen++] = ' '; } loglen += vsnprintf(logbuf + loglen, sizeof logbuf - loglen - 4, fmt, ap); va_end(ap); }
static void hexs(char* out, const uint8_t* b, int n) { if (!n) { strcpy(out, "-"); return; } for (int i = 0; i < n; i++) sprintf(out + 2 * i, "%02x", b[i]); }

static CS104_Slave slave = NULL;
static int order_fail = 0; static char order_info[900]; static long n_replies_tracked = 0;
static int replies = 0;
static int hid_of_sock[SIM_MAX_SOCKETS]; static SimSocket* sock_of_hid[4096]; static int n_hid = 0;
static int answers[64]; static int n_answers = 0, answers_pos = 0;
static long n_ops = 0, n_tx = 0, n_ev = 0, n_asdu = 0, n_closed = 0, n_iframes_rx = 0;

static int hid_of(MasterConnection c) { return (c && c->socket) ? hid_of_sock[((SimSocket*) c->socket)->id] : -1; }

/* ---- C13 order oracle (model-free): replies accepted by sendASDU must appear on the wire in issue order ---- */
#define MAXEXP 256
static uint8_t exp_b[64][MAXEXP][256]; static int exp_n[64][MAXEXP]; static int exp_cnt[64];
static void exp_clear(int hid) { if (hid >= 0 && hid < 64) exp_cnt[hid] = 0; }
static void exp_push(int hid, const uint8_t* b, int n) { if (hid < 0 || hid >= 64 || exp_cnt[hid] >= MAXEXP || n > 256) return; memcpy(exp_b[hid][exp_cnt[hid]], b, n); exp_n[hid][exp_cnt[hid]++] = n; n_replies_tracked++; }
static void exp_seen(int hid, const uint8_t* b, int n)
{
    if (hid < 0 || hid >= 64) return;
    for (int k = 0; k < exp_cnt[hid]; k++) if (exp_n[hid][k] == n && !memcmp(exp_b[hid][k], b, n)) {
        if (k > 0 && (exp_n[hid][0] != n || memcmp(exp_b[hid][0], b, n))) {
            if (!order_fail) { char h1[520], h2[520]; hexs(h1, exp_b[hid][0], exp_n[hid][0] > 250 ? 250 : exp_n[hid][0]); hexs(h2, b, n > 250 ? 250 : n);
                snprintf(order_info, sizeof order_info, "connection h%d at ops-file offset %ld: reply %s was accepted earlier and is still parked, but the later reply %s (issue position %d) was transmitted first", hid, (long) ftell(ops), h1, h2, k); }
            order_fail++;
        }
        memmove(&exp_b[hid][k], &exp_b[hid][k + 1], (size_t) (exp_cnt[hid] - k - 1) * 256); memmove(&exp_n[hid][k], &exp_n[hid][k + 1], sizeof(int) * (exp_cnt[hid] - k - 1)); exp_cnt[hid]--;
        return;
    }
}
static void evq_seen(int hid, const uint8_t* b, int n);
/* ---- C03 wire oracle (model-free): every write is one well-formed APDU; N(S) of successive I-frames counts up mod 32768 ---- */
static int wire_fail = 0; static char wire_info[700]; static int next_ns[4096]; static long n_iframes_tx = 0;
static void wire_check(int hid, const uint8_t* b, int n)
{
    const char* why = NULL;
    if (n < 6 || b[0] != 0x68) why = "start octet / minimum length";
    else if (b[1] != n - 2 || b[1] < 4 || b[1] > 254) why = "length octet";   /* 254: the queue accepts 250-octet ASDUs, outside the 249-octet domain of C03 */
    else if ((b[2] & 1) == 0) { int ns = (b[3] * 256 + (b[2] & 0xfe)) / 2; n_iframes_tx++;
        if ((b[4] & 1) != 0) why = "I-format control field";
        else if (hid >= 0 && hid < 4096) { if (next_ns[hid] >= 0 && ns != next_ns[hid]) why = "N(S) not previous + 1 mod 32768"; next_ns[hid] = (ns + 1) % 32768; } }
    else if ((b[2] & 3) == 1) { if (n != 6 || b[2] != 1 || b[3] != 0 || (b[4] & 1)) why = "S-format control field"; }
    else { if (n != 6 || b[3] || b[4] || b[5] || !(b[2] == 0x0b || b[2] == 0x23 || b[2] == 0x83 || b[2] == 0x43 || b[2] == 0x07 || b[2] == 0x13)) why = "U-format control field"; }
    if (why && !wire_fail) { char h[600]; hexs(h, b, n > 280 ? 280 : n); snprintf(wire_info, sizeof wire_info, "connection h%d at ops-file offset %ld wrote %s: %s", hid, (long) ftell(ops), h, why); }
    if (why) wire_fail++;
}
/* ---- C11 oracle: a TESTFR act of the server that stays unconfirmed for t1 closes the connection, whatever else arrives ---- */
static int t1_fail = 0; static char t1_info[300]; static uint64_t tf_sent_at[4096]; static int cfg_t1s = 0;
static void on_write(SimSocket* s, const uint8_t* buf, int n) { static char h[600]; hexs(h, buf, n); logf_("tx h%d %s", hid_of_sock[s->id], h); n_tx++;
    wire_check(hid_of_sock[s->id], buf, n);
    /* arm the t1 oracle only when nothing of the peer is in flight: a TESTFR con delivered earlier (still in the socket or half
     * read) is legitimately taken as the confirmation of this act when the server gets to it */
    { int hh = hid_of_sock[s->id]; if (n == 6 && buf[2] == 0x43 && hh >= 0 && hh < 4096 && tf_sent_at[hh] == 0) {
        int inflight = s->in_pos < s->in_len;
        if (slave) for (int q = 0; q < CONFIG_CS104_MAX_CLIENT_CONNECTIONS; q++) { MasterConnection c2 = slave->masterConnections[q]; if (c2 && c2->isUsed && c2->socket == (Socket) s && c2->recvBufPos != 0) inflight = 1; }
        if (!inflight) tf_sent_at[hh] = sim_time(); } }
    if (slave && slave->serverMode == CS104_MODE_SINGLE_REDUNDANCY_GROUP && n > 6 && (buf[2] & 1) == 0) evq_seen(hid_of_sock[s->id], buf + 6, n - 6); }
static int kwin_fail = 0; static char kwin_info[300];
/* ---- C06 oracle (model-free): a queue created for N entries holds at least the N most recent of equal-size events ---- */
static int retain_fail = 0; static char retain_info[400]; static long n_retain_checks = 0;
/* ---- C04 oracle (model-free): the reaction to an S-format APDU, judged from the wire alone: N(R) is valid exactly when it
 * lies between the N(S) of the oldest I-frame the peer has not acknowledged yet and the next N(S), modulo 32768 ---- */
static int ack_fail = 0; static char ack_info[400]; static long n_ack_valid = 0, n_ack_invalid = 0;
/* ---- C18 oracle: event grammar per connection OPENED (ACTIVATED DEACTIVATED)* ACTIVATED? CLOSED?, accounting ---- */
extern long mem_live, mem_allocs, mem_frees; void mem_forget_all(void);
static int life_fail = 0; static char life_info[400]; static int ev_state[4096];   /* 0 none, 1 opened/deactivated, 2 activated, 3 closed */
static void life_event(int hid, int ev)
{
    if (hid < 0 || hid >= 4096) return;
    int st = ev_state[hid]; const char* why = NULL;
    if (ev == 0) { if (st != 0) why = "OPENED not first"; ev_state[hid] = 1; }
    else if (ev == 1) { if (st == 0) why = "CLOSED before OPENED"; else if (st == 3) why = "CLOSED twice"; ev_state[hid] = 3; }
    else if (ev == 2) { if (st != 1) why = (st == 2) ? "ACTIVATED twice without DEACTIVATED" : "ACTIVATED outside an open connection"; else ev_state[hid] = 2; }
    else if (ev == 3) { if (st != 2) why = "DEACTIVATED without ACTIVATED"; else ev_state[hid] = 1; }
    if (why) { if (!life_fail) snprintf(life_info, sizeof life_info, "connection h%d at ops-file offset %ld: event %d: %s", hid, (long) ftell(ops), ev, why); life_fail++; }
}
/* ---- C08 oracle: at most one STARTED connection per redundancy group; open connections within the limit ---- */
static int group_fail = 0; static char group_info[400];
static char grp_name[8][16]; static char grp_ips[8][256]; static int n_grp = 0; static uint8_t grp_checked[4096];
/* ---- C06 oracle (single-group mode): events leave in enqueue order on a connection, none twice on one connection ---- */
static int queue_fail = 0; static char queue_info[500];
static uint8_t evq_b[8192][64]; static int evq_n[8192]; static int evq_cnt = 0; static int last_ev_idx[4096];
static void evq_push(const uint8_t* b, int n) { if (evq_cnt < 8192) { int m = n > 64 ? 64 : n; memcpy(evq_b[evq_cnt], b, m); evq_n[evq_cnt++] = n; } }
static uint8_t ev_sent[64][1024];
static void evq_seen(int hid, const uint8_t* b, int n)
{
    if (hid < 0 || hid >= 64) return;
    for (int k = evq_cnt - 1; k >= 0; k--) if (evq_n[k] == n && !memcmp(evq_b[k], b, n > 64 ? 64 : n)) {
        const char* why = NULL;
        { MasterConnection mc = NULL; for (int q = 0; q < CONFIG_CS104_MAX_CLIENT_CONNECTIONS; q++) { MasterConnection c2 = slave->masterConnections[q]; if (c2 && c2->isUsed && c2->socket && hid_of_sock[((SimSocket*) c2->socket)->id] == hid) mc = c2; }
          if (mc && mc->highPrioQueue && mc->highPrioQueue->entryCounter > 0) { if (!order_fail) snprintf(order_info, sizeof order_info, "connection h%d at ops-file offset %ld: event #%d was transmitted while %d replies were still parked", hid, (long) ftell(ops), k, mc->highPrioQueue->entryCounter); order_fail++; } }
        if (ev_sent[hid][k / 8] & (1 << (k % 8))) why = "was transmitted twice on the same connection";
        else if (n_hid == 1 && k < last_ev_idx[hid]) why = "was transmitted after a later event although only one connection ever existed";
        if (why) { if (!queue_fail) snprintf(queue_info, sizeof queue_info, "connection h%d at ops-file offset %ld: event #%d (enqueue position) %s (last transmitted: #%d)", hid, (long) ftell(ops), k, why, last_ev_idx[hid]); queue_fail++; }
        ev_sent[hid][k / 8] |= (1 << (k % 8));
        if (k > last_ev_idx[hid]) last_ev_idx[hid] = k;
        return; }
}
static void on_event(void* p, IMasterConnection con, CS104_PeerConnectionEvent ev)
{
    static const char* N[] = { "OPENED", "CLOSED", "ACTIVATED", "DEACTIVATED" };
    logf_("ev h%d %s", hid_of((MasterConnection) con->object), N[ev]); n_ev++; if (ev == 1) n_closed++;
    life_event(hid_of((MasterConnection) con->object), (int) ev);
}
static bool on_request(void* p, const char* ip) { if (answers_pos < n_answers) return answers[answers_pos++]; return true; }
static bool on_asdu(void* p, IMasterConnection con, CS101_ASDU asdu)
{
    static char h[600]; hexs(h, asdu->asdu, asdu->asduHeaderLength + asdu->payloadSize);
    int hid = hid_of((MasterConnection) con->object);
    logf_("asdu h%d %s", hid, h); n_asdu++;
    for (int i = 0; i < replies; i++) {
        MasterConnection mc = (MasterConnection) con->object;
        int parked_before = mc->highPrioQueue ? mc->highPrioQueue->entryCounter : 0; long tx_before = n_tx;
        bool ok = IMasterConnection_sendASDU(con, asdu); logf_("reply h%d %d", hid, ok ? 1 : 0);
        n_replies_tracked++;
        /* order oracle: a reply written to the socket at once while earlier replies are still parked overtakes them */
        if (ok && n_tx > tx_before && parked_before > 0) {
            if (!order_fail) { char h2[520]; hexs(h2, asdu->asdu, asdu->asduHeaderLength + asdu->payloadSize > 250 ? 250 : asdu->asduHeaderLength + asdu->payloadSize);
                snprintf(order_info, sizeof order_info, "connection h%d at ops-file offset %ld: reply %s was transmitted at once although %d earlier replies were still parked", hid, (long) ftell(ops), h2, parked_before); }
            order_fail++;
        }
    }
    return true;
}

static void summary(void)
{
    fprintf(impl, " | oc=%d", slave ? slave->openConnections : 0);
    if (!slave) return;
    { int used = 0, started_total = 0; void* grp[128]; int gcnt[128]; int ng = 0;
      for (int i = 0; i < CONFIG_CS104_MAX_CLIENT_CONNECTIONS; i++) { MasterConnection c = slave->masterConnections[i]; if (c && c->isUsed) { used++;
          if (c->state == M_CON_STATE_STARTED) { started_total++; void* g = slave->serverMode == CS104_MODE_MULTIPLE_REDUNDANCY_GROUPS ? (void*) c->redundancyGroup : (void*) slave;
              int k; for (k = 0; k < ng; k++) if (grp[k] == g) break; if (k == ng && ng < 128) { grp[ng] = g; gcnt[ng++] = 0; } if (k < 128) gcnt[k]++; } } }
      if (used != slave->openConnections) { if (!life_fail) snprintf(life_info, sizeof life_info, "at ops-file offset %ld: getOpenConnections=%d but %d connection slots are in use", (long) ftell(ops), slave->openConnections, used); life_fail++; }
      if (slave->serverMode != CS104_MODE_CONNECTION_IS_REDUNDANCY_GROUP) for (int k = 0; k < ng; k++) if (gcnt[k] > 1) { if (!group_fail) snprintf(group_info, sizeof group_info, "at ops-file offset %ld: %d connections of one redundancy group are started at the same time", (long) ftell(ops), gcnt[k]); group_fail++; }
      if (slave->maxOpenConnections > 0 && used > slave->maxOpenConnections) { if (!group_fail) snprintf(group_info, sizeof group_info, "at ops-file offset %ld: %d connections open with a limit of %d", (long) ftell(ops), used, slave->maxOpenConnections); group_fail++; } }
    for (int i = 0; i < CONFIG_CS104_MAX_CLIENT_CONNECTIONS; i++) {
        MasterConnection c = slave->masterConnections[i];
        if (c && c->isUsed) {
            { int cnt = 0; if (c->oldestSentASDU != -1) { int j = c->oldestSentASDU; for (;;) { cnt++; if (j == c->newestSentASDU || cnt > 40000) break; j = (j + 1) % c->maxSentASDUs; } }
              if (cnt > slave->conParameters.k) { if (!kwin_fail) snprintf(kwin_info, sizeof kwin_info, "connection h%d at ops-file offset %ld has %d unacknowledged I-frames outstanding with k=%d", hid_of(c), (long) ftell(ops), cnt, slave->conParameters.k); kwin_fail++; } }
            fprintf(impl, " [%d:h%d st=%d run=%d vs=%d vr=%d un=%d rb=%d tf=%d win=", i, hid_of(c), c->state, c->isRunning, c->sendCount, c->receiveCount, c->unconfirmedReceivedIMessages, c->recvBufPos, c->waitingForTestFRcon ? 1 : 0);
            if (c->oldestSentASDU == -1) fprintf(impl, "-");
            else { int j = c->oldestSentASDU; for (;;) { fprintf(impl, "%s%d", j == c->oldestSentASDU ? "" : ",", c->sentASDUs[j].seqNo); if (j == c->newestSentASDU) break; j = (j + 1) % c->maxSentASDUs; } }
            fprintf(impl, "]");
        }
    }
    /* queues: of the first group / first connection */
    MessageQueue q = NULL; HighPriorityASDUQueue hq = NULL;
    if (slave->serverMode == CS104_MODE_SINGLE_REDUNDANCY_GROUP) { q = slave->asduQueue; hq = slave->connectionAsduQueue; }
    else if (slave->serverMode == CS104_MODE_CONNECTION_IS_REDUNDANCY_GROUP) { q = slave->masterConnections[0]->lowPrioQueue; hq = slave->masterConnections[0]->highPrioQueue; }
    else if (slave->redundancyGroups) { LinkedList e = LinkedList_getNext(slave->redundancyGroups); if (e) { CS104_RedundancyGroup g = (CS104_RedundancyGroup) LinkedList_getData(e); q = g->asduQueue; hq = g->connectionAsduQueue; } }
    if (q) {
        fprintf(impl, " lq=%d/%ld/%ld/%ld:", q->entryCounter, q->firstEntry ? (long) (q->firstEntry - q->buffer) : -1L, q->lastEntry ? (long) (q->lastEntry - q->buffer) : -1L, q->lastInBufferEntry ? (long) (q->lastInBufferEntry - q->buffer) : -1L); fflush(impl);
        if (q->entryCounter > 0) { uint8_t* p = q->firstEntry; int guard = 0; while (p && guard++ < 10000) { struct sMessageQueueEntryInfo e; memcpy(&e, p, sizeof e); fprintf(impl, "%llu/%d/%d,", (unsigned long long) e.entryId, e.entryState, e.size); if (p == q->lastEntry) break; p = (p == q->lastInBufferEntry) ? q->buffer : p + sizeof e + e.size; } }
    }
    if (hq) fprintf(impl, " hq=%d", hq->entryCounter);
}

static int cur_mode = 0;
static void flush_obs(void) { fprintf(impl, "%s", loglen ? logbuf : "-"); loglen = 0; logbuf[0] = 0; summary(); fprintf(impl, "\n"); }

/* ---- operations ---- */
static void op_new(int mode, int k, int w, int t0, int t1, int t2, int t3, int maxopen, int lowq, int highq, int rep, int scot, int sca)
{
    if (slave) { CS104_Slave_stopThreadless(slave); CS104_Slave_destroy(slave); slave = NULL; }
    /* C18 accounting: everything the previous server allocated has been freed */
    if (mem_live != 0 && !life_fail++) snprintf(life_info, sizeof life_info, "at ops-file offset %ld: %ld allocations of the library are still live after CS104_Slave_destroy (allocs %ld, frees %ld): resources not released", (long) ftell(ops), mem_live, mem_allocs, mem_frees);
    mem_forget_all();
    sim_reset(); n_hid = 0; n_answers = answers_pos = 0; evq_cnt = 0;
    fprintf(ops, "s.new %d %d %d %d %d %d %d %d %d %d %d %d %d\n", mode, k, w, t0, t1, t2, t3, maxopen, lowq, highq, rep, scot, sca); fflush(ops);
    n_grp = 0; memset(grp_checked, 0, sizeof grp_checked);
    slave = CS104_Slave_create(lowq, highq); cur_mode = mode; cfg_t1s = t1; memset(tf_sent_at, 0, sizeof tf_sent_at);
    CS104_Slave_setServerMode(slave, (CS104_ServerMode) mode);
    CS104_APCIParameters ap = CS104_Slave_getConnectionParameters(slave);
    ap->k = k; ap->w = w; ap->t0 = t0; ap->t1 = t1; ap->t2 = t2; ap->t3 = t3;
    CS101_AppLayerParameters al = CS104_Slave_getAppLayerParameters(slave); al->sizeOfCOT = scot; al->sizeOfCA = sca;
    CS104_Slave_setMaxOpenConnections(slave, maxopen);
    CS104_Slave_setConnectionEventHandler(slave, on_event, NULL);
    CS104_Slave_setConnectionRequestHandler(slave, on_request, NULL);
    CS104_Slave_setASDUHandler(slave, on_asdu, NULL);
    replies = rep;
    sim_set_time(1000000);
    fprintf(impl, "ok\n");
}
/* the harness' own record of the configured groups, for the model-free attachment oracle (C08) */
static const char* expected_group(const char* peer)    /* first group that lists the address, else the last catch-all, else NULL */
{
    char ip[80]; if (peer[0] == '[') { snprintf(ip, sizeof ip, "%s", peer + 1); char* e = strchr(ip, ']'); if (e) *e = 0; } else { snprintf(ip, sizeof ip, "%s", peer); char* e = strchr(ip, ':'); if (e) *e = 0; }
    for (int g = 0; g < n_grp; g++) { char tmp[256]; snprintf(tmp, sizeof tmp, "%s", grp_ips[g]); for (char* t = strtok(tmp, ","); t; t = strtok(NULL, ",")) if (!strcmp(t, ip)) return grp_name[g]; }
    const char* ca = NULL; for (int g = 0; g < n_grp; g++) if (!strcmp(grp_ips[g], "-")) ca = grp_name[g];
    return ca;
}
static void check_groups(void)
{
    if (!slave || slave->serverMode != CS104_MODE_MULTIPLE_REDUNDANCY_GROUPS || n_grp == 0) return;
    for (int i = 0; i < CONFIG_CS104_MAX_CLIENT_CONNECTIONS; i++) { MasterConnection c = slave->masterConnections[i]; if (!c || !c->isUsed || !c->socket) continue;
        int h = hid_of_sock[((SimSocket*) c->socket)->id]; if (h < 0 || h >= 4096 || grp_checked[h]) continue; grp_checked[h] = 1;
        const char* want = expected_group(((SimSocket*) c->socket)->peer); const char* got = c->redundancyGroup ? c->redundancyGroup->name : NULL;
        if ((want == NULL) != (got == NULL) || (want && got && strcmp(want, got))) { if (!group_fail) snprintf(group_info, sizeof group_info, "connection h%d from %s at ops-file offset %ld is attached to group `%s`; the first group that lists its address, else the catch-all, is `%s`", h, ((SimSocket*) c->socket)->peer, (long) ftell(ops), got ? got : "(none)", want ? want : "(none: not to be admitted)"); group_fail++; } }
}
static void op_group(const char* name, const char* ips)
{
    if (n_grp < 8) { snprintf(grp_name[n_grp], sizeof grp_name[0], "%s", name); snprintf(grp_ips[n_grp], sizeof grp_ips[0], "%s", ips); n_grp++; }
    fprintf(ops, "s.group %s %s\n", name, ips); fflush(ops);
    CS104_RedundancyGroup g = CS104_RedundancyGroup_create(name);
    if (strcmp(ips, "-")) { char tmp[512]; strcpy(tmp, ips); for (char* t = strtok(tmp, ","); t; t = strtok(NULL, ",")) CS104_RedundancyGroup_addAllowedClient(g, t); }
    CS104_Slave_addRedundancyGroup(slave, g);
    fprintf(impl, "ok\n");
}
static void op_start(void) { fprintf(ops, "s.start\n"); fflush(ops); CS104_Slave_startThreadless(slave); fprintf(impl, "ok\n"); }
/* stop and start again (threadless): connections are dropped without events, counter zeroed; C18 */
static void op_restart(void)
{
    n_ops++; fprintf(ops, "s.restart\n"); fflush(ops);
    CS104_Slave_stopThreadless(slave);
    if (cur_mode != 2) evq_cnt = 0;      /* single-group / per-connection queues are created afresh by start */
    CS104_Slave_startThreadless(slave);
    flush_obs();
}
static int op_conn(const char* peer)
{
    fprintf(ops, "s.conn %s\n", peer); fflush(ops);
    SimSocket* s = sim_incoming(peer); hid_of_sock[s->id] = n_hid; sock_of_hid[n_hid] = s;
    if (n_hid < 4096) { next_ns[n_hid] = 0; ev_state[n_hid] = 0; last_ev_idx[n_hid] = -1; if (n_hid < 64) memset(ev_sent[n_hid], 0, sizeof ev_sent[0]); }
    fprintf(impl, "h%d\n", n_hid); return n_hid++;
}
static void op_rx(int h, const uint8_t* b, int n) { static char hx[1200]; hexs(hx, b, n); if (h >= 0 && h < 4096) for (int q = 0; q < n; q++) if (b[q] == 0x83) tf_sent_at[h] = 0; fprintf(ops, "s.rx %d %s\n", h, hx); fflush(ops); sim_feed(sock_of_hid[h], b, n); fprintf(impl, "ok\n"); }
static void op_close(int h) { fprintf(ops, "s.close %d\n", h); fflush(ops); sim_peer_close(sock_of_hid[h]); fprintf(impl, "ok\n"); }
static void op_wfail(int h, int v) { fprintf(ops, "s.wfail %d %d\n", h, v); fflush(ops); sock_of_hid[h]->write_fail = v; fprintf(impl, "ok\n"); }
static void op_answers(const int* a, int n) { fprintf(ops, "s.answers"); for (int i = 0; i < n; i++) fprintf(ops, " %d", a[i]); fprintf(ops, "\n"); fflush(ops); memcpy(answers, a, n * sizeof(int)); n_answers = n; answers_pos = 0; fprintf(impl, "ok\n"); }
static MasterConnection conn_of_hid(int h);
static void op_tick(int dt) { n_ops++; fprintf(ops, "s.tick %d\n", dt); fflush(ops); sim_advance(dt); sim_hal_calls = 0; CS104_Slave_tick(slave);
    check_groups();
    for (int q = 0; q < n_hid && q < 4096; q++) if (tf_sent_at[q]) { MasterConnection c = conn_of_hid(q);
        if (!c || !c->isRunning) tf_sent_at[q] = 0;
        else if (cfg_t1s && sim_time() > tf_sent_at[q] + (uint64_t) cfg_t1s * 1000 && !t1_fail++)
            snprintf(t1_info, sizeof t1_info, "connection h%d at ops-file offset %ld: TESTFR act sent at %llu has not been confirmed, it is %llu now (t1 = %d s) and the connection is still open", q, (long) ftell(ops), (unsigned long long) tf_sent_at[q], (unsigned long long) sim_time(), cfg_t1s); }
    flush_obs(); }
static void op_enq(const uint8_t* b, int n)
{
    static char hx[1200]; hexs(hx, b, n); fprintf(ops, "s.enq %s\n", hx); fflush(ops);
    CS101_AppLayerParameters al = CS104_Slave_getAppLayerParameters(slave);
    int hdr = 2 + al->sizeOfCOT + al->sizeOfCA;
    CS101_ASDU a = CS101_ASDU_create(al, false, CS101_COT_SPONTANEOUS, 0, 1, false, false);
    memcpy(a->asdu, b, hdr); CS101_ASDU_addPayload(a, (uint8_t*) b + hdr, n - hdr);
    if (n <= 250) evq_push(b, n);
    /* C08 oracle: every group (every open connection in connection-is-group mode) sees every enqueued event */
    MessageQueue qs[128]; uint64_t ids[128]; int nq = 0;
    if (slave->serverMode == CS104_MODE_SINGLE_REDUNDANCY_GROUP) { if (slave->asduQueue) qs[nq++] = slave->asduQueue; }
    else if (slave->serverMode == CS104_MODE_MULTIPLE_REDUNDANCY_GROUPS) { for (LinkedList e = slave->redundancyGroups ? LinkedList_getNext(slave->redundancyGroups) : NULL; e && nq < 128; e = LinkedList_getNext(e)) { CS104_RedundancyGroup g = (CS104_RedundancyGroup) LinkedList_getData(e); if (g->asduQueue) qs[nq++] = g->asduQueue; } }
    else for (int i = 0; i < CONFIG_CS104_MAX_CLIENT_CONNECTIONS && nq < 128; i++) { MasterConnection c = slave->masterConnections[i]; if (c && c->isUsed && c->lowPrioQueue) qs[nq++] = c->lowPrioQueue; }
    for (int i = 0; i < nq; i++) ids[i] = qs[i]->entryId;
    CS104_Slave_enqueueASDU(slave, a); CS101_ASDU_destroy(a);
    if (n - hdr >= 0 && n <= 250) for (int i = 0; i < nq; i++) if (qs[i]->entryId != ids[i] + 1) { if (!group_fail) snprintf(group_info, sizeof group_info, "at ops-file offset %ld: the enqueued event was not copied into queue %d of %d (%s)", (long) ftell(ops), i, nq, slave->serverMode == CS104_MODE_CONNECTION_IS_REDUNDANCY_GROUP ? "one queue per open connection" : "one queue per redundancy group"); group_fail++; }
    flush_obs();
}
static MasterConnection conn_of_hid(int h) { for (int i = 0; i < CONFIG_CS104_MAX_CLIENT_CONNECTIONS; i++) { MasterConnection c = slave->masterConnections[i]; if (c && c->isUsed && c->socket == (Socket) sock_of_hid[h]) return c; } return NULL; }
static void op_preset(int h, int vs, int vr)
{
    fprintf(ops, "s.preset %d %d %d\n", h, vs, vr); fflush(ops);
    MasterConnection c = conn_of_hid(h);
    if (c && c->oldestSentASDU == -1) { c->sendCount = vs; c->receiveCount = vr; if (h < 4096) next_ns[h] = vs; fprintf(impl, "ok\n"); } else fprintf(impl, "no\n");
}

/* ---- generation ---- */
static int frame_u(uint8_t* b, int ctl) { b[0] = 0x68; b[1] = 4; b[2] = ctl; b[3] = b[4] = b[5] = 0; return 6; }
static int frame_s(uint8_t* b, int nr) { b[0] = 0x68; b[1] = 4; b[2] = 1; b[3] = 0; b[4] = (nr % 128) * 2; b[5] = nr / 128; return 6; }
static int frame_i(uint8_t* b, int ns, int nr, const uint8_t* asdu, int n) { b[0] = 0x68; b[1] = n + 4; b[2] = (ns % 128) * 2; b[3] = ns / 128; b[4] = (nr % 128) * 2; b[5] = nr / 128; memcpy(b + 6, asdu, n); return n + 6; }
static int rnd_asdu(uint8_t* a, int hdr, int maxlen)
{
    static const int T[] = { 1, 3, 9, 13, 30, 45, 46, 50, 58, 36 };
    int len = hdr + prng_range(prng_below(6) ? 1 : 0, prng_below(5) ? 12 : maxlen - hdr);
    if (len > maxlen) len = maxlen;
    for (int i = 0; i < len; i++) a[i] = (uint8_t) prng_next();
    a[0] = T[prng_below(10)]; a[1] = 1; a[2] = (a[2] & 0xc0) | prng_range(1, 20);
    return len;
}
/* deliver a frame, possibly split into chunks and possibly together with the next one */
static void deliver(int h, const uint8_t* f, int n)
{
    int mode = prng_below(6);
    if (mode < 3 || n < 2) { op_rx(h, f, n); return; }
    if (mode == 3) { for (int i = 0; i < n; i++) { op_rx(h, f + i, 1); if (prng_below(3) == 0) op_tick(prng_below(3)); } return; }
    int cut = prng_range(1, n - 1); op_rx(h, f, cut); if (prng_below(2)) op_tick(prng_below(20)); op_rx(h, f + cut, n - cut);
}

static void deliver(int h, const uint8_t* f, int n);
static void op_tick(int dt); static void op_enq(const uint8_t* b, int n); static MasterConnection conn_of_hid(int h);
static int frame_s(uint8_t* b, int nr); static int frame_i(uint8_t* b, int ns, int nr, const uint8_t* asdu, int n); static int rnd_asdu(uint8_t* a, int hdr, int maxlen);
/* scripted: fill the window with events, park many replies, queue more events, then acknowledge everything at once */
static void burst(int h, int hdr, int k)
{
    uint8_t f[300], a[260];
    MasterConnection c = conn_of_hid(h); if (!c || c->state != M_CON_STATE_STARTED) return;
    for (int i = 0; i < k + 1; i++) { int n = rnd_asdu(a, hdr, 40); op_enq(a, n); op_tick(1); }
    int bursts = prng_range(2, 6);
    for (int i = 0; i < bursts; i++) { c = conn_of_hid(h); if (!c) return; int n = rnd_asdu(a, hdr, 20); op_rx(h, f, frame_i(f, c->receiveCount, (c->oldestSentASDU != -1) ? (c->sentASDUs[c->oldestSentASDU].seqNo + 32767) % 32768 : c->sendCount, a, n)); op_tick(1); }
    for (int i = 0; i < 3; i++) { int n = rnd_asdu(a, hdr, 30); op_enq(a, n); }
    c = conn_of_hid(h); if (!c) return;
    op_rx(h, f, frame_s(f, c->sendCount)); for (int i = 0; i < 6; i++) op_tick(1);
    c = conn_of_hid(h); if (!c) return;
    op_rx(h, f, frame_s(f, c->sendCount)); for (int i = 0; i < 4; i++) op_tick(1);
}

/* scripted: requests of many different sizes answered with parked replies while the peer acknowledges one APDU at a
 * time or nothing: the reply ring wraps again and again with holes of every size in front of the oldest parked reply */
static void hpwrap(int h, int hdr)
{
    uint8_t f[300], a[260];
    for (int i = 0; i < 50; i++) {
        MasterConnection c = conn_of_hid(h); if (!c || c->state != M_CON_STATE_STARTED) return;
        int n = hdr + prng_range(1, 24); for (int j = 0; j < n; j++) a[j] = (uint8_t) prng_next(); a[0] = 1 + prng_below(40); a[1] = 1;
        int nr = c->sendCount;
        if (c->oldestSentASDU != -1) nr = prng_below(3) ? (c->sentASDUs[c->oldestSentASDU].seqNo + 32767) % 32768 : (c->sentASDUs[c->oldestSentASDU].seqNo + 1) % 32768;
        op_rx(h, f, frame_i(f, c->receiveCount, nr, a, n)); op_tick(1);
    }
}

/* one acknowledgement probe: S-frame with N(R) = r while the peer-side view of the window is [lo, next N(S)]; returns the
 * new lo, or -1 when the connection is gone. Abstains (no verdict) when something else could close the connection. */
static int ack_probe(int h, int r, int lo)
{
    uint8_t f[8];
    MasterConnection c = conn_of_hid(h); if (!c) return -1;
    bool judge = c->isRunning && ev_state[h] == 2 && c->recvBufPos == 0 && sock_of_hid[h]->in_pos >= sock_of_hid[h]->in_len && !sock_of_hid[h]->write_fail && tf_sent_at[h] == 0 && next_ns[h] >= 0;
    int hi = next_ns[h], valid = ((r - lo) & 32767) <= ((hi - lo) & 32767);
    op_rx(h, f, frame_s(f, r)); op_tick(1); if (!valid) op_tick(1);
    c = conn_of_hid(h);
    if (judge) { const char* why = NULL;
        if (valid) { n_ack_valid++; if (!c || !c->isRunning) why = "lies inside the window and must be accepted, but the connection was closed"; }
        else { n_ack_invalid++; if (c && c->isRunning) why = "lies outside the window and must close the connection, but the connection is still open"; }
        if (why && !ack_fail++) snprintf(ack_info, sizeof ack_info, "connection h%d at ops-file offset %ld: S-format N(R)=%d with unacknowledged N(S) %d..%d (next N(S) %d) %s", h, (long) ftell(ops), r, lo, (hi + 32767) % 32768, hi, why); }
    if (!c || !c->isRunning) return -1;
    return valid ? r : lo;
}
/* scripted (C04): an open window that straddles the 32767 -> 0 wrap, filled with events, acknowledged piece by piece */
static void wrapack(int h, int hdr, int k)
{
    uint8_t a[260];
    MasterConnection c = conn_of_hid(h); if (!c || c->state != M_CON_STATE_STARTED || c->oldestSentASDU != -1) return;
    /* nothing of the peer may be in flight: a frame delivered earlier and processed only now would move the window unseen */
    for (int i = 0; i < 3 && (c->recvBufPos != 0 || sock_of_hid[h]->in_pos < sock_of_hid[h]->in_len); i++) { op_tick(1); c = conn_of_hid(h); if (!c) return; }
    if (c->recvBufPos != 0 || sock_of_hid[h]->in_pos < sock_of_hid[h]->in_len || c->state != M_CON_STATE_STARTED || c->oldestSentASDU != -1 || !c->isRunning) return;
    int before = prng_below(2) ? 1 : prng_range(1, k > 1 ? k - 1 : 1);   /* entries before the wrap (often exactly one: N(S) = 32767) */
    int lo = 32768 - before;
    op_preset(h, lo, c->receiveCount);
    for (int i = 0; i < k; i++) { int n = rnd_asdu(a, hdr, 30); op_enq(a, n); op_tick(1); }
    /* walk the acknowledgement over the wrap, repeating every value once (a repeated acknowledgement acknowledges nothing
     * new and is valid): nothing acknowledged yet; oldest outstanding N(S) = 32767; oldest outstanding N(S) = 0 */
    { static const int stops[3] = { -1, 32767, 0 };
      for (int q = 0; q < 3; q++) { int r = stops[q] < 0 ? lo : stops[q];
          if (((r - lo) & 32767) > ((next_ns[h] - lo) & 32767)) continue;             /* not inside the window as the peer sees it */
          if ((lo = ack_probe(h, r, lo)) < 0) return; if ((lo = ack_probe(h, r, lo)) < 0) return; } }
    for (int round = 0; round < 4; round++) {
        int out = (next_ns[h] - lo) & 32767;                         /* outstanding, as the peer sees it */
        int kind = prng_below(8), r;
        if (kind < 2) r = lo;                                        /* duplicate acknowledgement */
        else if (kind < 7) r = (lo + prng_range(0, out)) % 32768;    /* acknowledges 0..all */
        else r = prng_below(2) ? (lo + 32767 - prng_below(3)) % 32768 : (next_ns[h] + 1 + prng_below(3)) % 32768;   /* just outside */
        if ((lo = ack_probe(h, r, lo)) < 0) return;
        if (prng_below(2)) { int n = rnd_asdu(a, hdr, 30); op_enq(a, n); op_tick(1); }
    }
}
/* scripted (C07): STOPDT act while received I-frames are unacknowledged AND transmitted events are unconfirmed: the
 * S-frame comes first, STOPDT con only after the peer acknowledged the events */
static void stopdt_pending(int h, int hdr)
{
    uint8_t f[300], a[260];
    MasterConnection c = conn_of_hid(h); if (!c || c->state != M_CON_STATE_STARTED) return;
    for (int i = 0; i < 2; i++) { int n = rnd_asdu(a, hdr, 20); op_enq(a, n); op_tick(1); }
    c = conn_of_hid(h); if (!c) return;
    int nr = c->oldestSentASDU != -1 ? c->sentASDUs[c->oldestSentASDU].seqNo : c->sendCount;
    { int n = rnd_asdu(a, hdr, 20); op_rx(h, f, frame_i(f, c->receiveCount, nr, a, n)); op_tick(1); }
    op_rx(h, f, frame_u(f, 0x13)); op_tick(1);
    c = conn_of_hid(h); if (!c) return;
    op_rx(h, f, frame_s(f, c->sendCount)); op_tick(1); op_tick(1);
}
/* scripted (C11): the server's TESTFR act is not confirmed, but other valid frames keep arriving: t1 must still close */
static void testfr_nocon(int h, int t1, int t3)
{
    uint8_t f[300];
    MasterConnection c = conn_of_hid(h); if (!c) return;
    op_tick(t3 * 1000 + 50); op_tick(1);                            /* TESTFR act goes out */
    for (int i = 0; i < 3; i++) {
        c = conn_of_hid(h); if (!c) return;
        int kind = prng_below(3);
        if (kind == 0) op_rx(h, f, frame_s(f, c->sendCount));
        else if (kind == 1) op_rx(h, f, frame_u(f, 0x43));           /* our own TESTFR act: answered with con, is not a con */
        else op_rx(h, f, frame_u(f, 0x07));
        op_tick(t1 * 300);
    }
    op_tick(t1 * 400); op_tick(1); op_tick(1);
}

static void episode(bool thorough)
{
    int mode = prng_below(3), k = prng_below(4) ? prng_range(1, 12) : prng_range(1, 3), w = prng_below(2) ? prng_range(1, 8) : prng_range(1, k / 2 > 1 ? k / 2 : 1);
    int t1 = prng_range(2, 6), t2 = prng_range(1, t1 - 1 > 1 ? t1 - 1 : 1), t3 = prng_range(2, 10);
    int lowq = prng_below(3) ? prng_range(1, 6) : prng_range(10, 40), highq = prng_range(1, 6), rep = prng_below(3) ? 0 : prng_range(1, 4);
    int scot = prng_range(1, 2), sca = prng_range(1, 2), hdr = 2 + scot + sca;
    int maxopen = prng_below(3) ? prng_range(1, 4) : 0;
    op_new(mode, k, w, 10, t1, t2, t3, maxopen, lowq, highq, rep, scot, sca);
    static const char* IPS[] = { "10.0.0.1", "10.0.0.2", "192.168.1.77", "172.16.5.9", "2001:db8:0:0:0:0:0:1", "fe80:0:0:0:1:2:3:4" };
    if (mode == 2) { int ng = prng_below(4); for (int g = 0; g < ng; g++) { char ips[200] = ""; int n = prng_below(3); for (int i = 0; i < n; i++) { if (i) strcat(ips, ","); strcat(ips, IPS[prng_below(6)]); } char name[8]; sprintf(name, "g%d", g); op_group(name, n ? ips : "-"); } }
    op_start();
    int nh = 0, hs[32];
    int steps = thorough ? 400 : 120;
    /* scripted (C06): with no client connected, 2N+3 events of one size are enqueued into the queue created for N entries:
     * after every enqueue the queue must hold at least min(enqueued, N) entries and they must be the most recent ones */
    if (mode != 1 && prng_below(5) == 0) { uint8_t a[260]; int len = hdr + prng_range(1, 249 - hdr), total = 2 * lowq + 3, first = evq_cnt;
        if (prng_below(3) == 0) len = 249;
        for (int e = 0; e < total; e++) {
            for (int i = 0; i < len; i++) a[i] = (uint8_t) prng_next(); a[0] = 30; a[1] = 1; a[2] = 3;
            op_enq(a, len); n_retain_checks++;
            MessageQueue q = slave->serverMode == CS104_MODE_SINGLE_REDUNDANCY_GROUP ? slave->asduQueue : NULL;
            if (!q && slave->redundancyGroups) { LinkedList le = LinkedList_getNext(slave->redundancyGroups); if (le) q = ((CS104_RedundancyGroup) LinkedList_getData(le))->asduQueue; }
            if (!q) break;
            int want = e + 1 < lowq ? e + 1 : lowq; const char* why = NULL; int have = q->entryCounter;
            if (have < want) why = "fewer entries than the queue was created for";
            else { /* walk to the last `want` entries and compare them with the most recent `want` enqueued */
                uint8_t* p = q->firstEntry; int idx = 0, guard = 0;
                while (p && guard++ < 100000) { struct sMessageQueueEntryInfo ei; memcpy(&ei, p, sizeof ei);
                    int k2 = first + (e + 1 - have) + idx;          /* enqueue position this entry must be, if what is kept is the most recent run */
                    if (idx >= have - want) { int m = ei.size > 64 ? 64 : ei.size; if (k2 < 0 || k2 >= 8192 || evq_n[k2] != ei.size || memcmp(evq_b[k2], p + sizeof ei, m)) { why = "the entries kept are not the most recent ones in order"; break; } }
                    idx++; if (p == q->lastEntry) break; p = (p == q->lastInBufferEntry) ? q->buffer : p + sizeof ei + ei.size; }
                if (!why && idx != have) why = "the walk from the first to the last entry does not visit entryCounter entries"; }
            if (why && !retain_fail++) snprintf(retain_info, sizeof retain_info, "at ops-file offset %ld: queue created for %d entries, %d events of %d octets enqueued, %d entries held: %s", (long) ftell(ops), lowq, e + 1, len, have, why);
        } }
    /* scripted (C04): one client, STARTDT, then the acknowledgement walk over the 32767 -> 0 wrap */
    if (prng_below(4) == 0) { uint8_t f[8]; char peer[80]; sprintf(peer, "%s:%d", IPS[0], 40000 + nh); hs[nh++] = op_conn(peer); op_tick(1);
        op_rx(hs[nh - 1], f, frame_u(f, 0x07)); op_tick(1); wrapack(hs[nh - 1], hdr, k); }
    /* scripted (C08): a started connection in a slot ABOVE the number of open connections: A, B, C connect from one address,
     * C is started, A and B close, D takes slot 0 and sends STARTDT act - C must be deactivated */
    if (prng_below(5) == 0) { uint8_t f[8]; char peer[80]; const char* ip = IPS[prng_below(6)];
        for (int q = 0; q < 3; q++) { if (strchr(ip, ':')) sprintf(peer, "[%s]:%d", ip, 40000 + nh); else sprintf(peer, "%s:%d", ip, 40000 + nh); hs[nh++] = op_conn(peer); op_tick(1); }
        op_rx(hs[2], f, frame_u(f, 0x07)); op_tick(1);
        op_close(hs[0]); op_close(hs[1]); op_tick(1); op_tick(1);
        if (strchr(ip, ':')) sprintf(peer, "[%s]:%d", ip, 40000 + nh); else sprintf(peer, "%s:%d", ip, 40000 + nh); hs[nh++] = op_conn(peer); op_tick(1);
        op_rx(hs[3], f, frame_u(f, 0x07)); op_tick(1); op_tick(1); }
    for (int st = 0; st < steps; st++) {
        int r = prng_below(100);
        /* prefer live connections */
        int live[16], nl = 0; for (int q = 0; q < nh; q++) if (conn_of_hid(hs[q])) live[nl++] = hs[q];
        int h = nl ? live[prng_below(nl)] : (nh && prng_below(4) == 0 ? hs[prng_below(nh)] : -1);
        MasterConnection c = h >= 0 ? conn_of_hid(h) : NULL;
        uint8_t f[300], a[260];
        if ((r < 5 || nl == 0) && nh < 12) { char peer[80]; const char* ip = IPS[prng_below(6)]; if (strchr(ip, ':')) sprintf(peer, "[%s]:%d", ip, 40000 + nh); else sprintf(peer, "%s:%d", ip, 40000 + nh);
            if (prng_below(8) == 0) { int an[3] = { (int) prng_below(2), (int) prng_below(2), 1 }; op_answers(an, 3); }
            hs[nh++] = op_conn(peer); op_tick(prng_below(5));
            if (prng_below(4) == 0) { MasterConnection nc = conn_of_hid(hs[nh - 1]); if (nc) op_preset(hs[nh - 1], prng_below(2) ? 32768 - prng_range(1, 20) : (int) prng_below(32768), prng_below(2) ? 32768 - prng_range(1, 20) : (int) prng_below(32768)); }
            if (prng_below(5)) { deliver(hs[nh - 1], f, frame_u(f, 0x07)); op_tick(1); } }
        else if (r < 6 && h >= 0) { int q = prng_below(3); if (q == 0) wrapack(h, hdr, k); else if (q == 1) testfr_nocon(h, t1, t3); else stopdt_pending(h, hdr); }
        else if (r < 7 && h >= 0 && rep > 0) burst(h, hdr, k);
        else if (r < 9 && h >= 0 && rep > 0) hpwrap(h, hdr);
        else if (r < 25) op_tick(prng_below(4) ? prng_range(0, 50) : (prng_below(2) ? prng_range(100, 1500) : prng_range(900, 1100) * prng_range(1, 4)));
        else if (r < 45) { int n = rnd_asdu(a, hdr, 249); if (prng_below(8) == 0) n = prng_range(hdr, 252); op_enq(a, n); if (prng_below(2)) op_tick(prng_below(3)); }
        else if (h >= 0 && r < 62) {          /* I-frame from the client */
            int ns = c ? c->receiveCount : (int) prng_below(32768), nr = c ? c->sendCount : 0;
            if (c && c->oldestSentASDU != -1 && prng_below(2)) { int j = c->oldestSentASDU, steps2 = prng_below(k + 1); nr = c->sentASDUs[j].seqNo; while (steps2-- > 0 && j != c->newestSentASDU) { j = (j + 1) % c->maxSentASDUs; nr = c->sentASDUs[j].seqNo; } if (prng_below(4) == 0) nr = (c->sentASDUs[c->oldestSentASDU].seqNo + 32767) % 32768; }
            if (prng_below(25) == 0) ns = (ns + prng_range(1, 3)) % 32768;
            if (prng_below(25) == 0) nr = prng_below(32768);
            int n = rnd_asdu(a, hdr, 249); if (prng_below(30) == 0) n = prng_below(hdr + 1);
            deliver(h, f, frame_i(f, ns, nr, a, n)); n_iframes_rx++; if (prng_below(2)) op_tick(prng_below(10)); }
        else if (h >= 0 && r < 80) {          /* S-frame */
            int nr = c ? c->sendCount : 0;
            if (c && c->oldestSentASDU != -1) { int j = c->oldestSentASDU, steps2 = prng_below(k + 1); nr = c->sentASDUs[j].seqNo; while (steps2-- > 0 && j != c->newestSentASDU) { j = (j + 1) % c->maxSentASDUs; nr = c->sentASDUs[j].seqNo; } }
            if (prng_below(25) == 0) nr = prng_below(32768);
            deliver(h, f, frame_s(f, nr)); if (prng_below(2)) op_tick(prng_below(10)); }
        else if (h >= 0 && r < 92) { static const int U[] = { 0x07, 0x07, 0x13, 0x43, 0x83, 0x0b, 0x23, 0x07, 0x43, 0x83 }; deliver(h, f, frame_u(f, U[prng_below(10)])); if (prng_below(2)) op_tick(prng_below(10)); }
        else if (h >= 0 && r < 94) { int n = prng_range(1, 12); for (int i = 0; i < n; i++) f[i] = (uint8_t) prng_next(); if (prng_below(2)) f[0] = 0x68; if (prng_below(3) == 0 && n > 1) f[1] = prng_below(8); if (prng_below(3) == 0 && n > 2) { static const int C[] = { 0x07, 0x43, 0x13, 0x01, 0x83, 0x00 }; f[0] = 0x68; f[1] = n - 2; f[2] = C[prng_below(6)]; } op_rx(h, f, n); op_tick(1); }
        else if (h >= 0 && r < 96) { op_close(h); op_tick(1); }
        else if (h >= 0 && r < 97) { op_wfail(h, 1); op_tick(prng_below(2000)); if (prng_below(2)) op_wfail(h, 0); }
        else if (r < 99 && prng_below(2) == 0) {   /* stop + start again, sometimes right after a peer closed (slot half released) */
            if (h >= 0 && prng_below(2)) { op_close(h); if (prng_below(2)) op_tick(prng_below(2)); }
            op_restart();
            if (prng_below(2)) { char peer[80]; sprintf(peer, "10.0.0.1:%d", 41000 + nh); if (nh < 30) { hs[nh++] = op_conn(peer); op_tick(1); op_tick(1); deliver(hs[nh - 1], f, frame_u(f, 0x07)); op_tick(1); } } }
        else op_tick(0);
    }
}

/* ---- direct differential of the high-priority (reply) ring: the static functions of cs104_slave.c, operation by operation.
 * model-free oracle HPQ_FAIL: what is dequeued is exactly what was accepted, in order ---- */
static int hq_mode(bool thorough)
{
    struct sCS101_AppLayerParameters al = { 1, 1, 2, 0, 2, 3, 249 };
    int episodes = thorough ? 6000 : 700; long n = 0; int hq_fail = 0; char hq_info[600] = "";
    for (int e = 0; e < episodes; e++) {
        int me = prng_below(4) ? 1 : prng_range(1, 3);
        HighPriorityASDUQueue q = HighPriorityASDUQueue_create(me); fprintf(ops, "hq.new %d\n", me); fprintf(impl, "ok\n");
        static uint8_t fifo[4096][256]; static int fifo_n[4096]; int head = 0, tail = 0;
        int steps = prng_range(20, 160), sizeclass = prng_below(3);
        for (int s = 0; s < steps; s++) {
            char h[700];
            if (prng_below(100) < (s % 40 < 25 ? 70 : 30)) {
                int len = sizeclass == 0 ? prng_range(1, 20) : sizeclass == 1 ? prng_range(1, 60) : (prng_below(3) ? prng_range(1, 12) : prng_range(100, 243));
                uint8_t pl[260]; for (int i = 0; i < len; i++) pl[i] = (uint8_t) prng_next();
                CS101_ASDU a = CS101_ASDU_create(&al, false, CS101_COT_SPONTANEOUS, 0, 1, false, false); CS101_ASDU_setTypeID(a, (IEC60870_5_TypeID) pl[0]); CS101_ASDU_addPayload(a, pl, len);
                int tot = a->asduHeaderLength + a->payloadSize; hexs(h, a->asdu, tot);
                fprintf(ops, "hq.enq %s\n", h); fflush(ops);
                bool ok = HighPriorityASDUQueue_enqueue(q, a);
                if (ok && tail < 4096) { memcpy(fifo[tail], a->asdu, tot); fifo_n[tail++] = tot; }
                CS101_ASDU_destroy(a); fprintf(impl, "%d", ok ? 1 : 0);
            } else {
                fprintf(ops, "hq.deq\n"); fflush(ops); int sz = 0; uint8_t* p = HighPriorityASDUQueue_getNextASDU(q, &sz);
                if (p) { hexs(h, p, sz); fprintf(impl, "%s", h);
                    if (head >= tail || fifo_n[head] != sz || memcmp(fifo[head], p, sz)) { if (!hq_fail++) snprintf(hq_info, sizeof hq_info, "at ops-file offset %ld: dequeued reply %.200s is not the oldest accepted reply (%d accepted, %d dequeued before)", (long) ftell(ops), h, tail, head); }
                    head++; }
                else { fprintf(impl, "none"); if (head < tail && !hq_fail++) snprintf(hq_info, sizeof hq_info, "at ops-file offset %ld: ring reports empty although %d accepted replies were not dequeued", (long) ftell(ops), tail - head); }
            }
            fprintf(impl, " | n=%d first=%ld last=%ld lib=%ld\n", q->entryCounter, q->entryCounter ? (long) (q->firstEntry - q->buffer) : -1L, q->entryCounter ? (long) (q->lastEntry - q->buffer) : -1L, q->entryCounter ? (long) (q->lastInBufferEntry - q->buffer) : -1L); n++;
        }
        HighPriorityASDUQueue_destroy(q);
    }
    fclose(ops); fclose(impl);
    if (hq_fail) printf("HPQ_FAIL %s\n", hq_info);
    printf("HISTO role=hp_ring ops=%ld episodes=%d fifo_violations=%d\n", n, episodes, hq_fail);
    return 0;
}

int main(int argc, char** argv)
{
    if (argc < 4) return 2;
    ops = fopen(argv[1], "w"); impl = fopen(argv[2], "w"); setvbuf(impl, NULL, _IOLBF, 0);
    bool thorough = !strcmp(argv[3], "thorough");
    if (argc > 4 && !strcmp(argv[4], "hq")) { prng_seed(seed_from_env() + 4242); return hq_mode(thorough); }
    sim_write_hook = on_write;
    if (argc > 4) {     /* replay an operation file */
        FILE* in = fopen(argv[4], "r"); char line[4096];
        while (in && fgets(line, sizeof line, in)) {
            char* tok[32]; int nt = 0; for (char* t = strtok(line, " \n"); t && nt < 32; t = strtok(NULL, " \n")) tok[nt++] = t;
            if (!nt) continue;
            uint8_t b[600]; int bn = 0;
            #define HEX(s) do { bn = 0; if (strcmp((s), "-")) for (const char* q = (s); q[0] && q[1]; q += 2) { unsigned v; sscanf(q, "%2x", &v); b[bn++] = v; } } while (0)
            if (!strcmp(tok[0], "s.new")) op_new(atoi(tok[1]), atoi(tok[2]), atoi(tok[3]), atoi(tok[4]), atoi(tok[5]), atoi(tok[6]), atoi(tok[7]), atoi(tok[8]), atoi(tok[9]), atoi(tok[10]), atoi(tok[11]), atoi(tok[12]), atoi(tok[13]));
            else if (!strcmp(tok[0], "s.group")) op_group(tok[1], tok[2]);
            else if (!strcmp(tok[0], "s.start")) op_start();
            else if (!strcmp(tok[0], "s.conn")) op_conn(tok[1]);
            else if (!strcmp(tok[0], "s.rx")) { HEX(tok[2]); op_rx(atoi(tok[1]), b, bn); }
            else if (!strcmp(tok[0], "s.close")) op_close(atoi(tok[1]));
            else if (!strcmp(tok[0], "s.wfail")) op_wfail(atoi(tok[1]), atoi(tok[2]));
            else if (!strcmp(tok[0], "s.tick")) op_tick(atoi(tok[1]));
            else if (!strcmp(tok[0], "s.restart")) op_restart();
            else if (!strcmp(tok[0], "s.enq")) { HEX(tok[1]); op_enq(b, bn); }
            else if (!strcmp(tok[0], "s.preset")) op_preset(atoi(tok[1]), atoi(tok[2]), atoi(tok[3]));
            else if (!strcmp(tok[0], "s.answers")) { int an[16]; for (int i = 1; i < nt; i++) an[i - 1] = atoi(tok[i]); op_answers(an, nt - 1); }
        }
    } else {
        prng_seed(seed_from_env());
        int episodes = thorough ? 400 : 60;
        for (int e = 0; e < episodes; e++) episode(thorough);
    }
    if (slave) { CS104_Slave_stopThreadless(slave); CS104_Slave_destroy(slave); }
    fclose(ops); fclose(impl);
    if (order_fail) printf("ORDER_FAIL %s\n", order_info);
    if (wire_fail) printf("WIRE_FAIL %s\n", wire_info);
    if (kwin_fail) printf("KWIN_FAIL %s\n", kwin_info);
    if (ack_fail) printf("ACK_FAIL %s\n", ack_info);
    if (retain_fail) printf("RETAIN_FAIL %s\n", retain_info);
    if (life_fail) printf("LIFE_FAIL %s\n", life_info);
    if (t1_fail) printf("T1_FAIL %s\n", t1_info);
    if (group_fail) printf("GROUP_FAIL %s\n", group_info);
    if (queue_fail) printf("QUEUE_FAIL %s\n", queue_info);
    printf("HISTO life_violations=%d group_violations=%d queue_violations=%d iframes_tx=%ld wire_violations=%d kwin_violations=%d ack_probes_valid=%ld ack_probes_invalid=%ld ack_violations=%d retain_checks=%ld retain_violations=%d replies_tracked=%ld order_violations=%d tx=%ld events=%ld asdu_callbacks=%ld closed=%ld iframes_rx=%ld sem_waits=%ld sem_max=%d sem_violations=%d deadlock=%d live_sem=%d live_sock=%d %s\n", life_fail, group_fail, queue_fail, n_iframes_tx, wire_fail, kwin_fail, n_ack_valid, n_ack_invalid, ack_fail, n_retain_checks, retain_fail, n_replies_tracked, order_fail, n_tx, n_ev, n_asdu, n_closed, n_iframes_rx, sim_sem_waits, sim_sem_max_value, sim_sem_violations, sim_deadlock, sim_live_semaphores, sim_live_sockets, sim_sem_violation_where);
    return 0;
}
