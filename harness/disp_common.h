/* shared by the two dispatch harnesses (C09): case generation and observation printing */
#include <stdio.h>
#include <string.h>
#include <stdlib.h>
#include "prng.h"
static FILE* ops; static FILE* impl;
static char logbuf[1 << 16]; static int loglen = 0;
static void logf_(const char* fmt, ...) { va_list ap; va_start(ap, fmt); if (loglen) { logbuf[loglen++] = ' '; logbuf[loglen++] = ';'; logbuf[loglen++] = ' '; } loglen += vsnprintf(logbuf + loglen, sizeof logbuf - loglen - 4, fmt, ap); va_end(ap); }
static void hexs(char* out, const uint8_t* b, int n) { if (!n) { strcpy(out, "-"); return; } for (int i = 0; i < n; i++) sprintf(out + 2 * i, "%02x", b[i]); }
static int hmask = 0, hres = 0;   /* installed handlers / their return values: bit 0 ic,1 ci,2 rd,3 cs,4 rp,5 cd,6 asdu */
static long n_cases = 0, n_cb = 0, n_resp = 0, n_close = 0;
static int multi_fail = 0; static char multi_info[600]; static int resp_in_case = 0, cb_in_case = 0, generic_in_case = 0;
static unsigned long long le_n(const uint8_t* b, int n) { unsigned long long v = 0; for (int i = n - 1; i >= 0; i--) v = (v << 8) | b[i]; return v; }
/* payload length of a complete object per type (without IOA) */
static int body_len(int t) { switch (t) { case 100: case 101: case 105: return 1; case 102: return 0; case 103: return 7; case 104: return 2; case 106: return 2; case 107: return 9; default: return 1 + (int) prng_below(6); } }
static int is_system(int t) { return t >= 100 && t <= 107; }
