/*
 * C09 harness, CS101 slave: the real handleASDU() of cs101_slave.c (included); responses are
 * read back from the class 1 queue.  usage: disp101 <ops-out> <impl-out> <quick|thorough>
 */
#include "simhal.h"
#include "cs101_slave.c"
#include "disp_common.h"
#include "buffer_frame.h"

static CS101_Slave slave;
static bool h_ic(void* p, IMasterConnection c, CS101_ASDU a, uint8_t qoi) { logf_("cb ic %d", qoi); n_cb++; cb_in_case++; return (hres >> 0) & 1; }
static bool h_ci(void* p, IMasterConnection c, CS101_ASDU a, QualifierOfCIC q) { logf_("cb ci %d", q); n_cb++; cb_in_case++; return (hres >> 1) & 1; }
static bool h_rd(void* p, IMasterConnection c, CS101_ASDU a, int ioa) { logf_("cb rd %d", ioa); n_cb++; cb_in_case++; return (hres >> 2) & 1; }
static bool h_cs(void* p, IMasterConnection c, CS101_ASDU a, CP56Time2a t) { logf_("cb cs %llu", le_n(t->encodedValue, 7)); n_cb++; cb_in_case++; return (hres >> 3) & 1; }
static bool h_rp(void* p, IMasterConnection c, CS101_ASDU a, uint8_t q) { logf_("cb rp %d", q); n_cb++; cb_in_case++; return (hres >> 4) & 1; }
static bool h_cd(void* p, IMasterConnection c, CS101_ASDU a, CP16Time2a d) { logf_("cb cd %llu", le_n(d->encodedValue, 2)); n_cb++; cb_in_case++; return (hres >> 5) & 1; }
static bool h_asdu(void* p, IMasterConnection c, CS101_ASDU a) { static char h[600]; hexs(h, a->asdu, a->asduHeaderLength + a->payloadSize); logf_("generic %s", h); generic_in_case++; return (hres >> 6) & 1; }

static void setup(int scot, int sca, int sioa)
{
    if (slave) CS101_Slave_destroy(slave);
    struct sCS101_AppLayerParameters al = { 1, 1, scot, 0, sca, sioa, 249 };
    slave = CS101_Slave_create(sim_serial_port(0), NULL, &al, IEC60870_LINK_LAYER_UNBALANCED);
}
static void install(void)
{
    CS101_Slave_setInterrogationHandler(slave, (hmask & 1) ? h_ic : NULL, NULL);
    CS101_Slave_setCounterInterrogationHandler(slave, (hmask & 2) ? h_ci : NULL, NULL);
    CS101_Slave_setReadHandler(slave, (hmask & 4) ? h_rd : NULL, NULL);
    CS101_Slave_setClockSyncHandler(slave, (hmask & 8) ? h_cs : NULL, NULL);
    CS101_Slave_setResetProcessHandler(slave, (hmask & 16) ? h_rp : NULL, NULL);
    CS101_Slave_setDelayAcquisitionHandler(slave, (hmask & 32) ? h_cd : NULL, NULL);
    CS101_Slave_setASDUHandler(slave, (hmask & 64) ? h_asdu : NULL, NULL);
}
static void one_case(int scot, int sca, int sioa, const uint8_t* asdu, int n)
{
    static char hx[600]; hexs(hx, asdu, n);
    fprintf(ops, "d101 %d %d %d %d %d %s\n", scot, sca, sioa, hmask, hres, hx); fflush(ops);
    install(); n_cases++; resp_in_case = cb_in_case = generic_in_case = 0;
    uint8_t* blk = malloc(n ? n : 1); memcpy(blk, asdu, n);
    struct sCS101_ASDU _a; CS101_ASDU a = CS101_ASDU_createFromBufferEx(&_a, &slave->alParameters, blk, n);
    if (!a) { fprintf(impl, "nohdr\n"); free(blk); return; }
    handleASDU(slave, a);
    /* responses: drain the class 1 (and class 2) queue */
    for (int q = 0; q < 2; q++) for (;;) {
        struct sBufferFrame bf; uint8_t buf[300]; Frame f = BufferFrame_initialize(&bf, buf, 0);
        CS101_Queue qu = q == 0 ? &slave->userDataClass1Queue : &slave->userDataClass2Queue;
        CS101_Queue_lock(qu); Frame r = CS101_Queue_dequeue(qu, f); CS101_Queue_unlock(qu);
        if (!r) break;
        static char h[600]; hexs(h, Frame_getBuffer(f), Frame_getMsgSize(f)); logf_("resp %s", h); n_resp++; resp_in_case++;
    }
    if (is_system(asdu[0]) && asdu[0] != 107 && resp_in_case > 1 && !multi_fail) { snprintf(multi_info, sizeof multi_info, "CS101 type %d cot %d: %d responses for one command; ASDU %s handlers=%d results=%d", asdu[0], asdu[2] & 0x3f, resp_in_case, hx, hmask, hres); multi_fail++; }
    fprintf(impl, "%s\n", loglen ? logbuf : "-"); loglen = 0; logbuf[0] = 0;
    free(blk);
}
int main(int argc, char** argv)
{
    if (argc < 4) return 2;
    ops = fopen(argv[1], "w"); impl = fopen(argv[2], "w"); setvbuf(impl, NULL, _IOLBF, 0);
    bool thorough = !strcmp(argv[3], "thorough");
    prng_seed(seed_from_env() + 77);
    for (int cfg = 0; cfg < 12; cfg++) {
        int scot = 1 + cfg % 2, sca = 1 + (cfg / 2) % 2, sioa = 1 + cfg / 4, hdr = 2 + scot + sca;
        if (!thorough && cfg != 0 && cfg != 7 && cfg != (int) (seed_from_env() % 12)) continue;
        setup(scot, sca, sioa);
        for (int t = 0; t < 256; t++) for (int cot = 0; cot < 64; cot++) {
            if (!thorough && !is_system(t) && (cot % 7 || t % 5) && prng_below(40)) continue;
            int variants = is_system(t) ? 6 : 1;
            for (int v = 0; v < variants; v++) {
                uint8_t a[64]; int n = hdr;
                a[0] = t; a[1] = (prng_below(8) == 0) ? 0x81 : 1; a[2] = cot | (prng_below(2) << 6) | (prng_below(2) << 7);
                for (int i = 3; i < hdr; i++) a[i] = (uint8_t) prng_next();
                for (int i = 0; i < sioa; i++) a[n++] = (v % 2 == 0) ? 0 : (uint8_t) (prng_next() | (i == 0));
                int bl = body_len(t); for (int i = 0; i < bl; i++) a[n++] = (uint8_t) prng_next();
                if (v >= 4) n = hdr + prng_below(n - hdr + 1 > 1 ? n - hdr : 1);
                hmask = (v == 0 || prng_below(3)) ? 127 : (int) prng_below(128); if (v == 1) hmask &= ~(1 << prng_below(7));
                hres = prng_below(3) ? 127 : (int) prng_below(128);
                one_case(scot, sca, sioa, a, n);
            }
        }
    }
    CS101_Slave_destroy(slave);
    fclose(ops); fclose(impl);
    if (multi_fail) printf("MULTI_FAIL %s\n", multi_info);
    printf("HISTO stack=cs101 cases=%ld callbacks=%ld responses=%ld multi_response_violations=%d\n", n_cases, n_cb, n_resp, multi_fail);
    return 0;
}
