#define _GNU_SOURCE
#include <stdio.h>
#include <stdlib.h>
#include <string.h>
#include <ucontext.h>
#include <unistd.h>
#include "simhal.h"

#if defined(__has_feature)
#if __has_feature(address_sanitizer)
#define SIM_ASAN 1
#endif
#endif
#if defined(__SANITIZE_ADDRESS__)
#define SIM_ASAN 1
#endif
#ifdef SIM_ASAN
void __sanitizer_start_switch_fiber(void** fake_stack_save, const void* bottom, size_t size);
void __sanitizer_finish_switch_fiber(void* fake_stack_save, const void** bottom_old, size_t* size_old);
#endif

/* ------------------------------------------------------------------ time */
static uint64_t now_ms = 1000000;
void sim_set_time(uint64_t ms) { now_ms = ms; }
void sim_advance(uint64_t ms) { now_ms += ms; }
uint64_t sim_time(void) { return now_ms; }
long sim_hal_calls = 0;
msSinceEpoch Hal_getTimeInMs(void) { sim_hal_calls++; return now_ms; }
uint64_t Hal_getMonotonicTimeInMs(void) { sim_hal_calls++; return now_ms; }
nsSinceEpoch Hal_getTimeInNs(void) { return now_ms * 1000000ull; }
bool Hal_setTimeInNs(nsSinceEpoch t) { (void) t; return false; }

/* ------------------------------------------------------------------ fibers */
#define MAX_TASKS 64
#define STACK_SIZE (512 * 1024)
struct sSimTask { ucontext_t ctx; void* stack; ThreadExecutionFunction fn; void* param; int state; /* 0 new,1 runnable,2 done */
    struct sSemaphore* blocked_on; bool started; bool autodestroy; bool used; const char* where; int joining; };
static SimTask tasks[MAX_TASKS]; static int n_tasks = 0; static int cur_task = -1;
static ucontext_t main_ctx;
int sim_deadlock = 0; char sim_deadlock_info[256]; int sim_last_task = -1;
int sim_live_semaphores = 0, sim_live_sockets = 0, sim_live_threads = 0, sim_live_handlesets = 0;

static void switch_to_main(void)
{
    int me = cur_task; cur_task = -1;
#ifdef SIM_ASAN
    void* fake = NULL; __sanitizer_start_switch_fiber(tasks[me].state == 2 ? NULL : &fake, NULL, 0);
#endif
    swapcontext(&tasks[me].ctx, &main_ctx);
#ifdef SIM_ASAN
    __sanitizer_finish_switch_fiber(fake, NULL, NULL);
#endif
}
static void sim_yield_at(const char* where) { if (cur_task >= 0) { tasks[cur_task].where = where; switch_to_main(); } }
static void sim_yield(void) { sim_yield_at("HAL call"); }
static void trampoline(int idx)
{
#ifdef SIM_ASAN
    __sanitizer_finish_switch_fiber(NULL, NULL, NULL);
#endif
    tasks[idx].fn(tasks[idx].param);
    tasks[idx].state = 2;
    switch_to_main();
}
int sim_task_count(void) { return n_tasks; }
bool sim_task_done(int i) { return i < n_tasks && tasks[i].state == 2; }
struct sSemaphore { int value; int initial; int id; int owner; /* task holding it: -1 application context, -2 nobody */ };
bool sim_task_runnable(int i) { return i < n_tasks && tasks[i].started && tasks[i].state != 2 && (tasks[i].blocked_on == NULL || tasks[i].blocked_on->value > 0); }
void sim_task_step(int i)
{
    if (!sim_task_runnable(i) || cur_task != -1) return;
    cur_task = i;
#ifdef SIM_ASAN
    void* fake = NULL; __sanitizer_start_switch_fiber(&fake, tasks[i].stack, STACK_SIZE);
#endif
    swapcontext(&main_ctx, &tasks[i].ctx);
#ifdef SIM_ASAN
    __sanitizer_finish_switch_fiber(fake, NULL, NULL);
#endif
}
Thread Thread_create(ThreadExecutionFunction function, void* parameter, bool autodestroy)
{
    int slot = -1;
    for (int i = 0; i < n_tasks; i++) if (!tasks[i].used) { slot = i; break; }
    if (slot < 0) { if (n_tasks >= MAX_TASKS) return NULL; slot = n_tasks++; }
    SimTask* t = &tasks[slot]; memset(t, 0, sizeof *t); sim_last_task = slot;
    t->joining = -1; t->fn = function; t->param = parameter; t->autodestroy = autodestroy; t->used = true;
    t->stack = malloc(STACK_SIZE);
    sim_live_threads++;
    return (Thread) t;
}
void Thread_start(Thread thread)
{
    SimTask* t = (SimTask*) thread; int idx = (int) (t - tasks);
    getcontext(&t->ctx); t->ctx.uc_stack.ss_sp = t->stack; t->ctx.uc_stack.ss_size = STACK_SIZE; t->ctx.uc_link = &main_ctx;
    makecontext(&t->ctx, (void (*)(void)) trampoline, 1, idx);
    t->started = true; t->state = 1;
}
void Thread_destroy(Thread thread)
{
    /* join: run the task until it is done; cooperative, so drive it from here */
    SimTask* t = (SimTask*) thread; int idx = (int) (t - tasks);
    if (!t->used) return;
    if (cur_task == idx) { return; }
    if (cur_task != -1) {
        /* a task joins another task: yield until the other is done */
        int guard = 0;
        tasks[cur_task].joining = idx;
        while (t->started && t->state != 2 && guard++ < 100000) sim_yield_at("Thread_destroy (join)");
        tasks[cur_task].joining = -1;
    } else {
        int guard = 0;
        while (t->started && t->state != 2) {
            if (sim_task_runnable(idx) && guard++ <= 100000) { sim_task_step(idx); continue; }
            /* the joined thread is blocked: let the thread that holds what it waits for run */
            bool progressed = false;
            for (int i = 0; i < n_tasks && guard <= 100000; i++) if (i != idx && sim_task_runnable(i)) { sim_task_step(i); progressed = true; guard++; }
            if (!progressed || guard > 100000) { sim_deadlock = 1; snprintf(sim_deadlock_info, sizeof sim_deadlock_info, "join of task %d cannot progress (blocked on semaphore %d held by task %d)", idx, t->blocked_on ? t->blocked_on->id : -1, t->blocked_on ? t->blocked_on->owner : -2); break; }
        }
    }
    if (t->state == 2 || !t->started) { free(t->stack); t->stack = NULL; t->used = false; sim_live_threads--; }
}
bool sim_main_sleep_runs_tasks = false;   /* when set: a sleeping application context lets every runnable thread run one step */
static long main_sleeps = 0;
void Thread_sleep(int millies)
{
    sim_hal_calls++; (void) millies;
    if (cur_task >= 0) { sim_yield_at("Thread_sleep"); return; }
    if (!sim_main_sleep_runs_tasks) return;
    bool any = false;
    for (int i = 0; i < n_tasks; i++) if (sim_task_runnable(i)) { sim_task_step(i); any = true; }
    if (any) main_sleeps = 0;
    else if (++main_sleeps > 100000) { printf("LOCK_FAIL deadlock: the application context sleeps forever and no thread can run (%s)\n", sim_deadlock_info); fflush(stdout); _exit(0); }
}

/* ------------------------------------------------------------------ semaphores */
long sim_sem_waits = 0, sim_sem_posts = 0; int sim_sem_max_value = 0, sim_sem_violations = 0; char sim_sem_violation_where[256];
static int sem_ids = 0;
Semaphore Semaphore_create(int initialValue)
{
    struct sSemaphore* s = calloc(1, sizeof *s); s->value = initialValue; s->initial = initialValue; s->id = sem_ids++; s->owner = -2; sim_live_semaphores++;
    return (Semaphore) s;
}
bool (*sim_preempt_hook)(void) = NULL;       /* when set: a fiber may also be descheduled right after a wait / post */
int sim_owner_violations = 0; char sim_owner_violation_where[256];
static void note_deadlock(const char* fmt, int a, int b)
{
    if (!sim_deadlock) {
        int n = snprintf(sim_deadlock_info, sizeof sim_deadlock_info, fmt, a, b);
        /* the wait-for chain: which thread waits for which semaphore, held by whom */
        for (int i = 0; i < n_tasks && n < (int) sizeof sim_deadlock_info - 40; i++) if (tasks[i].used && tasks[i].started && tasks[i].state != 2)
            n += snprintf(sim_deadlock_info + n, sizeof sim_deadlock_info - n, "; task %d in %s (joining %d) %s sem %d (holder %d)", i, tasks[i].where ? tasks[i].where : "?", tasks[i].joining, tasks[i].blocked_on ? "waits for" : "not blocked,", tasks[i].blocked_on ? tasks[i].blocked_on->id : -1, tasks[i].blocked_on ? tasks[i].blocked_on->owner : -2);
    }
    sim_deadlock = 1;
}
void Semaphore_wait(Semaphore self)
{
    struct sSemaphore* s = (struct sSemaphore*) self; sim_sem_waits++; sim_hal_calls++;
    int guard = 0;
    while (s->value <= 0) {
        if (s->owner == cur_task) { note_deadlock("task %d waits on semaphore %d which it already holds (self-deadlock)", cur_task, s->id); s->value = 1; break; }
        if (cur_task < 0) {
            /* the application context blocks: let the other threads run until the semaphore is free */
            bool progressed = false;
            for (int i = 0; i < n_tasks && s->value <= 0; i++) if (sim_task_runnable(i)) { sim_task_step(i); progressed = true; }
            if ((!progressed || guard++ > 100000) && s->value <= 0) { note_deadlock("application context waits on semaphore %d held by task %d and no thread can run", s->id, s->owner); s->value = 1; break; }
            continue;
        }
        tasks[cur_task].blocked_on = s; sim_yield_at("Semaphore_wait"); tasks[cur_task].blocked_on = NULL;
    }
    s->value--; s->owner = cur_task;
    if (cur_task >= 0 && sim_preempt_hook && sim_preempt_hook()) sim_yield();
}
void Semaphore_post(Semaphore self)
{
    struct sSemaphore* s = (struct sSemaphore*) self; sim_sem_posts++; sim_hal_calls++;
    if (s->initial == 1 && s->value <= 0 && s->owner != cur_task) { if (!sim_owner_violations) snprintf(sim_owner_violation_where, sizeof sim_owner_violation_where, "semaphore %d taken by task %d released by task %d", s->id, s->owner, cur_task); sim_owner_violations++; }
    s->value++; s->owner = -2;
    if (s->value > sim_sem_max_value) sim_sem_max_value = s->value;
    if (s->value > s->initial) { if (!sim_sem_violations) snprintf(sim_sem_violation_where, sizeof sim_sem_violation_where, "semaphore %d posted to value %d (initial %d)", s->id, s->value, s->initial); sim_sem_violations++; }
    if (cur_task >= 0 && sim_preempt_hook && sim_preempt_hook()) sim_yield();
}
void Semaphore_destroy(Semaphore self) { if (self) { free(self); sim_live_semaphores--; } }

/* ------------------------------------------------------------------ sockets */
static SimSocket socks[SIM_MAX_SOCKETS]; static int n_socks = 0;
static SimSocket* pending[SIM_MAX_SOCKETS]; static int n_pending = 0;
SimSocket* sim_last_client_socket = NULL; bool sim_connect_result = true; int sim_server_listening = 0;
struct sServerSocket { int dummy; };
static struct sServerSocket the_server;
struct sHandleSet { SimSocket* s[SIM_MAX_SOCKETS]; int n; };

static SimSocket* new_sock(void)
{
    for (int i = 0; i < SIM_MAX_SOCKETS; i++) if (i >= n_socks || (!socks[i].open && socks[i].id < 0)) {
        if (i >= n_socks) n_socks = i + 1;
        memset(&socks[i], 0, sizeof socks[i]); socks[i].id = i; socks[i].open = true; socks[i].connect_ok = true; sim_live_sockets++; return &socks[i]; }
    return NULL;
}
void sim_reset(void)
{
    for (int i = 0; i < SIM_MAX_SOCKETS; i++) { socks[i].id = -1; socks[i].open = false; }
    n_socks = 0; n_pending = 0; sim_last_client_socket = NULL; sim_connect_result = true;
}
SimSocket* sim_socket_by_id(int id) { return (id >= 0 && id < n_socks) ? &socks[id] : NULL; }
SimSocket* sim_incoming(const char* peer) { SimSocket* s = new_sock(); if (!s) return NULL; snprintf(s->peer, sizeof s->peer, "%s", peer); pending[n_pending++] = s; return s; }
void sim_feed(SimSocket* s, const uint8_t* d, int n)
{
    if (s->in_len + n > SIM_BUF || s->n_chunks >= 4095) return;
    memcpy(s->in + s->in_len, d, n); s->in_len += n; s->chunk_end[s->n_chunks++] = s->in_len;
}
void sim_peer_close(SimSocket* s) { s->peer_closed = true; }
int sim_take_output(SimSocket* s, uint8_t* buf, int max) { int n = s->out_len < max ? s->out_len : max; memcpy(buf, s->out, n); s->out_len = 0; return n; }

ServerSocket TcpServerSocket_create(const char* address, int port) { (void) address; (void) port; return (ServerSocket) &the_server; }
void ServerSocket_listen(ServerSocket self) { (void) self; sim_server_listening = 1; }
void ServerSocket_setBacklog(ServerSocket self, int b) { (void) self; (void) b; }
Socket ServerSocket_accept(ServerSocket self)
{
    (void) self; sim_hal_calls++;
    if (n_pending == 0) return NULL;
    SimSocket* s = pending[0]; memmove(pending, pending + 1, sizeof(pending[0]) * --n_pending);
    return (Socket) s;
}
void ServerSocket_destroy(ServerSocket self) { (void) self; sim_server_listening = 0; }
Socket TcpSocket_create(void) { SimSocket* s = new_sock(); sim_last_client_socket = s; return (Socket) s; }
void Socket_setConnectTimeout(Socket self, uint32_t t) { (void) self; (void) t; }
bool Socket_bind(Socket self, const char* a, int p) { (void) self; (void) a; (void) p; return true; }
bool Socket_connect(Socket self, const char* address, int port) { (void) self; (void) address; (void) port; sim_hal_calls++; sim_yield(); return sim_connect_result; }
bool Socket_connectAsync(Socket self, const char* a, int p) { (void) self; (void) a; (void) p; return sim_connect_result; }
SocketState Socket_checkAsyncConnectState(Socket self) { (void) self; return sim_connect_result ? SOCKET_STATE_CONNECTED : SOCKET_STATE_FAILED; }
void Socket_activateTcpKeepAlive(Socket self, int a, int b, int c) { (void) self; (void) a; (void) b; (void) c; }
int Socket_read(Socket self, uint8_t* buf, int size)
{
    SimSocket* s = (SimSocket*) self; sim_hal_calls++; s->reads++;
    if (s->in_pos >= s->in_len) return s->peer_closed ? -1 : 0;
    while (s->cur_chunk < s->n_chunks && s->chunk_end[s->cur_chunk] <= s->in_pos) s->cur_chunk++;
    int avail = s->chunk_end[s->cur_chunk] - s->in_pos;
    int n = size < avail ? size : avail;
    if (n <= 0) return 0;
    memcpy(buf, s->in + s->in_pos, n); s->in_pos += n;
    if (s->in_pos == s->in_len) { s->in_pos = s->in_len = 0; s->n_chunks = 0; s->cur_chunk = 0; }
    return n;
}
void (*sim_write_hook)(SimSocket* s, const uint8_t* buf, int n) = NULL;
int Socket_write(Socket self, uint8_t* buf, int size)
{
    SimSocket* s = (SimSocket*) self; sim_hal_calls++; s->writes++;
    if (s->write_fail || s->peer_closed) return -1;
    if (sim_write_hook) sim_write_hook(s, buf, size);
    if (s->out_len + size <= SIM_BUF) { memcpy(s->out + s->out_len, buf, size); s->out_len += size; }
    return size;
}
char* Socket_getPeerAddress(Socket self) { return strdup(((SimSocket*) self)->peer); }
char* Socket_getLocalAddress(Socket self) { (void) self; return strdup("127.0.0.1:2404"); }
char* Socket_getPeerAddressStatic(Socket self, char* out) { strcpy(out, ((SimSocket*) self)->peer); return out; }
void Socket_destroy(Socket self)
{
    if (self == (Socket) &the_server) { sim_server_listening = 0; return; }
    SimSocket* s = (SimSocket*) self; if (s && s->open) { s->open = false; sim_live_sockets--; }
}
HandleSet Handleset_new(void) { sim_live_handlesets++; return (HandleSet) calloc(1, sizeof(struct sHandleSet)); }
void Handleset_reset(HandleSet self) { ((struct sHandleSet*) self)->n = 0; }
void Handleset_addSocket(HandleSet self, const Socket sock) { struct sHandleSet* h = (struct sHandleSet*) self; if (h->n < SIM_MAX_SOCKETS) h->s[h->n++] = (SimSocket*) sock; }
void Handleset_removeSocket(HandleSet self, const Socket sock) { struct sHandleSet* h = (struct sHandleSet*) self; for (int i = 0; i < h->n; i++) if (h->s[i] == (SimSocket*) sock) { h->s[i] = h->s[--h->n]; break; } }
int Handleset_waitReady(HandleSet self, unsigned int timeoutMs)
{
    struct sHandleSet* h = (struct sHandleSet*) self; sim_hal_calls++; (void) timeoutMs;
    sim_yield();        /* in a fiber: let the harness act (deliver octets, advance the clock) before looking */
    for (int i = 0; i < h->n; i++) if (h->s[i] && (h->s[i]->in_pos < h->s[i]->in_len || h->s[i]->peer_closed)) return 1;
    return 0;
}
void Handleset_destroy(HandleSet self) { if (self) { free(self); sim_live_handlesets--; } }

/* ------------------------------------------------------------------ serial */
SimSerial sim_serial[4];
void (*sim_serial_hook)(int idx, const uint8_t* buf, int n) = NULL;
struct sSerialPort { int idx; int baud; };
static struct sSerialPort ports[4] = { {0, 9600}, {1, 9600}, {2, 9600}, {3, 9600} };
SerialPort sim_serial_port(int idx) { return (SerialPort) &ports[idx]; }
SerialPort SerialPort_create(const char* n, int baud, uint8_t d, char p, uint8_t s) { (void) n; (void) d; (void) p; (void) s; ports[0].baud = baud; return (SerialPort) &ports[0]; }
void SerialPort_destroy(SerialPort self) { (void) self; }
bool SerialPort_open(SerialPort self) { (void) self; return true; }
void SerialPort_close(SerialPort self) { (void) self; }
int SerialPort_getBaudRate(SerialPort self) { return ((struct sSerialPort*) self)->baud; }
void SerialPort_setTimeout(SerialPort self, int t) { (void) self; (void) t; }
void SerialPort_discardInBuffer(SerialPort self) { SimSerial* s = &sim_serial[((struct sSerialPort*) self)->idx]; s->in_pos = s->in_len = 0; }   /* tcflush */
int SerialPort_readByte(SerialPort self)
{
    SimSerial* s = &sim_serial[((struct sSerialPort*) self)->idx]; sim_hal_calls++;
    if (s->in_pos >= s->in_len) { s->in_pos = s->in_len = 0; return -1; }
    return s->in[s->in_pos++];
}
int SerialPort_write(SerialPort self, uint8_t* buffer, int startPos, int numberOfBytes)
{
    SimSerial* s = &sim_serial[((struct sSerialPort*) self)->idx]; sim_hal_calls++;
    if (sim_serial_hook) sim_serial_hook(((struct sSerialPort*) self)->idx, buffer + startPos, numberOfBytes);
    if (s->out_len + numberOfBytes <= SIM_BUF) { memcpy(s->out + s->out_len, buffer + startPos, numberOfBytes); s->out_len += numberOfBytes; }
    return numberOfBytes;
}
SerialPortError SerialPort_getLastError(SerialPort self) { (void) self; return SERIAL_PORT_ERROR_NONE; }
