/*
 * C10 harness: the real protocol stacks (CS104 server with the file-service plugin, CS104 client,
 * CS101 slave and master in both link modes) behind the simulated HAL, driven by hostile peers:
 * grammar-based near-valid frame sequences (every type id, SQ, counts that do not match the length,
 * truncated / over-long objects, file-service ASDUs), mutation, pure noise, arbitrary read
 * segmentation, floods without acknowledgement, write failures and closes at every step.
 * Built with ASan + UBSan (an abort is a finding); every application callback dereferences all of
 * its arguments; a watchdog counts HAL calls per processing step and an alarm() catches loops that
 * make no HAL call at all; "keeps serving": a fresh well-behaved connection must still get its
 * STARTDT con / a following well-formed request must still be answered.
 *
 * usage: fuzz10 <mode> <ops-log> <quick|thorough>     mode: srv | cli | s101u | s101b | m101u | m101b
 */
#include "simhal.h"
#include "iec60870_common.h"
#include "cs104_slave.h"
#include "cs104_connection.h"
#include "cs101_slave.h"
#include "cs101_master.h"
#include "cs101_file_service.h"
#include "hal_time.h"
#include <stdio.h>
#include <string.h>
#include <stdlib.h>
#include <stdarg.h>
#include <signal.h>
#include <unistd.h>
#include "prng.h"

static FILE* ops; static const char* mode = "?"; static long n_ops = 0, n_cb = 0, n_frames = 0, n_noise = 0, n_trunc = 0, n_close = 0, n_wfail = 0, n_flood = 0, n_probe = 0, n_probe_ok = 0, n_episodes = 0, max_hal = 0;
static int fails = 0; static char fail_info[1000];
static void fail(const char* kind, const char* fmt, ...) { if (fails++) return; va_list ap; va_start(ap, fmt); int k = snprintf(fail_info, sizeof fail_info, "%s ", kind); vsnprintf(fail_info + k, sizeof fail_info - k, fmt, ap); va_end(ap); }
static void hexs(char* out, const uint8_t* b, int n) { if (n > 300) n = 300; if (!n) { strcpy(out, "-"); return; } for (int i = 0; i < n; i++) sprintf(out + 2 * i, "%02x", b[i]); out[2 * n] = 0; }
static void oplog(const char* what, int a, const uint8_t* b, int n) { static char h[700]; hexs(h, b ? b : (const uint8_t*) "", b ? n : 0); fprintf(ops, "%s %s %d %s\n", mode, what, a, h); fflush(ops); n_ops++; }
static void on_alarm(int sig) { (void) sig; const char m[] = "FUZZ_FAIL HANG a processing step did not return (no HAL call for 60 s of CPU): unbounded loop\n"; (void) !write(1, m, sizeof m - 1); _exit(3); }
static void step_begin(void) { sim_hal_calls = 0; alarm(60); }
static void step_end(const char* where) { alarm(0); if (sim_hal_calls > max_hal) max_hal = sim_hal_calls; if (sim_hal_calls > 400000) fail("LOOP", "%s: %ld HAL calls inside one processing step", where, sim_hal_calls); if (sim_deadlock) fail("DEADLOCK", "%s: %s", where, sim_deadlock_info); }

/* ---------------------------------------------------------------- hostile ASDU grammar */
static const struct { int tid, sz; } TYPES[] = { {1,1},{2,4},{3,1},{4,4},{5,2},{6,5},{7,5},{8,8},{9,3},{10,6},{11,3},{12,6},{13,5},{14,8},{15,5},{16,8},{17,6},{18,7},{19,7},{20,5},{21,2},
    {30,8},{31,8},{32,9},{33,12},{34,10},{35,10},{36,12},{37,12},{38,13},{39,14},{40,14},{45,1},{46,1},{47,1},{48,3},{49,3},{50,5},{51,4},{58,8},{59,8},{60,8},{61,10},{62,10},{63,12},{64,11},
    {70,1},{100,1},{101,1},{102,0},{103,7},{104,2},{105,1},{106,2},{107,9},{110,3},{111,3},{112,5},{113,1},{120,6},{121,7},{122,4},{123,5},{124,4},{125,4},{126,13},{127,16} };
#define NTYPES ((int) (sizeof TYPES / sizeof TYPES[0]))
static int f_ca = 1, f_ioa = 30000, f_nof = 1;
static int gen_asdu(uint8_t* a, int scot, int sca, int sioa, int maxlen)
{
    int k = prng_below(10) < 3 ? 47 + (int) prng_below(NTYPES - 47) : (int) prng_below(NTYPES);   /* commands and file service more often */
    int tid = TYPES[k].tid, sz = TYPES[k].sz; if (prng_below(25) == 0) { tid = prng_below(256); sz = prng_below(20); }
    int sq = prng_below(5) == 0, cnt = prng_below(4) ? 1 : 1 + (int) prng_below(prng_below(3) ? 6 : 127);
    int n = 0; a[n++] = tid; a[n++] = (sq ? 0x80 : 0) | cnt;
    static const int COT[] = { 6, 6, 6, 8, 5, 13, 13, 3, 20, 7, 10, 44, 45, 46, 47, 0, 63 };
    a[n++] = COT[prng_below(17)] | (prng_below(12) == 0 ? 0x40 : 0) | (prng_below(20) == 0 ? 0x80 : 0);
    if (scot > 1) a[n++] = (uint8_t) prng_next();
    int ca = prng_below(6) ? f_ca : (int) prng_below(65536); a[n++] = ca & 255; if (sca > 1) a[n++] = ca >> 8;
    int ioa = (tid >= 100 && tid <= 107 && prng_below(4)) ? 0 : (tid >= 120 ? (prng_below(6) ? f_ioa : (int) prng_next()) : (int) prng_next());
    for (int e = 0; e < cnt && n < maxlen; e++) {
        if (!sq || e == 0) for (int i = 0; i < sioa && n < maxlen; i++) a[n++] = (ioa >> (8 * i)) & 255;
        int body = sz; uint8_t tmp[260]; for (int i = 0; i < 260; i++) tmp[i] = (uint8_t) prng_next();
        if (tid >= 120 && tid <= 125) { tmp[0] = f_nof & 255; tmp[1] = f_nof >> 8; tmp[2] = 1 + prng_below(3);
            if (tid == 122) tmp[3] = (uint8_t[]) { 1, 2, 6, 3, 0 }[prng_below(5)]; if (tid == 124) tmp[3] = 1 + prng_below(4); if (tid == 123) tmp[3] = 1 + prng_below(3);
            if (tid == 125) { tmp[3] = prng_below(3) ? (uint8_t) prng_below(60) : (uint8_t) prng_next(); body = 4 + (prng_below(5) ? tmp[3] : (int) prng_below(250)); } if (tid == 121) { tmp[4] = 0; tmp[5] = 0; } }
        for (int i = 0; i < body && n < maxlen; i++) a[n++] = tmp[i];
    }
    int x = prng_below(100);
    if (x < 14) { int hdr = 2 + scot + sca; n = hdr + (int) prng_below(n - hdr + 1); n_trunc++; }        /* truncated anywhere after the header */
    else if (x < 18) { n = prng_below(2 + scot + sca + 1); n_trunc++; }                                  /* shorter than the header */
    else if (x < 24) { int extra = 1 + prng_below(30); for (int i = 0; i < extra && n < maxlen; i++) a[n++] = (uint8_t) prng_next(); }
    else if (x < 30 && n > 0) a[prng_below(n)] ^= 1 << prng_below(8);
    if (n > maxlen) n = maxlen;
    return n;
}

/* ---------------------------------------------------------------- application callbacks: touch everything */
static volatile unsigned long sink;
static void touch_asdu(CS101_ASDU a, const char* who)
{
    n_cb++;
    if (!a) { fail("NULLCB", "%s: the application callback received a NULL ASDU", who); return; }
    sink += CS101_ASDU_getTypeID(a) + CS101_ASDU_getCOT(a) + CS101_ASDU_getCA(a) + CS101_ASDU_getOA(a) + CS101_ASDU_isTest(a) + CS101_ASDU_isNegative(a);
    int n = CS101_ASDU_getNumberOfElements(a); int pl = CS101_ASDU_getPayloadSize(a); uint8_t* p = CS101_ASDU_getPayload(a); for (int i = 0; i < pl; i++) sink += p[i];
    for (int i = 0; i < n && i < 130; i++) { InformationObject io = CS101_ASDU_getElement(a, i); if (io) { sink += InformationObject_getObjectAddress(io) + InformationObject_getType(io); InformationObject_destroy(io); } }
}
static int reply_budget = 0;
static void maybe_reply(IMasterConnection c, CS101_ASDU a)
{
    if (!c || reply_budget <= 0) return; int k = prng_below(4);
    for (int i = 0; i < k && reply_budget > 0; i++, reply_budget--) { if (prng_below(2)) IMasterConnection_sendACT_CON(c, a, prng_below(2)); else IMasterConnection_sendASDU(c, a); }
    if (prng_below(4) == 0) IMasterConnection_sendACT_TERM(c, a);
    if (prng_below(30) == 0) IMasterConnection_close(c);
}
static bool h_ic(void* p, IMasterConnection c, CS101_ASDU a, uint8_t q) { touch_asdu(a, "interrogation handler"); sink += q; maybe_reply(c, a); return prng_below(2); }
static bool h_ci(void* p, IMasterConnection c, CS101_ASDU a, QualifierOfCIC q) { touch_asdu(a, "counter interrogation handler"); sink += q; maybe_reply(c, a); return prng_below(2); }
static bool h_rd(void* p, IMasterConnection c, CS101_ASDU a, int ioa) { touch_asdu(a, "read handler"); sink += ioa; maybe_reply(c, a); return prng_below(2); }
static bool h_cs(void* p, IMasterConnection c, CS101_ASDU a, CP56Time2a t) { touch_asdu(a, "clock sync handler"); if (!t) fail("NULLCB", "clock sync handler received a NULL time"); else sink += CP56Time2a_toMsTimestamp(t) + CP56Time2a_getYear(t); maybe_reply(c, a); return prng_below(2); }
static bool h_rp(void* p, IMasterConnection c, CS101_ASDU a, uint8_t q) { touch_asdu(a, "reset process handler"); sink += q; maybe_reply(c, a); return prng_below(2); }
static bool h_cd(void* p, IMasterConnection c, CS101_ASDU a, CP16Time2a d) { touch_asdu(a, "delay acquisition handler"); if (!d) fail("NULLCB", "delay acquisition handler received a NULL time"); else sink += CP16Time2a_getEplapsedTimeInMs(d); maybe_reply(c, a); return prng_below(2); }
static bool h_asdu(void* p, IMasterConnection c, CS101_ASDU a) { touch_asdu(a, "ASDU handler"); maybe_reply(c, a); return prng_below(2); }
static bool m_asdu(void* p, int addr, CS101_ASDU a) { touch_asdu(a, "master ASDU-received handler"); sink += addr; return true; }
static bool c_asdu(void* p, int addr, CS101_ASDU a) { touch_asdu(a, "client ASDU-received handler"); sink += addr; return true; }
static void c_conn(void* p, CS104_Connection c, CS104_ConnectionEvent e) { sink += (int) e; n_cb++; }
static long n_opened_ev = 0, n_closed_ev = 0;
static void s_event(void* p, IMasterConnection c, CS104_PeerConnectionEvent e) { sink += (int) e; n_cb++; if (e == CS104_CON_EVENT_CONNECTION_OPENED) n_opened_ev++; if (e == CS104_CON_EVENT_CONNECTION_CLOSED) n_closed_ev++; if (!c) fail("NULLCB", "connection event handler received a NULL connection"); }
static bool s_request(void* p, const char* ip) { if (!ip) { fail("NULLCB", "connection request handler received a NULL address"); return true; } sink += strlen(ip); return prng_below(10) != 0; }
static void ll_state(void* p, int address, LinkLayerState s) { sink += address + (int) s; n_cb++; }

/* file service application side */
static uint8_t filedata[3][700]; static int secsz[3] = { 300, 1, 650 };
static int p_size(CS101_IFileProvider f) { return secsz[0] + secsz[1] + secsz[2]; }
static int p_secsize(CS101_IFileProvider f, int k) { return (k >= 0 && k < 3) ? secsz[k] : 0; }
static bool p_data(CS101_IFileProvider f, int k, int off, int size, uint8_t* d) { if (k < 0 || k >= 3 || off < 0 || size < 0 || off + size > secsz[k]) { fail("BADARG", "file provider asked for section %d offset %d size %d", k, off, size); if (size > 0 && size < 256) memset(d, 0, size); return false; } memcpy(d, filedata[k] + off, size); return true; }
static void p_complete(CS101_IFileProvider f, bool ok) { sink += ok; n_cb++; }
static struct sCS101_IFileProvider provider; static struct sCS101_FilesAvailable files; static struct sCS101_IFileReceiver receiver;
static CS101_IFileProvider f_get(void* p, int ca, int ioa, uint16_t nof, int* err) { n_cb++; if (ca != f_ca) { *err = 1; return NULL; } if (ioa != f_ioa) { *err = 2; return NULL; } return &provider; }
static CS101_IFileReceiver r_ready(void* p, int ca, int ioa, uint16_t nof, int lof, int* err) { n_cb++; if (prng_below(4) == 0) { *err = prng_below(3); return NULL; } return &receiver; }
static void r_seg(CS101_IFileReceiver r, uint8_t nos, int off, int size, uint8_t* d) { n_cb++; if (!d || size < 0 || size > 255) { fail("BADARG", "segmentReceived with data %p size %d", (void*) d, size); return; } for (int i = 0; i < size; i++) sink += d[i]; }
static void r_fin(CS101_IFileReceiver r, CS101_FileErrorCode c) { sink += (int) c; n_cb++; }
static CS101_FileServer make_fileserver(CS101_AppLayerParameters al)
{
    CS101_FileServer fs = CS101_FileServer_create(al);
    files.getFile = f_get; files.getNextFile = NULL; provider.ca = f_ca; provider.ioa = f_ioa; provider.nof = f_nof; provider.getFileSize = p_size; provider.getSectionSize = p_secsize; provider.getSegmentData = p_data; provider.transferComplete = p_complete;
    receiver.finished = r_fin; receiver.segmentReceived = r_seg;
    CS101_FileServer_setFilesAvailableIfc(fs, &files); CS101_FileServer_setFileReadyHandler(fs, r_ready, NULL);
    return fs;
}

/* ---------------------------------------------------------------- CS104 frames */
static int frame_u(uint8_t* b, int ctl) { b[0] = 0x68; b[1] = 4; b[2] = ctl; b[3] = b[4] = b[5] = 0; return 6; }
static int frame_s(uint8_t* b, int nr) { b[0] = 0x68; b[1] = 4; b[2] = 1; b[3] = 0; b[4] = (nr % 128) * 2; b[5] = nr / 128; return 6; }
static int frame_i(uint8_t* b, int ns, int nr, const uint8_t* asdu, int n) { b[0] = 0x68; b[1] = n + 4; b[2] = (ns % 128) * 2; b[3] = ns / 128; b[4] = (nr % 128) * 2; b[5] = nr / 128; memcpy(b + 6, asdu, n); return n + 6; }
/* I-frames written by the library on a socket since the last call: advances the peer's N(R) */
static int count_iframes(SimSocket* s, int* last_ns) { uint8_t out[SIM_BUF]; int n = sim_take_output(s, out, sizeof out), i = 0, c = 0; while (i + 6 <= n && out[i] == 0x68) { int l = out[i + 1]; if (!(out[i + 2] & 1)) { c++; *last_ns = ((out[i + 3] << 8 | out[i + 2]) >> 1); } i += 2 + l; } return c; }
static int has_frame(SimSocket* s, int ctl) { uint8_t out[SIM_BUF]; int n = sim_take_output(s, out, sizeof out), i = 0, hit = 0; while (i + 6 <= n && out[i] == 0x68) { if (out[i + 1] == 4 && out[i + 2] == ctl) hit = 1; i += 2 + out[i + 1]; } return hit; }
static void feed_split(SimSocket* s, const uint8_t* f, int n) { int m = prng_below(6); if (m < 3 || n < 2) { sim_feed(s, f, n); return; } if (m == 3) { for (int i = 0; i < n; i++) sim_feed(s, f + i, 1); return; } int cut = prng_range(1, n - 1); sim_feed(s, f, cut); sim_feed(s, f + cut, n - cut); }

/* ---------------------------------------------------------------- mode srv */
static CS104_Slave slave; static CS101_FileServer fsrv;
static void srv_tick(int dt) { sim_advance(dt); step_begin(); CS104_Slave_tick(slave); step_end("CS104_Slave_tick"); }
static void episode_srv(bool thorough)
{
    sim_reset(); sim_set_time(1000000 + prng_below(100000));
    int scot = 1 + prng_below(2), sca = 1 + prng_below(2), sioa = 1 + prng_below(3), hdr = 2 + scot + sca;
    slave = CS104_Slave_create(prng_range(1, 30), prng_range(1, 20));
    int smode = prng_below(3); CS104_Slave_setServerMode(slave, (CS104_ServerMode) smode);
    CS104_APCIParameters ap = CS104_Slave_getConnectionParameters(slave); ap->k = prng_range(1, 12); ap->w = prng_range(1, 8); ap->t1 = prng_range(2, 15); ap->t2 = prng_range(1, 10); ap->t3 = prng_range(2, 20);
    CS101_AppLayerParameters al = CS104_Slave_getAppLayerParameters(slave); al->sizeOfCOT = scot; al->sizeOfCA = sca; al->sizeOfIOA = sioa; al->maxSizeOfASDU = prng_below(3) ? 249 : prng_range(20, 249);
    f_ca = 1 + prng_below(sca == 1 ? 250 : 60000); f_ioa = 1 + prng_below(sioa == 1 ? 250 : 60000); f_nof = 1 + prng_below(200);
    CS104_Slave_setMaxOpenConnections(slave, 12);
    CS104_Slave_setConnectionEventHandler(slave, s_event, NULL); CS104_Slave_setConnectionRequestHandler(slave, s_request, NULL);
    int hm = prng_below(4) ? 127 : (int) prng_below(128);
    if (hm & 1) CS104_Slave_setInterrogationHandler(slave, h_ic, NULL); if (hm & 2) CS104_Slave_setCounterInterrogationHandler(slave, h_ci, NULL); if (hm & 4) CS104_Slave_setReadHandler(slave, h_rd, NULL);
    if (hm & 8) CS104_Slave_setClockSyncHandler(slave, h_cs, NULL); if (hm & 64) CS104_Slave_setASDUHandler(slave, h_asdu, NULL);
    fsrv = make_fileserver(al); CS104_Slave_addPlugin(slave, CS101_FileServer_getSlavePlugin(fsrv));
    if (smode == 2 && prng_below(2)) { CS104_RedundancyGroup g = CS104_RedundancyGroup_create("g1"); CS104_RedundancyGroup_addAllowedClient(g, "10.0.0.1"); CS104_Slave_addRedundancyGroup(slave, g); CS104_RedundancyGroup g2 = CS104_RedundancyGroup_create("all"); CS104_Slave_addRedundancyGroup(slave, g2); }
    CS104_Slave_startThreadless(slave);
    SimSocket* sock[6] = { 0 }; int ns[6] = { 0 }, nr[6] = { 0 }, started[6] = { 0 }; int steps = thorough ? 700 : 260;
    for (int st = 0; st < steps && !fails; st++) {
        int h = prng_below(5); uint8_t f[600], a[300]; int x = prng_below(100);
        reply_budget = prng_below(3) ? 6 : 80;
        if (!sock[h] || !sock[h]->open) { char ip[32]; sprintf(ip, prng_below(3) ? "10.0.0.%d" : "fe80::%d", 1 + (int) prng_below(4)); oplog("conn", h, NULL, 0); sock[h] = sim_incoming(ip); if (!sock[h]) continue; ns[h] = nr[h] = started[h] = 0; srv_tick(1);
            if (prng_below(5)) { int n = frame_u(f, 0x07); oplog("rx", h, f, n); feed_split(sock[h], f, n); started[h] = 1; srv_tick(1); } continue; }
        int lastns = -1; int got = count_iframes(sock[h], &lastns); if (got) nr[h] = (lastns + 1) % 32768;
        if (x < 38) { int n = gen_asdu(a, scot, sca, sioa, 249); int fn = frame_i(f, ns[h], prng_below(12) ? nr[h] : (int) prng_below(32768), a, n); if (prng_below(40)) ns[h] = (ns[h] + 1) % 32768; oplog("rx", h, f, fn); feed_split(sock[h], f, fn); n_frames++; }
        else if (x < 46) { int fn = frame_s(f, prng_below(8) ? nr[h] : (int) prng_below(32768)); oplog("rx", h, f, fn); feed_split(sock[h], f, fn); n_frames++; }
        else if (x < 54) { static const int U[] = { 0x07, 0x13, 0x43, 0x83, 0x0b, 0x23, 0x03, 0xff }; int fn = frame_u(f, U[prng_below(8)]); oplog("rx", h, f, fn); feed_split(sock[h], f, fn); n_frames++; }
        else if (x < 62) { int n = gen_asdu(a, scot, sca, sioa, 249); int fn = frame_i(f, ns[h], nr[h], a, n); int k = prng_below(fn); f[k] ^= 1 << prng_below(8); if (prng_below(3) == 0) f[1] = (uint8_t) prng_next(); oplog("rx", h, f, fn); feed_split(sock[h], f, fn); ns[h] = (ns[h] + 1) % 32768; n_frames++; }
        else if (x < 70) { int n = prng_range(1, 300); for (int i = 0; i < n; i++) f[i] = (uint8_t) prng_next(); if (prng_below(2)) f[0] = 0x68; oplog("rx", h, f, n); feed_split(sock[h], f, n); n_noise++; }
        else if (x < 76) { int burst = prng_range(20, 90); n_flood++; for (int i = 0; i < burst && sock[h]->open; i++) { int n = gen_asdu(a, scot, sca, sioa, 249); if (prng_below(2)) { a[0] = prng_below(2) ? 100 : 200; a[2] = 6; } int fn = frame_i(f, ns[h], 0, a, n); ns[h] = (ns[h] + 1) % 32768; oplog("rx", h, f, fn); sim_feed(sock[h], f, fn); if (prng_below(3) == 0) srv_tick(1); } }
        else if (x < 81) { oplog("close", h, NULL, 0); sim_peer_close(sock[h]); n_close++; }
        else if (x < 85) { sock[h]->write_fail = !sock[h]->write_fail; oplog("wfail", h, NULL, sock[h]->write_fail); n_wfail++; }
        else if (x < 90) { uint8_t ev[20] = { 1, 1, 3, 0, 1, 0, 1, 0, 0, 1 }; CS101_ASDU e = CS101_ASDU_create(al, false, CS101_COT_SPONTANEOUS, 0, 1, false, false); InformationObject io = (InformationObject) SinglePointInformation_create(NULL, st, st & 1, 0); CS101_ASDU_addInformationObject(e, io); InformationObject_destroy(io); oplog("enq", 0, ev, 0); CS104_Slave_enqueueASDU(slave, e); CS101_ASDU_destroy(e); }
        else if (x < 96) { int dt = prng_below(3) ? prng_range(1, 900) : prng_range(1000, 16000); oplog("tick", dt, NULL, 0); srv_tick(dt); continue; }
        else if (x < 98) { /* a frame shorter than the APCI must cause no reaction other than closing the connection */
            SimSocket* p = sim_incoming("10.0.0.8"); if (!p) continue; srv_tick(1); (void) sim_take_output(p, f, sizeof f);
            static const uint8_t SH[][5] = { { 0x68, 0x00 }, { 0x68, 0x01, 0x07 }, { 0x68, 0x01, 0x43 }, { 0x68, 0x02, 0x07, 0x00 }, { 0x68, 0x03, 0x01, 0x00, 0x00 }, { 0x68, 0x01, 0x01 } };
            static const int SHN[] = { 2, 3, 3, 4, 5, 3 }; int k = prng_below(6);
            oplog("short", k, SH[k], SHN[k]); sim_feed(p, SH[k], SHN[k]); srv_tick(1); srv_tick(1);
            int n = sim_take_output(p, f, sizeof f);
            if (n > 0) { char h[64]; hexs(h, f, n > 20 ? 20 : n); fail("SHORT", "a %d-octet frame (shorter than the APCI) was answered with %s", SHN[k], h); }
            sim_peer_close(p); srv_tick(1); continue; }
        else { /* probe: a fresh, well-behaved connection must still be served */
            n_probe++; oplog("probe", 0, NULL, 0); SimSocket* p = sim_incoming("10.0.0.9"); if (!p) { n_probe--; continue; }
            long opened0 = n_opened_ev; srv_tick(1); int admitted = n_opened_ev > opened0;   /* refused connections (limit, groups, request handler) never report OPENED */
            int fn = frame_u(f, 0x43); sim_feed(p, f, fn); srv_tick(1);
            if (p->open && !has_frame(p, 0x83)) fail("STARVED", "a new connection was accepted but its TESTFR act was not answered (open connections %d)", CS104_Slave_getOpenConnections(slave));
            else if (admitted) { /* ... and it is still served a moment later (well inside every timeout) */
                srv_tick(20); fn = frame_u(f, 0x07); sim_feed(p, f, fn); srv_tick(1); srv_tick(1);
                if (!p->open) fail("STARVED", "a well-behaved new connection (admitted; TESTFR act, 20 ms, STARTDT act) was closed by the server within 25 ms (open connections %d)", CS104_Slave_getOpenConnections(slave));
                else if (!has_frame(p, 0x0b)) fail("STARVED", "a well-behaved new connection got no STARTDT con (open connections %d)", CS104_Slave_getOpenConnections(slave));
                else n_probe_ok++; }
            else n_probe_ok++;
            sim_peer_close(p); srv_tick(1); continue; }
        srv_tick(prng_below(4) ? 1 : prng_range(1, 400));
    }
    oplog("destroy", 0, NULL, 0);
    step_begin(); CS104_Slave_stopThreadless(slave); CS104_Slave_destroy(slave); CS101_FileServer_destroy(fsrv); step_end("CS104_Slave_destroy");
}

/* ---------------------------------------------------------------- mode cli */
static void episode_cli(bool thorough)
{
    sim_reset(); sim_set_time(500000);
    CS104_Connection con = CS104_Connection_create("10.1.1.1", 2404);
    struct sCS104_APCIParameters ap = { prng_range(1, 12), prng_range(1, 8), 10, prng_range(2, 15), prng_range(1, 10), prng_range(2, 20) }; int storm = prng_below(4) == 0; if (storm) ap.t1 = ap.t3 + prng_range(2, 5); CS104_Connection_setAPCIParameters(con, &ap);
    CS101_AppLayerParameters al = CS104_Connection_getAppLayerParameters(con); int scot = al->sizeOfCOT = 1 + prng_below(2), sca = al->sizeOfCA = 1 + prng_below(2); int sioa = al->sizeOfIOA;
    CS104_Connection_setASDUReceivedHandler(con, c_asdu, NULL); CS104_Connection_setConnectionHandler(con, c_conn, NULL);
    sim_connect_result = storm || prng_below(10) != 0; oplog("connect", sim_connect_result, NULL, 0); CS104_Connection_connectAsync(con);
    int task = sim_last_task; int ns = 0, nr = 0; int steps = thorough ? 500 : 200;
    if (storm) {   /* a server that never confirms TESTFR act but keeps the line busy with TESTFR act of its own */
        uint8_t f[8]; for (int k = 0; k < 10; k++) if (!sim_task_done(task) && sim_task_runnable(task)) { step_begin(); sim_task_step(task); step_end("client thread step"); }
        SimSocket* s = sim_last_client_socket;
        for (int r = 0; r < 8 && s && s->open && !sim_task_done(task); r++) { sim_advance(ap.t3 * 1000 + 50);
            for (int k = 0; k < 12; k++) if (!sim_task_done(task) && sim_task_runnable(task)) { step_begin(); sim_task_step(task); step_end("client thread step"); }
            int fn = frame_u(f, 0x43); oplog("rx", 0, f, fn); sim_feed(s, f, fn);
            for (int k = 0; k < 6; k++) if (!sim_task_done(task) && sim_task_runnable(task)) { step_begin(); sim_task_step(task); step_end("client thread step"); } }
    }
    for (int st = 0; st < steps && !fails; st++) {
        uint8_t f[600], a[300]; int x = prng_below(100); SimSocket* s = sim_last_client_socket;
        if (x < 30) { if (task >= 0 && !sim_task_done(task) && sim_task_runnable(task)) { step_begin(); sim_task_step(task); step_end("client thread step"); } continue; }
        if (x < 36) { sim_advance(prng_below(3) ? prng_range(1, 900) : prng_range(1000, 16000)); continue; }
        if (x < 44) { oplog("api", x, NULL, 0); step_begin(); switch (prng_below(6)) { case 0: CS104_Connection_sendStartDT(con); break; case 1: CS104_Connection_sendStopDT(con); break; case 2: CS104_Connection_sendInterrogationCommand(con, CS101_COT_ACTIVATION, 1, 20); break; case 3: CS104_Connection_sendTestCommand(con, 1); break; case 4: CS104_Connection_sendReadCommand(con, 1, 5); break; default: { struct sCP56Time2a t; CP56Time2a_createFromMsTimestamp(&t, 1000); CS104_Connection_sendClockSyncCommand(con, 1, &t); } } step_end("client API call"); continue; }
        if (!s || !s->open) continue;
        int lastns = -1; int got = count_iframes(s, &lastns); if (got) nr = (lastns + 1) % 32768;
        if (x < 66) { int n = gen_asdu(a, scot, sca, sioa, 249); int fn = frame_i(f, ns, prng_below(10) ? nr : (int) prng_below(32768), a, n); if (prng_below(40)) ns = (ns + 1) % 32768; oplog("rx", 0, f, fn); feed_split(s, f, fn); n_frames++; }
        else if (x < 72) { int fn = frame_s(f, prng_below(8) ? nr : (int) prng_below(32768)); oplog("rx", 0, f, fn); feed_split(s, f, fn); n_frames++; }
        else if (x < 80) { static const int U[] = { 0x0b, 0x23, 0x43, 0x83, 0x07, 0x13, 0x03, 0xff }; int fn = frame_u(f, U[prng_below(8)]); oplog("rx", 0, f, fn); feed_split(s, f, fn); n_frames++; }
        else if (x < 88) { int n = gen_asdu(a, scot, sca, sioa, 249); int fn = frame_i(f, ns, nr, a, n); f[prng_below(fn)] ^= 1 << prng_below(8); if (prng_below(3) == 0) f[1] = (uint8_t) prng_next(); oplog("rx", 0, f, fn); feed_split(s, f, fn); ns = (ns + 1) % 32768; n_frames++; }
        else if (x < 94) { int n = prng_range(1, 300); for (int i = 0; i < n; i++) f[i] = (uint8_t) prng_next(); if (prng_below(2)) f[0] = 0x68; oplog("rx", 0, f, n); feed_split(s, f, n); n_noise++; }
        else if (x < 97) { oplog("close", 0, NULL, 0); sim_peer_close(s); n_close++; }
        else { s->write_fail = !s->write_fail; oplog("wfail", s->write_fail, NULL, 0); n_wfail++; }
    }
    oplog("destroy", 0, NULL, 0);
    step_begin(); CS104_Connection_destroy(con); step_end("CS104_Connection_destroy");
    if (sim_deadlock) fail("DEADLOCK", "CS104_Connection_destroy: %s", sim_deadlock_info);
}

/* ---------------------------------------------------------------- FT 1.2 frames for the CS101 modes */
static int ft_fixed(uint8_t* f, int aL, int c, int addr) { int n = 0; f[n++] = 0x10; f[n++] = c; if (aL > 0) f[n++] = addr & 0xff; if (aL > 1) f[n++] = (addr >> 8) & 0xff; unsigned cs = 0; for (int i = 1; i < n; i++) cs += f[i]; f[n++] = cs & 0xff; f[n++] = 0x16; return n; }
static int ft_var(uint8_t* f, int aL, int c, int addr, const uint8_t* d, int len) { int n = 0, l = 1 + aL + len; f[n++] = 0x68; f[n++] = l; f[n++] = l; f[n++] = 0x68; f[n++] = c; if (aL > 0) f[n++] = addr & 0xff; if (aL > 1) f[n++] = (addr >> 8) & 0xff; memcpy(f + n, d, len); n += len; unsigned cs = 0; for (int i = 4; i < n; i++) cs += f[i]; f[n++] = cs & 0xff; f[n++] = 0x16; return n; }
static void ser_feed(int idx, const uint8_t* b, int n) { SimSerial* s = &sim_serial[idx]; if (s->in_len + n >= SIM_BUF) { memmove(s->in, s->in + s->in_pos, s->in_len - s->in_pos); s->in_len -= s->in_pos; s->in_pos = 0; } if (s->in_len + n < SIM_BUF) { memcpy(s->in + s->in_len, b, n); s->in_len += n; } }
static void hostile_serial(int aL, int addr, int prm, int scot, int sca, int sioa, int* fcb)
{
    uint8_t f[700], a[300]; int x = prng_below(100); int n = 0; int dir = prng_below(8) == 0 ? 0x80 : 0;
    int ad = prng_below(10) ? addr : (prng_below(2) ? (aL == 1 ? 255 : 65535) : (int) prng_below(65536));
    if (x < 40) { int len = gen_asdu(a, scot, sca, sioa, 249 - aL); int fc = prm ? (prng_below(5) ? 3 : 4) : 8; int c = (prm ? 0x40 : 0) | dir | (prm && fc == 3 ? 0x10 | (*fcb ? 0x20 : 0) : 0) | fc | (prng_below(8) == 0 ? 0x20 : 0); if (prm && fc == 3) *fcb = !*fcb; n = ft_var(f, aL, c, ad, a, len); n_frames++; }
    else if (x < 70) { static const int PF[] = { 0, 9, 10, 11, 2, 1, 7, 14 }, SF[] = { 0, 1, 9, 11, 14, 15, 8, 5 }; int fc = prm ? PF[prng_below(8)] : SF[prng_below(8)]; int fcv = prm && (fc == 10 || fc == 11 || fc == 2); int c = (prm ? 0x40 : 0) | dir | (fcv ? 0x10 | (*fcb ? 0x20 : 0) : 0) | fc | (prng_below(6) == 0 ? 0x20 : 0); if (fcv) *fcb = !*fcb; if (prm && fc == 0) *fcb = 1; n = ft_fixed(f, aL, c, ad); n_frames++; }
    else if (x < 74) { f[0] = 0xe5; n = 1; }
    else if (x < 86) { int len = gen_asdu(a, scot, sca, sioa, 249 - aL); n = ft_var(f, aL, (uint8_t) prng_next(), ad, a, len); int k = prng_below(n); f[k] ^= 1 << prng_below(8); if (prng_below(3) == 0) { f[1] = (uint8_t) prng_next(); if (prng_below(2)) f[2] = f[1]; } if (prng_below(4) == 0) n = prng_below(n + 1); n_frames++; }
    else { n = prng_range(1, 300); for (int i = 0; i < n; i++) f[i] = (uint8_t) prng_next(); if (prng_below(2)) f[0] = prng_below(2) ? 0x68 : 0x10; n_noise++; }
    oplog("ser", 0, f, n);
    if (n > 2 && prng_below(8) == 0) { int cut = prng_range(1, n - 1); ser_feed(0, f, cut); ser_feed(0, f + cut, n - cut); } else ser_feed(0, f, n);
}
static void episode_s101(bool thorough, bool balanced)
{
    sim_reset(); sim_set_time(700000);
    struct sLinkLayerParameters llp = { prng_range(0, 2), 200, 1000, prng_below(2), 500 }; if (!balanced && llp.addressLength == 0) llp.addressLength = 1;
    struct sCS101_AppLayerParameters al = { 1, 1, 1 + prng_below(2), 0, 1 + prng_below(2), 1 + prng_below(3), prng_below(3) ? 249 : prng_range(20, 249) };
    int addr = prng_range(1, llp.addressLength == 1 ? 250 : 60000); f_ca = 1 + prng_below(al.sizeOfCA == 1 ? 250 : 60000); f_ioa = 1 + prng_below(al.sizeOfIOA == 1 ? 250 : 60000);
    CS101_Slave s = CS101_Slave_createEx(sim_serial_port(0), &llp, &al, balanced ? IEC60870_LINK_LAYER_BALANCED : IEC60870_LINK_LAYER_UNBALANCED, prng_range(1, 10), prng_range(1, 10));
    CS101_Slave_setLinkLayerAddress(s, addr); if (balanced) { CS101_Slave_setLinkLayerAddressOtherStation(s, addr); CS101_Slave_setDIR(s, prng_below(2)); }
    CS101_Slave_setInterrogationHandler(s, h_ic, NULL); CS101_Slave_setCounterInterrogationHandler(s, h_ci, NULL); CS101_Slave_setReadHandler(s, h_rd, NULL); CS101_Slave_setClockSyncHandler(s, h_cs, NULL);
    CS101_Slave_setResetProcessHandler(s, h_rp, NULL); CS101_Slave_setDelayAcquisitionHandler(s, h_cd, NULL); CS101_Slave_setASDUHandler(s, h_asdu, NULL); CS101_Slave_setLinkLayerStateChanged(s, ll_state, NULL);
    CS101_FileServer fs = make_fileserver(&al); CS101_Slave_addPlugin(s, CS101_FileServer_getSlavePlugin(fs));
    int fcb = 1; int steps = thorough ? 900 : 300; uint8_t f[40];
    int n = ft_fixed(f, llp.addressLength, 0x40, addr); ser_feed(0, f, n);
    for (int st = 0; st < steps && !fails; st++) {
        reply_budget = 6;
        if (prng_below(5) == 0) { CS101_ASDU e = CS101_ASDU_create(&al, false, CS101_COT_SPONTANEOUS, 0, f_ca, false, false); InformationObject io = (InformationObject) SinglePointInformation_create(NULL, st + 1, st & 1, 0); CS101_ASDU_addInformationObject(e, io); InformationObject_destroy(io); if (prng_below(2)) CS101_Slave_enqueueUserDataClass1(s, e); else CS101_Slave_enqueueUserDataClass2(s, e); CS101_ASDU_destroy(e); }
        if (prng_below(5)) hostile_serial(llp.addressLength, addr, 1, al.sizeOfCOT, al.sizeOfCA, al.sizeOfIOA, &fcb);
        sim_advance(prng_below(5) ? prng_range(0, 100) : prng_range(300, 3000));
        step_begin(); CS101_Slave_run(s); step_end("CS101_Slave_run"); sim_serial[0].out_len = 0;
    }
    /* keeps serving: after a reset the slave still answers a status request */
    if (!fails && !balanced) { sim_serial[0].in_len = sim_serial[0].in_pos = 0; sim_serial[0].out_len = 0; n_probe++; n = ft_fixed(f, llp.addressLength, 0x49, addr); ser_feed(0, f, n); step_begin(); CS101_Slave_run(s); step_end("CS101_Slave_run"); if (sim_serial[0].out_len == 0) fail("STARVED", "unbalanced slave no longer answers REQUEST STATUS OF LINK after the hostile traffic"); else n_probe_ok++; }
    oplog("destroy", 0, NULL, 0); CS101_Slave_destroy(s); CS101_FileServer_destroy(fs);
}
static void episode_m101(bool thorough, bool balanced)
{
    sim_reset(); sim_set_time(900000);
    struct sLinkLayerParameters llp = { prng_range(0, 2), 200, 1000, prng_below(2), 500 }; if (!balanced && llp.addressLength == 0) llp.addressLength = 1;
    struct sCS101_AppLayerParameters al = { 1, 1, 1 + prng_below(2), 0, 1 + prng_below(2), 1 + prng_below(3), 249 };
    CS101_Master m = CS101_Master_createEx(sim_serial_port(0), &llp, &al, balanced ? IEC60870_LINK_LAYER_BALANCED : IEC60870_LINK_LAYER_UNBALANCED, prng_range(1, 8));
    CS101_Master_setASDUReceivedHandler(m, m_asdu, NULL); CS101_Master_setLinkLayerStateChanged(m, ll_state, NULL);
    int addrs[3], na = balanced ? 1 : prng_range(1, 3); for (int i = 0; i < na; i++) { addrs[i] = prng_range(1, llp.addressLength == 1 ? 250 : 60000); if (!balanced) CS101_Master_addSlave(m, addrs[i]); }
    if (balanced) { CS101_Master_setOwnAddress(m, addrs[0]); CS101_Master_useSlaveAddress(m, addrs[0]); CS101_Master_setDIR(m, prng_below(2)); }
    int fcb = 1; int steps = thorough ? 900 : 300;
    for (int st = 0; st < steps && !fails; st++) {
        int a = addrs[prng_below(na)];
        if (!balanced && prng_below(3) == 0 && CS101_Master_isChannelReady(m, a)) { if (prng_below(2)) CS101_Master_pollSingleSlave(m, a); else { CS101_Master_useSlaveAddress(m, a); CS101_Master_sendInterrogationCommand(m, CS101_COT_ACTIVATION, 1, 20); } }
        if (balanced && prng_below(6) == 0) CS101_Master_sendInterrogationCommand(m, CS101_COT_ACTIVATION, 1, 20);
        if (prng_below(5)) hostile_serial(llp.addressLength, a, balanced ? (int) prng_below(2) : 0, al.sizeOfCOT, al.sizeOfCA, al.sizeOfIOA, &fcb);
        sim_advance(prng_below(5) ? prng_range(0, 100) : prng_range(300, 3000));
        step_begin(); CS101_Master_run(m); step_end("CS101_Master_run"); sim_serial[0].out_len = 0;
    }
    oplog("destroy", 0, NULL, 0); CS101_Master_destroy(m);
}

int main(int argc, char** argv)
{
    if (argc < 4) return 2;
    mode = argv[1]; ops = fopen(argv[2], "w"); bool thorough = !strcmp(argv[3], "thorough");
    signal(SIGALRM, on_alarm);
    for (int k = 0; k < 3; k++) for (int j = 0; j < 700; j++) filedata[k][j] = (uint8_t) (j * 7 + k);
    prng_seed(seed_from_env() * 131 + mode[0] * 7 + mode[1] + (mode[4] ? mode[4] : 0));
    int episodes = thorough ? 400 : 60;
    for (int e = 0; e < episodes && !fails; e++) {
        n_episodes++; fprintf(ops, "%s episode %d\n", mode, e); fflush(ops);
        if (!strcmp(mode, "srv")) episode_srv(thorough); else if (!strcmp(mode, "cli")) episode_cli(thorough);
        else if (!strcmp(mode, "s101u")) episode_s101(thorough, false); else if (!strcmp(mode, "s101b")) episode_s101(thorough, true);
        else if (!strcmp(mode, "m101u")) episode_m101(thorough, false); else if (!strcmp(mode, "m101b")) episode_m101(thorough, true);
        else return 2;
    }
    fclose(ops);
    if (fails) printf("FUZZ_FAIL %s\n", fail_info);
    printf("HISTO mode=%s episodes=%ld ops=%ld frames=%ld noise=%ld truncated_asdus=%ld floods=%ld closes=%ld write_failure_toggles=%ld callbacks=%ld probes=%ld probes_ok=%ld max_hal_calls_per_step=%ld failures=%d\n",
           mode, n_episodes, n_ops, n_frames, n_noise, n_trunc, n_flood, n_close, n_wfail, n_cb, n_probe, n_probe_ok, max_hal, fails);
    return 0;
}
