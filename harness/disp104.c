/*
 * C09 harness, CS104 slave: the real handleASDU() of cs104_slave.c (included) on a started
 * connection of a threadless slave behind the simulated HAL.  One case = one ASDU handed to
 * handleASDU with a chosen set of installed handlers and their return values; observation =
 * ordered callbacks (with decoded argument), responses (ASDU octets), or "close".
 * usage: disp104 <ops-out> <impl-out> <quick|thorough>
 */
#include "simhal.h"
#include "cs104_slave.c"
#include "disp_common.h"

static CS104_Slave slave; static MasterConnection mc; static SimSocket* sock;
static void on_write(SimSocket* s, const uint8_t* buf, int n) { static char h[600]; if (n > 6 && (buf[2] & 1) == 0) { hexs(h, buf + 6, n - 6); logf_("resp %s", h); n_resp++; resp_in_case++; } }
static bool h_ic(void* p, IMasterConnection c, CS101_ASDU a, uint8_t qoi) { logf_("cb ic %d", qoi); n_cb++; cb_in_case++; return (hres >> 0) & 1; }
static bool h_ci(void* p, IMasterConnection c, CS101_ASDU a, QualifierOfCIC q) { logf_("cb ci %d", q); n_cb++; cb_in_case++; return (hres >> 1) & 1; }
static bool h_rd(void* p, IMasterConnection c, CS101_ASDU a, int ioa) { logf_("cb rd %d", ioa); n_cb++; cb_in_case++; return (hres >> 2) & 1; }
static bool h_cs(void* p, IMasterConnection c, CS101_ASDU a, CP56Time2a t) { logf_("cb cs %llu", le_n(t->encodedValue, 7)); n_cb++; cb_in_case++; return (hres >> 3) & 1; }
static bool h_rp(void* p, IMasterConnection c, CS101_ASDU a, uint8_t q) { logf_("cb rp %d", q); n_cb++; cb_in_case++; return (hres >> 4) & 1; }
static bool h_cd(void* p, IMasterConnection c, CS101_ASDU a, CP16Time2a d) { logf_("cb cd %llu", le_n(d->encodedValue, 2)); n_cb++; cb_in_case++; return (hres >> 5) & 1; }
static bool h_asdu(void* p, IMasterConnection c, CS101_ASDU a) { static char h[600]; hexs(h, a->asdu, a->asduHeaderLength + a->payloadSize); logf_("generic %s", h); generic_in_case++; return (hres >> 6) & 1; }

static void setup(int scot, int sca, int sioa)
{
    if (slave) { CS104_Slave_stopThreadless(slave); CS104_Slave_destroy(slave); }
    sim_reset();
    slave = CS104_Slave_create(10, 10);
    CS101_AppLayerParameters al = CS104_Slave_getAppLayerParameters(slave); al->sizeOfCOT = scot; al->sizeOfCA = sca; al->sizeOfIOA = sioa;
    CS104_Slave_startThreadless(slave);
    sock = sim_incoming("10.0.0.1:1000"); CS104_Slave_tick(slave);
    uint8_t sd[6] = { 0x68, 4, 7, 0, 0, 0 }; sim_feed(sock, sd, 6); CS104_Slave_tick(slave);
    mc = NULL; for (int i = 0; i < CONFIG_CS104_MAX_CLIENT_CONNECTIONS; i++) if (slave->masterConnections[i]->isUsed) mc = slave->masterConnections[i];
    loglen = 0; logbuf[0] = 0;
}
static void install(void)
{
    CS104_Slave_setInterrogationHandler(slave, (hmask & 1) ? h_ic : NULL, NULL);
    CS104_Slave_setCounterInterrogationHandler(slave, (hmask & 2) ? h_ci : NULL, NULL);
    CS104_Slave_setReadHandler(slave, (hmask & 4) ? h_rd : NULL, NULL);
    CS104_Slave_setClockSyncHandler(slave, (hmask & 8) ? h_cs : NULL, NULL);
    slave->resetProcessHandler = (hmask & 16) ? h_rp : NULL;          /* no public setter exists for these two in the CS104 slave */
    slave->delayAcquisitionHandler = (hmask & 32) ? h_cd : NULL;
    CS104_Slave_setASDUHandler(slave, (hmask & 64) ? h_asdu : NULL, NULL);
}
static void one_case(int scot, int sca, int sioa, const uint8_t* asdu, int n)
{
    static char hx[600]; hexs(hx, asdu, n);
    fprintf(ops, "d104 %d %d %d %d %d %s\n", scot, sca, sioa, hmask, hres, hx); fflush(ops);
    install(); n_cases++; resp_in_case = cb_in_case = generic_in_case = 0;
    uint8_t* blk = malloc(n ? n : 1); memcpy(blk, asdu, n);        /* exactly sized: over-reads are sanitizer aborts */
    struct sCS101_ASDU _a; CS101_ASDU a = CS101_ASDU_createFromBufferEx(&_a, &slave->alParameters, blk, n);
    if (!a) { fprintf(impl, "nohdr\n"); free(blk); return; }
    mc->oldestSentASDU = -1; mc->newestSentASDU = -1;              /* keep the k-window empty: every response is written at once */
    bool ok = handleASDU(mc, a);
    if (!ok) { logf_("close"); n_close++; }
    /* model-free: a system command gets exactly one reaction: its callback XOR one response (plus act-con for clock sync) */
    if (ok && is_system(asdu[0]) && resp_in_case > 1 && !multi_fail) { snprintf(multi_info, sizeof multi_info, "CS104 type %d cot %d: %d responses for one command; ASDU %s handlers=%d results=%d", asdu[0], asdu[2] & 0x3f, resp_in_case, hx, hmask, hres); multi_fail++; }
    fprintf(impl, "%s\n", loglen ? logbuf : "-"); loglen = 0; logbuf[0] = 0;
    free(blk);
}
int main(int argc, char** argv)
{
    if (argc < 4) return 2;
    ops = fopen(argv[1], "w"); impl = fopen(argv[2], "w"); setvbuf(impl, NULL, _IOLBF, 0);
    bool thorough = !strcmp(argv[3], "thorough");
    sim_write_hook = on_write; prng_seed(seed_from_env());
    for (int cfg = 0; cfg < 12; cfg++) {
        int scot = 1 + cfg % 2, sca = 1 + (cfg / 2) % 2, sioa = 1 + cfg / 4, hdr = 2 + scot + sca;
        if (!thorough && cfg != 3 && cfg != 11 && cfg != (int) (seed_from_env() % 12)) continue;
        setup(scot, sca, sioa);
        for (int t = 0; t < 256; t++) for (int cot = 0; cot < 64; cot++) {
            if (!thorough && !is_system(t) && (cot % 7 || t % 5) && prng_below(40)) continue;      /* quick: thin out the uniform region */
            int variants = is_system(t) ? 6 : 1;
            for (int v = 0; v < variants; v++) {
                uint8_t a[64]; int n = hdr;
                a[0] = t; a[1] = (prng_below(8) == 0) ? 0x81 : 1; a[2] = cot | (prng_below(2) << 6) | (prng_below(2) << 7);
                for (int i = 3; i < hdr; i++) a[i] = (uint8_t) prng_next();
                int ioa_zero = (v % 2 == 0);
                for (int i = 0; i < sioa; i++) a[n++] = ioa_zero ? 0 : (uint8_t) (prng_next() | (i == 0));
                int bl = body_len(t); for (int i = 0; i < bl; i++) a[n++] = (uint8_t) prng_next();
                if (v >= 4) n = hdr + prng_below(n - hdr + 1 > 1 ? n - hdr : 1);      /* truncated: anywhere from header only to one octet short */
                hmask = (v == 0 || prng_below(3)) ? 127 : (int) prng_below(128); if (v == 1) hmask &= ~(1 << prng_below(7));
                hres = prng_below(3) ? 127 : (int) prng_below(128);
                one_case(scot, sca, sioa, a, n);
                if (!mc->isUsed || !mc->socket) setup(scot, sca, sioa);
            }
        }
    }
    CS104_Slave_stopThreadless(slave); CS104_Slave_destroy(slave);
    fclose(ops); fclose(impl);
    if (multi_fail) printf("MULTI_FAIL %s\n", multi_info);
    printf("HISTO stack=cs104 cases=%ld callbacks=%ld responses=%ld closes=%ld multi_response_violations=%d\n", n_cases, n_cb, n_resp, n_close, multi_fail);
    return 0;
}
