/*
 * C16: the real CS101 master and the real CS101 slaves (cs101_master.c, cs101_slave.c,
 * link_layer.c, cs101_queue.c, serial transceiver) talking to each other over simulated
 * serial ports; the harness is the line: it carries every written frame to the other
 * side, or loses / damages it, under one PRNG, with a virtual clock.
 *
 *   e2e101 e2e <quick|thorough>            model-free end-to-end oracle (exactly once, FIFO
 *                                          per class, commands exactly once, failure reported,
 *                                          recovery), unbalanced 1..3 slaves and balanced pairs
 *   e2e101 queue <ops-out> <impl-out> <quick|thorough>
 *                                          operation stream on the real CS101_Queue for the
 *                                          differential with Iec.Q101
 */
#include <stdio.h>
#include <string.h>
#include <stdlib.h>
#include <stdarg.h>
#include "lib60870_config.h"
#include "simhal.h"
#include "cs101_master.h"
#include "cs101_slave.h"
#include "buffer_frame.h"
#include "cs101_queue.h"
#include "information_objects_internal.h"
#include "prng.h"

const char* __asan_default_options(void) { return "detect_leaks=1"; }
static void hexs(char* out, const uint8_t* b, int n) { if (n <= 0) { strcpy(out, "-"); return; } for (int i = 0; i < n; i++) sprintf(out + 2 * i, "%02x", b[i]); }

/* ------------------------------------------------------------------ the line */
#define MAXF 64
typedef struct { uint8_t b[300]; int n; int from; } Fr;
static Fr inflight[MAXF]; static int n_inflight = 0;
static void on_serial(int idx, const uint8_t* b, int n) { if (n_inflight < MAXF && n <= 300) { memcpy(inflight[n_inflight].b, b, n); inflight[n_inflight].n = n; inflight[n_inflight].from = idx; n_inflight++; } }
static void port_feed(int idx, const uint8_t* b, int n) { SimSerial* s = &sim_serial[idx]; if (s->in_len + n < SIM_BUF) { memcpy(s->in + s->in_len, b, n); s->in_len += n; } }

static CS101_Master M; static CS101_Slave S[3]; static int nsl, addr[3]; static bool balanced;
static int loss_pct = 0; static long n_frames = 0, n_lost = 0, n_damaged = 0;
static int scripted_drop[4] = { -1, -1, -1, -1 }; static long frame_index = 0;
static char trace[1 << 16]; static int tracelen = 0;
static void tr(const char* fmt, ...) { va_list ap; va_start(ap, fmt); if (tracelen < (int) sizeof trace - 400) tracelen += vsnprintf(trace + tracelen, 390, fmt, ap); va_end(ap); }

static void carry(void)
{
    /* deliver what was written since the last call */
    for (int i = 0; i < n_inflight; i++) {
        Fr* f = &inflight[i]; n_frames++; frame_index++;
        bool drop = (int) prng_below(100) < loss_pct;
        for (int k = 0; k < 4; k++) if (scripted_drop[k] == frame_index) drop = true;
        if (drop) { n_lost++; tr("L%d ", f->from); continue; }
        if (loss_pct && prng_below(40) == 0) { f->b[prng_below(f->n)] ^= (uint8_t) (1 << prng_below(8)); n_damaged++; }
        if (f->from == 0) { for (int s = 0; s < nsl; s++) port_feed(1 + s, f->b, f->n); }
        else port_feed(0, f->b, f->n);
    }
    n_inflight = 0;
}

/* ------------------------------------------------------------------ oracle */
static int fail = 0; static char fail_info[900]; static uint64_t now_ms;
static void note(const char* fmt, ...) { if (!fail) { va_list ap; va_start(ap, fmt); int k = vsnprintf(fail_info, sizeof fail_info, fmt, ap); va_end(ap); snprintf(fail_info + k, sizeof fail_info - k, " [t=%llu ms, seed %llu]", (unsigned long long) now_ms, (unsigned long long) seed_from_env()); } fail++; }
/* streams: data slave s class c -> master (index s*2+c-1), commands master -> slave s (index 6+s) */
static int next_tx[9], last_rx[9], epoch_rx[9]; static int epoch[3]; static int gaps[9], dups[9]; static long n_delivered = 0, n_failures = 0, n_enq = 0, n_cmd = 0;
static int link_state[3];
static void stream_rx(int st, int sl, int seq, const char* what)
{
    n_delivered++;
    if (seq == last_rx[st] + 1) { last_rx[st] = seq; epoch_rx[st] = epoch[sl]; return; }
    int failures_since = epoch[sl] - epoch_rx[st]; bool failed_since = failures_since > 0;
    if (seq <= last_rx[st]) {
        if (failed_since && seq == last_rx[st]) { dups[st]++; epoch_rx[st] = epoch[sl]; return; }      /* the frame in flight at the failure */
        note("%s of station %d: number %d delivered after number %d (%s)", what, addr[sl], seq, last_rx[st], failed_since ? "link failed in between, but this is not the frame that was in flight" : "no link failure in between: delivered twice or out of order");
        return;
    }
    if (failed_since && seq - last_rx[st] - 1 <= failures_since) { gaps[st] += seq - last_rx[st] - 1; last_rx[st] = seq; epoch_rx[st] = epoch[sl]; return; }   /* one in-flight frame lost per link failure */
    note("%s of station %d: number %d delivered after number %d: %d missing (%s, %d link failures in between)", what, addr[sl], seq, last_rx[st], seq - last_rx[st] - 1, failed_since ? "more than the one frame in flight per failure" : "no link failure reported", failures_since);
    last_rx[st] = seq;
}
static int slave_of_addr(int a) { for (int i = 0; i < nsl; i++) if (addr[i] == a) return i; return balanced ? 0 : -1; }
static bool m_asdu(void* p, int address, CS101_ASDU asdu)
{
    if (!asdu) { note("master ASDU handler called with a NULL ASDU"); return true; }
    int sl = slave_of_addr(balanced ? addr[0] : address); if (sl < 0) { note("master got data from unknown link address %d", address); return true; }
    if (CS101_ASDU_getTypeID(asdu) != M_ME_NB_1 || CS101_ASDU_getNumberOfElements(asdu) != 1) return true;   /* responses of the slave's command handling */
    union { struct sMeasuredValueScaled m; uint8_t pad[64]; } u; InformationObject io = CS101_ASDU_getElementEx(asdu, (InformationObject) &u.m, 0); if (!io) { note("data ASDU not decodable at the master"); return true; }
    int seq = InformationObject_getObjectAddress(io), cls = MeasuredValueScaled_getValue((MeasuredValueScaled) io);
    if (CS101_ASDU_getCA(asdu) != addr[sl]) { note("data with common address %d arrived as from link address %d", CS101_ASDU_getCA(asdu), addr[sl]); return true; }
    if (cls != 1 && cls != 2) { note("data ASDU modified on the way (class marker %d)", cls); return true; }
    stream_rx(sl * 2 + cls - 1, sl, seq, cls == 1 ? "class 1 data" : "class 2 data");
    return true;
}
static bool s_asdu(void* p, IMasterConnection c, CS101_ASDU asdu)
{
    int sl = (int) (intptr_t) p;
    if (CS101_ASDU_getTypeID(asdu) != C_SC_NA_1) return false;
    union { struct sSingleCommand m; uint8_t pad[64]; } u; InformationObject io = CS101_ASDU_getElementEx(asdu, (InformationObject) &u.m, 0); if (!io) { note("command not decodable at the slave"); return true; }
    stream_rx(6 + sl, sl, InformationObject_getObjectAddress(io), "command");
    return true;       /* handled, no response */
}
static void m_state(void* p, int address, LinkLayerState st)
{
    int sl = balanced ? 0 : slave_of_addr(address); if (sl < 0) return;
    link_state[sl] = st; tr("S%d=%d ", sl, (int) st);
    if (st == LL_STATE_ERROR) { epoch[sl]++; n_failures++; }
}
static void s_state(void* p, int address, LinkLayerState st) { int sl = (int) (intptr_t) p; if (balanced && st == LL_STATE_ERROR) { epoch[sl]++; n_failures++; tr("s%d=ERR ", sl); } (void) address; }

static struct sLinkLayerParameters llp;
static void destroy_all(void) { if (M) { CS101_Master_destroy(M); M = NULL; } for (int i = 0; i < 3; i++) if (S[i]) { CS101_Slave_destroy(S[i]); S[i] = NULL; } for (int i = 0; i < 4; i++) memset(&sim_serial[i], 0, sizeof sim_serial[i]); n_inflight = 0; }
static void enqueue_data(int sl, int cls)
{
    if (cls == 1 ? CS101_Slave_isClass1QueueFull(S[sl]) : CS101_Slave_isClass2QueueFull(S[sl])) return;
    int st = sl * 2 + cls - 1; int seq = ++next_tx[st]; n_enq++;
    CS101_AppLayerParameters al = CS101_Slave_getAppLayerParameters(S[sl]);
    CS101_ASDU a = CS101_ASDU_create(al, false, CS101_COT_SPONTANEOUS, 0, addr[sl], false, false);
    InformationObject io = (InformationObject) MeasuredValueScaled_create(NULL, seq, cls, IEC60870_QUALITY_GOOD); CS101_ASDU_addInformationObject(a, io); InformationObject_destroy(io);
    if (cls == 1) CS101_Slave_enqueueUserDataClass1(S[sl], a); else CS101_Slave_enqueueUserDataClass2(S[sl], a);
    CS101_ASDU_destroy(a);
}
static int balanced_cmd_outstanding(void) { return next_tx[6] - last_rx[6]; }
static void send_command(int sl)
{
    if (!balanced) { if (!CS101_Master_isChannelReady(M, addr[sl]) || link_state[sl] != LL_STATE_AVAILABLE) return; }
    else if (balanced_cmd_outstanding() >= 3) return;       /* the master's queue drops the oldest when full: stay below its size */
    int seq = ++next_tx[6 + sl]; n_cmd++;
    CS101_Master_useSlaveAddress(M, addr[sl]);
    InformationObject sc = (InformationObject) SingleCommand_create(NULL, seq, true, false, 0);
    CS101_Master_sendProcessCommand(M, CS101_COT_ACTIVATION, addr[sl], sc); InformationObject_destroy(sc);
}

static bool episode(bool thorough, int kind)
{
    destroy_all(); memset(next_tx, 0, sizeof next_tx); memset(last_rx, 0, sizeof last_rx); memset(epoch_rx, 0, sizeof epoch_rx); memset(epoch, 0, sizeof epoch); memset(gaps, 0, sizeof gaps); memset(dups, 0, sizeof dups); memset(link_state, 0, sizeof link_state); tracelen = 0; trace[0] = 0; frame_index = 0;
    balanced = kind == 2; nsl = balanced ? 1 : prng_range(1, 3);
    llp.addressLength = prng_range(1, 2); llp.timeoutForAck = 200; llp.timeoutRepeat = 1000; llp.useSingleCharACK = prng_below(2); llp.timeoutLinkState = 600;
    int q1 = prng_range(1, 20), q2 = prng_range(1, 20);
    for (int i = 0; i < nsl; i++) addr[i] = 1 + i * 3 + prng_below(3);
    IEC60870_LinkLayerMode mode = balanced ? IEC60870_LINK_LAYER_BALANCED : IEC60870_LINK_LAYER_UNBALANCED;
    M = CS101_Master_createEx(sim_serial_port(0), &llp, NULL, mode, 8);
    CS101_Master_setASDUReceivedHandler(M, m_asdu, NULL); CS101_Master_setLinkLayerStateChanged(M, m_state, NULL);
    for (int i = 0; i < nsl; i++) {
        S[i] = CS101_Slave_createEx(sim_serial_port(1 + i), &llp, NULL, mode, q1, q2);
        CS101_Slave_setLinkLayerAddress(S[i], addr[i]); CS101_Slave_setASDUHandler(S[i], s_asdu, (void*) (intptr_t) i); CS101_Slave_setLinkLayerStateChanged(S[i], s_state, (void*) (intptr_t) i);
        if (balanced) { CS101_Slave_setLinkLayerAddressOtherStation(S[i], 77); CS101_Slave_setDIR(S[i], false); CS101_Master_setOwnAddress(M, 77); CS101_Master_useSlaveAddress(M, addr[i]); CS101_Master_setDIR(M, true); }
        else CS101_Master_addSlave(M, addr[i]);
    }
    /* loss plan: scripted single / double positions, or random loss up to 30 % during the middle of the episode */
    for (int k = 0; k < 4; k++) scripted_drop[k] = -1;
    int plan = prng_below(4); int rnd_loss = 0;
    if (plan == 1) scripted_drop[0] = prng_range(1, 120);
    else if (plan == 2) { scripted_drop[0] = prng_range(1, 120); scripted_drop[1] = scripted_drop[0] + prng_range(1, 6); }
    else if (plan == 3) rnd_loss = prng_range(1, 30);
    int rounds = thorough ? 2400 : 900, step = 20; now_ms = 100000;
    for (int r = 0; r < rounds && !fail; r++) {
        bool active = r < rounds * 2 / 3;                 /* afterwards: no more loss, no new traffic, drain */
        loss_pct = (active && r > rounds / 10) ? rnd_loss : 0;
        if (plan == 3 && active && prng_below(400) == 0) loss_pct = 100;   /* rare total outage burst: forces link failure */
        static int burst = 0; if (loss_pct == 100) burst = prng_range(40, 90); if (burst > 0) { burst--; loss_pct = active ? 100 : 0; }
        sim_set_time(now_ms);
        if (active) {
            /* commands singly and in bursts: an application sends whenever CS101_Master_isChannelReady says so, also right after the previous one left */
            static int cmd_burst[3];
            for (int i = 0; i < nsl; i++) { if (prng_below(6) == 0) enqueue_data(i, 2); if (prng_below(14) == 0) enqueue_data(i, 1); if (prng_below(25) == 0) { send_command(i); if (prng_below(3) == 0) cmd_burst[i] = prng_range(1, 4); } else if (cmd_burst[i] > 0) { int before = next_tx[6 + i]; send_command(i); if (next_tx[6 + i] != before) cmd_burst[i]--; } }
        }
        if (!balanced) for (int i = 0; i < nsl; i++) if (CS101_Master_isChannelReady(M, addr[i])) CS101_Master_pollSingleSlave(M, addr[i]);
        CS101_Master_run(M);
        if (active && !balanced && prng_below(4) == 0) { int i = prng_below(nsl); if (prng_below(2)) send_command(i); }   /* application call between two runs of the master */
        carry();
        for (int i = 0; i < nsl; i++) CS101_Slave_run(S[i]);
        carry();
        if (balanced) { CS101_Master_run(M); carry(); }
        now_ms += step;
    }
    if (!fail) {
        /* after the drain: everything that was queued has arrived, except one frame per link failure */
        for (int sl = 0; sl < nsl; sl++) {
            for (int c = 0; c < 2; c++) { int st = sl * 2 + c; if (last_rx[st] < next_tx[st] && epoch[sl] == 0) note("%s of station %d: %d queued, only %d delivered, no link failure was reported (trace: %.300s)", c ? "class 2 data" : "class 1 data", addr[sl], next_tx[st], last_rx[st], trace);
                else if (next_tx[st] - last_rx[st] > epoch[sl] - epoch_rx[st]) note("%s of station %d: %d queued, only %d delivered after recovery (%d link failures)", c ? "class 2 data" : "class 1 data", addr[sl], next_tx[st], last_rx[st], epoch[sl]); }
            int st = 6 + sl; if (last_rx[st] < next_tx[st] && epoch[sl] == 0) note("commands to station %d: %d sent, only %d delivered, no link failure was reported (trace: %.300s)", addr[sl], next_tx[st], last_rx[st], trace);
            if (!balanced && link_state[sl] != LL_STATE_AVAILABLE) note("link to station %d not available again %d ms after the line recovered (state %d)", addr[sl], rounds / 3 * step, link_state[sl]);
        }
    }
    return !fail;
}

/* ------------------------------------------------------------------ CS101_Queue operation stream */
static int queue_mode(const char* opsf, const char* implf, bool thorough)
{
    FILE* ops = fopen(opsf, "w"); FILE* impl = fopen(implf, "w");
    struct sCS101_AppLayerParameters al = { 1, 1, 2, 0, 2, 3, 249 };
    int episodes = thorough ? 3000 : 400; long n = 0;
    for (int e = 0; e < episodes; e++) {
        struct sCS101_Queue q; int size = prng_below(3) ? prng_range(1, 6) : prng_range(1, 20);
        CS101_Queue_initialize(&q, size); fprintf(ops, "q.new %d\n", size); fprintf(impl, "ok\n");
        int steps = prng_range(5, 80);
        for (int s = 0; s < steps; s++) {
            int x = prng_below(100); char h[700];
            if (x < 55) {
                uint8_t pl[40]; int len = prng_range(1, 30); for (int i = 0; i < len; i++) pl[i] = (uint8_t) prng_next();
                CS101_ASDU a = CS101_ASDU_create(&al, false, CS101_COT_SPONTANEOUS, 0, 1, false, false); CS101_ASDU_setTypeID(a, (IEC60870_5_TypeID) pl[0]); CS101_ASDU_addPayload(a, pl, len);
                struct sBufferFrame bf; uint8_t tmp[300]; BufferFrame_initialize(&bf, tmp, 0); CS101_ASDU_encode(a, (Frame) &bf); hexs(h, tmp, bf.msgSize);
                fprintf(ops, "q.enq %s\n", h); fflush(ops); CS101_Queue_enqueue(&q, a); CS101_ASDU_destroy(a);
            }
            else if (x < 92) { struct sBufferFrame bf; uint8_t tmp[300]; BufferFrame_initialize(&bf, tmp, 0); fprintf(ops, "q.deq\n"); fflush(ops); CS101_Queue_lock(&q); Frame f = CS101_Queue_dequeue(&q, (Frame) &bf); CS101_Queue_unlock(&q); if (f) { hexs(h, tmp, bf.msgSize); fprintf(impl, "%s", h); } else fprintf(impl, "none"); }
            else if (x < 96) { fprintf(ops, "q.flush\n"); CS101_Queue_flush(&q); }
            else { fprintf(ops, "q.state\n"); }
            /* dump of the real ring, oldest first */
            fprintf(impl, " | n=%d full=%d empty=%d [", q.entryCounter, CS101_Queue_isFull(&q) ? 1 : 0, CS101_Queue_isEmpty(&q) ? 1 : 0);
            for (int i = 0; i < q.entryCounter && i < 64; i++) { int k = (q.firstMsgIndex + i) % q.size; hexs(h, q.elements[k].buffer, q.elements[k].size); fprintf(impl, "%s%s", i ? "," : "", h); }
            fprintf(impl, "]\n"); n++;
        }
        CS101_Queue_dispose(&q);
    }
    fclose(ops); fclose(impl);
    printf("HISTO role=cs101_queue ops=%ld episodes=%d\n", n, episodes);
    return 0;
}

int main(int argc, char** argv)
{
    if (argc < 3) return 2;
    prng_seed(seed_from_env()); sim_serial_hook = on_serial;
    if (!strcmp(argv[1], "queue")) return queue_mode(argv[2], argv[3], argc > 4 && !strcmp(argv[4], "thorough"));
    bool thorough = !strcmp(argv[2], "thorough");
    int episodes = thorough ? 240 : 45, done = 0; long fails_total = 0;
    for (int e = 0; e < episodes; e++) { if (!episode(thorough, e % 3)) break; done++; fails_total += n_failures; }
    destroy_all();
    if (fail) printf("E2E_FAIL episode %d (%s): %s\n", done, balanced ? "balanced" : "unbalanced", fail_info);
    printf("HISTO role=e2e101 episodes=%d frames=%ld lost=%ld damaged=%ld enqueued=%ld commands=%ld delivered=%ld link_failures=%ld violations=%d\n", done, n_frames, n_lost, n_damaged, n_enq, n_cmd, n_delivered, n_failures, fail);
    return 0;
}
