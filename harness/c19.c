/*
 * C19 correspondence harness: executes time-tag / BCR / packed-status / scaled /
 * normalised operations on the real lib60870 code and prints, per operation, the
 * operation line (ops file) and the canonical observation (impl file).  The Lean
 * driver `iecdrv` prints the model's observation for the same ops file.
 *
 * usage: c19 <ops-out> <impl-out> <quick|thorough>
 */
#include <stdio.h>
#include <string.h>
#include <stdint.h>
#include <stdbool.h>
#include <time.h>
#include "iec60870_common.h"
#include "cs101_information_objects.h"
#include "platform_endian.h"
#include "information_objects_internal.h"
#include "prng.h"

static FILE* ops; static FILE* impl;
static long histo[32]; static const char* hname[32]; static int nh = 0;
static void count(const char* k) { for (int i = 0; i < nh; i++) if (!strcmp(hname[i], k)) { histo[i]++; return; } hname[nh] = k; histo[nh++] = 1; }

static void hex(FILE* f, const uint8_t* b, int n) { for (int i = 0; i < n; i++) fprintf(f, "%02x", b[i]); }

static void show_tag(struct sCP56Time2a* t, const char* wrap)
{
    hex(impl, t->encodedValue, 7);
    struct sCP16Time2a e; e.encodedValue[0] = t->encodedValue[0]; e.encodedValue[1] = t->encodedValue[1];
    fprintf(impl, " ms=%d s=%d mi=%d iv=%d sb=%d h=%d su=%d dow=%d dom=%d mon=%d y=%d el=%d%s\n",
        CP56Time2a_getMillisecond(t), CP56Time2a_getSecond(t), CP56Time2a_getMinute(t), CP56Time2a_isInvalid(t) ? 1 : 0,
        CP56Time2a_isSubstituted(t) ? 1 : 0, CP56Time2a_getHour(t), CP56Time2a_isSummerTime(t) ? 1 : 0,
        CP56Time2a_getDayOfWeek(t), CP56Time2a_getDayOfMonth(t), CP56Time2a_getMonth(t), CP56Time2a_getYear(t),
        CP16Time2a_getEplapsedTimeInMs(&e), wrap);
}

static const char* TAGOPS[] = { "ms", "ms32", "s", "mi", "iv", "sb", "h", "su", "dow", "dom", "mon", "y", "el" };
static const int TAGMAX[] = { 999, 999, 59, 59, 1, 1, 23, 1, 7, 31, 12, 99, 65535 };

static void rand_pattern(uint8_t* b, int n)
{
    int k = prng_below(8);
    for (int i = 0; i < n; i++) b[i] = (k == 0) ? 0 : (k == 1) ? 0xff : (uint8_t) prng_next();
    if (k == 2) { int ms16 = prng_range(64000, 65535); b[0] = ms16 & 0xff; b[1] = ms16 >> 8; }
}

static void do_tag(int op, const uint8_t* pat, int v)
{
    struct sCP56Time2a t; struct sCP24Time2a t24; struct sCP32Time2a t32; struct sCP16Time2a t16;
    memcpy(t.encodedValue, pat, 7); memcpy(t24.encodedValue, pat, 3); memcpy(t32.encodedValue, pat, 4);
    memcpy(t16.encodedValue, pat, 2);
    fprintf(ops, "tag %s ", TAGOPS[op]); hex(ops, pat, 7); fprintf(ops, " %d\n", v);
    count(TAGOPS[op]);
    bool c24 = false, c32 = false;
    switch (op) {
    case 0: CP56Time2a_setMillisecond(&t, v); CP24Time2a_setMillisecond(&t24, v); c24 = true; break;
    case 1: CP32Time2a_setMillisecond(&t32, v); memcpy(t.encodedValue, t32.encodedValue, 4); break;
    case 2: CP56Time2a_setSecond(&t, v); CP24Time2a_setSecond(&t24, v); CP32Time2a_setSecond(&t32, v); c24 = c32 = true; break;
    case 3: CP56Time2a_setMinute(&t, v); CP24Time2a_setMinute(&t24, v); CP32Time2a_setMinute(&t32, v); c24 = c32 = true; break;
    case 4: CP56Time2a_setInvalid(&t, v != 0); CP24Time2a_setInvalid(&t24, v != 0); CP32Time2a_setInvalid(&t32, v != 0); c24 = c32 = true; break;
    case 5: CP56Time2a_setSubstituted(&t, v != 0); CP24Time2a_setSubstituted(&t24, v != 0); CP32Time2a_setSubstituted(&t32, v != 0); c24 = c32 = true; break;
    case 6: CP56Time2a_setHour(&t, v); CP32Time2a_setHour(&t32, v); c32 = true; break;
    case 7: CP56Time2a_setSummerTime(&t, v != 0); CP32Time2a_setSummerTime(&t32, v != 0); c32 = true; break;
    case 8: CP56Time2a_setDayOfWeek(&t, v); break;
    case 9: CP56Time2a_setDayOfMonth(&t, v); break;
    case 10: CP56Time2a_setMonth(&t, v); break;
    case 11: CP56Time2a_setYear(&t, v); break;
    case 12: CP16Time2a_setEplapsedTimeInMs(&t16, v); memcpy(t.encodedValue, t16.encodedValue, 2); break;
    }
    const char* wrap = "";
    if (c24 && (memcmp(t24.encodedValue, t.encodedValue, 3) != 0 ||
                CP24Time2a_getMillisecond(&t24) != CP56Time2a_getMillisecond(&t) || CP24Time2a_getSecond(&t24) != CP56Time2a_getSecond(&t) ||
                CP24Time2a_getMinute(&t24) != CP56Time2a_getMinute(&t) || CP24Time2a_isInvalid(&t24) != CP56Time2a_isInvalid(&t) ||
                CP24Time2a_isSubstituted(&t24) != CP56Time2a_isSubstituted(&t))) wrap = " cp24-differs";
    if (c32 && (memcmp(t32.encodedValue, t.encodedValue, 4) != 0 ||
                CP32Time2a_getMillisecond(&t32) != CP56Time2a_getMillisecond(&t) || CP32Time2a_getSecond(&t32) != CP56Time2a_getSecond(&t) ||
                CP32Time2a_getMinute(&t32) != CP56Time2a_getMinute(&t) || CP32Time2a_getHour(&t32) != CP56Time2a_getHour(&t) ||
                CP32Time2a_isInvalid(&t32) != CP56Time2a_isInvalid(&t) || CP32Time2a_isSubstituted(&t32) != CP56Time2a_isSubstituted(&t) ||
                CP32Time2a_isSummerTime(&t32) != CP56Time2a_isSummerTime(&t))) wrap = " cp32-differs";
    show_tag(&t, wrap);
}

static void do_fromms(uint64_t ms)
{
    struct sCP56Time2a t; memset(&t, 0xa5, sizeof t);
    CP56Time2a_createFromMsTimestamp(&t, ms);
    fprintf(ops, "tag.fromms %llu\n", (unsigned long long) ms); count("fromms");
    hex(impl, t.encodedValue, 7);
    fprintf(impl, " back=%llu\n", (unsigned long long) CP56Time2a_toMsTimestamp(&t));
    struct sCP32Time2a t32; memset(&t32, 0x5a, sizeof t32);
    CP32Time2a_setFromMsTimestamp(&t32, ms);
    fprintf(ops, "tag.fromms32 %llu\n", (unsigned long long) ms);
    hex(impl, t32.encodedValue, 4); fprintf(impl, "\n");
}

static void do_toms(const uint8_t* pat)
{
    struct sCP56Time2a t; memcpy(t.encodedValue, pat, 7);
    fprintf(ops, "tag.toms "); hex(ops, pat, 7); fprintf(ops, "\n"); count("toms");
    fprintf(impl, "%llu\n", (unsigned long long) CP56Time2a_toMsTimestamp(&t));
}

static void do_gm(long day)
{
    time_t tv = (time_t) day * 86400; struct tm tm; gmtime_r(&tv, &tm);
    fprintf(ops, "gm %ld\n", day); count("gm");
    fprintf(impl, "%d %d %d\n", tm.tm_year + 1900, tm.tm_mon + 1, tm.tm_mday);
}

static void do_bcr(int op, const uint8_t* pat, long v)
{
    static const char* N[] = { "v", "sq", "cy", "ca", "iv" };
    struct sBinaryCounterReading b; memcpy(b.encodedValue, pat, 5);
    fprintf(ops, "bcr %s ", N[op]); hex(ops, pat, 5); fprintf(ops, " %ld\n", v); count("bcr");
    switch (op) {
    case 0: BinaryCounterReading_setValue(&b, (int32_t) v); break;
    case 1: BinaryCounterReading_setSequenceNumber(&b, (int) v); break;
    case 2: BinaryCounterReading_setCarry(&b, v != 0); break;
    case 3: BinaryCounterReading_setAdjusted(&b, v != 0); break;
    case 4: BinaryCounterReading_setInvalid(&b, v != 0); break;
    }
    hex(impl, b.encodedValue, 5);
    fprintf(impl, " v=%d sq=%d cy=%d ca=%d iv=%d\n", BinaryCounterReading_getValue(&b), BinaryCounterReading_getSequenceNumber(&b),
        BinaryCounterReading_hasCarry(&b) ? 1 : 0, BinaryCounterReading_isAdjusted(&b) ? 1 : 0, BinaryCounterReading_isInvalid(&b) ? 1 : 0);
}

static void do_se(int op, int b, int v)
{
    tSingleEvent e = (uint8_t) b;
    fprintf(ops, "se %s %d %d\n", op ? "qdp" : "es", b, v); count("se");
    if (op) SingleEvent_setQDP(&e, (QualityDescriptorP) v); else SingleEvent_setEventState(&e, (EventState) v);
    fprintf(impl, "%d es=%d qdp=%d\n", e, SingleEvent_getEventState(&e), SingleEvent_getQDP(&e));
}

static void do_scd(const uint8_t* pat, int v)
{
    tStatusAndStatusChangeDetection s; memcpy(s.encodedValue, pat, 4);
    fprintf(ops, "scd "); hex(ops, pat, 4); fprintf(ops, " %d\n", v); count("scd");
    StatusAndStatusChangeDetection_setSTn(&s, (uint16_t) v);
    hex(impl, s.encodedValue, 4);
    fprintf(impl, " st=%d cd=%d bits=", StatusAndStatusChangeDetection_getSTn(&s), StatusAndStatusChangeDetection_getCDn(&s));
    for (int i = 0; i < 18; i++) fprintf(impl, "%d%d", StatusAndStatusChangeDetection_getST(&s, i) ? 1 : 0, StatusAndStatusChangeDetection_getCD(&s, i) ? 1 : 0);
    fprintf(impl, "\n");
}

/* scaled value: through the public object API (MeasuredValueScaled wraps get/setScaledValue) */
static void do_scset(int v)
{
    struct sMeasuredValueScaled m; memset(&m, 0, sizeof m);
    MeasuredValueScaled_setValue(&m, v);
    fprintf(ops, "sc.set %d\n", v); count("sc.set");
    hex(impl, m.encodedValue, 2); fprintf(impl, " back=%d\n", MeasuredValueScaled_getValue(&m));
}
static void do_scget(int b0, int b1)
{
    struct sMeasuredValueScaled m; memset(&m, 0, sizeof m); m.encodedValue[0] = b0; m.encodedValue[1] = b1;
    fprintf(ops, "sc.get %02x%02x\n", b0, b1); count("sc.get");
    fprintf(impl, "%d\n", MeasuredValueScaled_getValue(&m));
}
static void do_toscaled(uint32_t bits)
{
    float f; memcpy(&f, &bits, 4);
    if (f != f) return; /* NaN excluded by the property */
    fprintf(ops, "nv.toscaled %u\n", bits); count("nv.toscaled");
    fprintf(impl, "%d\n", NormalizedValue_toScaled(f));
}
static void do_fromscaled(int v)
{
    float f = NormalizedValue_fromScaled(v); uint32_t bits; memcpy(&bits, &f, 4);
    fprintf(ops, "nv.fromscaled %d\n", v); count("nv.fromscaled");
    fprintf(impl, "%u\n", bits);
}

int main(int argc, char** argv)
{
    if (argc < 4) return 2;
    ops = fopen(argv[1], "w"); impl = fopen(argv[2], "w");
    bool thorough = strcmp(argv[3], "thorough") == 0;
    prng_seed(seed_from_env());
#if (ORDER_LITTLE_ENDIAN != 1)
#error "model assumes the little-endian build"
#endif
    uint8_t pat[8];
    long n = thorough ? 600000 : 60000;
    /* setters: boundary-biased patterns, mostly in-range values, some beyond */
    for (long i = 0; i < n; i++) {
        int op = prng_below(13);
        rand_pattern(pat, 7);
        int v; int k = prng_below(10);
        if (k < 6) v = prng_range(0, TAGMAX[op]);
        else if (k < 8) v = (prng_below(2)) ? TAGMAX[op] : 0;
        else v = prng_range(0, op == 12 ? 65535 : (TAGMAX[op] + 1) * 3);
        do_tag(op, pat, v);
    }
    /* every setter on the two extreme patterns with every in-range value (exhaustive for the small fields) */
    for (int op = 2; op < 12; op++) for (int v = 0; v <= TAGMAX[op]; v++) for (int p = 0; p < 2; p++) {
        memset(pat, p ? 0xff : 0, 7); do_tag(op, pat, v);
    }
    /* timestamps: every day 1970..2105 (gmtime model vs glibc), boundary instants of random days */
    for (long d = 0; d < 49710; d++) do_gm(d);
    static const long SOD[] = { 0, 1, 59, 60, 3599, 3600, 43199, 43200, 86398, 86399 };
    static const int MSB[] = { 0, 1, 499, 500, 998, 999 };
    long days = thorough ? 49673 : 3000;
    for (long i = 0; i < days; i++) {
        long d = thorough ? i : (long) prng_below(49673);
        for (int r = 0; r < (thorough ? 6 : 4); r++) {
            long sod = (r < 2) ? SOD[prng_below(10)] : (long) prng_below(86400);
            int ms = (r < 2) ? MSB[prng_below(6)] : (int) prng_below(1000);
            do_fromms(((uint64_t) d * 86400 + sod) * 1000 + ms);
        }
    }
    /* leap days and century boundaries explicitly */
    static const uint64_t SPECIAL[] = { 946684800000ull, 946684799999ull, 951782400000ull, 951868800000ull, 4102444799999ull,
        4102444800000ull, 4107542400000ull, 1709164800000ull, 1709251199999ull, 0ull, 86399999ull };
    for (unsigned i = 0; i < sizeof SPECIAL / sizeof SPECIAL[0]; i++) do_fromms(SPECIAL[i]);
    for (long i = 0; i < (thorough ? 200000 : 20000); i++) { rand_pattern(pat, 7); do_toms(pat); }
    /* BCR / SE / SCD */
    for (long i = 0; i < (thorough ? 200000 : 20000); i++) {
        int op = prng_below(5); rand_pattern(pat, 5);
        long v;
        if (op == 0) { int k = prng_below(6); v = k == 0 ? INT32_MIN : k == 1 ? INT32_MAX : k == 2 ? -1 : k == 3 ? 0 : (int32_t) prng_next(); }
        else if (op == 1) v = prng_range(0, prng_below(4) ? 31 : 255);
        else v = prng_below(2);
        do_bcr(op, pat, v);
    }
    for (int b = 0; b < 256; b++) { for (int v = 0; v < 4; v++) do_se(0, b, v); for (int q = 0; q < 256; q += 4) do_se(1, b, q); }
    for (long i = 0; i < 5000; i++) { do_se(0, prng_below(256), prng_below(256)); do_se(1, prng_below(256), prng_below(256)); }
    for (long i = 0; i < (thorough ? 100000 : 10000); i++) { rand_pattern(pat, 4); do_scd(pat, prng_below(4) ? (int) prng_below(65536) : (prng_below(2) ? 65535 : 0)); }
    /* scaled: every raw 16-bit value both ways (exhaustive), plus out-of-range ints */
    for (int v = -32768; v <= 32767; v += thorough ? 1 : 7) do_scset(v);
    do_scset(32767); do_scset(-32768);
    for (long i = 0; i < 2000; i++) do_scset(prng_range(-200000, 200000));
    for (int x = 0; x < 65536; x += thorough ? 1 : 5) do_scget(x & 0xff, x >> 8);
    do_scget(0xff, 0x7f); do_scget(0x00, 0x80); do_scget(0xff, 0xff);
    /* normalised: every raw value, then float bit patterns: boundaries, denormals, infinities, random */
    for (int v = -33000; v <= 33000; v += thorough ? 1 : 3) do_fromscaled(v);
    do_fromscaled(32767); do_fromscaled(-32768); do_fromscaled(INT32_MAX); do_fromscaled(INT32_MIN);
    for (int v = -32768; v <= 32767; v += thorough ? 1 : 3) { float f = NormalizedValue_fromScaled(v); uint32_t b; memcpy(&b, &f, 4); do_toscaled(b); if (b) { do_toscaled(b - 1); do_toscaled(b + 1); } }
    static const uint32_t FB[] = { 0, 0x80000000u, 1, 0x80000001u, 0x007fffffu, 0x00800000u, 0x7f800000u, 0xff800000u, 0x7f7fffffu, 0xff7fffffu,
        0x3f800000u, 0xbf800000u, 0x3f7fff00u, 0x3f7ffe00u, 0x3f7fffffu, 0xbf800001u, 0x3effffffu, 0x3f000000u, 0x37ffffffu, 0x38000000u, 0x37800000u,
        0xb7ffffffu, 0xb8000000u, 0x4b000000u, 0xcb000000u };
    for (unsigned i = 0; i < sizeof FB / sizeof FB[0]; i++) do_toscaled(FB[i]);
    for (long i = 0; i < (thorough ? 2000000 : 100000); i++) {
        uint32_t b = (uint32_t) prng_next();
        int k = prng_below(4);
        if (k == 0) b = (b & 0x807fffffu) | ((uint32_t) prng_range(100, 130) << 23);   /* magnitudes around 2^-27..8 */
        else if (k == 1) { /* near k+0.5 rounding boundaries: (m + 0.5)/32768 ± few ulp */
            float f = ((float) prng_range(-32768, 32767) + 0.5f) / 32768.f; memcpy(&b, &f, 4); b += prng_range(-2, 2); }
        do_toscaled(b);
    }
    fclose(ops); fclose(impl);
    printf("HISTO");
    for (int i = 0; i < nh; i++) printf(" %s=%ld", hname[i], histo[i]);
    printf("\n");
    return 0;
}
