/*
 * C20 / C10 harness: the real file-service plugin (file_server.c, included) behind a stub
 * IMasterConnection; provider / files-available / file-ready / receiver callbacks are logged.
 * Every operation is written as a line for the Lean driver (fs.new / fs.asdu / fs.task) and
 * the observation (outputs in program order + the real struct) as the matching result line.
 *
 * Model-free oracles (failing-input search, need neither proof nor model):
 *   DL_FAIL   standard download: reassembled octets != file, segment ASDU too long, wrong section /
 *             file checksum, provider not told success
 *   UL_FAIL   standard upload: receiver log does not reassemble to what was sent, missing final
 *             notification, success although octets were lost / damaged
 *   SAFE_FAIL arbitrary histories: transferComplete(true) although a section was neither transferred
 *             completely in a positively acknowledged pass nor declined by the master; finished(SUCCESS)
 *             although the acknowledged sections do not add up to the announced file
 *
 * usage: fsrv <ops-out> <impl-out> <quick|thorough>
 */
#include "simhal.h"
#include "file_server.c"
#include "cs101_asdu_internal.h"
#include <stdio.h>
#include <string.h>
#include <stdlib.h>
#include <stdarg.h>
#include "prng.h"

static FILE* ops; static FILE* impl;
static char logbuf[1 << 17]; static int loglen = 0;
static void logf_(const char* fmt, ...) { va_list ap; va_start(ap, fmt); if (loglen) { logbuf[loglen++] = ' '; logbuf[loglen++] = ';'; logbuf[loglen++] = ' '; } loglen += vsnprintf(logbuf + loglen, sizeof logbuf - loglen - 4, fmt, ap); va_end(ap); }
static void hexs(char* out, const uint8_t* b, int n) { if (!n) { strcpy(out, "-"); return; } for (int i = 0; i < n; i++) sprintf(out + 2 * i, "%02x", b[i]); out[2 * n] = 0; }

/* ---- configuration of the current episode */
static struct sCS101_AppLayerParameters al;
static int hasFiles, hasReady, acceptUp, readyErr, fca, fioa, fnof, fseed;
#define MAXSEC 10
static int nsec; static int secsize[MAXSEC]; static uint8_t* secdata[MAXSEC];
static CS101_FileServer srv; static CS101_SlavePlugin plugin;
static uint64_t now_ms;

static int file_byte(int seed, int i, int j) { return (int) (((long) seed * 31 + (long) i * 131 + (long) j * 7 + (long) (j / 256) * 13 + ((long) j * j) % 251) % 256); }
static long file_size(void) { long t = 0; for (int i = 0; i < nsec; i++) t += secsize[i]; return t; }

/* ---- what the plugin emitted during the current operation (for the oracles) */
#define MAXTX 8
static struct { int conn; int n; uint8_t b[300]; } txs[MAXTX]; static int ntx;
static int cb_complete = -1;          /* transferComplete argument seen in this op */
static int cb_finished = -1;
static long n_tx = 0, n_cb = 0, n_ops = 0, n_dl = 0, n_ul = 0, n_chaos = 0, n_nack = 0, n_trunc = 0, n_timeout = 0, n_complete_true = 0, n_finished_ok = 0;
static int fails = 0; static char fail_info[1200];
static void fail(const char* kind, const char* fmt, ...) { if (fails++) return; va_list ap; va_start(ap, fmt); int k = snprintf(fail_info, sizeof fail_info, "%s ", kind); vsnprintf(fail_info + k, sizeof fail_info - k, fmt, ap); va_end(ap); }

/* ---- stub connections */
static struct sIMasterConnection conns[2];
static bool c_isReady(IMasterConnection c) { return true; }
static bool c_send(IMasterConnection c, CS101_ASDU a)
{
    static char h[700]; int n = a->asduHeaderLength + a->payloadSize; int ci = (int) (c - conns);
    hexs(h, a->asdu, n); logf_("tx %d %s", ci, h); n_tx++;
    if (ntx < MAXTX) { txs[ntx].conn = ci; txs[ntx].n = n; memcpy(txs[ntx].b, a->asdu, n > 300 ? 300 : n); ntx++; }
    if (n > al.maxSizeOfASDU) fail("DL_FAIL", "ASDU of %d octets exceeds maxSizeOfASDU %d: %s", n, al.maxSizeOfASDU, h);
    return true;
}
static bool c_actcon(IMasterConnection c, CS101_ASDU a, bool neg) { return true; }
static bool c_actterm(IMasterConnection c, CS101_ASDU a) { return true; }
static CS101_AppLayerParameters c_params(IMasterConnection c) { return &al; }

/* ---- application side */
static struct sCS101_IFileProvider provider; static struct sCS101_FilesAvailable files; static struct sCS101_IFileReceiver receiver;
static int p_size(CS101_IFileProvider f) { return (int) file_size(); }
static int p_secsize(CS101_IFileProvider f, int k) { return (k >= 0 && k < nsec) ? secsize[k] : 0; }
static bool p_data(CS101_IFileProvider f, int k, int off, int size, uint8_t* d) { if (k < 0 || k >= nsec || off < 0 || off + size > secsize[k]) { memset(d, 0, size > 0 ? size : 0); return false; } memcpy(d, secdata[k] + off, size); return true; }
static void p_complete(CS101_IFileProvider f, bool ok) { logf_("complete %d", ok); cb_complete = ok; n_cb++; }
static CS101_IFileProvider f_get(void* p, int ca, int ioa, uint16_t nof, int* err)
{
    logf_("getFile %d %d %d", ca, ioa, nof); n_cb++;
    if (ca != fca) { *err = 1; return NULL; }
    if (ioa != fioa) { *err = 2; return NULL; }
    if (nof != fnof) return NULL;
    return &provider;
}
/* upload bookkeeping for the oracle */
static uint8_t up_pass[1 << 17]; static int up_pass_len; static int up_pass_bad;   /* octets the receiver got in the current section pass */
static CS101_IFileReceiver r_ready(void* p, int ca, int ioa, uint16_t nof, int lof, int* err)
{
    logf_("ready %d %d %d %d", ca, ioa, nof, lof); n_cb++;
    if (acceptUp) return &receiver;
    *err = readyErr; return NULL;
}
static void r_seg(CS101_IFileReceiver r, uint8_t nos, int off, int size, uint8_t* d)
{
    static char h[700]; hexs(h, d, size); logf_("seg %d %d %s", nos, off, h); n_cb++;
    if (off != up_pass_len) up_pass_bad = 1;
    if (up_pass_len + size < (int) sizeof up_pass) { memcpy(up_pass + up_pass_len, d, size); up_pass_len += size; }
}
static void r_fin(CS101_IFileReceiver r, CS101_FileErrorCode c) { logf_("finished %d", (int) c); cb_finished = (int) c; n_cb++; }

static void summary(char* out)
{
    int ci = srv->selectedConnection ? (int) (srv->selectedConnection - conns) : -1; char cs[8]; if (ci < 0) strcpy(cs, "-"); else sprintf(cs, "%d", ci);
    sprintf(out, " | st=%d ca=%d ioa=%d oa=%d nof=%d last=%llu sec=%d off=%d size=%d schk=%d fchk=%d exp=%d got=%d sel=%d conn=%s rcv=%d",
            (int) srv->state, srv->ca, srv->ioa, srv->oa, srv->nof, (unsigned long long) srv->lastSendTime, srv->currentSectionNumber, srv->currentSectionOffset,
            srv->currentSectionSize, srv->sectionChecksum, srv->fileChecksum, srv->expectedFileLength, srv->receivedFileLength, srv->selectedFile != NULL, cs, srv->fileReceiver != NULL);
}
static void flush_obs(const char* prefix)
{
    static char s[400]; summary(s);
    fprintf(impl, "%s%s%s\n", prefix, prefix[0] ? "" : (loglen ? logbuf : "-"), s); loglen = 0; logbuf[0] = 0;
}

static void new_episode(int scot, int sca, int sioa, int mx, int seed, int n, const int* sizes)
{
    if (srv) CS101_FileServer_destroy(srv);
    for (int i = 0; i < nsec; i++) { free(secdata[i]); secdata[i] = NULL; }
    al.sizeOfTypeId = 1; al.sizeOfVSQ = 1; al.sizeOfCOT = scot; al.originatorAddress = 0; al.sizeOfCA = sca; al.sizeOfIOA = sioa; al.maxSizeOfASDU = mx;
    fseed = seed; nsec = n;
    fprintf(ops, "fs.new %d %d %d %d %d %d %d %d %d %d %d %d", scot, sca, sioa, mx, hasFiles, hasReady, acceptUp, readyErr, fca, fioa, fnof, seed);
    for (int i = 0; i < n; i++) { secsize[i] = sizes[i]; secdata[i] = malloc(sizes[i] ? sizes[i] : 1); for (int j = 0; j < sizes[i]; j++) secdata[i][j] = (uint8_t) file_byte(seed, i, j); fprintf(ops, " %d", sizes[i]); }
    fprintf(ops, "\n"); fflush(ops);
    srv = CS101_FileServer_create(&al); plugin = CS101_FileServer_getSlavePlugin(srv);
    files.getFile = f_get; files.getNextFile = NULL; files.parameter = NULL;
    provider.ca = fca; provider.ioa = fioa; provider.nof = (uint8_t) fnof; provider.getFileSize = p_size; provider.getSectionSize = p_secsize; provider.getSegmentData = p_data; provider.transferComplete = p_complete;
    receiver.finished = r_fin; receiver.segmentReceived = r_seg;
    CS101_FileServer_setFilesAvailableIfc(srv, hasFiles ? &files : NULL);
    CS101_FileServer_setFileReadyHandler(srv, hasReady ? r_ready : NULL, NULL);
    for (int i = 0; i < 2; i++) { conns[i].isReady = c_isReady; conns[i].sendASDU = c_send; conns[i].sendACT_CON = c_actcon; conns[i].sendACT_TERM = c_actterm; conns[i].getApplicationLayerParameters = c_params; conns[i].close = NULL; }
    static char s[400]; summary(s); fprintf(impl, "ok%s\n", s);
    n_ops++;
}

/* ---- ghost bookkeeping for SAFE_FAIL (download) */
static int g_done[260], g_declined[260];            /* per section number (1-based) */
static uint8_t g_pass[1 << 17]; static int g_pass_len; static int g_pass_sec;
/* upload */
static long u_acked_len; static int u_acked_sum; static long u_lof; static int u_cur_los, u_cur_chs_ok;

/* hand one ASDU to the plugin */
static int send_raw(int conn, const uint8_t* b, int n)
{
    static char h[700]; hexs(h, b, n);
    fprintf(ops, "fs.asdu %d %llu %s\n", conn, (unsigned long long) now_ms, h); fflush(ops); n_ops++;
    sim_set_time(now_ms);
    uint8_t* blk = malloc(n ? n : 1); memcpy(blk, b, n);
    struct sCS101_ASDU _a; CS101_ASDU a = CS101_ASDU_createFromBufferEx(&_a, &al, blk, n);
    ntx = 0; cb_complete = -1; cb_finished = -1;
    if (!a) { fprintf(impl, "nohdr\n"); free(blk); return -1; }
    /* ghost: what this message means in the state the server is in BEFORE it is handled */
    int st0 = srv->state, sec0 = srv->currentSectionNumber; int hdr = 2 + al.sizeOfCOT + al.sizeOfCA;
    int tid = b[0], full = n >= hdr + al.sizeOfIOA + 2;
    int expired = (st0 != UNSELECTED_IDLE) && (now_ms > srv->lastSendTime + srv->timeout);
    CS101_SlavePlugin_Result r = plugin->handleAsdu(plugin->parameter, &conns[conn], a);
    if (r != CS101_PLUGIN_RESULT_HANDLED) { flush_obs("nothandled"); free(blk); return 0; }
    if (!expired && tid == 124 && full && n >= hdr + al.sizeOfIOA + 4) {
        int afq = b[hdr + al.sizeOfIOA + 3];
        if (st0 == WAITING_FOR_SECTION_ACK && (afq & 15) == 3 && afq != 1) {
            /* positive section ack accepted: the pass just sent must be the whole section */
            if (g_pass_sec == sec0 && sec0 >= 1 && sec0 <= nsec && g_pass_len == secsize[sec0 - 1] && !memcmp(g_pass, secdata[sec0 - 1], g_pass_len)) g_done[sec0] = 1;
        }
    }
    if (!expired && tid == 122 && n >= hdr + al.sizeOfIOA + 4 && (b[2] & 0x3f) == 13 && st0 == WAITING_FOR_SECTION_CALL && b[hdr + al.sizeOfIOA + 3] == 6 && (b[2] & 0x40) && srv->currentSectionNumber == (uint8_t) (sec0 + 1))
        g_declined[sec0] = 1;
    if (cb_complete == 1) {
        n_complete_true++;
        for (int i = 1; i <= nsec; i++) if (!g_done[i] && !g_declined[i])
            fail("SAFE_FAIL", "transferComplete(true) although section %d of %d was neither transferred completely in an acknowledged pass nor declined; last request %s", i, nsec, h);
    }
    if (cb_finished == 0) {
        n_finished_ok++;
        if (u_acked_len != u_lof) fail("SAFE_FAIL", "finished(SUCCESS) although acknowledged sections hold %ld octets and the master announced %ld; last request %s", u_acked_len, u_lof, h);
    }
    flush_obs(""); free(blk); return 1;
}
static void run_task(int conn)
{
    fprintf(ops, "fs.task %d %llu\n", conn, (unsigned long long) now_ms); fflush(ops); n_ops++;
    sim_set_time(now_ms); ntx = 0; cb_complete = -1; cb_finished = -1;
    int st0 = srv->state, sec0 = srv->currentSectionNumber;
    if (st0 == TRANSMIT_SECTION && srv->currentSectionOffset == 0) { g_pass_sec = sec0; g_pass_len = 0; }   /* a new pass starts */
    plugin->runTask(plugin->parameter, &conns[conn]);
    /* ghost: collect the segments of the current pass */
    for (int i = 0; i < ntx; i++) { int hdr = 2 + al.sizeOfCOT + al.sizeOfCA; uint8_t* b = txs[i].b;
        if (b[0] == 125 && st0 == TRANSMIT_SECTION) { int los = b[hdr + al.sizeOfIOA + 3]; int nos = b[hdr + al.sizeOfIOA + 2];
            if (g_pass_sec != sec0) { g_pass_sec = sec0; g_pass_len = 0; }
            if (nos == sec0 && g_pass_len + los < (int) sizeof g_pass) { memcpy(g_pass + g_pass_len, b + hdr + al.sizeOfIOA + 4, los); g_pass_len += los; } } }
    flush_obs("");
}
static void ghost_new_pass(int sec) { g_pass_sec = sec; g_pass_len = 0; }

/* ---- building master requests */
static int mk(uint8_t* b, int tid, int cot, int neg, int oa, int ca, int ioa, const uint8_t* body, int nbody)
{
    int n = 0; b[n++] = tid; b[n++] = 1; b[n++] = (cot & 0x3f) | (neg ? 0x40 : 0);
    if (al.sizeOfCOT > 1) b[n++] = oa; b[n++] = ca & 0xff; if (al.sizeOfCA > 1) b[n++] = (ca >> 8) & 0xff;
    for (int i = 0; i < al.sizeOfIOA; i++) b[n++] = (ioa >> (8 * i)) & 0xff;
    memcpy(b + n, body, nbody); return n + nbody;
}
static int m_oa = 3;
static int req_sc(uint8_t* b, int ca, int ioa, int nof, int nos, int scq, int neg) { uint8_t f[4] = { nof & 255, nof >> 8, nos, scq }; return mk(b, 122, 13, neg, m_oa, ca, ioa, f, 4); }
static int req_af(uint8_t* b, int ca, int ioa, int nof, int nos, int afq) { uint8_t f[4] = { nof & 255, nof >> 8, nos, afq }; return mk(b, 124, 13, 0, m_oa, ca, ioa, f, 4); }
static int req_fr(uint8_t* b, int ca, int ioa, int nof, long lof) { uint8_t f[6] = { nof & 255, nof >> 8, lof & 255, (lof >> 8) & 255, (lof >> 16) & 255, 0 }; return mk(b, 120, 13, 0, m_oa, ca, ioa, f, 6); }
static int req_sr(uint8_t* b, int ca, int ioa, int nof, int nos, long los) { uint8_t f[7] = { nof & 255, nof >> 8, nos, los & 255, (los >> 8) & 255, (los >> 16) & 255, 0 }; return mk(b, 121, 13, 0, m_oa, ca, ioa, f, 7); }
static int req_ls(uint8_t* b, int ca, int ioa, int nof, int nos, int lsq, int chs) { uint8_t f[5] = { nof & 255, nof >> 8, nos, lsq, chs }; return mk(b, 123, 13, 0, m_oa, ca, ioa, f, 5); }
static int req_sg(uint8_t* b, int ca, int ioa, int nof, int nos, const uint8_t* d, int los) { uint8_t f[260] = { nof & 255, nof >> 8, nos, los }; memcpy(f + 4, d, los); return mk(b, 125, 13, 0, m_oa, ca, ioa, f, 4 + los); }
static void tick(void) { now_ms += prng_below(4) ? prng_below(40) : prng_below(1400); }   /* two ticks stay below the 3 s supervision time */

/* decode helpers for what the server sent (raw octets; the codec itself is C01's business) */
static int tx_find(int tid) { for (int i = 0; i < ntx; i++) if (txs[i].b[0] == tid) return i; return -1; }
static int body_off(void) { return 2 + al.sizeOfCOT + al.sizeOfCA + al.sizeOfIOA; }

static void episode_upload(int damage);
/* ---- episode 1: standard download with negative section acknowledgements */
static void episode_download(int max_nack)
{
    uint8_t b[300]; int n; n_dl++;
    memset(g_done, 0, sizeof g_done); memset(g_declined, 0, sizeof g_declined); ghost_new_pass(0);
    static uint8_t got[1 << 17]; long gotlen = 0; int filesum = 0;
    int pre = nsec > 0 ? (int) prng_below(6) : 9;
    if (pre == 1 && nsec >= 2) {               /* a transfer that was abandoned after its first section was acknowledged comes first */
        n = req_sc(b, fca, fioa, fnof, 0, 1, 0); send_raw(0, b, n); tick();
        n = req_sc(b, fca, fioa, fnof, 0, 2, 0); send_raw(0, b, n); tick();
        n = req_sc(b, fca, fioa, fnof, 1, 6, 0); send_raw(0, b, n);
        for (int guard = 0; guard < 70000 && srv->state == TRANSMIT_SECTION; guard++) { tick(); run_task(0); }
        tick(); n = req_af(b, fca, fioa, fnof, 1, 3); send_raw(0, b, n);
        now_ms += 3001 + prng_below(2000); n_timeout++;
    }
    if (pre == 2 && hasReady && acceptUp) {    /* an upload comes first */
        static int in_pre = 0; if (!in_pre) { in_pre = 1; episode_upload(0); in_pre = 0; tick(); }
    }
    if (pre == 0) {                            /* a transfer that was abandoned in the middle of a section comes first */
        n = req_sc(b, fca, fioa, fnof, 0, 1, 0); send_raw(0, b, n); tick();
        n = req_sc(b, fca, fioa, fnof, 0, 2, 0); send_raw(0, b, n); tick();
        n = req_sc(b, fca, fioa, fnof, 1, 6, 0); send_raw(0, b, n); tick();
        run_task(0); if (prng_below(2)) { tick(); run_task(0); }
        now_ms += 3001 + prng_below(2000); n_timeout++;          /* the next request finds the supervision time expired */
    }
    n = req_sc(b, fca, fioa, fnof, 0, 1, 0); send_raw(0, b, n);
    int i = tx_find(120); if (i < 0) { fail("DL_FAIL", "no FILE READY after SELECT"); return; }
    { uint8_t* f = txs[i].b + body_off(); long lof = f[2] | (f[3] << 8) | (f[4] << 16); if (lof != (file_size() & 0xffffff) || f[5] != 0) fail("DL_FAIL", "FILE READY announces %ld octets (frq %d), file has %ld", lof, f[5], file_size()); }
    tick(); n = req_sc(b, fca, fioa, fnof, 0, 2, 0); send_raw(0, b, n);
    i = tx_find(121); if (i < 0) { if (nsec == 0) return; fail("DL_FAIL", "no SECTION READY after CALL FILE"); return; }
    if (nsec == 0) return;       /* empty file: see DESIGN.md (the server announces an empty section 1) */
    for (int sec = 1; sec <= nsec; sec++) {
        int nacks = max_nack ? (int) prng_below(max_nack + 1) : 0;
        tick(); n = req_sc(b, fca, fioa, fnof, sec, 6, 0); send_raw(0, b, n);
        for (int pass = 0; ; pass++) {
            static uint8_t sd[1 << 17]; int sl = 0, chs = -1; ghost_new_pass(sec);
            for (int guard = 0; guard < 70000; guard++) {
                tick(); if (prng_below(5) == 0) run_task(1);           /* the other connection's task must not pump */
                run_task(0);
                int k = tx_find(125);
                if (k >= 0) { uint8_t* f = txs[k].b + body_off(); int los = f[3];
                    if (f[2] != sec) fail("DL_FAIL", "segment names section %d while section %d is transferred", f[2], sec);
                    if (los + body_off() + 4 != txs[k].n) fail("DL_FAIL", "segment length octet %d does not match ASDU length %d", los, txs[k].n);
                    if (sl + los < (int) sizeof sd) { memcpy(sd + sl, f + 4, los); sl += los; } continue; }
                k = tx_find(123);
                if (k >= 0) { uint8_t* f = txs[k].b + body_off(); if (f[3] != 3 || f[2] != sec) fail("DL_FAIL", "LAST SEGMENT with lsq %d nos %d for section %d", f[3], f[2], sec); chs = f[4]; break; }
                if (srv->state != TRANSMIT_SECTION) break;
            }
            if (chs < 0) { fail("DL_FAIL", "section %d: no LAST SEGMENT", sec); return; }
            int sum = 0; for (int j = 0; j < sl; j++) sum = (sum + sd[j]) & 255;
            if (sum != chs) fail("DL_FAIL", "section %d pass %d: section checksum %d, octets sum to %d", sec, pass, chs, sum);
            if (sl != secsize[sec - 1] || memcmp(sd, secdata[sec - 1], sl)) fail("DL_FAIL", "section %d pass %d: %d octets received, section has %d (or content differs)", sec, pass, sl, secsize[sec - 1]);
            tick();
            if (pass < nacks) { n_nack++; n = req_af(b, fca, fioa, fnof, sec, 4); send_raw(0, b, n);
                if (tx_find(121) < 0) fail("DL_FAIL", "no SECTION READY after negative section ack");
                if (prng_below(2)) { tick(); n = req_sc(b, fca, fioa, fnof, sec, 6, 0); send_raw(0, b, n); }   /* a master may call the section again */
                continue; }
            memcpy(got + gotlen, sd, sl); gotlen += sl; filesum = (filesum + sum) & 255;
            n = req_af(b, fca, fioa, fnof, sec, 3); send_raw(0, b, n);
            break;
        }
        if (sec < nsec) { int k = tx_find(121); if (k < 0) { fail("DL_FAIL", "no SECTION READY for section %d", sec + 1); return; }
            uint8_t* f = txs[k].b + body_off(); long los = f[3] | (f[4] << 8) | (f[5] << 16); if (f[2] != sec + 1 || los != secsize[sec]) fail("DL_FAIL", "SECTION READY nos %d length %ld, expected %d / %d", f[2], los, sec + 1, secsize[sec]); }
    }
    int k = tx_find(123); if (k < 0) { fail("DL_FAIL", "no LAST SECTION after the last section ack"); return; }
    { uint8_t* f = txs[k].b + body_off(); if (f[3] != 1) fail("DL_FAIL", "LAST SECTION lsq %d", f[3]); if (f[4] != filesum) fail("DL_FAIL", "file checksum %d, octets of the file sum to %d", f[4], filesum); }
    long fs = file_size(); if (gotlen != fs) fail("DL_FAIL", "received %ld octets, file has %ld", gotlen, fs);
    tick(); n = req_af(b, fca, fioa, fnof, nsec, 1); send_raw(0, b, n);
    if (cb_complete != 1) fail("DL_FAIL", "provider not told success after the positive file ack (transferComplete=%d)", cb_complete);
}

/* ---- episode 2: standard upload, optionally with a damaged pass per section */
static void episode_upload(int damage)
{
    uint8_t b[300]; int n; n_ul++; u_acked_len = 0; u_acked_sum = 0; u_lof = file_size();
    n = req_fr(b, fca, fioa, fnof, u_lof); send_raw(0, b, n);
    if (!hasReady || !acceptUp) return;
    if (tx_find(122) < 0) { fail("UL_FAIL", "no CALL FILE after FILE READY"); return; }
    int segmax = al.maxSizeOfASDU - body_off() - 4; if (segmax > 200) segmax = 200;
    for (int sec = 1; sec <= nsec; sec++) {
        for (int pass = 0; ; pass++) {
            int bad = damage && pass == 0 && prng_below(2);
            tick(); n = req_sr(b, fca, fioa, fnof, sec, secsize[sec - 1]); send_raw(0, b, n);
            if (tx_find(122) < 0) { fail("UL_FAIL", "no CALL SECTION after SECTION READY %d", sec); return; }
            up_pass_len = 0; up_pass_bad = 0; int sum = 0, off = 0, dropped = 0;
            while (off < secsize[sec - 1]) { int los = 1 + (int) prng_below(segmax); if (los > secsize[sec - 1] - off) los = secsize[sec - 1] - off;
                for (int j = 0; j < los; j++) sum = (sum + secdata[sec - 1][off + j]) & 255;
                if (bad == 1 && !dropped && prng_below(3) == 0) dropped = 1;            /* lost segment */
                else { tick(); n = req_sg(b, fca, fioa, fnof, sec, secdata[sec - 1] + off, los); send_raw(0, b, n); }
                off += los; }
            int chs = sum; if (bad && !dropped) chs = (sum + 1 + (int) prng_below(254)) & 255;          /* damaged checksum */
            tick(); n = req_ls(b, fca, fioa, fnof, sec, 3, chs); send_raw(0, b, n);
            int k = tx_find(124); if (k < 0) { fail("UL_FAIL", "no section ACK"); return; }
            int afq = txs[k].b[body_off() + 3];
            int intact = !dropped && chs == sum;
            if (intact && afq != 3) fail("UL_FAIL", "intact section %d answered with afq %d", sec, afq);
            if (!intact && afq == 3) fail("UL_FAIL", "section %d acknowledged positively although %s", sec, dropped ? "a segment was lost" : "the checksum does not match");
            if (afq == 3) { if (up_pass_bad || up_pass_len != secsize[sec - 1] || memcmp(up_pass, secdata[sec - 1], up_pass_len)) fail("UL_FAIL", "receiver got %d octets for section %d (offsets ok=%d), sent %d", up_pass_len, sec, !up_pass_bad, secsize[sec - 1]);
                u_acked_len += secsize[sec - 1]; u_acked_sum = (u_acked_sum + sum) & 255; break; }
            if (pass > 3) { fail("UL_FAIL", "section never accepted"); return; }
        }
    }
    tick(); n = req_ls(b, fca, fioa, fnof, nsec, 1, u_acked_sum); send_raw(0, b, n);
    if (cb_finished != 0) fail("UL_FAIL", "receiver not told success after an intact upload (finished=%d)", cb_finished);
    int k = tx_find(124); if (k < 0 || txs[k].b[body_off() + 3] != 1) fail("UL_FAIL", "no positive file ACK after an intact upload");
}

/* ---- episode 3: arbitrary histories */
static void episode_chaos(int len)
{
    uint8_t b[300]; int n; n_chaos++;
    memset(g_done, 0, sizeof g_done); memset(g_declined, 0, sizeof g_declined); ghost_new_pass(0);
    u_acked_len = 0; u_lof = -1; int cur_los = 0, cur_sum = 0, cur_len = 0, cur_sumdata = 0;
    for (int step = 0; step < len; step++) {
        int c = prng_below(100), conn = prng_below(8) == 0;
        int ca = prng_below(12) ? fca : fca + 1, ioa = prng_below(12) ? fioa : fioa + 1, nof = prng_below(12) ? fnof : fnof + 1;
        if (prng_below(60) == 0) { now_ms += 3001 + prng_below(3000); n_timeout++; } else tick();
        if (prng_below(25) == 0) {   /* the application changes its mind about accepting uploads */
            acceptUp = !acceptUp; readyErr = prng_below(4); fprintf(ops, "fs.accept %d %d\n", acceptUp, readyErr); fflush(ops); n_ops++; static char sm[400]; summary(sm); fprintf(impl, "ok%s\n", sm); }
        int st = srv->state, sec = srv->currentSectionNumber;
        if (c < 22) { run_task(conn); continue; }
        if (c < 55) {            /* the message a cooperative master would send now */
            switch (st) {
            case UNSELECTED_IDLE: if (prng_below(3)) n = req_sc(b, ca, ioa, nof, 0, 1, 0); else { u_lof = prng_below(3) ? file_size() : (long) prng_below(70000); u_acked_len = 0; n = req_fr(b, ca, ioa, nof, u_lof); } break;
            case WAITING_FOR_FILE_CALL: n = req_sc(b, ca, ioa, nof, 0, 2, 0); break;
            case WAITING_FOR_SECTION_CALL: n = req_sc(b, ca, ioa, nof, prng_below(6) ? sec : (int) prng_below(nsec + 2), 6, prng_below(10) == 0); break;
            case TRANSMIT_SECTION: run_task(0); continue;
            case WAITING_FOR_SECTION_ACK: n = req_af(b, ca, ioa, nof, sec, prng_below(4) ? 3 : 4); break;
            case WAITING_FOR_FILE_ACK: n = req_af(b, ca, ioa, nof, sec, prng_below(5) ? 1 : 2); break;
            case WAITING_FOR_SECTION_READY:
                if (prng_below(4) == 0) n = req_ls(b, ca, ioa, nof, sec, prng_below(5) ? 1 : 2, prng_below(3) ? srv->fileChecksum : (int) prng_below(256));
                else { cur_los = prng_below(3) ? (int) prng_below(600) : (int) prng_below(70000); cur_len = 0; cur_sumdata = 0; n = req_sr(b, ca, ioa, nof, 1 + (int) prng_below(4), cur_los); }
                break;
            case RECEIVE_SECTION:
                if (cur_len < cur_los && prng_below(8)) { int los = 1 + (int) prng_below(al.maxSizeOfASDU - body_off() - 4 > 60 ? 60 : al.maxSizeOfASDU - body_off() - 4); if (prng_below(4)) { if (los > cur_los - cur_len) los = cur_los - cur_len; }
                    uint8_t d[256]; for (int j = 0; j < los; j++) { d[j] = (uint8_t) prng_next(); cur_sumdata = (cur_sumdata + d[j]) & 255; } cur_len += los; n = req_sg(b, ca, ioa, nof, sec, d, los); }
                else n = req_ls(b, ca, ioa, nof, sec, prng_below(8) ? 3 : 2, prng_below(5) ? cur_sumdata : (int) prng_below(256));
                break;
            default: n = req_af(b, ca, ioa, nof, sec, 1 + (int) prng_below(4)); break;
            }
        } else if (c < 85) {     /* any file-service message with near-valid fields */
            int tid = 120 + (int) prng_below(8); uint8_t body[260]; int nb = 0;
            for (int j = 0; j < 12; j++) body[j] = (uint8_t) prng_next();
            body[0] = nof & 255; body[1] = nof >> 8; body[2] = prng_below(3) ? sec : (uint8_t) prng_below(nsec + 3);
            switch (tid) { case 120: nb = 6; break; case 121: nb = 7; body[5] = 0; body[4] &= 3; break; case 122: nb = 4; body[3] = (uint8_t[]) { 1, 2, 3, 6, 0, 7 }[prng_below(6)]; break;
                case 123: nb = 5; body[3] = 1 + prng_below(4); break; case 124: nb = 4; body[3] = prng_below(6) ? 1 + prng_below(4) : (uint8_t) prng_next(); break;
                case 125: nb = 4 + (body[3] = (uint8_t) prng_below(al.maxSizeOfASDU - body_off() - 4 > 40 ? 40 : al.maxSizeOfASDU - body_off() - 4)); for (int j = 4; j < nb; j++) body[j] = (uint8_t) prng_next(); break;
                default: nb = 1 + prng_below(16); break; }
            n = mk(b, tid, prng_below(6) ? 13 : (prng_below(2) ? 5 : (int) prng_below(64)), prng_below(8) == 0, m_oa, ca, ioa, body, nb);
            if (tid == 120) { u_lof = body[2] | (body[3] << 8) | (body[4] << 16); u_acked_len = 0; }
            if (tid == 121 && st == WAITING_FOR_SECTION_READY) { cur_los = body[3] | (body[4] << 8) | (body[5] << 16); cur_len = 0; cur_sumdata = 0; }
            if (tid == 125 && st == RECEIVE_SECTION) { cur_len += body[3]; for (int j = 4; j < nb; j++) cur_sumdata = (cur_sumdata + body[j]) & 255; }
        } else if (c < 93) {     /* truncated */
            uint8_t body[8] = { nof & 255, nof >> 8, sec, 1 + prng_below(6), 0, 0, 0, 0 }; n = mk(b, 120 + (int) prng_below(6), 13, 0, m_oa, ca, ioa, body, 7);
            n = (2 + al.sizeOfCOT + al.sizeOfCA) + (int) prng_below(al.sizeOfIOA + 4); n_trunc++;
        } else {                 /* not a file-service ASDU */
            uint8_t body[4] = { 20, 0, 0, 0 }; n = mk(b, prng_below(2) ? 100 : (int) prng_below(120), 6, 0, m_oa, ca, 0, body, 1);
        }
        /* upload ghost: a positively acknowledged section adds its announced length */
        int st_before = srv->state, cs = srv->currentSectionSize;
        if (send_raw(conn, b, n) > 0 && st_before == RECEIVE_SECTION) { int k = tx_find(124); if (k >= 0 && txs[k].b[body_off() + 3] == 3) u_acked_len += cs; }
    }
}

int main(int argc, char** argv)
{
    if (argc < 4) return 2;
    ops = fopen(argv[1], "w"); impl = fopen(argv[2], "w"); setvbuf(impl, NULL, _IOLBF, 0);
    bool thorough = !strcmp(argv[3], "thorough");
    prng_seed(seed_from_env() + 2020);
    int episodes = thorough ? 1500 : 150;
    for (int ep = 0; ep < episodes && !fails; ep++) {
        int scot = 1 + prng_below(2), sca = 1 + prng_below(2), sioa = 1 + prng_below(3);
        int mx = prng_below(3) == 0 ? 20 + (int) prng_below(12) : (prng_below(2) ? 249 + (int) prng_below(6) : 20 + (int) prng_below(235));
        int kind = ep % 3;
        int n = kind == 2 ? 1 + prng_below(4) : (prng_below(12) == 0 ? 0 : 1 + (int) prng_below(8)); int sizes[MAXSEC];
        long budget = (thorough && prng_below(6) == 0) ? 65536 : 1 + (long) prng_below(thorough ? 6000 : 2500);
        for (int i = 0; i < n; i++) { int s = 1 + (int) prng_below((uint32_t) (budget / n + 1)); if (prng_below(5) == 0) s = 1 + prng_below(3); if (prng_below(6) == 0) s = (mx - 2 - scot - sca - sioa - 4) * (1 + (int) prng_below(3)) + (int) prng_below(3) - 1; if (s < 1) s = 1; sizes[i] = s; }
        hasFiles = kind == 2 ? prng_below(10) != 0 : 1; hasReady = kind == 2 ? prng_below(10) != 0 : 1; acceptUp = kind == 2 ? prng_below(8) != 0 : 1; readyErr = prng_below(4);
        fca = 1 + prng_below(sca == 1 ? 254 : 65000); fioa = 1 + prng_below(sioa == 1 ? 254 : 65000); fnof = 1 + prng_below(250); m_oa = prng_below(256);
        now_ms = 1000 + prng_below(100000);
        new_episode(scot, sca, sioa, mx, (int) prng_below(100000), n, sizes);
        if (kind == 0) episode_download(ep % 2 ? 2 : 0);
        else if (kind == 1) episode_upload(ep % 2);
        else episode_chaos(thorough ? 400 : 250);
    }
    CS101_FileServer_destroy(srv); srv = NULL;
    fclose(ops); fclose(impl);
    if (fails) printf("ORACLE_FAIL %s\n", fail_info);
    printf("HISTO ops=%ld downloads=%ld uploads=%ld chaos=%ld nacks=%ld truncated=%ld timeouts=%ld tx=%ld callbacks=%ld complete_true=%ld finished_ok=%ld oracle_failures=%d\n",
           n_ops, n_dl, n_ul, n_chaos, n_nack, n_trunc, n_timeout, n_tx, n_cb, n_complete_true, n_finished_ok, fails);
    return 0;
}
