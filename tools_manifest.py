#!/usr/bin/env python3
"""writes MANIFEST.json from the table below (kept in one place so it stays valid)"""
import json, os
ROOT = os.path.dirname(os.path.abspath(__file__))
props = {json.loads(l)["id"]: json.loads(l) for l in open(os.path.join(ROOT, "properties.jsonl"))}

CLAIMED = {
 "C19": dict(
    text="Lean 4 theorems over a transcribed model of cpXXtime2a.c / cs101_bcr.c / the packed status types / the scaled and normalised conversions: ms->CP56->ms identity for every millisecond 2000-01-01..2099-12-31 (36 525 days by kernel evaluation, time of day symbolically), set/get laws for every setter on every octet pattern and every in-range value (omega over octet arithmetic), all 65 536 raw values round-trip, saturation. Model tied to the C code by a differential run of ~4e5 (quick) / ~4e6 (thorough) operations incl. every day 1970-2105 against glibc, plus an exhaustive oracle on the real code as failing-input search.",
    note="Trusted: Lean kernel + propext/Classical.choice/Quot.sound; hand-written model (correspondence is differential testing, bounded by its generator); binary32 modelled as exact dyadics with explicit round-to-nearest-even; negative int arguments not modelled. 'Encodable pattern' for the ms setter = (sec,ms) representable in the shared 16-bit field (theorem no_encoding_of_65s_536ms shows no implementation can do more).",
    technique="Lean 4 proof (omega, kernel-evaluated finite tables) + differential correspondence with the C code",
    design="6 C19"),
}

ASDU_NOTE = ("Trusted: Lean kernel + propext/Classical.choice/Quot.sound; hand-written byte-level model (Iec.Layout, Iec.Asdu, 67-entry type table) "
             "tied to the C code by the differential run of this check (all 67 types x size configurations x SQ, objects built by the public "
             "constructors from PRNG arguments, struct members dumped through the internal header) and by the model-free oracle; objects are "
             "modelled by their stored representation; 24-bit wire fields exercised within wire range.")
CLAIMED.update({
 "C01": dict(
    text="Lean theorems on the ASDU model: field-level decode(encode v ++ rest) = (v, rest) for every layout; Built invariant preserved by every accepted addition (any count/values, SQ 0/1); roundtrip_seq / roundtrip_noseq / roundtrip_single read every element of a built ASDU back with its address and stored members for every table entry; header getters; re-encode. Tie: differential build/read-back stream over all types x configs x SQ plus model-free round-trip oracle on the real code.",
    note=ASDU_NOTE, technique="Lean 4 proof (induction over field lists and additions) + differential correspondence", design="6 C01"),
 "C02": dict(
    text="Lean theorems: getElement returns an object iff the element's octet range (computed as CS101_ASDU_getElementEx computes it) lies inside the payload, for every byte string, index and size configuration (66 fixed-size types + the F_SG_NA_1 length-prefixed case), unknown type ids give none, header length test exact. In-bounds behaviour of the C code itself is tied by executing every parse of the differential stream in exactly-sized heap blocks under ASan/UBSan (every truncation length of valid ASDUs of all types, mutations, noise).",
    note=ASDU_NOTE + " Memory safety of the C parser is sanitizer-tied, not proved.", technique="Lean 4 proof (exactness iff) + differential correspondence under ASan", design="6 C02"),
 "C12": dict(
    text="Lean theorems: refused addition returns the ASDU unchanged; accepted addition appends exactly the encoding, stays <= maxSizeOfASDU, count+1 <= 127; run_inv: for every list of construction operations (add of any type/values, addPayload, clone, all header setters, clear) from any state satisfying the storage invariant the ASDU stays within 256 octets with a complete header. Tie: add-until-refusal for every type x configuration x maximum, setters/payload/clone in the differential stream on heap ASDUs under ASan, plus model-free oracle.",
    note=ASDU_NOTE, technique="Lean 4 proof (invariant by induction over operation lists) + differential correspondence", design="6 C12"),
})

SRV_NOTE = ("Trusted: Lean kernel + standard axioms; hand-written model Iec.Srv104 / Iec.KWindow / Iec.Queues of the CS104 server (threadless mode) tied to "
            "cs104_slave.c by the differential run of this check through the simulated HAL (observations AND dumps of the real structures after every "
            "operation) plus the model-free oracle flags of the harness. Not covered: threaded server loop, client role (cs104_connection.c), TLS, typed command "
            "dispatch (C09). The repaired behaviours (fix: commits in /repo) are what the model describes.")
CLAIMED.update({
 "C03": dict(text="Lean theorems on the server model: 15-bit sequence codec inverse for every value (seq_codec); sendI_spec: written I-frame is well-formed for every ASDU <= 249, carries N(S)=V(S), N(R)=V(R), V(S) advances by one mod 32768 iff the write succeeded (so the wrap is inside the step law); sendS_spec; the four U-frames. Tie: differential over ~25k ops per run with counters preset around the wrap + model-free wire oracle (framing and N(S) continuity of everything written).",
             note=SRV_NOTE + " Partial: client role by no theorem; N(R)=accepted count follows from C05 delivery (V(R) advance) and the step law, no separate history theorem.", technique="Lean 4 proof (step laws, omega on the bit codec) + differential correspondence", design="6 C03"),
 "C04": dict(text="Lean theorems on the k-window model (shared by both roles' code shape): checkSeq_spec - for every window alignment to the wrap, every occupancy, every k and every N(R) the acceptance test of checkSequenceNumber equals the modular window test, acceptance releases exactly the acknowledged prefix and re-establishes the invariant, rejection changes nothing; push_bound (never more than k outstanding, every send is gated by isSentBufferFull); server_full_defers. Tie: differential with real k-buffer ring dumps after every op + window-bound oracle.",
             note=SRV_NOTE + " The client copy of checkSequenceNumber has the same shape but is not yet tied by its own harness (partial).", technique="Lean 4 proof (invariant + induction over the release loop, omega mod 32768) + differential correspondence", design="6 C04"),
 "C05": dict(text="Lean theorems: drain_eq_parse / segmentation_independence - for every octet stream and every split into reads (any chunk sizes, empty polls) the receive loop hands over exactly the frames of the stream, same close decision, same incomplete tail (refinement to a stream specification by induction, step lemma recvStep_spec); delivery - on a started connection an I-frame is handed to the application exactly once iff N(S)=V(R) (and N(R), length checks), otherwise nothing is delivered and the connection closes; not_started_closes. Tie: differential with every frame delivered coalesced, dribbled octet by octet or cut at a random position.",
             note=SRV_NOTE + " Server copy of receiveMessage (the client copy is textually the same algorithm; not separately tied).", technique="Lean 4 proof (refinement of the reassembly loop to a stream parser) + differential correspondence", design="6 C05"),
 "C07": dict(text="Lean theorems (step properties for every server state): startdt_answered, testfr_answered, sframe_stopped_closes, not_started_closes (I-frame), send_requires_started / periodic_not_started (I-frames only while STARTED). STOPDT sequence (S-frame first, con only without unconfirmed events) is in the model and differentially compared, theorem not yet written. Tie: differential incl. U-frames in every state.",
             note=SRV_NOTE + " Partial: STOPDT-con theorem missing; history-level statement (every I-frame lies between a STARTDT con and the next STOPDT act) follows from the step laws but is not stated as one theorem.", technique="Lean 4 proof (step laws of handleMessage) + differential correspondence", design="6 C07"),
 "C11": dict(text="Lean theorems on a virtual clock: ack_after_w / ack_at_w (fewer than w unacknowledged after every message; S-frame written at w), t2_ack / t2_not_before, t1_close_iff (closed by the I-frame timer exactly when the oldest unacknowledged I-frame is t1 old, not before) and t1_empty, t3_testfr; all parameters read from the configuration record. Tie: differential with PRNG parameter sets and ticks of 0..4400 ms around the deadlines.",
             note=SRV_NOTE + " Partial: client role not modelled; 'acknowledge before STOPDT con' is in the model (handleMessage) and differentially compared without its own theorem; lateness bounded by the tick period.", technique="Lean 4 proof (step laws of handleTimeouts phases) + differential correspondence", design="6 C11"),
 "C13": dict(text="Lean theorems (step properties): direct_only_if_nothing_parked (a reply is written at once only when no earlier reply is parked - the repaired sendASDUInternal), parked_or_refused, responses_before_events. FIFO order inside the rings: differential (queue contents dumped and compared after every op) + model-free order oracle (a reply transmitted while earlier replies are parked).",
             note=SRV_NOTE + " Partial: no refinement proof of the two ring buffers to lists yet, so enqueue-order = transmit-order rests on the differential tie.", technique="Lean 4 proof (step laws) + differential correspondence + order oracle", design="6 C13"),
})

CLAIMED.update({
 "C06": dict(text="Lean theorems (partial) on the event ring model: enqueue_stores (what is enqueued is stored octet for octet under the next id, waiting), getNextWaiting_spec (what is handed out is what was stored; entry becomes sent-unconfirmed), setState_data / setEntryWaiting_data (state changes never touch ids or octets; the close-reset only re-arms sent-unconfirmed entries of the closing connection). Geometry (displacement only of the oldest, N-retention) is NOT proved: tied by the differential, which compares the real ring (pointers and every entry's id/state/size in FIFO order) with the model after every operation with queue sizes 1..40, and by the duplicate/order oracle. Two genuine queue defects were found and repaired through this check.",
             note=SRV_NOTE + " Partial: no refinement proof of the ring geometry.", technique="Lean 4 proof (entry-level laws) + differential correspondence on ring dumps", design="6 C06"),
 "C08": dict(text="Lean theorems: activate_exclusive (after STARTDT act on connection i every other used connection of the same group is not started and i is - by induction over the deactivation fold), match_listed_first / match_catch_all (group selection), limit_refuses / callback_refuses (admission), enqueue_all_groups (fan-out). Tie: differential with 1..12 clients, IPv4/IPv6 peers, 0..3 groups, limits, request-callback answers, three server modes + per-operation oracle (at most one started connection per group, open connections within the limit).",
             note=SRV_NOTE + " Partial: '::'-compressed IPv6 text is outside the model (the C parser leaves octets unwritten); the global invariant is oracle-checked, not a theorem.", technique="Lean 4 proof (step laws, induction over the connection table) + differential correspondence", design="6 C08"),
 "C18": dict(text="Partial. Lean theorems: deactivate_event / activate_event (DEACTIVATED only from started, ACTIVATED only into started), refused_accept_keeps_counter. Event grammar per connection (OPENED first, CLOSED at most once and last, ACTIVATED/DEACTIVATED alternating), counter = used slots after every operation, client CLOSED/FAILED exactly once per attempt: harness oracles on the real structures in every run; create/start/stop/destroy cycles under LeakSanitizer and the simulated HAL's live-object counters. One genuine client defect (NULL socket dereference in sendStartDT after a failed connect) found and repaired.",
             note=SRV_NOTE + " Covered: threadless server + threaded client (as fiber). Not covered: threaded server stop/restart accounting.", technique="Lean 4 proof (event laws) + differential correspondence + lifecycle oracles", design="6 C18"),
 "C09": dict(text="Lean theorems on the decision functions of both slaves, for every ASDU octet string, handler set and handler result: wrong_cot (exactly one mirror with 45), callback_once (allowed cause, complete object, CS104 address zero: exactly one callback with the decoded argument), nonzero_ioa (47), truncated_no_callback, unhandled_gets_44, handled_stops, negative_mirrors + negative_cause (response = request with only the cause octet rewritten). Tie: near-exhaustive differential (type x COT x flags x IOA x truncation x handler subsets) on both real handleASDU functions under ASan + 'at most one response' oracle. Two genuine defects repaired (CS101 double response, CS104 C_TS_TA_1).",
             note="Trusted: Lean kernel + standard axioms; hand-written decision model Iec.Dispatch tied by the differential of this check; decoder = Iec.Asdu.getElement (C01/C02). Partial: client command builders not modelled.", technique="Lean 4 proof (case analysis of the decision table) + exhaustive differential", design="6 C09"),
 "C16": dict(text="Partial. Lean (every operation sequence): never_exceeds_size, holds_exactly_size, full_displaces_oldest, not_full_appends, dequeue_is_fifo, fifo_through for the CS101 queues (class 1, class 2, master user data). Tie: differential on the real CS101_Queue with the ring dumped oldest-first after every operation. End-to-end exactly-once / FIFO-per-class / commands-exactly-once / failure-reported / recovery: model-free oracle on the real master + 1..3 slaves (and balanced pairs) over a lossy simulated line with scripted single and double losses, random loss up to 30 %, outages and bit damage, virtual time; supported by the C15 transition theorems.",
             note="Trusted: Lean kernel + standard axioms; abstract queue model tied by ring dump. NOT proved: delivery of the composed system over a lossy channel (no composed-system theorem); the e2e oracle is a search, not a proof - stated in DESIGN.md.", technique="Lean 4 proof (queue discipline by induction over operation sequences) + differential + end-to-end oracle", design="6 C16"),
 "C17": dict(text="Partial (races not decided). Regenerated model: translate/locks.py turns every function of the six lock-using files into a lock skeleton (clang AST) on every run. Lean: exec_sound (the collecting interpreter covers every outcome of the path semantics Run, all branch outcomes and loop trip counts) => every_path_releases_what_it_took, no_path_faults for all generated skeletons (kernel evaluation); internal_lock_order_acyclic (rank certificate over held->waited edges through calls and thread joins); callbacks_outside_locks_partial (application callbacks are entered lock-free except at three recorded sites = known findings, reproduced on the real code). Failing-input search: threaded server/client under PRNG schedules behind the simulated HAL with semaphore monitors. Two genuine defects repaired (STOPDT double post; listener joining under openConnectionsLock).",
             note="Trusted: Lean kernel + standard axioms; translate/locks.py (syntax transcription); lock classes by static type+field; raw-message hook assumed not to re-enter the API. NOT decided: data-race freedom (no lockset model) - stated in DESIGN.md.", technique="Lean 4 proof (abstract-interpretation soundness + kernel evaluation on a model regenerated from source) + schedule search on the real code", design="6 C17"),
 "C14": dict(text="Lean: every_tx_wellformed (every frame any role of the model writes is a well-formed FT 1.2 frame: the observation type carries the evidence, built by fixedFrame_wf / varFrame_wf / single_wf for all address widths 0..2, control octets, addresses, data), sendFixed_width / sendVar_width, varFrame_shape; receiving: secHeader_ok_sound (unbalanced slave: passes only with equal length octets, true length, correct checksum, own address or FC4 broadcast), secU_reject_is_silent (otherwise no transmission, no callback, no state but the link-state notification), parseBP_some_sound + *_drop_is_silent (balanced / master), var_roundtrip (user data extracted = user data encoded, any previous buffer content). Tie: differential of the real link_layer.c + serial_transceiver_ft_1_2.c over the simulated serial port vs Iec.Link101 incl. the 261-octet shared buffer, with corrupted / truncated / random frames; model-free frame-format oracle.",
             note="Trusted: Lean kernel + standard axioms; hand-written model Iec.Link101 tied by the differential; stub application layers. Observation outside the statement's list: second start octet and end octet 16 are not checked by the library (a frame with only those damaged is accepted) - recorded in DESIGN.md, not claimed as violation.", technique="Lean 4 proof (well-formedness by construction + parser soundness + round trip) + differential correspondence", design="6 C14"),
 "C15": dict(text="Lean: secU_repeat_not_delivered, secU_new_frame_delivered_once, secU_twice_once, secU_reset_restarts, secU_repeated_poll (unbalanced slave); bal_repeat, bal_reset_restarts (balanced secondary: a repetition is never delivered and is ACKed again iff the original was); priU_new_frame, priU_repeat, priU_repetition_identical, priU_gives_up, priU_reset_restarts(+_sm), priU_ack_of_reset_keeps_fcb (unbalanced master); bal_new_frame, bal_repeat_identical, bal_reset_restarts_fcb (balanced primary). Tie: same differential as C14 + model-free oracles (FCB of successive FCV frames per destination, identical repetition, FCB=1 after reset, no duplicate delivery, repeated request gets the previous response). Five genuine defects found by these oracles and repaired.",
             note="Trusted: as C14. Partial: theorems are per step (transition lemmas and two-step corollaries), not one invariant over arbitrary loss patterns; the loss patterns themselves are exercised by the differential and by C16's end-to-end harness.", technique="Lean 4 proof (transition lemmas of the link-layer state machines) + differential correspondence + oracles", design="6 C15"),
})

NOT_YET = "not claimed yet in this round: the Lean model/theorems and the correspondence harness for this property are still being built (see DESIGN.md section 10 for the order); no other technique is substituted"

checks = []
for pid, c in CLAIMED.items():
    checks.append({
        "property_id": pid,
        "quick_cmd": "./check %s --tier quick" % pid,
        "thorough_cmd": "./check %s --tier thorough" % pid,
        "evidence_file": "/verif/evidence/%s.json" % pid,
        "replay_cmd_template": "./check %s --replay {path}" % pid,
        "engine": "lean-proof+correspondence",
        "level_claimed": {"category": "proof", "text": c["text"], "design_ref": c["design"]},
        "level_note": c["note"],
        "technique": c["technique"],
    })
manifest = {
 "version": 1,
 "setup_cmd": "cd /verif/lean && lake build Iec iecdrv",
 "hooks": {
   "guard": "MZ_AUTOMATION_LIB60870_VERIF",
   "enable": "harnesses are compiled by ./check with -DMZ_AUTOMATION_LIB60870_VERIF from /repo's working tree; no hook exists in /repo so far (harnesses #include the .c files to reach statics)",
   "baseline_off_cmd": "cmake --build /repo/_build && ctest --test-dir /repo/_build -j8 --timeout 900",
   "source_commits": [],
   "add_only": True,
 },
 "engines": [
   {"name": "lean", "path": "lean/", "serves_properties": sorted(CLAIMED), "kind_free_text": "Lake project Iec: Model (executable, core-only), Lemmas, Props (one file per property), Gen (regenerated facts), iecdrv line-protocol driver"},
   {"name": "harness", "path": "harness/", "serves_properties": sorted(CLAIMED), "kind_free_text": "C harnesses running the real code in-process under ASan/UBSan; simulated HAL; property oracles used as failing-input search"},
   {"name": "check", "path": "check, vlib/, checks/", "serves_properties": sorted(CLAIMED), "kind_free_text": "orchestrator: translate, lake build + axiom audit, differential run, search, known findings, evidence"},
 ],
 "checks": checks,
 "not_applicable": [{"property_id": pid, "reason": NOT_YET} for pid in sorted(props) if pid not in CLAIMED],
 "notes": "Technique family: machine-checked proof in Lean 4 with a checked tie to the source (translator and/or correspondence). See DESIGN.md.",
}
json.dump(manifest, open(os.path.join(ROOT, "MANIFEST.json"), "w"), indent=1)
print("claimed:", sorted(CLAIMED))
