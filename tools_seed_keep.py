#!/usr/bin/env python3
"""tools_seed_keep.py <PROP> <i> <seed-id> "<needs>" : store a confirmed seeded change under /verif/seeded/<seed-id>/
and run the property's quick check against it (apply to /repo, run, undo)."""
import json, os, shutil, subprocess, sys
P, i, sid, needs = sys.argv[1], sys.argv[2], sys.argv[3], sys.argv[4]
src = "/tmp/seedout_%s" % P
dst = "/verif/seeded/%s" % sid
os.makedirs(dst, exist_ok=True)
shutil.copy(os.path.join(src, "change%s.diff" % i), os.path.join(dst, "patch.diff"))
shutil.copy(os.path.join(src, "demo%s.c" % i), os.path.join(dst, "demo.c"))
meta_txt = open(os.path.join(src, "meta%s.txt" % i)).read() if os.path.exists(os.path.join(src, "meta%s.txt" % i)) else ""
confirm = [l for l in open(os.path.join(src, "confirm%s.txt" % i)).read().splitlines() if l.startswith("RESULT tests_ok")][-1]
subprocess.run(["git", "-C", "/repo", "apply", os.path.join(dst, "patch.diff")], check=True)
try:
    r = subprocess.run(["./check", P, "--tier", "quick"], cwd="/verif", capture_output=True, text=True)
finally:
    subprocess.run(["git", "-C", "/repo", "checkout", "--", "."], check=True)
viol = [l for l in r.stdout.splitlines() if l.startswith("VIOLATION")]
meta = {"property": P, "needs_to_manifest": needs, "author_notes": meta_txt[:3000],
        "confirmed_in_scratch_worktree": confirm,
        "what_i_ran": "tools_seed_confirm.sh %s %s (apply, build, existing tests in a network namespace, demo with/without); then git -C /repo apply patch.diff; ./check %s --tier quick; git -C /repo checkout -- ." % (P, i, P),
        "check_exit": r.returncode, "check_violation_lines": viol[:4],
        "detected": r.returncode == 1 and bool(viol),
        "detected_with_failing_input": any("no-failing-input-found" not in v for v in viol)}
json.dump(meta, open(os.path.join(dst, "meta.json"), "w"), indent=1)
print(sid, "detected" if meta["detected"] else "MISSED", viol[:2])
