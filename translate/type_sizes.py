#!/usr/bin/env python3
"""translate/type_sizes.py <repo-src-dir> <out.lean>

Regenerates lean/Iec/Gen/TypeSizes.lean from the CURRENT source of cs101_information_objects.c: for every
information-object type the constants the C code itself uses -
  * the space guard of `<Type>_encode`:      int size = isSequence ? A : (parameters->sizeOfIOA + B);
  * the size test of `<Type>_getFromBuffer`: int minSize = startIndex + N;  [if (!isSequence) minSize += sizeOfIOA;]
                                         or: int minSize = startIndex + parameters->sizeOfIOA + N;
(delegating functions are resolved to the function they call).  Lean then proves (`Iec.Props.C02.source_sizes_match_table`,
by kernel evaluation over the whole list) that these constants are the sizes of the model's layout table: a changed
constant in the C source breaks that proof on the next run, independently of the differential.
Fails (exit 2) when a function no longer has one of the expected shapes."""
import os, re, sys
sys.path.insert(0, os.path.dirname(os.path.abspath(__file__)))
import types_spec


def bodies(src, pattern):
    out = {}
    for m in re.finditer(pattern, src):
        name = m.group(1)
        i = src.index('{', m.end() - 1)
        depth, j = 0, i
        while True:
            if src[j] == '{':
                depth += 1
            elif src[j] == '}':
                depth -= 1
                if depth == 0:
                    break
            j += 1
        out[name] = src[i:j + 1]
    return out


def main():
    srcdir, outp = sys.argv[1], sys.argv[2]
    src = open(os.path.join(srcdir, "iec60870/cs101/cs101_information_objects.c")).read()
    # keyed by the type of `self` (one encoder is misspelt "PacketOutputCircuitInfo_encode")
    enc_by_self = bodies(src, r'\n\w+_encode\s*\(\s*(\w+)\s+self\s*,\s*Frame\s+frame\s*,\s*CS101_AppLayerParameters\s+parameters\s*,\s*bool\s+isSequence\s*\)\s*\{')
    enc = bodies(src, r'\n(\w+)_encode\s*\(\s*\w+\s+self\s*,\s*Frame\s+frame\s*,\s*CS101_AppLayerParameters\s+parameters\s*,\s*bool\s+isSequence\s*\)\s*\{')
    for k, v in enc_by_self.items():        # by function name first, by the type of `self` otherwise
        enc.setdefault(k, v)
    create = bodies(src, r'\n(\w+)_create\s*\([^)]*\)\s*\{')
    dec = bodies(src, r'\n(\w+)_getFromBuffer\s*\([^)]*\)\s*\{')

    def enc_of(name, depth=0):
        b = enc.get(name)
        if b is None and depth <= 3 and name in create:
            # no encoder of its own: the object is created (and therefore encoded) as another type
            m = re.search(r'=\s*(\w+)_create\s*\(\s*self\s*,', create[name])
            return enc_of(m.group(1), depth + 1) if m else None
        if b is None or depth > 3:
            return None
        m = re.search(r'int\s+size\s*=\s*isSequence\s*\?\s*(\d+)\s*:\s*\(\s*parameters->sizeOfIOA\s*\+\s*(\d+)\s*\)\s*;', b)
        if m:
            return int(m.group(1)), int(m.group(2)), False
        m = re.search(r'int\s+size\s*=\s*isSequence\s*\?\s*\(\s*(\d+)\s*\+\s*self->los\s*\)\s*:\s*\(\s*parameters->sizeOfIOA\s*\+\s*(\d+)\s*\+\s*self->los\s*\)\s*;', b)
        if m:
            return int(m.group(1)), int(m.group(2)), True          # plus the segment length
        m = re.search(r'return\s+(\w+)_encode\s*\(', b)
        if m:
            return enc_of(m.group(1), depth + 1)
        return None

    def dec_of(name, depth=0):
        b = dec.get(name)
        if b is None or depth > 3:
            return None
        m = re.search(r'int\s+minSize\s*=\s*startIndex\s*\+\s*(\d+)\s*;', b)
        if m:
            cond = bool(re.search(r'if\s*\(\s*!\s*isSequence\s*\)\s*minSize\s*\+=\s*parameters->sizeOfIOA\s*;', b))
            if not cond:
                return None
            return int(m.group(1)), True                               # IOA only when not a sequence
        m = re.search(r'int\s+minSize\s*=\s*startIndex\s*\+\s*parameters->sizeOfIOA\s*\+\s*(\d+)\s*;', b)
        if m:
            return int(m.group(1)), False                              # IOA always
        m = re.search(r'=\s*(\w+)_getFromBuffer\s*\(\s*self\s*,\s*parameters\s*,\s*msg\s*,\s*msgSize\s*,\s*startIndex\s*,\s*false\s*\)', b)
        if m:
            r = dec_of(m.group(1), depth + 1)
            return (r[0], False) if r else None
        return None

    rows, bad = [], []
    for t in types_spec.TYPES:
        e = types_spec.entry(t)
        en, de = enc_of(e["cname"]), dec_of(e["cname"])
        if en is None:
            bad.append(e["cname"] + "_encode")
        if de is None:
            bad.append(e["cname"] + "_getFromBuffer")
        if en and de:
            rows.append((e["tid"], e["tname"], en[0], en[1], en[2], de[0], de[1]))
    if bad:
        sys.stderr.write("type_sizes.py: these functions no longer have a recognised shape: " + ", ".join(bad) + "\n")
        return 2
    with open(outp, "w") as f:
        f.write("/- GENERATED on every run by translate/type_sizes.py from lib60870-C/src/iec60870/cs101/cs101_information_objects.c; do not edit. -/\n")
        f.write("namespace Iec.Gen\n\n")
        f.write("/-- what the C source says about one type: space guard of the encoder (sequence element / with object address,\n")
        f.write("`encVar`: plus the segment length), size test of the decoder (`decSeqCond`: the object address is counted only\n")
        f.write("when the element is not part of a sequence) -/\n")
        f.write("structure SrcSize where\n  typeId : Nat\n  name : String\n  encSeq : Nat\n  encIoa : Nat\n  encVar : Bool\n  decMin : Nat\n  decSeqCond : Bool\n  deriving Repr, DecidableEq\n\n")
        f.write("def srcSizes : List SrcSize := [\n")
        f.write(",\n".join('  { typeId := %d, name := "%s", encSeq := %d, encIoa := %d, encVar := %s, decMin := %d, decSeqCond := %s }'
                           % (r[0], r[1], r[2], r[3], "true" if r[4] else "false", r[5], "true" if r[6] else "false") for r in rows))
        f.write("\n]\n\nend Iec.Gen\n")
    print("type_sizes.py: %d types" % len(rows))
    return 0


if __name__ == "__main__":
    sys.exit(main())
