#!/usr/bin/env python3
"""Generates the C glue of the ASDU harness from /repo's headers + the layout table:
   for every type: a random constructor call (arguments typed from the public prototype
   parsed out of cs101_information_objects.h) and a dump of the stored struct members
   (member types parsed out of information_objects_internal.h).  Fails loudly when a
   prototype or struct no longer has a shape it understands (reported as a broken tie).
usage: gen_asdu.py <repo-src-dir> <out.inc>
"""
import os, re, sys
sys.path.insert(0, os.path.dirname(os.path.abspath(__file__)))
from types_spec import ENTRIES, STRUCT_OF, nvals


class GenError(Exception):
    pass


def strip_comments(t):
    t = re.sub(r"/\*.*?\*/", " ", t, flags=re.S)
    return re.sub(r"//[^\n]*", " ", t)


EX = set()


def parse_protos(hdr):
    flat = re.sub(r"\s+", " ", strip_comments(hdr))
    protos = {}
    for m in re.finditer(r"(\w+?)_create(Ex)? ?\(([^)]*)\)", flat):
        params = []
        if m.group(1) in protos and not m.group(2):
            continue          # keep the richer _createEx variant
        for p in m.group(3).split(","):
            p = p.strip()
            if not p or p == "void":
                continue
            mm = re.match(r"(.*?)(\w+)$", p)
            params.append((mm.group(1).strip().replace("const ", "").strip(), mm.group(2)))
        protos[m.group(1)] = params
        if m.group(2):
            EX.add(m.group(1))
    return protos


def parse_structs(hdr):
    flat = strip_comments(hdr)
    structs = {}
    for m in re.finditer(r"struct s(\w+)\s*\{(.*?)\};", flat, flags=re.S):
        members = {}
        for d in m.group(2).split(";"):
            d = " ".join(d.split())
            if not d:
                continue
            mm = re.match(r"(.*?)\s*(\*?)(\w+)(\[(\d+)\])?$", d)
            if not mm:
                raise GenError("cannot parse member `%s` of struct s%s" % (d, m.group(1)))
            members[mm.group(3)] = (mm.group(1).strip() + mm.group(2), int(mm.group(5)) if mm.group(5) else None)
        structs[m.group(1)] = members
    return structs


REC_SIZES = {"struct sCP16Time2a": 2, "struct sCP24Time2a": 3, "struct sCP32Time2a": 4, "struct sCP56Time2a": 7,
             "struct sBinaryCounterReading": 5, "tStatusAndStatusChangeDetection": 4}
INT_TYPES = {"bool", "uint8_t", "uint16_t", "uint32_t", "int", "QualityDescriptor", "QualityDescriptorP", "DoublePointValue",
             "tSingleEvent", "StartEvent", "OutputCircuitInfo", "QualifierOfRPC", "QualifierOfParameterActivation",
             "QualifierOfParameterMV", "QualifierOfCIC", "StepCommandValue"}


def dump_expr(structs, sname, cfield, kind, n):
    """C expression (unsigned long long) for a stored member, checked against the parsed struct"""
    base = cfield.split(".")[0]
    if sname not in structs or base not in structs[sname]:
        raise GenError("struct s%s has no member %s" % (sname, base))
    ctype, arr = structs[sname][base]
    if kind == "f32":
        if ctype != "float":
            raise GenError("s%s.%s is not float" % (sname, base))
        return "f32bits(o->%s)" % cfield
    if "." in cfield:
        if REC_SIZES.get(ctype) != n:
            raise GenError("s%s.%s: %s is not a %d-octet record" % (sname, base, ctype, n))
        return "leval(o->%s, %d)" % (cfield, n)
    if arr is not None:
        if arr != n or ctype != "uint8_t":
            raise GenError("s%s.%s: array size %s != %d" % (sname, base, arr, n))
        return "leval(o->%s, %d)" % (cfield, n)
    if ctype not in INT_TYPES:
        raise GenError("s%s.%s: unexpected type %s" % (sname, base, ctype))
    return "(unsigned long long)(o->%s)" % cfield


def arg_code(ptype, pname, k):
    """returns (declarations, argument expression) for one constructor parameter"""
    v = "a%d" % k
    if ptype == "bool":
        return "bool %s = prng_below(2);" % v, v
    if ptype == "float":
        if re.search(r"Normalized", CUR[0]):
            return "float %s = rnd_float(false);" % v, v
        return "float %s = rnd_float(true);" % v, v
    if ptype == "int":
        if pname in ("qu", "ql"):
            return "int %s = prng_below(4) ? prng_range(0, 31) : prng_range(0, 255);" % v, v
        if pname == "command":
            return "int %s = prng_range(0, 3);" % v, v
        if pname == "lengthOfFile":
            return "int %s = rnd_u(24);" % v, v
        return "int %s = rnd_int();" % v, v
    if ptype in ("uint32_t",):
        if pname.startswith("lengthOf"):
            return "uint32_t %s = rnd_u(24);" % v, v
        return "uint32_t %s = rnd_u(32);" % v, v
    if ptype == "uint16_t":
        return "uint16_t %s = rnd_u(16);" % v, v
    if ptype in ("uint8_t", "QualityDescriptor", "QualityDescriptorP", "StartEvent", "OutputCircuitInfo", "QualifierOfRPC",
                 "QualifierOfParameterActivation", "QualifierOfParameterMV", "QualifierOfCIC"):
        return "%s %s = (%s) rnd_u(8);" % (ptype, v, ptype), v
    if ptype in ("DoublePointValue", "StepCommandValue"):
        return "%s %s = (%s) prng_range(0, 3);" % (ptype, v, ptype), v
    recs = {"CP16Time2a": ("struct sCP16Time2a", 2), "CP24Time2a": ("struct sCP24Time2a", 3), "CP56Time2a": ("struct sCP56Time2a", 7),
            "BinaryCounterReading": ("struct sBinaryCounterReading", 5), "StatusAndStatusChangeDetection": ("tStatusAndStatusChangeDetection", 4)}
    if ptype in recs:
        st, n = recs[ptype]
        return "%s %s; rnd_bytes(%s.encodedValue, %d);" % (st, v, v, n), "&" + v
    if ptype == "SingleEvent":
        return "tSingleEvent %s = (tSingleEvent) rnd_u(8);" % v, "&" + v
    raise GenError("constructor %s: parameter type `%s %s` not understood" % (CUR[0], ptype, pname))


CUR = [""]


def generate(src):
    protos = parse_protos(open(os.path.join(src, "inc/api/cs101_information_objects.h")).read())
    structs = parse_structs(open(os.path.join(src, "inc/internal/information_objects_internal.h")).read())
    out = ["/* GENERATED by translate/gen_asdu.py from the repo headers and translate/types_spec.py */",
           "#define NTYPES %d" % len(ENTRIES),
           "static const TypeInfo TYPES[NTYPES] = {"]
    for e in ENTRIES:
        out.append('  { %d, "%s", "%s", %d, %d },' % (e["tid"], e["tname"], e["cname"],
                                                   {"seq": 0, "noseq": 1, "single": 2}[e["cat"]], nvals(e)))
    out.append("};")
    # create
    out.append("static InformationObject gen_create(int t, int ioa, int* ioa_used) {\n  *ioa_used = ioa;\n  switch (t) {")
    for i, e in enumerate(ENTRIES):
        c = e["cname"]
        CUR[0] = c
        if c not in protos:
            raise GenError("no prototype %s_create in cs101_information_objects.h" % c)
        params = protos[c]
        if not params or params[0][1] != "self":
            raise GenError("%s_create: first parameter is not self" % c)
        decls, args = [], ["NULL"]
        has_ioa = False
        k = 0
        rest = params[1:]
        j = 0
        while j < len(rest):
            pt, pn = rest[j]
            if pn == "ioa" and pt == "int":
                args.append("ioa"); has_ioa = True
            elif pt == "uint8_t*" and pn == "data":
                # FileSegment: data pointer + los
                decls.append("static uint8_t segdata[256]; rnd_bytes(segdata, 256); uint8_t los = rnd_los();")
                args.append("segdata")
                if j + 1 < len(rest) and rest[j + 1][1] == "los":
                    args.append("los"); j += 1
                else:
                    raise GenError("FileSegment_create: los does not follow data")
            else:
                d, a = arg_code(pt, pn, k); k += 1
                decls.append(d); args.append(a)
            j += 1
        out.append("  case %d: { %s %s return (InformationObject) %s_create%s(%s); }" %
                   (i, "" if has_ioa else "*ioa_used = 0;", " ".join(decls), c, "Ex" if c in EX else "", ", ".join(args)))
    out.append("  }\n  return NULL;\n}")
    # dump
    out.append("static void gen_dump(int t, InformationObject io, char* buf) {\n  char* p = buf; *p = 0;\n  switch (t) {")
    for i, e in enumerate(ENTRIES):
        sname = STRUCT_OF.get(e["cname"], e["cname"])
        exprs = []
        for f in e["fields"]:
            if f[0] == "le":
                exprs.append(("%llu", dump_expr(structs, sname, f[1], "le", f[2])))
            elif f[0] == "f32":
                exprs.append(("%llu", dump_expr(structs, sname, f[1], "f32", 4)))
            elif f[0] == "packed":
                for cf, _ in f[1]:
                    exprs.append(("%llu", dump_expr(structs, sname, cf, "le", 1)))
            elif f[0] == "seg":
                exprs.append(("%llu", dump_expr(structs, sname, f[1], "le", 1)))
                exprs.append(("%s", "bigle(o->%s, o->%s)" % (f[2], f[1])))
        if exprs:
            fmt = ",".join(x for x, _ in exprs)
            out.append('  case %d: { struct s%s* o = (struct s%s*) io; p += sprintf(p, "%s", %s); break; }' %
                       (i, sname, sname, fmt, ", ".join(y for _, y in exprs)))
        else:
            out.append("  case %d: break;" % i)
    out.append("  }\n  if (p == buf) strcpy(buf, \"-\");\n}")
    return "\n".join(out) + "\n"


if __name__ == "__main__":
    try:
        txt = generate(sys.argv[1])
    except GenError as e:
        print("GENERROR: %s" % e)
        sys.exit(3)
    open(sys.argv[2], "w").write(txt)
