#!/usr/bin/env python3
"""
Lock-skeleton translator (property C17).

Reads the *current* /repo sources of the files that use semaphores through
clang's typed JSON AST and regenerates lean/Iec/Gen/LockSkel.lean: one
`Stmt` skeleton per function, keeping only what matters for lock discipline:

  wait L / post L      Semaphore_wait / Semaphore_post on lock class L
                        (L = "<static type of the owning object>.<field>")
  call f               call of another function defined in the analysed files
  cb                   call through an application callback pointer
  ret brk cont goto label, seq, choice (if / switch / ?: / && ||), loop

One-statement wrappers (CS101_Queue_lock / _unlock) are inlined at their call
sites.  Indirect calls through a struct field that the analysed files assign
an analysed function to (the IMasterConnection method table) become a choice
between those functions; every other indirect call is an application callback.

Everything that is *decided* about the skeletons (balance on every path, no
post of a lock not held, lock-order relation acyclic) is decided in Lean
(`Iec.Model.Locks`, `Iec.Props.C17`); this script only transcribes syntax.
"""
import json, os, subprocess, sys, hashlib

REPO = os.environ.get("VERIF_REPO", "/repo")
SRC = REPO + "/lib60870-C/src"
FILES = [
    "iec60870/cs104/cs104_slave.c",
    "iec60870/cs104/cs104_connection.c",
    "iec60870/cs101/cs101_queue.c",
    "iec60870/cs101/cs101_slave.c",
    "iec60870/cs101/cs101_master.c",
    "iec60870/cs101/cs101_master_connection.c",
]
INC = ["-I" + REPO + "/lib60870-C/config"] + ["-I" + SRC + "/" + d for d in
      ("inc/api", "inc/internal", "common/inc", "hal/inc", "file-service", "hal/tls")]


def ast_of(path):
    p = subprocess.run(["clang-14", "-fsyntax-only", "-w", "-Xclang", "-ast-dump=json"] + INC + [path],
                       stdout=subprocess.PIPE, stderr=subprocess.PIPE)
    if p.returncode != 0:
        sys.stderr.write(p.stderr.decode()[:2000])
        raise SystemExit("clang failed on " + path)
    return json.loads(p.stdout)


def strip(e):
    while e.get("kind") in ("ImplicitCastExpr", "ParenExpr", "CStyleCastExpr", "ConstantExpr") and e.get("inner"):
        e = e["inner"][-1]
    return e


def clean_type(t):
    t = t.replace("struct ", "").replace("const ", "").replace("*", "").strip()
    if t.startswith("s") and len(t) > 1 and t[1].isupper():
        t = t[1:]
    return t


def lock_name(e):
    e = strip(e)
    if e.get("kind") == "MemberExpr":
        base = strip(e["inner"][0])
        return clean_type(base.get("type", {}).get("qualType", "?")) + "." + e["name"]
    if e.get("kind") == "DeclRefExpr":
        return "var." + e["referencedDecl"]["name"]
    return "expr?"


class Tr:
    def __init__(self):
        self.funcs = {}        # name -> skeleton (tuple tree)
        self.public = set()
        self.assign = {}       # field name -> set(function names) assigned to it
        self.entries = set()   # functions started as threads
        self.thread_field = {} # struct field holding a Thread -> entry functions stored there
        self.rename = {}       # per file: local function name -> unique name

    # ---- skeleton constructors (tuples) ----
    @staticmethod
    def seq(xs):
        xs = [x for x in xs if x != ("skip",)]
        if not xs:
            return ("skip",)
        r = xs[-1]
        for x in reversed(xs[:-1]):
            r = ("seq", x, r)
        return r

    @staticmethod
    def choice(a, b):
        if a == ("skip",) and b == ("skip",):
            return ("skip",)
        return ("choice", a, b)

    def expr(self, e):
        """skeleton of the calls inside an expression, in evaluation order"""
        if not isinstance(e, dict) or not e:
            return ("skip",)
        k = e.get("kind")
        if k == "CallExpr":
            callee = strip(e["inner"][0])
            args = [self.expr(a) for a in e["inner"][1:]]
            pre = self.expr(e["inner"][0]) if callee.get("kind") != "DeclRefExpr" else ("skip",)
            if callee.get("kind") == "DeclRefExpr" and callee.get("referencedDecl", {}).get("kind") == "FunctionDecl":
                name = callee["referencedDecl"]["name"]
                name = self.rename.get(name, name)
                if name == "Semaphore_wait":
                    return ("wait", lock_name(e["inner"][1]))
                if name == "Semaphore_post":
                    return ("post", lock_name(e["inner"][1]))
                if name == "Thread_destroy":
                    a = strip(e["inner"][1])
                    return ("join", a["name"] if a.get("kind") == "MemberExpr" else "?")
                if name == "Thread_create":
                    fn = strip(e["inner"][1])
                    if fn.get("kind") == "DeclRefExpr":
                        n2 = fn["referencedDecl"]["name"]
                        self.entries.add(self.rename.get(n2, n2))
                        self.last_created = self.rename.get(n2, n2)
                    return ("skip",)
                return self.seq(args + [("call", name)])
            # indirect call
            if callee.get("kind") == "MemberExpr":
                return self.seq([pre] + args + [("icall", callee["name"])])
            return self.seq([pre] + args + [("cb", "<pointer>")])
        if k == "BinaryOperator" and e.get("opcode") in ("&&", "||"):
            return self.seq([self.expr(e["inner"][0]), self.choice(self.expr(e["inner"][1]), ("skip",))])
        if k == "ConditionalOperator":
            c, a, b = e["inner"]
            return self.seq([self.expr(c), self.choice(self.expr(a), self.expr(b))])
        if k == "BinaryOperator" and e.get("opcode") == "=":
            lhs, rhs = e["inner"]
            l = strip(lhs)
            r = strip(rhs)
            if l.get("kind") == "MemberExpr" and r.get("kind") == "CallExpr":
                c = strip(r["inner"][0])
                if c.get("kind") == "DeclRefExpr" and c.get("referencedDecl", {}).get("name") == "Thread_create":
                    fn = strip(r["inner"][1])
                    if fn.get("kind") == "DeclRefExpr":
                        n2 = fn["referencedDecl"]["name"]
                        self.thread_field.setdefault(l["name"], set()).add(self.rename.get(n2, n2))
            if l.get("kind") == "MemberExpr" and r.get("kind") == "DeclRefExpr" and \
                    r.get("referencedDecl", {}).get("kind") == "FunctionDecl":
                fn = r["referencedDecl"]["name"]
                self.assign.setdefault(l["name"], set()).add(self.rename.get(fn, fn))
        if k == "InitListExpr":
            pass
        return self.seq([self.expr(c) for c in e.get("inner", [])])

    def stmt(self, s):
        if not isinstance(s, dict) or not s:
            return ("skip",)
        k = s.get("kind")
        inner = s.get("inner", [])
        if k == "CompoundStmt":
            return self.seq([self.stmt(c) for c in inner])
        if k == "IfStmt":
            c, t = inner[0], inner[1]
            el = inner[2] if len(inner) > 2 else {}
            return self.seq([self.expr(c), self.choice(self.stmt(t), self.stmt(el))])
        if k == "WhileStmt":
            c, b = inner[0], inner[1]
            return ("loop", self.seq([self.expr(c), self.stmt(b)]), ("skip",))
        if k == "DoStmt":
            b, c = inner[0], inner[1]
            return ("loop", self.stmt(b), self.expr(c))
        if k == "ForStmt":
            init, _cv, c, inc, b = inner
            return self.seq([self.stmt(init), ("loop", self.seq([self.expr(c), self.stmt(b)]), self.expr(inc))])
        if k == "SwitchStmt":
            c, body = inner[0], inner[-1]
            items = []      # (is_label, is_default, skeleton)

            def flat(x):
                if x.get("kind") == "CaseStmt":
                    items.append(("L", False))
                    flat(x["inner"][-1])
                elif x.get("kind") == "DefaultStmt":
                    items.append(("L", True))
                    flat(x["inner"][-1])
                else:
                    items.append(("S", self.stmt(x)))
            for x in (body.get("inner", []) if body.get("kind") == "CompoundStmt" else [body]):
                flat(x)
            alts = []
            has_default = any(i[0] == "L" and i[1] for i in items)
            for idx, it in enumerate(items):
                if it[0] == "L" and (idx + 1 >= len(items) or items[idx + 1][0] != "L" or True):
                    suffix = self.seq([j[1] for j in items[idx + 1:] if j[0] == "S"])
                    if suffix not in alts:
                        alts.append(suffix)
            if not has_default and ("skip",) not in alts:
                alts.append(("skip",))
            r = alts[-1] if alts else ("skip",)
            for a in reversed(alts[:-1]):
                r = ("choice", a, r)
            return self.seq([self.expr(c), ("catch", r)])
        if k == "BreakStmt":
            return ("brk",)
        if k == "ContinueStmt":
            return ("cont",)
        if k == "ReturnStmt":
            return self.seq([self.expr(inner[0]) if inner else ("skip",), ("ret",)])
        if k == "GotoStmt":
            return ("goto", s["targetLabelDeclId"])
        if k == "LabelStmt":
            return self.seq([("label", s["declId"]), self.stmt(inner[0]) if inner else ("skip",)])
        if k == "DeclStmt":
            out = []
            for d in inner:
                if d.get("kind") == "VarDecl":
                    for c in d.get("inner", []):
                        out.append(self.expr(c))
            return self.seq(out)
        if k in ("NullStmt",):
            return ("skip",)
        if k in ("CaseStmt", "DefaultStmt"):
            return self.stmt(inner[-1])
        return self.expr(s)

    def add_file(self, path):
        ast = ast_of(path)
        defs = []
        self.rename = {}
        for n in ast["inner"]:
            if n.get("kind") != "FunctionDecl" or n["name"].startswith("__"):
                continue
            body = [c for c in n.get("inner", []) if c.get("kind") == "CompoundStmt"]
            if not body:
                continue
            name = n["name"]
            if name in self.funcs:
                # two static functions of the same name in different files
                self.rename[name] = name + "@" + os.path.basename(path)
            defs.append((n, body[0]))
        for n, body in defs:
            name = self.rename.get(n["name"], n["name"])
            self.funcs[name] = self.stmt(body)
            if n.get("storageClass") != "static":
                self.public.add(name)


def resolve(tr):
    """inline wrappers, resolve icall, drop calls to irrelevant functions, number labels"""
    funcs = tr.funcs
    wrappers = {f: s for f, s in funcs.items() if s[0] in ("wait", "post")}

    def res1(s):
        t = s[0]
        if t == "call":
            if s[1] in wrappers:
                return wrappers[s[1]]
            return s if s[1] in funcs else ("skip",)
        if t == "join":
            targets = sorted(f for f in (tr.thread_field.get(s[1]) or tr.entries) if f in funcs)
            if not targets:
                return ("skip",)
            r = ("joinf", targets[-1])
            for f in reversed(targets[:-1]):
                r = ("choice", ("joinf", f), r)
            return r
        if t == "icall":
            targets = sorted(f for f in tr.assign.get(s[1], ()) if f in funcs)
            if not targets:
                return ("cb", s[1])
            r = ("call", targets[-1])
            for f in reversed(targets[:-1]):
                r = ("choice", ("call", f), r)
            return r
        if t in ("seq", "choice", "loop"):
            a, b = res1(s[1]), res1(s[2])
            if t == "seq":
                return Tr.seq([a, b])
            if t == "choice":
                return Tr.choice(a, b)
            if a == ("skip",) and b == ("skip",):
                return ("skip",)
            return ("loop", a, b)
        if t == "catch":
            a = res1(s[1])
            return ("skip",) if a == ("skip",) else ("catch", a)
        return s
    funcs = {f: res1(s) for f, s in funcs.items() if f not in wrappers}

    # relevance: contains wait/post/cb, or calls a relevant function
    def atoms(s, acc):
        if s[0] in ("seq", "choice", "loop"):
            atoms(s[1], acc); atoms(s[2], acc)
        elif s[0] == "catch":
            atoms(s[1], acc)
        else:
            acc.append(s)
        return acc
    rel = {f for f, s in funcs.items() if any(a[0] in ("wait", "post", "cb", "joinf") for a in atoms(s, []))}
    changed = True
    while changed:
        changed = False
        for f, s in funcs.items():
            if f not in rel and any(a[0] == "call" and a[1] in rel for a in atoms(s, [])):
                rel.add(f); changed = True

    def prune(s):
        t = s[0]
        if t == "call":
            return s if s[1] in rel else ("skip",)
        if t == "joinf":
            return s if s[1] in rel else ("skip",)
        if t in ("seq", "choice", "loop"):
            a, b = prune(s[1]), prune(s[2])
            if t == "seq":
                return Tr.seq([a, b])
            if t == "choice":
                return Tr.choice(a, b)
            if a == ("skip",) and b == ("skip",):
                return ("skip",)
            return ("loop", a, b)
        if t == "catch":
            a = prune(s[1])
            return ("skip",) if a == ("skip",) else ("catch", a)
        return s
    return {f: prune(funcs[f]) for f in sorted(rel)}, rel


def emit(funcs, public, entries, out_path, digest):
    names = sorted(funcs)
    fidx = {f: i for i, f in enumerate(names)}
    locks = []
    labels = {}

    cbs = []

    def cbi(c):
        if c not in cbs:
            cbs.append(c)
        return cbs.index(c)

    def lk(l):
        if l not in locks:
            locks.append(l)
        return locks.index(l)

    def go(s):
        t = s[0]
        if t == "skip": return ".skip"
        if t == "wait": return "(.wait %d)" % lk(s[1])
        if t == "post": return "(.post %d)" % lk(s[1])
        if t == "call": return "(.call %d)" % fidx[s[1]]
        if t == "cb": return "(.cb %d)" % cbi(s[1])
        if t == "joinf": return "(.join %d)" % fidx[s[1]]
        if t == "ret": return ".ret"
        if t == "brk": return ".brk"
        if t == "cont": return ".cont"
        if t == "goto": return "(.goto %d)" % labels.setdefault(s[1], len(labels))
        if t == "label": return "(.label %d)" % labels.setdefault(s[1], len(labels))
        if t == "seq": return "(.seq %s %s)" % (go(s[1]), go(s[2]))
        if t == "choice": return "(.choice %s %s)" % (go(s[1]), go(s[2]))
        if t == "loop": return "(.loop %s %s)" % (go(s[1]), go(s[2]))
        if t == "catch": return "(.catch %s)" % go(s[1])
        raise ValueError(s)
    # collect lock names in a deterministic order first
    def collect(s):
        if s[0] in ("wait", "post"):
            lk(s[1])
        elif s[0] == "cb":
            cbi(s[1])
        elif s[0] in ("seq", "choice", "loop"):
            collect(s[1]); collect(s[2])
        elif s[0] == "catch":
            collect(s[1])
    for f in names:
        collect(funcs[f])
    locks.sort()
    cbs.sort()
    lines = ["/- GENERATED by translate/locks.py from the current /repo sources — do not edit.",
             "   source digest: " + digest + " -/",
             "import Iec.Model.Locks",
             "namespace Iec.Gen.LockSkel",
             "open Iec.Locks",
             "",
             "def lockNames : List String := [" + ", ".join('"%s"' % l for l in locks) + "]",
             "def cbNames : List String := [" + ", ".join('"%s"' % c for c in cbs) + "]",
             "def funcNames : List String := [" + ", ".join('"%s"' % f for f in names) + "]",
             "def threadEntries : List Nat := [" + ", ".join(str(fidx[f]) for f in names if f in entries) + "]",
             "def publicFuncs : List Nat := [" + ", ".join(str(fidx[f]) for f in names if f in public) + "]",
             ""]
    for f in names:
        labels.clear()
        lines.append("/-- `%s` -/" % f)
        lines.append("def f%d : Stmt := %s" % (fidx[f], go(funcs[f])))
    lines.append("")
    lines.append("def skeletons : List Stmt := [" + ", ".join("f%d" % i for i in range(len(names))) + "]")
    lines.append("")
    lines.append("end Iec.Gen.LockSkel")
    txt = "\n".join(lines) + "\n"
    old = open(out_path).read() if os.path.exists(out_path) else None
    if old != txt:
        os.makedirs(os.path.dirname(out_path), exist_ok=True)
        with open(out_path, "w") as fh:
            fh.write(txt)
    return names, locks, cbs


def main():
    out = sys.argv[1] if len(sys.argv) > 1 else os.path.join(os.path.dirname(__file__), "..", "lean", "Iec", "Gen", "LockSkel.lean")
    tr = Tr()
    h = hashlib.sha256()
    for f in FILES:
        h.update(open(SRC + "/" + f, "rb").read())
        tr.add_file(SRC + "/" + f)
    funcs, rel = resolve(tr)
    names, locks, cbs = emit(funcs, tr.public, tr.entries, out, h.hexdigest()[:16])
    json.dump({"functions": len(tr.funcs), "relevant": len(names), "locks": locks, "callbacks": cbs, "thread_entries": sorted(tr.entries),
               "public_relevant": sorted(f for f in names if f in tr.public),
               "method_table": {k: sorted(v) for k, v in tr.assign.items()}},
              sys.stdout, indent=1)
    print()


if __name__ == "__main__":
    main()
