"""Hand-written wire layout of every supported ASDU type (the model's type table).

One entry per type: (typeId, TypeID name, C struct/constructor name, category, fields)
  category: "seq"    element dispatch has a sequence (SQ=1) branch, offset i*(IOA+size) / IOA+i*size
            "noseq"  element size IOA+n, offset i*(IOA+n), SQ bit ignored by the decoder
            "single" decoder always called with start index 0 (the index is ignored)
  fields (wire order):
    ("le", cfield, n)        n octets little endian; cfield is an integer / enum / uint8_t[n] / CPxxTime2a /
                             BCR / SCD member (arrays and sub-records are read as little-endian numbers)
    ("f32", cfield)          IEEE binary32 stored as float, 4 octets on the wire (bit pattern)
    ("packed", [(cfield, mask), ...])   one octet holding several stored members, each = octet & mask
    ("seg", losfield, datafield)        F_SG_NA_1: one length octet followed by that many data octets
  guard_extra: how many octets more than it emits the encoder's space guard asks for
This table generates lean/Iec/Model/TypeTable.lean (committed) and, together with the
prototypes and struct definitions parsed from /repo on every run, the C harness glue.
"""

def T3(f="timestamp"): return ("le", f + ".encodedValue", 3)
def T7(f="timestamp"): return ("le", f + ".encodedValue", 7)
def U8(f): return ("le", f, 1)
SIQ = ("packed", [("value", 0x01), ("quality", 0xf0)])
DIQ = ("packed", [("value", 0x03), ("quality", 0xf0)])
NOF = ("le", "nof", 2)
EV2 = ("le", "encodedValue", 2)

TYPES = [
 (1, "M_SP_NA_1", "SinglePointInformation", "seq", [SIQ]),
 (2, "M_SP_TA_1", "SinglePointWithCP24Time2a", "seq", [SIQ, T3()]),
 (3, "M_DP_NA_1", "DoublePointInformation", "seq", [DIQ]),
 (4, "M_DP_TA_1", "DoublePointWithCP24Time2a", "seq", [DIQ, T3()]),
 (5, "M_ST_NA_1", "StepPositionInformation", "seq", [U8("vti"), U8("quality")]),
 (6, "M_ST_TA_1", "StepPositionWithCP24Time2a", "seq", [U8("vti"), U8("quality"), T3()]),
 (7, "M_BO_NA_1", "BitString32", "seq", [("le", "value", 4), U8("quality")]),
 (8, "M_BO_TA_1", "Bitstring32WithCP24Time2a", "seq", [("le", "value", 4), U8("quality"), T3()]),
 (9, "M_ME_NA_1", "MeasuredValueNormalized", "seq", [EV2, U8("quality")]),
 (10, "M_ME_TA_1", "MeasuredValueNormalizedWithCP24Time2a", "seq", [EV2, U8("quality"), T3()]),
 (11, "M_ME_NB_1", "MeasuredValueScaled", "seq", [EV2, U8("quality")]),
 (12, "M_ME_TB_1", "MeasuredValueScaledWithCP24Time2a", "seq", [EV2, U8("quality"), T3()]),
 (13, "M_ME_NC_1", "MeasuredValueShort", "seq", [("f32", "value"), U8("quality")]),
 (14, "M_ME_TC_1", "MeasuredValueShortWithCP24Time2a", "seq", [("f32", "value"), U8("quality"), T3()]),
 (15, "M_IT_NA_1", "IntegratedTotals", "seq", [("le", "totals.encodedValue", 5)]),
 (16, "M_IT_TA_1", "IntegratedTotalsWithCP24Time2a", "seq", [("le", "totals.encodedValue", 5), T3()]),
 (17, "M_EP_TA_1", "EventOfProtectionEquipment", "seq", [U8("event"), ("le", "elapsedTime.encodedValue", 2), T3()]),
 (18, "M_EP_TB_1", "PackedStartEventsOfProtectionEquipment", "seq", [U8("event"), U8("qdp"), ("le", "elapsedTime.encodedValue", 2), T3()]),
 (19, "M_EP_TC_1", "PackedOutputCircuitInfo", "seq", [U8("oci"), U8("qdp"), ("le", "operatingTime.encodedValue", 2), T3()]),
 (20, "M_PS_NA_1", "PackedSinglePointWithSCD", "seq", [("le", "scd.encodedValue", 4), U8("qds")]),
 (21, "M_ME_ND_1", "MeasuredValueNormalizedWithoutQuality", "seq", [EV2]),
 (30, "M_SP_TB_1", "SinglePointWithCP56Time2a", "seq", [SIQ, T7()]),
 (31, "M_DP_TB_1", "DoublePointWithCP56Time2a", "seq", [DIQ, T7()]),
 (32, "M_ST_TB_1", "StepPositionWithCP56Time2a", "seq", [U8("vti"), U8("quality"), T7()]),
 (33, "M_BO_TB_1", "Bitstring32WithCP56Time2a", "seq", [("le", "value", 4), U8("quality"), T7()]),
 (34, "M_ME_TD_1", "MeasuredValueNormalizedWithCP56Time2a", "seq", [EV2, U8("quality"), T7()]),
 (35, "M_ME_TE_1", "MeasuredValueScaledWithCP56Time2a", "seq", [EV2, U8("quality"), T7()]),
 (36, "M_ME_TF_1", "MeasuredValueShortWithCP56Time2a", "seq", [("f32", "value"), U8("quality"), T7()]),
 (37, "M_IT_TB_1", "IntegratedTotalsWithCP56Time2a", "seq", [("le", "totals.encodedValue", 5), T7()]),
 (38, "M_EP_TD_1", "EventOfProtectionEquipmentWithCP56Time2a", "seq", [U8("event"), ("le", "elapsedTime.encodedValue", 2), T7()]),
 (39, "M_EP_TE_1", "PackedStartEventsOfProtectionEquipmentWithCP56Time2a", "seq", [U8("event"), U8("qdp"), ("le", "elapsedTime.encodedValue", 2), T7()]),
 (40, "M_EP_TF_1", "PackedOutputCircuitInfoWithCP56Time2a", "seq", [U8("oci"), U8("qdp"), ("le", "operatingTime.encodedValue", 2), T7()]),
 (45, "C_SC_NA_1", "SingleCommand", "noseq", [U8("sco")]),
 (46, "C_DC_NA_1", "DoubleCommand", "noseq", [U8("dcq")]),
 (47, "C_RC_NA_1", "StepCommand", "noseq", [U8("dcq")]),
 (48, "C_SE_NA_1", "SetpointCommandNormalized", "noseq", [EV2, U8("qos")]),
 (49, "C_SE_NB_1", "SetpointCommandScaled", "noseq", [EV2, U8("qos")]),
 (50, "C_SE_NC_1", "SetpointCommandShort", "noseq", [("f32", "value"), U8("qos")]),
 (51, "C_BO_NA_1", "Bitstring32Command", "noseq", [("le", "value", 4)], 1),
 (58, "C_SC_TA_1", "SingleCommandWithCP56Time2a", "noseq", [U8("sco"), T7()]),
 (59, "C_DC_TA_1", "DoubleCommandWithCP56Time2a", "noseq", [U8("dcq"), T7()]),
 (60, "C_RC_TA_1", "StepCommandWithCP56Time2a", "noseq", [U8("dcq"), T7()]),
 (61, "C_SE_TA_1", "SetpointCommandNormalizedWithCP56Time2a", "noseq", [EV2, U8("qos"), T7()]),
 (62, "C_SE_TB_1", "SetpointCommandScaledWithCP56Time2a", "noseq", [EV2, U8("qos"), T7()]),
 (63, "C_SE_TC_1", "SetpointCommandShortWithCP56Time2a", "noseq", [("f32", "value"), U8("qos"), T7()]),
 (64, "C_BO_TA_1", "Bitstring32CommandWithCP56Time2a", "noseq", [("le", "value", 4), T7()], 1),
 (70, "M_EI_NA_1", "EndOfInitialization", "single", [U8("coi")]),
 (100, "C_IC_NA_1", "InterrogationCommand", "single", [U8("qoi")]),
 (101, "C_CI_NA_1", "CounterInterrogationCommand", "single", [U8("qcc")]),
 (102, "C_RD_NA_1", "ReadCommand", "single", []),
 (103, "C_CS_NA_1", "ClockSynchronizationCommand", "single", [T7()]),
 (104, "C_TS_NA_1", "TestCommand", "single", [U8("byte1"), U8("byte2")]),
 (105, "C_RP_NA_1", "ResetProcessCommand", "single", [U8("qrp")]),
 (106, "C_CD_NA_1", "DelayAcquisitionCommand", "single", [("le", "delay.encodedValue", 2)]),
 (107, "C_TS_TA_1", "TestCommandWithCP56Time2a", "single", [("le", "tsc", 2), T7()]),
 (110, "P_ME_NA_1", "ParameterNormalizedValue", "noseq", [EV2, U8("quality")]),
 (111, "P_ME_NB_1", "ParameterScaledValue", "noseq", [EV2, U8("quality")]),
 (112, "P_ME_NC_1", "ParameterFloatValue", "noseq", [("f32", "value"), U8("quality")]),
 (113, "P_AC_NA_1", "ParameterActivation", "noseq", [U8("qpa")]),
 (120, "F_FR_NA_1", "FileReady", "single", [NOF, ("le", "lengthOfFile", 3), U8("frq")]),
 (121, "F_SR_NA_1", "SectionReady", "single", [NOF, U8("nameOfSection"), ("le", "lengthOfSection", 3), U8("srq")]),
 (122, "F_SC_NA_1", "FileCallOrSelect", "single", [NOF, U8("nameOfSection"), U8("scq")]),
 (123, "F_LS_NA_1", "FileLastSegmentOrSection", "single", [NOF, U8("nameOfSection"), U8("lsq"), U8("chs")]),
 (124, "F_AF_NA_1", "FileACK", "single", [NOF, U8("nameOfSection"), U8("afq")]),
 (125, "F_SG_NA_1", "FileSegment", "single", [NOF, U8("nameOfSection"), ("seg", "los", "data")]),
 (126, "F_DR_TA_1", "FileDirectory", "seq", [NOF, ("le", "lengthOfFile", 3), U8("sof"), T7("creationTime")]),
 (127, "F_SC_NB_1", "QueryLog", "single", [NOF, T7("rangeStartTime"), T7("rangeStopTime")]),
]

# C struct that backs a constructor name when it is a typedef of another type's struct
STRUCT_OF = {"ParameterNormalizedValue": "MeasuredValueNormalized", "ParameterScaledValue": "MeasuredValueScaled",
             "ParameterFloatValue": "MeasuredValueShort"}


def entry(t):
    tid, tname, cname, cat, fields = t[:5]
    extra = t[5] if len(t) > 5 else 0
    return dict(tid=tid, tname=tname, cname=cname, cat=cat, fields=fields, guard_extra=extra)


ENTRIES = [entry(t) for t in TYPES]


def nvals(e):
    n = 0
    for f in e["fields"]:
        n += len(f[1]) if f[0] == "packed" else (2 if f[0] == "seg" else 1)
    return n


def lean_table():
    out = ["/- GENERATED by translate/types_spec.py from the hand-written layout table; do not edit. -/",
           "import Iec.Model.Layout", "namespace Iec.Asdu", "open Iec.Layout", "",
           "def typeTable : List TypeEntry := ["]
    rows = []
    for e in ENTRIES:
        fs = []
        for f in e["fields"]:
            if f[0] == "le":
                fs.append(".le %d" % f[2])
            elif f[0] == "f32":
                fs.append(".le 4")
            elif f[0] == "packed":
                fs.append(".siq" if f[1][0][1] == 1 else ".diq")
            else:
                fs.append(".seg")
        cat = {"seq": ".seq", "noseq": ".noseq", "single": ".single"}[e["cat"]]
        rows.append('  { typeId := %d, name := "%s", cat := %s, fields := [%s], guardExtra := %d }' %
                    (e["tid"], e["tname"], cat, ", ".join(fs), e["guard_extra"]))
    out.append(",\n".join(rows))
    out += ["]", "", "end Iec.Asdu", ""]
    return "\n".join(out)


if __name__ == "__main__":
    import os, sys
    p = os.path.join(os.path.dirname(os.path.dirname(os.path.abspath(__file__))), "lean", "Iec", "Model", "TypeTable.lean")
    open(p, "w").write(lean_table())
    print("wrote", p, len(ENTRIES), "types")
