/* translate/consts104.c - compiled and run on every check run: #includes the CURRENT cs104_slave.c and prints
 * lean/Iec/Gen/Consts104.lean: the layout constants the queue / reassembly / framing models rely on, as the compiler
 * sees them in the source (sizeof of the entry header, ring sizes as MessageQueue_create / HighPriorityASDUQueue_create
 * compute them, buffer sizes, the fixed U-format frames, configuration limits).  Lean proves they are the model's. */
#include <stdio.h>
#include <stdint.h>
#include "cs104_slave.c"
const char* __asan_default_options(void) { return "detect_leaks=0"; }

static void arr(const char* name, const uint8_t* a, int n)
{
    printf("def %s : List Nat := [", name);
    for (int i = 0; i < n; i++) printf("%s%u", i ? ", " : "", a[i]);
    printf("]\n");
}
int main(void)
{
    printf("/- GENERATED on every run by translate/consts104.c (compiled against the current cs104_slave.c); do not edit. -/\n");
    printf("namespace Iec.Gen\n\n");
    printf("def mqEntryHeader : Nat := %zu\n", sizeof(struct sMessageQueueEntryInfo));
    MessageQueue q1 = MessageQueue_create(1), q7 = MessageQueue_create(7);
    printf("def mqSize1 : Nat := %d\ndef mqSize7 : Nat := %d\n", q1->size, q7->size);
    HighPriorityASDUQueue h1 = HighPriorityASDUQueue_create(1), h5 = HighPriorityASDUQueue_create(5);
    printf("def hpSize1 : Nat := %d\ndef hpSize5 : Nat := %d\n", h1->size, h5->size);
    printf("def hpEntryHeader : Nat := %zu\n", sizeof(uint16_t));
    printf("def recvBufferSize : Nat := %zu\n", sizeof(((MasterConnection) 0)->recvBuffer));
    printf("def sendBufferSize : Nat := %zu\n", sizeof(((MasterConnection) 0)->sendBuffer));
    printf("def maxAsduLength : Nat := %d\ndef apciLength : Nat := %d\n", IEC60870_5_104_MAX_ASDU_LENGTH, IEC60870_5_104_APCI_LENGTH);
    printf("def maxClientConnections : Nat := %d\n", CONFIG_CS104_MAX_CLIENT_CONNECTIONS);
    arr("startdtCon", STARTDT_CON_MSG, sizeof STARTDT_CON_MSG);
    arr("stopdtCon", STOPDT_CON_MSG, sizeof STOPDT_CON_MSG);
    arr("testfrCon", TESTFR_CON_MSG, sizeof TESTFR_CON_MSG);
    arr("testfrAct", TESTFR_ACT_MSG, sizeof TESTFR_ACT_MSG);
    printf("\nend Iec.Gen\n");
    return 0;
}
