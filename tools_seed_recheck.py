#!/usr/bin/env python3
"""tools_seed_recheck.py [id-prefix ...] : re-run the property's quick check against every kept seeded change
(apply seeded/<id>/patch.diff to /repo, ./check, undo) and refresh the detection fields of its meta.json.
Do not run while anything else uses /repo."""
import json, os, subprocess, sys
ids = sorted(os.listdir("/verif/seeded"))
if len(sys.argv) > 1:
    ids = [i for i in ids if any(i.startswith(p) for p in sys.argv[1:])]
missed = []
for sid in ids:
    d = os.path.join("/verif/seeded", sid)
    mp = os.path.join(d, "meta.json")
    if not os.path.exists(mp):
        continue
    m = json.load(open(mp))
    P = m["property"]
    ap = subprocess.run(["git", "-C", "/repo", "apply", os.path.join(d, "patch.diff")], capture_output=True, text=True)
    if ap.returncode != 0:
        m["patch_applies_to_current_repo"] = False
        json.dump(m, open(mp, "w"), indent=1)
        print(sid, "patch no longer applies (the code it changed was repaired since); kept with its recorded result", flush=True)
        continue
    m["patch_applies_to_current_repo"] = True
    try:
        r = subprocess.run(["./check", P, "--tier", "quick"], cwd="/verif", capture_output=True, text=True)
    finally:
        subprocess.run(["git", "-C", "/repo", "checkout", "--", "."], check=True)
    viol = [l for l in r.stdout.splitlines() if l.startswith("VIOLATION")]
    m["check_exit"] = r.returncode
    m["check_violation_lines"] = viol[:4]
    m["detected"] = r.returncode == 1 and bool(viol)
    m["detected_with_failing_input"] = any("no-failing-input-found" not in v for v in viol)
    json.dump(m, open(mp, "w"), indent=1)
    print(sid, "detected" if m["detected"] else "MISSED", "input" if m["detected_with_failing_input"] else "no-input", flush=True)
    if not m["detected"]:
        missed.append(sid)
print("missed:", missed)
