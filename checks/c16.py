"""C16 — CS101 end-to-end delivery (DESIGN.md section 6, C16): queue discipline decided in Lean
(Iec.Props.C16) and tied to cs101_queue.c by a differential that dumps the real ring;
end-to-end exactly-once / FIFO: theorem for master -> slave on the composed link-layer model (tied by the
ll101 differential), and explored on the real master + slaves over a lossy simulated line
(harness/e2e101.c, model-free oracle).  Partial: see the assumptions."""
import os, re
from vlib.core import *
from checks.asdu_common import asan_site

PID = "C16"


def run(res):
    bdir = os.path.join(BUILD, PID)
    proof_ok, _ = proof_stage(res, PID)
    ops, impl, model = (os.path.join(bdir, x) for x in ("ops.txt", "impl.txt", "model.txt"))
    diffs, n_ops, found, histo = [], 0, False, []
    try:
        lib = build_lib()
        exe = build_harness("e2e101", ["e2e101.c", "simhal.c"], lib, bdir, exclude=set(REAL_HAL))
        # 1. queue differential
        rc, out = sh([exe, "queue", ops, impl, res.tier], env={"VERIF_SEED": str(seed())}, timeout=3000)
        if rc != 0:
            data = open(ops).read().splitlines() if os.path.exists(ops) else []
            starts = [i for i, l in enumerate(data) if l.startswith("q.new")]
            episode = data[starts[-1]:] if starts else data
            site = asan_site(out)
            os.makedirs(os.path.join(ROOT, "replays"), exist_ok=True)
            rp = os.path.join(ROOT, "replays", "C16-queue-crash-seed%d.txt" % seed())
            open(rp, "w").write("\n".join(episode) + "\n")
            res.violation("crash-queue-%s" % (site[0] if site else "unknown"), "sanitizer abort in %s during queue operation `%s` (history: %s)" % (site, (episode or [""])[-1][:200], rp),
                          {"failing_ops": rp, "sanitizer": out[-1200:]})
            found = True
        else:
            histo += [l for l in out.splitlines() if l.startswith("HISTO")]
            run_model(ops, model)
            n_ops, diffs = first_diff(ops, impl, model)
            if diffs:
                d = diffs[0]
                # a disagreement with the abstract FIFO-with-displacement queue is a failing history for the property itself
                data = open(ops).read().splitlines()[:d.get("line", 0)]
                start = max(i for i, l in enumerate(data) if l.startswith("q.new")) if any(l.startswith("q.new") for l in data) else 0
                os.makedirs(os.path.join(ROOT, "replays"), exist_ok=True)
                rp = os.path.join(ROOT, "replays", "C16-queue-seed%d.txt" % seed())
                open(rp, "w").write("\n".join(data[start:]) + "\n")
                res.violation("queue-discipline", "CS101_Queue after `%s` holds `%s`, a FIFO of the configured size that displaces the oldest holds `%s`" % (d["op"][:120], d["impl"][:300], d["model"][:300]),
                              {"failing_ops": rp, "first_differences": diffs[:3]})
                found = True
        # 2. end to end on the real stacks
        seeds = [seed()] if res.tier == "quick" else [seed() + i for i in range(4)]
        tot = {}
        for sd in seeds:
            rc, out = sh([exe, "e2e", res.tier], env={"VERIF_SEED": str(sd)}, timeout=3000)
            if rc != 0:
                site = asan_site(out)
                res.violation("crash-e2e-%s" % (site[0] if site else "unknown"), "sanitizer abort in %s during the end-to-end run (seed %d)" % (site, sd),
                              {"sanitizer": out[-1500:], "how": "VERIF_SEED=%d %s e2e %s" % (sd, exe, res.tier)})
                found = True
                continue
            for l in out.splitlines():
                if l.startswith("E2E_FAIL "):
                    res.violation("e2e-delivery", l[9:800], {"how": "VERIF_SEED=%d %s e2e %s" % (sd, exe, res.tier), "seed": sd, "what": l[9:]})
                    found = True
                if l.startswith("HISTO"):
                    for k, v in re.findall(r"(\w+)=(\d+)", l):
                        tot[k] = tot.get(k, 0) + int(v)
        res.cov["end_to_end"] = tot
        # 3. the tie of the link-layer model the composed theorems (Props.C16, section "over the line") are about
        from checks import link_common
        n_ll, d_ll, h_ll = link_common.link_tie(bdir, res.tier)
        res.cov["link_model_operations_compared"] = n_ll
        histo.append(h_ll)
        for flag, what, rp in getattr(link_common.link_tie, "hits", []):
            # a frame-count-bit / duplicate / repeated-request failure of the real link layer is a failing history for
            # end-to-end exactly-once delivery as well
            if flag in ("FCB_FAIL", "DUP_FAIL", "REPEAT_FAIL"):
                res.violation("link-" + flag.lower(), "link layer (real link_layer.c, model-free oracle of harness/ll101.c): " + what, {"failing_ops": rp, "oracle": flag})
                found = True
        if d_ll:
            diffs = (diffs or []) + d_ll
    except BuildError as e:
        diffs = [{"op": "<build>", "impl": str(e)[-400:], "model": ""}]
    res.cov["traces_validated_against_impl"] = n_ops
    res.cov["evaluations"] = n_ops + res.cov.get("end_to_end", {}).get("frames", 0)
    res.cov["distinct_nontrivial"] = n_ops
    res.cov["operation_histogram"] = " | ".join(histo)
    res.cov["rule"] = ("queue: PRNG sequences of enqueue / dequeue / flush on real CS101_Queue objects of size 1..20, ring dumped oldest-first after every operation; "
                       "end to end: real CS101 master + 1..3 real slaves (unbalanced) or a balanced pair over simulated serial ports, address width 1/2, queue sizes 1..20, "
                       "virtual clock in 20 ms steps, loss plans: none / one scripted frame / two scripted frames / random loss 1..30 % with rare total outages that force link "
                       "failure, occasional bit damage; numbered class 1 / class 2 data and numbered commands; oracle: next number or (only across a reported link failure) "
                       "the in-flight one again / skipped; after the line recovers everything queued has arrived and the link is AVAILABLE")
    broken = []
    if not proof_ok:
        broken.append("proof obligations of lean/Iec/Props/C16.lean: " + "; ".join(res.cov.get("broken_obligations", [])[:3]))
    if diffs and not found:
        broken.append("correspondence: " + str(diffs[:2])[:600])
    if broken and not found:
        res.violation("tie-or-proof-broken", " | ".join(broken)[:1200], {"no_longer_checks": broken}, found_input=False)
    res.assumptions += [
        "PARTIAL: Lean decides the queue discipline (every operation sequence) and, for master -> slave in unbalanced mode, exactly-once in-order delivery of the composed model (master connection state machine + FT 1.2 encoder + slave transceiver, parser and secondary state machine) and (class 1/2 polls) slave -> master, for every pattern of retransmissions / losses / duplicates short of the repeat timeout; several slaves on one line, balanced mode, enqueues interleaved with polls and the behaviour after a link failure are not composed in Lean and are explored by the model-free end-to-end oracle on the real stacks",
        "the link-layer model the composed theorems are about is tied to link_layer.c / serial_transceiver_ft_1_2.c by the same differential as C14/C15 (run here too)",
        "the queue model is the content list (oldest first); the ring indices of cs101_queue.c are tied by dumping the real ring after every operation",
        "the oracle tolerates, per reported link failure, one repeated and one missing frame per stream (the frame in flight), as the property does",
    ]
    return res.finish()
