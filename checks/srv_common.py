"""shared driver of the CS104 server checks (C03 C04 C05 C06 C07 C08 C11 C13 C18): the real
cs104_slave.c in threadless mode behind the simulated HAL vs the Lean model Iec.Srv104"""
import os, re, shutil
from vlib.core import *
from checks.asdu_common import asan_site

# model-free oracle flags printed by the harness -> property they speak for
ORACLE = {"ORDER_FAIL": ("C13", "reply-order"), "WIRE_FAIL": ("C03", "wire-format"), "KWIN_FAIL": ("C04", "window-bound"), "ACK_FAIL": ("C04", "ack-validation"),
          "SEG_FAIL": ("C05", "segmentation"), "LIFE_FAIL": ("C18", "lifecycle"), "GROUP_FAIL": ("C08", "groups"),
          "QUEUE_FAIL": ("C06", "event-queue"), "RETAIN_FAIL": ("C06", "retention"), "T2_FAIL": ("C11", "ack-deadline-t2"), "T1_FAIL": ("C11", "testfr-t1")}


CLIENT_PROPS = {"C03", "C04", "C05", "C11", "C18"}


def run_client(res, pid, bdir, lib):
    """the client role: real cs104_connection.c with its thread as a fiber vs Iec.Cli104"""
    ops, impl, model = (os.path.join(bdir, x) for x in ("cops.txt", "cimpl.txt", "cmodel.txt"))
    excl = {"iec60870/cs104/cs104_connection.c", "hal/memory/lib_memory.c"} | set(REAL_HAL)
    exe = build_harness("cli104", ["cli104.c", "simhal.c", "memcount.c"], lib, bdir, exclude=excl,
                        extra_flags=["-I" + os.path.join(SRC, "iec60870/cs104")])
    rc, out = sh([exe, ops, impl, res.tier], env={"VERIF_SEED": str(seed())}, timeout=3000)
    if rc != 0:
        last = open(ops).read().splitlines()[-1:] if os.path.exists(ops) else []
        return 0, [{"op": (last[0] if last else ""), "impl": "sanitizer abort at %s" % (asan_site(out),), "model": ""}], out, ops, True
    run_model(ops, model)
    n, diffs = first_diff(ops, impl, model)
    return n, diffs, out, ops, False


def run_hp_ring(res, bdir):
    """direct differential of the high-priority (reply) ring: static functions of cs104_slave.c vs Iec.Queues.HpQueue,
    plus the model-free FIFO oracle HPQ_FAIL"""
    exe = os.path.join(bdir, "srv104")
    ops, impl, model = (os.path.join(bdir, "hq_%s.txt" % x) for x in ("ops", "impl", "model"))
    rc, out = sh([exe, ops, impl, res.tier, "hq"], env={"VERIF_SEED": str(seed())}, timeout=3000)
    found = False
    def episode(upto=None):
        data = open(ops).read().splitlines() if os.path.exists(ops) else []
        if upto is not None:
            data = data[:upto]
        starts = [i for i, l in enumerate(data) if l.startswith("hq.new")]
        ep = data[starts[-1]:] if starts else data
        rp = os.path.join(ROOT, "replays", "C13-hp-ring-seed%d.txt" % seed())
        os.makedirs(os.path.dirname(rp), exist_ok=True)
        open(rp, "w").write("\n".join(ep) + "\n")
        return rp, (ep or [""])[-1]
    if rc != 0:
        rp, last = episode()
        site = asan_site(out)
        res.violation("crash-hp-ring-%s" % (site[0] if site else "unknown"), "sanitizer abort in %s during reply-ring operation `%s` (history: %s)" % (site, last[:120], rp),
                      {"failing_ops": rp, "sanitizer": out[-1200:]})
        return 0, [], True, ""
    histo = ([l for l in out.splitlines() if l.startswith("HISTO")] or [""])[-1]
    for l in out.splitlines():
        if l.startswith("HPQ_FAIL "):
            m = re.search(r"ops-file offset (\d+)", l)
            upto = None
            if m:
                upto = open(ops, "rb").read()[:int(m.group(1))].count(b"\n")
            rp, last = episode(upto)
            res.violation("hp-ring-fifo", "%s (history: %s)" % (l[9:600], rp), {"failing_ops": rp, "oracle": "harness/srv104.c hq mode (model-free)"})
            found = True
    run_model(ops, model)
    n, diffs = first_diff(ops, impl, model)
    return n, diffs, found, histo


def run(res, pid, extra_targets=()):
    bdir = os.path.join(BUILD, pid)
    lib = None
    try:
        regen_consts104()
    except BuildError as e:
        res.violation("tie-or-proof-broken", str(e)[:900], {"no_longer_checks": ["translate/consts104.c -> lean/Iec/Gen/Consts104.lean"]}, found_input=False)
    proof_ok, plog = proof_stage(res, pid, extra_targets)
    tie_ok, diffs, n_ops, histo, crash, out = True, [], 0, "", None, ""
    ops, impl, model = (os.path.join(bdir, x) for x in ("ops.txt", "impl.txt", "model.txt"))
    try:
        lib = build_lib()
        excl = {"iec60870/cs104/cs104_slave.c", "hal/memory/lib_memory.c"} | set(REAL_HAL)
        exe = build_harness("srv104", ["srv104.c", "simhal.c", "memcount.c"], lib, bdir, exclude=excl,
                            extra_flags=["-I" + os.path.join(SRC, "iec60870/cs104")])
        rc, out = sh([exe, ops, impl, res.tier], env={"VERIF_SEED": str(seed())}, timeout=3000)
        if rc != 0:
            tie_ok = False
            last = open(ops).read().splitlines()[-1:] if os.path.exists(ops) else []
            site = asan_site(out)
            crash = {"last_operation": last[0] if last else "", "sanitizer_site": site, "report": out[-1500:]}
            diffs = [{"op": crash["last_operation"], "impl": "sanitizer abort at %s" % (site,), "model": ""}]
        else:
            histo = [l for l in out.splitlines() if l.startswith("HISTO")][-1]
            run_model(ops, model)
            n_ops, diffs = first_diff(ops, impl, model)
            tie_ok = not diffs
    except BuildError as e:
        tie_ok = False
        res.notes.append(str(e)[-800:])
        diffs = [{"op": "<build>", "impl": str(e)[-400:], "model": ""}]
    hq_found = False
    if pid == "C13" and crash is None and lib is not None:
        try:
            hn, hdiffs, hq_found, hq_histo = run_hp_ring(res, bdir)
            n_ops += hn
            res.cov["hp_ring_histogram"] = hq_histo
            if hdiffs:
                tie_ok = False
                diffs = diffs + [dict(d, role="hp-ring") for d in hdiffs]
        except BuildError as e:
            tie_ok = False
            diffs.append({"op": "<hp ring>", "impl": str(e)[-400:], "model": ""})
    cli_out, cli_ops = "", None
    if pid in CLIENT_PROPS and crash is None:
        try:
            cn, cdiffs, cli_out, cli_ops, ccrash = run_client(res, pid, bdir, lib)
            res.cov["client_operations_compared"] = cn
            ch = [l for l in cli_out.splitlines() if l.startswith("HISTO")]
            res.cov["client_histogram"] = ch[-1] if ch else ""
            if cdiffs:
                tie_ok = False
                diffs = diffs + [dict(d, role="client") for d in cdiffs]
            if ccrash:
                crash = {"last_operation": cdiffs[0]["op"], "sanitizer_site": asan_site(cli_out), "report": cli_out[-1500:], "role": "client"}
            n_ops += cn
            out = out + "\n" + "\n".join(l for l in cli_out.splitlines() if "_FAIL " in l)
        except BuildError as e:
            tie_ok = False
            diffs.append({"op": "<client build>", "impl": str(e)[-400:], "model": ""})
    res.cov["traces_validated_against_impl"] = n_ops
    res.cov["evaluations"] = n_ops
    if n_ops:
        ops_lines = open(ops).read().splitlines()
        res.cov["distinct_nontrivial"] = len(set(ops_lines))
        res.cov["rule"] = ("operation stream against a real threadless CS104_Slave behind the simulated HAL: episodes with PRNG "
                           "parameters (mode 0..2, k 1..12, w 1..8, t1..t3, queue sizes 1..40, header sizes), 1..12 clients with "
                           "IPv4/IPv6 peers, STARTDT/STOPDT/TESTFR, I-frames with valid and invalid N(S)/N(R), S-frames, noise, "
                           "every frame possibly split into chunks (1-octet dribble, random cut), enqueue of events, replies from "
                           "the ASDU handler, virtual-clock ticks of 0..4400 ms, peer close, write failure, counters preset near the "
                           "32767->0 wrap; after every operation the observation log AND a dump of the real structures (state, V(S), "
                           "V(R), k-buffer, queue pointers and entries) are compared with the model; distinct = distinct op lines")
        k = len(ops_lines)
        res.cov["samples"] = [l[:160] for l in (ops_lines[:3] + ops_lines[k // 2: k // 2 + 3] + ops_lines[-2:])]
        res.cov["operation_histogram"] = histo
    broken, found = [], hq_found
    if not proof_ok:
        broken.append("proof obligations of lean/Iec/Props/%s.lean: %s" % (pid, "; ".join(res.cov.get("broken_obligations", [])[:3])))
    if not tie_ok:
        broken.append("correspondence model/implementation: " + "; ".join(
            "op `%s` impl `%s` model `%s`" % (d.get("op", "")[:160], d.get("impl", "")[:300], d.get("model", "")[:300]) for d in diffs[:2] if "op" in d))
    def save_prefix(offset=None, line=None):
        """keep the operation prefix that leads to the failure as the replay"""
        os.makedirs(os.path.join(ROOT, "replays"), exist_ok=True)
        dst = os.path.join(ROOT, "replays", "%s-ops-seed%d.txt" % (pid, seed()))
        data = open(ops, "rb").read()
        if offset is not None:
            data = data[:offset]
        elif line is not None:
            data = b"\n".join(data.split(b"\n")[:line]) + b"\n"
        # cut to the episode that contains the failure
        idx = data.rfind(b"s.new ")
        open(dst, "wb").write(data[idx:] if idx >= 0 else data)
        return dst
    if crash is not None:
        site = crash["sanitizer_site"]
        res.violation("crash-%s" % (site[0] if site else "unknown"), "sanitizer abort in %s while executing `%s`" % (site, crash["last_operation"][:200]),
                      {"failing_ops": save_prefix(), "sanitizer": crash["report"], "how": "build/%s/srv104 o i quick %s" % (pid, "<failing_ops>")})
        found = True
    for flag, (prop, key) in ORACLE.items():
        for line in out.splitlines():
            if line.startswith(flag + " ") and prop == pid:
                m = re.search(r"ops-file offset (\d+)", line)
                res.violation(key, line[len(flag) + 1:][:600], {"failing_ops": save_prefix(offset=int(m.group(1)) if m else None),
                              "oracle": "harness/srv104.c (model-free)", "first_model_differences": diffs[:2],
                              "how": "VERIF_SEED=%d ./check %s --tier %s ; replay: build/%s/srv104 /dev/null /dev/stdout quick <failing_ops>" % (seed(), pid, res.tier, pid)})
                found = True
    res.cov["oracle_flags"] = {f: int(re.search(r"%s=(\d+)" % n, histo).group(1)) if re.search(r"%s=(\d+)" % n, histo) else None
                               for f, n in (("wire", "wire_violations"), ("window", "kwin_violations"), ("order", "order_violations"),
                                            ("semaphore", "sem_violations"))} if histo else {}
    if broken and not found:
        rp = {"no_longer_checks": broken, "first_differences": diffs[:5],
              "how": "VERIF_SEED=%d ./check %s --tier %s" % (seed(), pid, res.tier)}
        if diffs and "line" in diffs[0]:
            rp["ops_prefix"] = save_prefix(line=diffs[0]["line"])
        res.violation("tie-or-proof-broken", " | ".join(broken)[:1500], rp, found_input=False)
    res.assumptions += [
        "server role, threadless mode (CS104_Slave_tick); client role (C03/C04/C05/C11/C18 only): real cs104_connection.c with its thread run as a cooperative fiber vs Iec.Cli104; the threaded server loop is not covered by this check",
        "sockets, clock, semaphores are the simulated HAL (harness/simhal.c); a read never crosses a chunk boundary",
        "ASDU dispatch to the typed command handlers is excluded here (generic ASDU handler only; see C09)",
        "k-buffer ring indices and queue pointers are tied by dumping the real structures after every operation",
    ]
    return res.finish()
