"""C17 — lock discipline, lock order, callbacks under lock (DESIGN.md section 6, C17).

tie = translator: translate/locks.py regenerates lean/Iec/Gen/LockSkel.lean from the
current sources through clang's AST on every run; Iec.Props.C17 re-decides the
regenerated skeletons.  Failing-input search: the compiled model names the function /
lock / callback, and harness/locks_dyn.c drives the real threaded server and client
under PRNG schedules behind the simulated HAL (semaphore monitors).  Data races are
not decided (partial)."""
import os, re, sys, json, subprocess
from vlib.core import *

PID = "C17"
OBSERVERS = ["rawMessageHandler"]


def regenerate(res):
    out_path = os.path.join(LEAN, "Iec", "Gen", "LockSkel.lean")
    p = subprocess.run([sys.executable, os.path.join(ROOT, "translate", "locks.py"), out_path],
                       stdout=subprocess.PIPE, stderr=subprocess.PIPE, env=dict(os.environ, VERIF_REPO=REPO))
    if p.returncode != 0:
        raise BuildError("translate/locks.py failed on the current sources: " + p.stderr.decode(errors="replace")[-600:])
    info = json.loads(p.stdout.decode())
    res.cov["translator"] = {"functions_parsed": info["functions"], "functions_with_lock_behaviour": info["relevant"],
                             "locks": info["locks"], "callbacks": info["callbacks"], "thread_entries": info["thread_entries"]}
    return info


def model_report():
    p = subprocess.run([DRV], input=("locks.report " + " ".join(OBSERVERS) + "\n").encode(), stdout=subprocess.PIPE,
                       stderr=subprocess.PIPE, timeout=600)
    if p.returncode != 0:
        raise BuildError("iecdrv locks.report failed: " + p.stderr.decode(errors="replace")[-300:])
    return [x.strip() for x in p.stdout.decode().strip().split(" ; ")]


def dynamic(res, bdir, lib):
    """schedule search on the real code"""
    exe = build_harness("locks_dyn", ["locks_dyn.c", "simhal.c"], lib, bdir, exclude=set(REAL_HAL))
    seeds = [seed()] if res.tier == "quick" else [seed() + i for i in range(6)]
    lines, fails = [], []
    for sd in seeds:
        rc, out = sh([exe, res.tier], env={"VERIF_SEED": str(sd)}, timeout=3000)
        dyn = [l for l in out.splitlines() if l.startswith("DYN ")]
        lines += dyn
        if rc != 0:
            fails.append((sd, "sanitizer abort: " + out[-600:]))
        for l in out.splitlines():
            if l.startswith("LOCK_FAIL "):
                fails.append((sd, l[10:]))
    tot = {}
    for l in lines:
        for k, v in re.findall(r"(\w+)=(\d+)", l):
            tot[k] = tot.get(k, 0) + int(v) if k not in ("sem_max",) else max(tot.get(k, 0), int(v))
    res.cov["schedule_search"] = tot
    repro = {}
    if res.tier == "thorough":
        # the recorded findings, reproduced on the real code (evidence that they are genuine)
        for mode in ("finding-server", "finding-server-open", "finding-client"):
            rc, out = sh([exe, mode], env={"VERIF_SEED": str(seed())}, timeout=600)
            m = re.search(r"FINDING (\S+) reproduced=(\d) ?(.*)", out)
            repro[mode] = (m.group(3)[:300] if m and m.group(2) == "1" else "not reproduced")
        res.cov["recorded_findings_on_real_code"] = repro
    return tot, fails, exe


def run(res):
    bdir = os.path.join(BUILD, PID)
    os.makedirs(bdir, exist_ok=True)
    broken, found = [], False
    proof_ok = False
    try:
        regenerate(res)
        proof_ok, plog = proof_stage(res, PID)
        if not proof_ok:
            broken.append("proof obligations of lean/Iec/Props/C17.lean on the regenerated skeletons: " +
                          "; ".join(res.cov.get("broken_obligations", [])[:3]))
            ok2, out2 = lake_build(["iecdrv"])
            if not ok2:
                raise BuildError("the model driver does not build on the regenerated skeletons: " + out2[-400:])
        items = model_report()
        res.cov["model_report_head"] = items[0]
        edges = [i for i in items if i.startswith("edge ")]
        res.cov["lock_order_edges"] = [e[5:] for e in edges]
        if not items[0].endswith("stable true"):
            broken.append("call-graph summaries did not reach a fixpoint: " + items[0])
        for it in items[1:]:
            w = it.split()
            if w[0] == "unbalanced":
                res.violation("unbalanced:" + w[1], "function %s: some path does not pair Semaphore_wait/Semaphore_post: %s" % (w[1], " ".join(w[2:])),
                              {"function": w[1], "verdict": it, "how": "echo 'locks.report' | lean/.lake/build/bin/iecdrv ; skeleton in lean/Iec/Gen/LockSkel.lean",
                               "meaning": "fault=true: a lock is released while not held or waited for while held; held-at-exit: locks still held at a return"})
                found = True
            elif w[0] == "cycle":
                res.violation("lock-order-cycle:" + w[1], "lock %s can be waited for (through calls / joins) while it is already held: circular wait possible; edges: %s" % (w[1], "; ".join(e[5:] for e in edges)),
                              {"lock": w[1], "edges": edges})
                found = True
        pairs = {}
        for it in items[1:]:
            w = it.split()
            if w[0] == "cbunder":
                pairs.setdefault((w[2], w[3]), []).append(w[1])
        res.cov["callbacks_under_lock"] = ["%s>%s in %s" % (l, c, ",".join(fs)) for (l, c), fs in sorted(pairs.items())]
        for (l, c), fs in sorted(pairs.items()):
            res.violation("cb-under-lock:%s:%s" % (l, c),
                          "application callback %s can be entered while the calling thread holds %s (held in: %s); a callback that calls back into the API can then wait for that lock forever" % (c, l, ", ".join(fs)),
                          {"lock": l, "callback": c, "functions": fs, "reproduce_on_real_code": "build/C17/locks_dyn finding-server | finding-server-open | finding-client"})
        lib = build_lib()
        tot, fails, exe = dynamic(res, bdir, lib)
        for sd, what in fails[:3]:
            cls = "deadlock" if "deadlock" in what else "released-twice" if "released twice" in what else "released-by-other" if "another thread" in what else "other"
            res.violation("dynamic-" + cls, "real code under the simulated HAL, seed %d: %s" % (sd, what[:700]),
                          {"how": "VERIF_SEED=%d %s %s /dev/stdout   (second argument: operation trace)" % (sd, exe, res.tier), "seed": sd, "what": what})
            found = True
        res.cov["traces_validated_against_impl"] = tot.get("scenarios", 0)
        res.cov["evaluations"] = tot.get("thread_steps", 0)
        res.cov["distinct_nontrivial"] = tot.get("scenarios", 0)
    except BuildError as e:
        broken.append(str(e)[-800:])
    res.cov["rule"] = ("static: every function of cs104_slave.c, cs104_connection.c, cs101_queue.c, cs101_slave.c, cs101_master.c, "
                       "cs101_master_connection.c is translated to its lock skeleton (clang AST) and decided in Lean for all paths; "
                       "dynamic: threaded CS104 server (listener + connection threads) and client thread as fibers, PRNG scheduler with "
                       "preemption after every wait/post, application calls (enqueue, queries, stop/start, destroy, send*, close) and "
                       "callbacks that call back into the API between any two steps; semaphore monitors: value>1, release by non-owner, "
                       "self-wait, unserviceable wait, stuck join")
    known_keys = {k["key"] for k in load_known() if k["property"] == PID}
    found = any(v["key"] not in known_keys for v in res.violations)
    if broken and not found:
        res.violation("tie-or-proof-broken", " | ".join(broken)[:1500],
                      {"no_longer_checks": broken, "how": "./check C17 --tier %s" % res.tier}, found_input=False)
    res.assumptions += [
        "data-race freedom is NOT decided (no lockset model of field accesses); C17 is claimed for lock pairing, lock order, deadlock",
        "the skeleton keeps semaphore operations, calls, callbacks, joins and control flow; conditions are abstracted (every branch may go either way), so a pairing that depends on correlated conditions would be reported although correct",
        "lock identity is the static type and field of the owning object (all MasterConnection.stateLock instances are one lock class)",
        "the raw-message handler is treated as an observer that does not call back into the API (it receives no connection handle)",
        "fibers are descheduled only at HAL calls and lock operations: interleavings inside a critical section are not explored",
    ]
    return res.finish(extra_trusted=["translate/locks.py (clang -ast-dump=json -> Stmt skeleton) is trusted to transcribe control flow, Semaphore_wait/post, calls, function-pointer calls and Thread_destroy faithfully"])
