"""C09 — command dispatch, both slave stacks (DESIGN.md section 6, C09)"""
import os, re
from vlib.core import *
from checks.asdu_common import asan_site

PID = "C09"


def one_stack(res, which, src, bdir, lib):
    ops, impl, model = (os.path.join(bdir, "%s_%s.txt" % (which, x)) for x in ("ops", "impl", "model"))
    excl = {src} | set(REAL_HAL)
    exe = build_harness("disp" + which, ["disp%s.c" % which, "simhal.c"], lib, bdir, exclude=excl,
                        extra_flags=["-I" + os.path.join(SRC, os.path.dirname(src))])
    rc, out = sh([exe, ops, impl, res.tier], env={"VERIF_SEED": str(seed())}, timeout=3000)
    if rc != 0:
        last = open(ops).read().splitlines()[-1:] if os.path.exists(ops) else [""]
        return 0, [{"op": (last[0] if last else ""), "impl": "sanitizer abort at %s" % (asan_site(out),), "model": ""}], out, ops, True
    run_model(ops, model)
    n, diffs = first_diff(ops, impl, model)
    return n, diffs, out, ops, False


def run(res):
    bdir = os.path.join(BUILD, PID)
    proof_ok, _ = proof_stage(res, PID)
    total, all_diffs, found, outs, samples = 0, [], False, [], []
    try:
        lib = build_lib()
        for which, src in (("104", "iec60870/cs104/cs104_slave.c"), ("101", "iec60870/cs101/cs101_slave.c")):
            n, diffs, out, ops, crashed = one_stack(res, which, src, bdir, lib)
            total += n
            outs.append([l for l in out.splitlines() if l.startswith("HISTO")][-1:] or [""])
            if n:
                ls = open(ops).read().splitlines()
                samples += ls[:1] + ls[len(ls) // 2: len(ls) // 2 + 2]
            for d in diffs:
                d["stack"] = "cs" + which
            all_diffs += diffs
            if crashed:
                site = asan_site(out)
                res.violation("crash-%s-cs%s" % (site[0] if site else "unknown", which),
                              "sanitizer abort in %s while dispatching `%s`" % (site, diffs[0]["op"][:200]),
                              {"failing_input": diffs[0]["op"], "sanitizer": out[-1200:], "stack": "cs" + which})
                found = True
            for line in out.splitlines():
                if line.startswith("MULTI_FAIL "):
                    res.violation("multiple-responses-cs" + which, line[11:500], {"failing_input": line[11:], "oracle": "harness/disp%s.c" % which})
                    found = True
            # a concrete disagreement is a failing input for the decision table: the case line itself
            if diffs and not crashed and not found:
                d = diffs[0]
                res.violation("dispatch-cs%s-type%s" % (which, (d["op"].split() + ["?"] * 7)[6][:2]),
                              "stack cs%s case `%s`: implementation `%s`, specification (model) `%s`" % (which, d["op"][:200], d["impl"][:300], d["model"][:300]),
                              {"failing_input": d["op"], "implementation": d["impl"], "model": d["model"], "first_differences": diffs[:4]})
                found = True
        # the client's command builders (cs104_connection.c:1137-1375) vs Iec.CliCmd.build, through the client differential:
        # the c.cmd operations call the real send<X>Command functions; the model sends Iec.CliCmd.build's octets
        from checks import srv_common
        cn, cdiffs, cli_out, cli_ops, ccrash = srv_common.run_client(res, PID, bdir, lib)
        total += cn
        res.cov["client_operations_compared"] = cn
        outs.append([l for l in cli_out.splitlines() if l.startswith("HISTO")][-1:] or [""])
        if cdiffs:
            d = cdiffs[0]
            for dd in cdiffs:
                dd["stack"] = "cs104-client"
            all_diffs += cdiffs
            if d["op"].startswith("c.cmd") and not ccrash:
                # a command built differently from the specification is a failing input of the clause "commands issued
                # through the client API reach the server callbacks with identical parameters": the call itself
                data = open(cli_ops).read().splitlines()[:d.get("line", 0)]
                last_new = max([i for i, l in enumerate(data) if l.startswith("c.new")] or [0])
                al = [l for l in data[last_new:] if l.startswith("c.al") or l.startswith("c.new")][:2]
                res.violation("client-builder-kind%s" % (d["op"].split() + ["?"])[1],
                              "client command `%s` (configuration `%s`) puts `%s` on the wire; the command with these parameters is `%s`" % (d["op"][:120], " ; ".join(al)[:160], d["impl"][:300], d["model"][:300]),
                              {"failing_input": d["op"], "configuration": al, "implementation": d["impl"], "model": d["model"]})
                found = True
            elif ccrash:
                site = asan_site(cli_out)
                res.violation("crash-%s-client" % (site[0] if site else "unknown"), "sanitizer abort in %s during `%s`" % (site, d["op"][:200]),
                              {"failing_input": d["op"], "sanitizer": cli_out[-1200:]})
                found = True
    except BuildError as e:
        all_diffs.append({"op": "<build>", "impl": str(e)[-400:], "model": ""})
    res.cov["traces_validated_against_impl"] = total
    res.cov["evaluations"] = total
    res.cov["distinct_nontrivial"] = total
    res.cov["rule"] = ("one case = one ASDU (type 0..255 x COT 0..63 x P/N, test bit x IOA zero/non-zero x complete/truncated) handed to the real "
                       "handleASDU of each slave with a PRNG subset of installed handlers and return values, in an exactly sized heap block; "
                       "quick thins out non-system types and uses 3 of the 12 size configurations, thorough enumerates all; every case is distinct")
    res.cov["samples"] = [s[:160] for s in samples[:6]]
    res.cov["operation_histogram"] = " | ".join(o[0] for o in outs)
    broken = []
    if not proof_ok:
        broken.append("proof obligations of lean/Iec/Props/C09.lean: " + "; ".join(res.cov.get("broken_obligations", [])[:3]))
    if all_diffs and not found:
        broken.append("correspondence: " + str(all_diffs[:2])[:600])
    if broken and not found:
        res.violation("tie-or-proof-broken", " | ".join(broken)[:1200], {"no_longer_checks": broken, "first_differences": all_diffs[:4]}, found_input=False)
    res.assumptions += ["client-side command builders: the six system-command senders of cs104_connection.c are modelled (Iec.CliCmd) and tied by the client differential; sendProcessCommand(Ex) encode through the codec of C01; the CS101 master's builders go through CS101_ASDU_create / addInformationObject (C01/C12) and are not separately tied",
                        "reset-process and delay-acquisition handlers of the CS104 slave have no public setter; the harness installs them through the included source"]
    return res.finish()
