"""C15 — see checks/link_common.py and DESIGN.md section 6"""
from checks import link_common


def run(res):
    return link_common.run(res, "C15")
