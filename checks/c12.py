"""C12 — see checks/asdu_common.py and DESIGN.md section 6"""
from checks import asdu_common


def run(res):
    return asdu_common.run(res, "C12")
