"""shared driver of the three ASDU codec checks (C01 round trip, C02 parsing, C12 building)"""
import os, re
from vlib.core import *

MODE = {"C01": "build", "C02": "parse", "C12": "build"}
PREFIX = {"C01": "c01-", "C02": "c02-", "C12": "c12-"}


def asan_site(out):
    """first frame of a sanitizer report that lies in the repo sources"""
    for m in re.finditer(r"#\d+ 0x[0-9a-f]+ in (\w+) (/\S+?):(\d+)", out):
        if "/lib60870-C/src/" in m.group(2):
            return m.group(1), os.path.basename(m.group(2)), m.group(3)
    m = re.search(r"(\S+\.c):(\d+):\d+: runtime error: (.*)", out)
    if m:
        return "ubsan", os.path.basename(m.group(1)), m.group(2)
    return None


def gen_glue(bdir):
    os.makedirs(bdir, exist_ok=True)
    rc, out = sh(["python3", os.path.join(ROOT, "translate", "gen_asdu.py"), SRC, os.path.join(bdir, "gen_types.inc")])
    if rc != 0:
        raise BuildError("harness glue generation failed (headers no longer have the expected shape): " + out[-500:])


def regen_type_sizes():
    """translator tie: lean/Iec/Gen/TypeSizes.lean is regenerated from the current cs101_information_objects.c;
    Iec.Props.C02.source_sizes_match_table then proves the extracted constants are the model's table"""
    dst = os.path.join(LEAN, "Iec", "Gen", "TypeSizes.lean")
    tmp = dst + ".new"
    rc, out = sh(["python3", os.path.join(ROOT, "translate", "type_sizes.py"), SRC, tmp])
    if rc != 0:
        raise BuildError("translate/type_sizes.py: the encoders / decoders of cs101_information_objects.c no longer have the shapes it extracts from: " + out[-500:])
    new = open(tmp).read()
    if not os.path.exists(dst) or open(dst).read() != new:
        os.replace(tmp, dst)
    else:
        os.remove(tmp)


def run(res, pid):
    bdir = os.path.join(BUILD, pid)
    try:
        regen_type_sizes()
    except BuildError as e:
        res.violation("tie-or-proof-broken", str(e)[:900], {"no_longer_checks": ["translate/type_sizes.py -> lean/Iec/Gen/TypeSizes.lean"]}, found_input=False)
    proof_ok, plog = proof_stage(res, pid)
    tie_ok, diffs, n_ops, histo, lib = True, [], 0, "", None
    crash = None
    try:
        gen_glue(bdir)
        lib = build_lib()
        exe = build_harness("asdu", ["asdu.c"], lib, bdir, extra_flags=["-I" + bdir])
        ops, impl, model = (os.path.join(bdir, x) for x in ("ops.txt", "impl.txt", "model.txt"))
        rc, out = sh([exe, ops, impl, res.tier, MODE[pid]], env={"VERIF_SEED": str(seed())}, timeout=3000)
        if rc != 0:
            tie_ok = False
            last = open(ops).read().splitlines()[-1:] if os.path.exists(ops) else []
            site = asan_site(out)
            crash = {"last_operation": last[0] if last else "", "sanitizer_site": site, "report": out[-1500:]}
            diffs = [{"op": crash["last_operation"], "impl": "sanitizer abort at %s" % (site,), "model": ""}]
        else:
            histo = out.strip().splitlines()[-1]
            run_model(ops, model)
            n_ops, diffs = first_diff(ops, impl, model)
            tie_ok = not diffs
    except BuildError as e:
        tie_ok = False
        res.notes.append(str(e)[-800:])
        diffs = [{"op": "<build>", "impl": str(e)[-400:], "model": ""}]
    res.cov["traces_validated_against_impl"] = n_ops
    res.cov["evaluations"] = n_ops
    if n_ops:
        ops_lines = open(os.path.join(bdir, "ops.txt")).read().splitlines()
        res.cov["distinct_nontrivial"] = len(set(ops_lines))
        res.cov["rule"] = ("operation stream over all 67 types x size configurations (quick: each type's own configuration plus a "
                           "random third of the 12; thorough: all 12) x SQ 0/1: create, add objects built by the public constructors "
                           "with PRNG arguments until refused twice, clone, element read-back at every index, header setters, raw "
                           "payload; parse mode: every truncation length and mutations of valid ASDUs in exactly-sized heap blocks "
                           "under ASan, random octet strings, every type id 0..255; distinct = distinct operation lines, all "
                           "non-trivial (each runs library code and is compared with the model)")
        k = len(ops_lines)
        res.cov["samples"] = [l[:200] for l in (ops_lines[:2] + ops_lines[k // 3: k // 3 + 2] + ops_lines[-2:])]
        res.cov["operation_histogram"] = histo
    broken = []
    if not proof_ok:
        broken.append("proof obligations of lean/Iec/Props/%s.lean: %s" % (pid, "; ".join(res.cov.get("broken_obligations", [])[:3])))
    if not tie_ok:
        broken.append("correspondence model/implementation: " + "; ".join(
            "op `%s` impl `%s` model `%s`" % (d.get("op", "")[:200], d.get("impl", "")[:200], d.get("model", "")[:200]) for d in diffs[:2] if "op" in d))
    found = False
    if crash is not None:
        site = crash["sanitizer_site"]
        key = "crash-%s" % (site[0] if site else "unknown")
        res.violation(key, "sanitizer abort in %s while executing `%s`" % (site, crash["last_operation"][:300]),
                      {"failing_input": crash["last_operation"], "sanitizer": crash["report"],
                       "how": "VERIF_SEED=%d ./check %s --tier %s" % (seed(), pid, res.tier)})
        found = True
    # failing-input search on the real code alone
    if lib is not None:
        try:
            oexe = build_harness("asdu_oracle", ["asdu_oracle.c"], lib, bdir, extra_flags=["-I" + bdir])
            rc, out = sh([oexe, res.tier], env={"VERIF_SEED": str(seed())}, timeout=3000)
            m = re.search(r"(?:OK|CHECKED) (\d+)", out)
            res.cov["oracle_checks_on_real_code"] = int(m.group(1)) if m else 0
            for line in out.splitlines():
                if line.startswith("FAIL "):
                    key = line.split()[1]
                    if key.startswith(PREFIX[pid]):
                        res.violation(key, line[5:400], {"oracle": "harness/asdu_oracle.c", "failing_input": line[5:],
                                                         "first_model_differences": diffs[:3],
                                                         "how": "VERIF_SEED=%d ./check %s --tier %s" % (seed(), pid, res.tier)})
                        found = True
            if rc != 0 and "FAIL " not in out:
                site = asan_site(out)
                res.violation("crash-%s" % (site[0] if site else "oracle"), "sanitizer abort in the oracle run at %s" % (site,),
                              {"sanitizer": out[-1500:]})
                found = True
        except BuildError as e:
            broken.append("oracle does not build: " + str(e)[-300:])
    if broken and not found:
        res.violation("tie-or-proof-broken", " | ".join(broken)[:1500],
                      {"no_longer_checks": broken, "first_differences": diffs[:5],
                       "how": "VERIF_SEED=%d ./check %s --tier %s" % (seed(), pid, res.tier)}, found_input=False)
    res.assumptions += [
        "objects are modelled by their stored representation (C struct members in wire order); getters are functions of the struct only",
        "every object the 67 public constructors produce is well formed (WFVals) - checked on every object of this run (wf=1)",
        "field widths wider than the wire (lengthOfFile / lengthOfSection: 24 bits) are exercised within wire range only",
        "memory safety of the C parser is tied by running every parse in exactly-sized heap blocks under ASan/UBSan, not proved",
    ]
    return res.finish()
