"""C07 — see checks/srv_common.py and DESIGN.md section 6 (threadless server: model + differential); plus, on the
THREADED server (harness/locks_dyn.c mode `acct`, PRNG scheduler with preemption at lock operations), the model-free
oracle "no I-format APDU is written on a connection that is not started", judged from the server's own raw-message
and connection-event callbacks (public API)."""
import os, re
from vlib.core import *
from checks import srv_common


def threaded_state(res):
    bdir = os.path.join(BUILD, "C07")
    lib = build_lib()
    exe = build_harness("locks_dyn", ["locks_dyn.c", "simhal.c"], lib, bdir, exclude=set(REAL_HAL))
    # the recorded race needs a particular interleaving: look at a few schedules (seed, then fixed ones) until it shows
    seeds = [seed(), 2, 3, 5] if res.tier == "quick" else [seed() + i for i in range(4)] + list(range(2, 14))
    tot, race_shown = {}, False
    for n, sd in enumerate(seeds):
        if res.tier == "quick" and n >= 1 and race_shown:
            break
        trace = os.path.join(bdir, "state_trace_%d.txt" % sd)
        rc, out = sh([exe, "acct" if res.tier == "quick" else "acct-thorough", trace], env={"VERIF_SEED": str(sd)}, timeout=3000)
        if rc != 0:
            res.violation("crash-threaded-state", "sanitizer abort in the threaded scenarios (seed %d)" % sd, {"sanitizer": out[-1500:], "how": "VERIF_SEED=%d %s acct" % (sd, exe)})
            continue
        for l in out.splitlines():
            if l.startswith("STATE_FAIL ") or l.startswith("STATE_RACE "):
                os.makedirs(os.path.join(ROOT, "replays"), exist_ok=True)
                rp = os.path.join(ROOT, "replays", "C07-threaded-trace-seed%d.txt" % sd)
                try:
                    open(rp, "w").write(open(trace).read()[-200000:])
                except OSError:
                    rp = None
                key = "threaded-iframe-while-not-started" if l.startswith("STATE_FAIL") else "threaded-iframe-after-outside-deactivation"
                race_shown = race_shown or l.startswith("STATE_RACE")
                res.violation(key, "threaded server: " + l.split(" ", 1)[1][:600],
                              {"failing_history": rp, "how": "VERIF_SEED=%d %s acct   (scheduler and operations are derived from the seed)" % (sd, exe), "what": l})
            if l.startswith("ACCT "):
                for k, v in re.findall(r"(\w+)=(\d+)", l):
                    tot[k] = tot.get(k, 0) + int(v)
    res.cov["threaded_state_oracle"] = tot
    res.assumptions.append("threaded server: the rule 'I-format APDUs only on a started connection' is checked by the model-free oracle of harness/locks_dyn.c (mode acct) under a PRNG scheduler, not modelled in Lean")


def run(res):
    try:
        threaded_state(res)
    except BuildError as e:
        res.violation("tie-or-proof-broken", "threaded state harness does not build: " + str(e)[-400:], {"no_longer_checks": ["harness/locks_dyn.c"]}, found_input=False)
    return srv_common.run(res, "C07")
