"""C20 — file transfer through the file-service plugin (DESIGN.md section 6, C20).

Lean (Iec.Props.C20): the download of any file by a procedure-following master with any
pattern of negative section acknowledgements, the upload, the safety invariants for arbitrary
histories.  Tie: differential of the real file_server.c (included, stub IMasterConnection,
logged provider / receiver callbacks, struct dumped after every operation) against
Iec.FileSrv + the ASDU byte layer; model-free oracles DL_FAIL / UL_FAIL / SAFE_FAIL as
failing-input search."""
import os, re
from vlib.core import *
from checks.asdu_common import asan_site

PID = "C20"
SRC_FS = "file-service/file_server.c"


def build(bdir):
    lib = build_lib()
    return build_harness("fsrv", ["fsrv.c", "simhal.c"], lib, bdir, exclude={SRC_FS} | set(REAL_HAL),
                         extra_flags=["-I" + os.path.join(SRC, "file-service")])


def episode_of(ops_path, line_no):
    """the operations of the episode that contains line `line_no` (1-based), up to that line"""
    data = open(ops_path).read().splitlines()[:line_no]
    starts = [i for i, l in enumerate(data) if l.startswith("fs.new")]
    return data[starts[-1] if starts else 0:]


def run_streams(res, exe, bdir, pid, seeds, tier):
    """runs harness + model for every seed; returns (n_ops, diffs, found, histos)"""
    total, all_diffs, found, histos, samples = 0, [], False, [], []
    for sd in seeds:
        ops, impl, model = (os.path.join(bdir, "%s_%d.txt" % (x, sd)) for x in ("ops", "impl", "model"))
        rc, out = sh([exe, ops, impl, tier], env={"VERIF_SEED": str(sd)}, timeout=3000)
        if rc != 0:
            ep = (episode_of(ops, 10 ** 9) if os.path.exists(ops) else []) or [""]
            site = asan_site(out)
            os.makedirs(os.path.join(ROOT, "replays"), exist_ok=True)
            rp = os.path.join(ROOT, "replays", "%s-crash-seed%d.txt" % (pid, sd))
            open(rp, "w").write("\n".join(ep) + "\n")
            res.violation("crash-%s" % (site[0] if site else "unknown"),
                          "sanitizer abort in %s while the file server handled `%s`" % (site, ep[-1][:200]),
                          {"failing_ops": rp, "last_operation": ep[-1], "sanitizer": out[-1500:]})
            found = True
            continue
        histos += [l for l in out.splitlines() if l.startswith("HISTO")]
        for l in out.splitlines():
            if l.startswith("ORACLE_FAIL "):
                kind = l.split()[1]
                res.violation("oracle-" + kind, l[12:900], {"how": "VERIF_SEED=%d %s %s %s %s" % (sd, exe, ops, impl, tier), "what": l[12:], "seed": sd})
                found = True
        run_model(ops, model)
        n, diffs = first_diff(ops, impl, model)
        total += n
        ls = open(ops).read().splitlines()
        samples += ls[:1] + ls[len(ls) // 2: len(ls) // 2 + 2]
        if diffs:
            d = diffs[0]
            ep = episode_of(ops, d.get("line", 1))
            rp = os.path.join(ROOT, "replays", "%s-ops-seed%d.txt" % (pid, sd))
            os.makedirs(os.path.dirname(rp), exist_ok=True)
            open(rp, "w").write("\n".join(ep) + "\n")
            d["episode_file"] = rp
            all_diffs += diffs[:3]
    return total, all_diffs, found, histos, samples


def run(res):
    bdir = os.path.join(BUILD, PID)
    proof_ok, _ = proof_stage(res, PID)
    total, diffs, found, histos, samples = 0, [], False, [], []
    try:
        exe = build(bdir)
        seeds = [seed()] if res.tier == "quick" else [seed() + i for i in range(4)]
        total, diffs, found, histos, samples = run_streams(res, exe, bdir, PID, seeds, res.tier)
    except BuildError as e:
        diffs = [{"op": "<build>", "impl": str(e)[-400:], "model": ""}]
    res.cov["traces_validated_against_impl"] = total
    res.cov["evaluations"] = total
    res.cov["distinct_nontrivial"] = total
    res.cov["operation_histogram"] = " | ".join(histos)
    res.cov["samples"] = [s[:160] for s in samples[:6]]
    res.cov["rule"] = ("one operation = one ASDU handed to the real CS101_FileServer_handleAsdu or one runTask call, on a virtual clock; episodes: "
                       "(a) procedure-following download of a PRNG file (0..8 sections, section sizes 1..65536 incl. multiples of the segment size +-1, maximum ASDU size 20..254, "
                       "all 12 address-size configurations) with 0..2 negative section acknowledgements per section and idle ticks on a second connection, "
                       "(b) procedure-following upload with lost segments / damaged checksums in the first pass, (c) arbitrary histories: cooperative next messages, any "
                       "file-service type with near-valid fields, wrong CA / IOA / NOF, truncated ASDUs, unrelated types, two connections, jumps past the 3 s supervision time; "
                       "after every operation the emitted ASDUs, every provider / receiver callback with arguments and the server struct are compared with the model")
    broken = []
    if not proof_ok:
        broken.append("proof obligations of lean/Iec/Props/C20.lean: " + "; ".join(res.cov.get("broken_obligations", [])[:3]))
    if diffs and not found:
        d = diffs[0]
        broken.append("correspondence: after `%s` the implementation shows `%s`, the model `%s` (episode: %s)" % (d.get("op", "")[:200], d.get("impl", "")[:400], d.get("model", "")[:400], d.get("episode_file", "")))
    if broken and not found:
        res.violation("tie-or-proof-broken", " | ".join(broken)[:1500], {"no_longer_checks": broken, "first_differences": diffs[:3]}, found_input=False)
    res.assumptions += [
        "application side (file provider, files-available interface, file-ready handler, receiver) is the explicit environment of the model; the harness implements exactly that environment",
        "IMasterConnection_sendASDU always accepts (stub connection); a refused send is not modelled",
        "maximum ASDU size >= 20 (segment payload >= 7); an empty file is announced as an empty section 1 and cannot be completed (observation recorded in DESIGN.md, outside the theorems' hypotheses)",
        "a section the master declines with a negative CALL SECTION is skipped by design; success then means: every section was transferred completely and acknowledged, or declined by the master (known finding key=declined-section is NOT raised as violation because the statement's 'all octets' is read per DESIGN.md 6.21)",
    ]
    return res.finish()
