"""C18 — see checks/srv_common.py and DESIGN.md section 6; plus the accounting oracle on the THREADED server
(harness/locks_dyn.c, mode `acct`): stop / start / peer close / traffic under the PRNG scheduler, the reported number
of open connections is never negative, never above the number of live sockets, zero after CS104_Slave_stop"""
import os, re
from vlib.core import *
from checks import srv_common


def threaded_accounting(res):
    bdir = os.path.join(BUILD, "C18")
    lib = build_lib()
    exe = build_harness("locks_dyn", ["locks_dyn.c", "simhal.c"], lib, bdir, exclude=set(REAL_HAL))
    seeds = [seed()] if res.tier == "quick" else [seed() + i for i in range(6)]
    tot = {}
    for sd in seeds:
        trace = os.path.join(bdir, "acct_trace_%d.txt" % sd)
        rc, out = sh([exe, "acct" if res.tier == "quick" else "acct-thorough", trace], env={"VERIF_SEED": str(sd)}, timeout=3000)
        if rc != 0:
            res.violation("crash-threaded-accounting", "sanitizer abort in the threaded stop/start scenarios (seed %d)" % sd,
                          {"sanitizer": out[-1500:], "how": "VERIF_SEED=%d %s acct" % (sd, exe)})
            continue
        for l in out.splitlines():
            if l.startswith("ACCT_FAIL "):
                os.makedirs(os.path.join(ROOT, "replays"), exist_ok=True)
                rp = os.path.join(ROOT, "replays", "C18-threaded-trace-seed%d.txt" % sd)
                try:
                    open(rp, "w").write(open(trace).read()[-200000:])
                except OSError:
                    rp = None
                res.violation("threaded-open-connections", "threaded server: " + l[10:600],
                              {"failing_history": rp, "how": "VERIF_SEED=%d %s acct   (scheduler and operations are derived from the seed)" % (sd, exe), "what": l[10:]})
            if l.startswith("ACCT "):
                for k, v in re.findall(r"(\w+)=(\d+)", l):
                    tot[k] = tot.get(k, 0) + int(v)
    res.cov["threaded_accounting"] = tot
    res.assumptions.append("threaded server: stop / start / accounting are checked by the model-free oracle of harness/locks_dyn.c (mode acct) under a PRNG scheduler, not modelled in Lean")


def run(res):
    try:
        threaded_accounting(res)
    except BuildError as e:
        res.violation("tie-or-proof-broken", "threaded accounting harness does not build: " + str(e)[-400:], {"no_longer_checks": ["harness/locks_dyn.c"]}, found_input=False)
    return srv_common.run(res, "C18")
