"""C18 — see checks/srv_common.py and DESIGN.md section 6"""
from checks import srv_common


def run(res):
    return srv_common.run(res, "C18")
