"""C10 — no peer input can crash, corrupt or wedge a protocol stack (DESIGN.md section 6 C10, section 9).

PARTIAL by construction.  Lean (Iec.Props.C10): totality of the modelled step functions, element
decoding never outside the received ASDU, CS104 reassembly buffer bound, file service ignores
undecodable objects, truncated commands / rejected link frames reach no callback.  The models those
theorems are about are tied to the C code by the other checks' differentials; here the tie for the
memory-safety reading of the property and the failing-input search is harness/fuzz10.c: the five real
stacks (CS104 server + file plugin, CS104 client, CS101 slave / master in both link modes) behind the
simulated HAL under ASan + UBSan with hostile peers, callbacks that dereference everything, a
HAL-call watchdog and liveness probes; plus the file-service differential of C20 (chaos episodes)."""
import os, re
from concurrent.futures import ThreadPoolExecutor
from vlib.core import *
from checks.asdu_common import asan_site
from checks import c20

PID = "C10"
MODES = ["srv", "cli", "s101u", "s101b", "m101u", "m101b"]


def tail_episode(path, n=60):
    if not os.path.exists(path):
        return []
    data = open(path, errors="replace").read().splitlines()
    starts = [i for i, l in enumerate(data) if " episode " in l]
    ep = data[starts[-1]:] if starts else data
    return ep[:1] + ep[1:][-n:]


def run(res):
    bdir = os.path.join(BUILD, PID)
    try:
        regen_consts104()
    except BuildError as e:
        res.violation("tie-or-proof-broken", str(e)[:900], {"no_longer_checks": ["translate/consts104.c -> lean/Iec/Gen/Consts104.lean"]}, found_input=False)
    proof_ok, _ = proof_stage(res, PID)
    found, histos, total_ops, broken = False, [], 0, []
    try:
        lib = build_lib()
        exe = build_harness("fuzz10", ["fuzz10.c", "simhal.c"], lib, bdir, exclude=set(REAL_HAL),
                            extra_flags=["-I" + os.path.join(SRC, "file-service")])
        seeds = [seed()] if res.tier == "quick" else [seed() + i for i in range(3)]
        jobs = [(m, sd) for sd in seeds for m in MODES]

        def one(job):
            m, sd = job
            log_path = os.path.join(bdir, "ops_%s_%d.txt" % (m, sd))
            rc, out = sh([exe, m, log_path, res.tier], env={"VERIF_SEED": str(sd)}, timeout=3000)
            return m, sd, log_path, rc, out
        with ThreadPoolExecutor(12) as ex:
            results = list(ex.map(one, jobs))
        os.makedirs(os.path.join(ROOT, "replays"), exist_ok=True)
        for m, sd, log_path, rc, out in results:
            how = "VERIF_SEED=%d %s %s %s %s" % (sd, exe, m, log_path, res.tier)
            for l in out.splitlines():
                if l.startswith("HISTO"):
                    histos.append(l)
                    mm = re.search(r" ops=(\d+)", l)
                    total_ops += int(mm.group(1)) if mm else 0
                if l.startswith("FUZZ_FAIL "):
                    kind = l.split()[1]
                    rp = os.path.join(ROOT, "replays", "C10-%s-%s-seed%d.txt" % (m, kind, sd))
                    open(rp, "w").write("\n".join(tail_episode(log_path)) + "\n")
                    res.violation("fuzz-%s-%s" % (m, kind), "stack %s: %s (last operations: %s)" % (m, l[10:700], rp),
                                  {"how": how, "failing_ops": rp, "what": l[10:]})
                    found = True
            if rc != 0 and not any(l.startswith("FUZZ_FAIL") for l in out.splitlines()):
                site = asan_site(out)
                ep = tail_episode(log_path)
                rp = os.path.join(ROOT, "replays", "C10-%s-crash-seed%d.txt" % (m, sd))
                open(rp, "w").write("\n".join(ep) + "\n")
                what = "sanitizer abort in %s" % (site,) if site else ("exit status %d: %s" % (rc, out.strip().splitlines()[-1][:200] if out.strip() else ""))
                res.violation("crash-%s-%s" % (m, site[0] if site else "unknown"),
                              "stack %s: %s after `%s` (last operations: %s)" % (m, what, (ep or [""])[-1][:160], rp),
                              {"how": how, "failing_ops": rp, "sanitizer": out[-1800:]})
                found = True
        # the reply ring of the CS104 server: its entry sizes are chosen by the peer (mirrored commands); direct differential of
        # the static ring functions + model-free FIFO oracle (same harness mode as C13) - an overwritten size field is a
        # peer-controlled heap overflow at dequeue
        from checks import srv_common
        sdir = os.path.join(bdir, "srv")
        os.makedirs(sdir, exist_ok=True)
        excl = {"iec60870/cs104/cs104_slave.c", "hal/memory/lib_memory.c"} | set(REAL_HAL)
        build_harness("srv104", ["srv104.c", "simhal.c", "memcount.c"], lib, sdir, exclude=excl,
                      extra_flags=["-I" + os.path.join(SRC, "iec60870/cs104")])
        n_before = len(res.violations)
        hn, hdiffs, hfound, hhisto = srv_common.run_hp_ring(res, sdir)
        total_ops += hn
        histos.append(hhisto)
        found = found or hfound or len(res.violations) > n_before
        if hdiffs and not hfound:
            d = hdiffs[0]
            broken.append("reply-ring correspondence: after `%s` implementation `%s` model `%s`" % (d.get("op", "")[:160], d.get("impl", "")[:300], d.get("model", "")[:300]))
        # the file-service plugin, differentially (chaos episodes with truncated / unrelated / out-of-sequence requests)
        fexe = c20.build(os.path.join(bdir, "fs"))
        n, diffs, f2, h2, _ = c20.run_streams(res, fexe, os.path.join(bdir, "fs"), PID, [seed() + 100], res.tier)
        total_ops += n
        histos += h2
        found = found or f2
        if diffs and not f2:
            d = diffs[0]
            broken.append("file-service correspondence: after `%s` implementation `%s` model `%s`" % (d.get("op", "")[:160], d.get("impl", "")[:300], d.get("model", "")[:300]))
    except BuildError as e:
        broken.append("build: " + str(e)[-500:])
    res.cov["traces_validated_against_impl"] = total_ops
    res.cov["evaluations"] = total_ops
    res.cov["distinct_nontrivial"] = total_ops
    res.cov["operation_histogram"] = " | ".join(histos)
    res.cov["samples"] = ["fuzz10 srv|cli|s101u|s101b|m101u|m101b <ops-log> <tier> with VERIF_SEED"]
    res.cov["rule"] = ("one operation = one chunk of octets delivered to a real stack, one tick / run call, one API call, a close, a write-failure toggle or an enqueue; "
                       "hostile grammar: every type id incl. unknown, SQ on/off, counts 1..127 not matching the length, objects truncated anywhere / shorter than the header / over-long, "
                       "bit flips, wrong length octets, random noise with and without a start octet, arbitrary segmentation, floods of 20..90 I-frames without acknowledgement, "
                       "N(R) / N(S) valid and arbitrary, all U-frames incl. undefined ones, FT 1.2 frames with every function code, broadcast and foreign addresses, damaged checksums and lengths; "
                       "oracles: ASan/UBSan abort, NULL or invalid callback arguments (all arguments are dereferenced), more than 4e5 HAL calls in one step, 60 s without a HAL call, "
                       "simulated-thread deadlock, a fresh well-behaved connection / request no longer served")
    if not proof_ok:
        broken.append("proof obligations of lean/Iec/Props/C10.lean: " + "; ".join(res.cov.get("broken_obligations", [])[:3]))
    if broken and not found:
        res.violation("tie-or-proof-broken", " | ".join(broken)[:1500], {"no_longer_checks": broken}, found_input=False)
    res.assumptions += [
        "PARTIAL: the theorems cover the modelled functions (ASDU element decoding, CS104 reassembly, command dispatch, FT 1.2 parsing, file service); memory safety of the C code itself, the ring-buffer pointer arithmetic, linked_list.c / lib_memory.c, the HAL and TLS are NOT proved - they are exercised under the sanitizers by the fuzz harness, which is a search",
        "termination of the queue traversals is observed by the HAL-call watchdog, not proved (no ring geometry invariant, see C06)",
        "threaded server mode is not fuzzed here (threadless server, client thread as cooperative fiber); thread interleavings are C17's search",
    ]
    return res.finish()
