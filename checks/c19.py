"""C19 — time tags, counters, scaled/normalised values (DESIGN.md section 6, C19)."""
import os, re
from vlib.core import *

PID = "C19"


def search(res, lib, bdir, why):
    """failing-input search on the real code alone (harness/c19_oracle.c)"""
    try:
        exe = build_harness("c19_oracle", ["c19_oracle.c"], build_lib(san=False), bdir, san=False)
    except BuildError as e:
        res.violation("oracle-build", "C19 oracle does not build against the current tree: %s" % str(e)[-300:],
                      {"broken": why}, found_input=False)
        return 0
    rc, out = sh([exe, res.tier], timeout=3000, env={"VERIF_SEED": str(seed())})
    n = 0
    m = re.search(r"(?:OK|CHECKED) (\d+)", out)
    if m:
        n = int(m.group(1))
    for line in out.splitlines():
        if line.startswith("FAIL "):
            key = line.split()[1]
            res.violation(key, line[5:], {"oracle": "harness/c19_oracle.c", "tier": res.tier, "seed": seed(),
                                          "failing_input": line[5:], "how": "./check C19 --tier %s" % res.tier})
    return n


def run(res):
    bdir = os.path.join(BUILD, PID)
    proof_ok, plog = proof_stage(res, PID)
    tie_ok = True
    diffs = []
    n_ops = 0
    histo = ""
    try:
        lib = build_lib()
        exe = build_harness("c19", ["c19.c"], lib, bdir)
        ops, impl, model = (os.path.join(bdir, x) for x in ("ops.txt", "impl.txt", "model.txt"))
        rc, out = sh([exe, ops, impl, res.tier], env={"VERIF_SEED": str(seed())}, timeout=3000)
        if rc != 0:
            tie_ok = False
            res.notes.append("harness aborted (sanitizer or crash): " + out[-600:])
            diffs = [{"op": "<harness abort>", "impl": out[-600:], "model": ""}]
        else:
            histo = out.strip()
            run_model(ops, model)
            n_ops, diffs = first_diff(ops, impl, model)
            tie_ok = not diffs
    except BuildError as e:
        tie_ok = False
        lib = None
        res.notes.append(str(e)[-800:])
        diffs = [{"op": "<build>", "impl": str(e)[-400:], "model": ""}]
    # correspondence counts
    res.cov["traces_validated_against_impl"] = n_ops
    res.cov["evaluations"] = n_ops
    if n_ops:
        ops_lines = open(os.path.join(bdir, "ops.txt")).read().splitlines()
        distinct = len(set(ops_lines))
        res.cov["distinct_nontrivial"] = distinct
        res.cov["rule"] = ("one operation = one setter/conversion call on an octet pattern; generated from one PRNG "
                           "(VERIF_SEED): boundary-biased patterns, in-range and out-of-range values, every day 1970-2105 "
                           "against glibc gmtime_r, every raw 16-bit value (step 1 in thorough); distinct = distinct "
                           "operation lines; all are non-trivial (each executes library code and is compared with the model)")
        res.cov["samples"] = ops_lines[:3] + ops_lines[len(ops_lines) // 2: len(ops_lines) // 2 + 3] + ops_lines[-3:]
        res.cov["operation_histogram"] = histo
    broken = []
    if not proof_ok:
        broken.append("proof obligations of lean/Iec/Props/C19.lean: " + "; ".join(res.cov.get("broken_obligations", [])[:3]))
    if not tie_ok:
        broken.append("correspondence model/implementation: " + "; ".join(
            "op `%s` impl `%s` model `%s`" % (d.get("op"), d.get("impl"), d.get("model")) for d in diffs[:2] if "op" in d))
    n_oracle = 0
    if lib is not None and (broken or True):
        nv = len(res.violations)
        n_oracle = search(res, lib, bdir, broken)
        res.cov["oracle_checks_on_real_code"] = n_oracle
        found = len(res.violations) > nv
    else:
        found = False
    if broken and not found:
        res.violation("tie-or-proof-broken", " | ".join(broken),
                      {"no_longer_checks": broken, "first_differences": diffs[:5],
                       "how": "./check C19 --tier %s (VERIF_SEED=%d)" % (res.tier, seed())}, found_input=False)
    res.assumptions += [
        "binary32 arithmetic of normalizedToScaled is modelled on exact dyadics with explicit round-to-nearest-even; tied by differential on float bit patterns",
        "gmtime_r is modelled by civilFromDays and compared with glibc on every day 1970..2105 in this run",
        "C int arguments are modelled as unbounded naturals/integers; negative arguments to time-tag setters are not modelled",
    ]
    return res.finish()
