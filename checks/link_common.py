"""shared driver of the CS101 link-layer checks (C14, C15): the real link_layer.c and
serial_transceiver_ft_1_2.c over the simulated serial port vs the Lean model Iec.Link101"""
import os, re
from vlib.core import *
from checks.asdu_common import asan_site

ORACLE = {"FRAME_FAIL": ("C14", "frame-format"), "FCB_FAIL": ("C15", "fcb-primary"), "DUP_FAIL": ("C15", "duplicate-delivery"),
          "REPEAT_FAIL": ("C15", "repeated-request"), "ACCEPT_FAIL": ("C14", "accepted-foreign-or-damaged")}


def link_tie(bdir, tier):
    """the differential that ties Iec.Link101 to link_layer.c, for checks that only need the tie (C16):
    returns (operations compared, first differences, histogram line)"""
    ops, impl, model = (os.path.join(bdir, x) for x in ("ll_ops.txt", "ll_impl.txt", "ll_model.txt"))
    lib = build_lib()
    excl = {"iec60870/link_layer/link_layer.c"} | set(REAL_HAL)
    exe = build_harness("ll101", ["ll101.c", "simhal.c"], lib, bdir, exclude=excl,
                        extra_flags=["-I" + os.path.join(SRC, "iec60870/link_layer")])
    rc, out = sh([exe, ops, impl, tier], env={"VERIF_SEED": str(seed())}, timeout=3000)
    if rc != 0:
        last = open(ops).read().splitlines()[-1:] if os.path.exists(ops) else [""]
        return 0, [{"op": (last[0] if last else ""), "impl": "sanitizer abort at %s" % (asan_site(out),), "model": ""}], ""
    histo = ([l for l in out.splitlines() if l.startswith("HISTO")] or [""])[-1]
    run_model(ops, model)
    n, diffs = first_diff(ops, impl, model)
    # model-free oracle hits of the link-layer harness: concrete failing histories (ops prefix up to the reported offset)
    hits = []
    for line in out.splitlines():
        for flag in ORACLE:
            if line.startswith(flag + " "):
                m = re.search(r"ops-file offset (\d+)", line)
                data = open(ops, "rb").read()
                if m:
                    data = data[:int(m.group(1))]
                idx = max(data.rfind(b"u.new "), data.rfind(b"b.new "), data.rfind(b"p.new "))
                os.makedirs(os.path.join(ROOT, "replays"), exist_ok=True)
                dst = os.path.join(ROOT, "replays", "link-%s-seed%d.txt" % (flag, seed()))
                open(dst, "wb").write(data[idx:] if idx >= 0 else data)
                hits.append((flag, line[len(flag) + 1:][:700], dst))
    link_tie.hits = hits
    return n, diffs, histo


def run(res, pid):
    bdir = os.path.join(BUILD, pid)
    proof_ok, plog = proof_stage(res, pid)
    ops, impl, model = (os.path.join(bdir, x) for x in ("ops.txt", "impl.txt", "model.txt"))
    diffs, n_ops, histo, out, crash = [], 0, "", "", None
    try:
        lib = build_lib()
        excl = {"iec60870/link_layer/link_layer.c"} | set(REAL_HAL)
        exe = build_harness("ll101", ["ll101.c", "simhal.c"], lib, bdir, exclude=excl,
                            extra_flags=["-I" + os.path.join(SRC, "iec60870/link_layer")])
        rc, out = sh([exe, ops, impl, res.tier], env={"VERIF_SEED": str(seed())}, timeout=3000)
        if rc != 0:
            last = open(ops).read().splitlines()[-1:] if os.path.exists(ops) else [""]
            site = asan_site(out)
            crash = {"last_operation": (last[0] if last else ""), "sanitizer_site": site, "report": out[-1500:]}
            diffs = [{"op": (last[0] if last else ""), "impl": "sanitizer abort at %s" % (site,), "model": ""}]
        else:
            histo = ([l for l in out.splitlines() if l.startswith("HISTO")] or [""])[-1]
            run_model(ops, model)
            n_ops, diffs = first_diff(ops, impl, model)
    except BuildError as e:
        diffs = [{"op": "<build>", "impl": str(e)[-400:], "model": ""}]

    def save_prefix(offset=None, line=None):
        os.makedirs(os.path.join(ROOT, "replays"), exist_ok=True)
        dst = os.path.join(ROOT, "replays", "%s-ops-seed%d.txt" % (pid, seed()))
        data = open(ops, "rb").read()
        if offset is not None:
            data = data[:offset]
        elif line is not None:
            data = b"\n".join(data.split(b"\n")[:line]) + b"\n"
        idx = max(data.rfind(b"u.new "), data.rfind(b"b.new "), data.rfind(b"p.new "))
        open(dst, "wb").write(data[idx:] if idx >= 0 else data)
        return dst
    found = False
    if crash is not None:
        site = crash["sanitizer_site"]
        res.violation("crash-%s" % (site[0] if site else "unknown"), "sanitizer abort in %s while executing `%s`" % (site, crash["last_operation"][:200]),
                      {"failing_ops": save_prefix(), "sanitizer": crash["report"]})
        found = True
    for flag, (prop, key) in ORACLE.items():
        for line in out.splitlines():
            if line.startswith(flag + " ") and prop == pid:
                m = re.search(r"ops-file offset (\d+)", line)
                res.violation(key, line[len(flag) + 1:][:700], {"failing_ops": save_prefix(offset=int(m.group(1)) if m else None),
                              "oracle": "harness/ll101.c (model-free)", "first_model_differences": diffs[:2],
                              "how": "VERIF_SEED=%d ./check %s --tier %s" % (seed(), pid, res.tier)})
                found = True
    res.cov["traces_validated_against_impl"] = n_ops
    res.cov["evaluations"] = n_ops
    if n_ops:
        ls = open(ops).read().splitlines()
        res.cov["distinct_nontrivial"] = len(set(ls))
        k = len(ls)
        res.cov["samples"] = [l[:160] for l in ls[:2] + ls[k // 2:k // 2 + 3] + ls[-2:]]
    res.cov["operation_histogram"] = histo
    res.cov["rule"] = ("episodes per role (secondary unbalanced / balanced / primary unbalanced with 1..3 slaves) with PRNG parameters (address width 0/1/2, "
                       "single-char ACK, timeouts); frames built independently of the library: requests with alternating / repeated / wrong FCB, resets, polls, "
                       "user data of 0..253 octets, plausible answers to the frame the library wrote last (ACK, E5, NACK, status, user data, with ACD/DFC), arbitrary "
                       "control octets, garbage; every 7th..8th frame corrupted (one octet, truncation, length pair, checksum); frames split over two reads; virtual clock "
                       "steps below / above the acknowledge and repeat timeouts; after every operation the written frames, application callbacks, state callbacks and a "
                       "dump of the real link-layer structures are compared with the model")
    broken = []
    if not proof_ok:
        broken.append("proof obligations of lean/Iec/Props/%s.lean: %s" % (pid, "; ".join(res.cov.get("broken_obligations", [])[:3])))
    if diffs:
        broken.append("correspondence model/implementation: " + "; ".join(
            "op `%s` impl `%s` model `%s`" % (d.get("op", "")[:160], d.get("impl", "")[:300], d.get("model", "")[:300]) for d in diffs[:2] if "op" in d))
    if broken and not found:
        rp = {"no_longer_checks": broken, "first_differences": diffs[:5], "how": "VERIF_SEED=%d ./check %s --tier %s" % (seed(), pid, res.tier)}
        if diffs and "line" in diffs[0]:
            rp["ops_prefix"] = save_prefix(line=diffs[0]["line"])
        res.violation("tie-or-proof-broken", " | ".join(broken)[:1500], rp, found_input=False)
    res.assumptions += [
        "application layers are the harness stubs (queues of octet strings), identical to the stand-in of the model; the real cs101_slave.c / cs101_master.c are covered end to end by C16",
        "the simulated serial port has no timing: octets not present when a frame is read count as a gap longer than the character timeout",
        "the model is hand-written (Iec.Link101) and tied to link_layer.c only through this differential",
    ]
    return res.finish()
