#!/usr/bin/env python3
"""tools_seed_table.py : regenerate the table of section 11.6 of DESIGN.md from seeded/*/meta.json"""
import json, os, re
rows = []
for sid in sorted(os.listdir("/verif/seeded")):
    mp = os.path.join("/verif/seeded", sid, "meta.json")
    if not os.path.exists(mp):
        continue
    m = json.load(open(mp))
    how = ("oracle / differential with failing input" if m.get("detected_with_failing_input") else
           "model-vs-code correspondence breaks (no-failing-input-found)") if m.get("detected") else "MISSED"
    rows.append("| `%s` | %s | %s | %s |" % (sid, m["property"], m["needs_to_manifest"][:170].replace("|", "/"), how))
table = "| seeded change | property | needs | caught by |\n|---|---|---|---|\n" + "\n".join(rows) + "\n"
p = "/verif/DESIGN.md"
s = open(p).read()
a = s.index("| seeded change | property | needs | caught by |")
b = s.index("### 11.7")
s = s[:a] + table + "\n" + s[b:]
s = re.sub(r"### 11\.6 Seeded changes: which check catches which \(\d+ kept, all detected\)",
           "### 11.6 Seeded changes: which check catches which (%d kept, all detected)" % len(rows), s)
open(p, "w").write(s)
print(len(rows), "rows;", sum("MISSED" in r for r in rows), "missed")
